"""Macro programs over the feature grammar of C08.

A program is a list of lines:
  ('define', name, params|None, variadic(bool), body_tokens)
  ('undef', name) | ('push', name) | ('pop', name)
  ('use', tokens)                       -- ordinary text; the marker  ;  ends every use line
Tokens are strings.  Macro names M0..M5, plain identifiers a b c, parameters p0 p1 p2."""
import re

MACROS = ['M%d' % i for i in range(6)]
PLAIN = ['a', 'b', 'c']
PUNCT = ['+', '-', '*', '<', '==', '[', ']']
LITS = ['0', '1', '7', '42']
STRS = ['"s"', '"M0"', '"a,b"', '"p0"', '"("', "'c'", "','", '"q\\"r"', "'\\\\'", "'\\''", "'\\n'", '"a\\\\b"', '"\\n"', '"it\'s"']


LEVELS = {
    'object': {'self-ref'},
    'plain-fn': {'fn', 'nested-args'},
    'full': {'fn', 'self-ref', 'stringify', 'paste', 'variadic', 'va_opt', 'literals', 'empty-arg', 'paren-comma', 'badargc', 'undef', 'pushpop', 'stringify-any', 'paste-any', 'nested-args'},
}


def gen_program(rng, level='full', nmacros=None):
    """level: a name in LEVELS or a set of features:
       fn (function-like macros), self-ref (bodies may mention any macro incl. themselves and later ones; otherwise only earlier ones), stringify, paste, variadic, va_opt,
       literals, empty-arg, paren-comma, badargc (wrong argument count), undef, pushpop; stringify-any / paste-any lift the restrictions that keep # and ## inside
       the shapes on which the implementation conforms."""
    F = LEVELS[level] if isinstance(level, str) else set(level)
    n = nmacros or rng.randrange(1, 6)
    lines = []
    defined = {}

    def body_tokens(name, params, variadic, depth_names):
        toks = []
        for _ in range(rng.randrange(0, 6)):
            r = rng.random()
            if params and r < 0.35:
                p = rng.choice(params + (['__VA_ARGS__'] if variadic else []))
                if 'stringify' in F and rng.random() < 0.25 and (p != '__VA_ARGS__' or 'stringify-any' in F):
                    toks.append('#')
                    strfy.add(p)
                toks.append(p)
            elif r < 0.55 and depth_names:
                m = rng.choice(depth_names)
                toks.append(m)
                d = defined.get(m)
                if d is not None and d[0] is not None and rng.random() < 0.8:
                    toks += call_args(len(d[0]), d[1], params or [], depth_names, 1, d[2])
            elif r < 0.65:
                toks.append(rng.choice(PLAIN))
            elif r < 0.75:
                toks.append(rng.choice(LITS))
            elif r < 0.85 and 'literals' in F:
                toks.append(rng.choice(STRS))
            elif r < 0.9 and 'paste' in F and toks and toks[-1] not in ('#', '##', ')') and params and (len(toks) < 2 or toks[-2] != '#'):
                if 'paste-any' in F:
                    toks.append('##')
                    toks.append(rng.choice(params + PLAIN + LITS))
                elif toks[-1] in PLAIN:
                    # identifier ## identifier-ish: always a valid identifier
                    toks.append('##')
                    toks.append(rng.choice(PLAIN + LITS))
            elif r < 0.93 and 'va_opt' in F and variadic:
                toks += ['__VA_OPT__', '('] + [rng.choice(PLAIN + LITS + ['__VA_ARGS__', ','] + params) for _ in range(rng.randrange(0, 3))] + [')']
            else:
                toks.append(rng.choice(PUNCT))
        return toks

    def call_args(nparams, variadic, inner_params, names, depth, simple=()):
        nargs = nparams
        if variadic:
            nargs = nparams + rng.choice([0, 0, 1, 2])
        elif 'badargc' in F and rng.random() < 0.03:
            nargs = max(0, nparams + rng.choice([-1, 1]))
        out = ['(']
        for i in range(nargs):
            if i:
                out.append(',')
            if i in simple and 'stringify-any' not in F:
                # operand of #: one to three plain tokens (macro names included: they must NOT be expanded), never empty, no commas or parentheses
                out += [rng.choice(PLAIN + LITS + [m for m in names if defined.get(m) and defined[m][3]] + (STRS if 'literals' in F else [])) for _ in range(rng.randrange(1, 4))]
            else:
                out += arg_tokens(inner_params, names, depth)
        out.append(')')
        return out

    def arg_tokens(inner_params, names, depth):
        r = rng.random()
        if r < 0.08 and 'empty-arg' in F:
            return []                                   # empty argument
        toks = []
        for _ in range(rng.randrange(1, 4)):
            r = rng.random()
            if r < 0.25 and inner_params:
                toks.append(rng.choice(inner_params))
            elif r < 0.5 and names and depth < 3:
                m = rng.choice(names)
                d = defined.get(m)
                if 'nested-args' not in F and (d is None or d[0] is not None or not d[3]):
                    toks.append(rng.choice(PLAIN))          # only object-like macros with a non-empty body free of macro names inside an argument
                    continue
                toks.append(m)
                if d is not None and d[0] is not None and rng.random() < 0.85:
                    toks += call_args(len(d[0]), d[1], inner_params, names, depth + 1, d[2])
            elif r < 0.6 and 'paren-comma' in F:
                toks += ['('] + [rng.choice(PLAIN + LITS), ',', rng.choice(PLAIN + LITS)] + [')']      # parenthesised comma
            elif r < 0.7 and 'literals' in F:
                toks.append(rng.choice(STRS))
            elif r < 0.85:
                toks.append(rng.choice(PLAIN))
            else:
                toks.append(rng.choice(LITS))
        return toks

    names = []
    for i in range(n):
        name = MACROS[i]
        if 'fn' not in F or rng.random() < 0.45:
            params, variadic = None, False
        else:
            params = ['p%d' % k for k in range(rng.randrange(0, 3))]
            variadic = 'variadic' in F and rng.random() < 0.25
        # which macro names a body may mention: with self-ref any (self and forward references included), otherwise only earlier ones
        usable = MACROS[:n] if 'self-ref' in F else names[:]
        strfy = set()
        body = body_tokens(name, params, variadic, usable)
        lines.append(('define', name, params, variadic, body))
        leaf = params is None and len(body) > 0 and not any(t in MACROS for t in body)
        defined[name] = (params, variadic, {params.index(q) for q in strfy if params and q in params}, leaf)
        names.append(name)
        if rng.random() < 0.5:
            lines.append(('use', use_tokens(rng, names, defined, call_args, level)))
        kinds = (['undef', 'redef'] if 'undef' in F else []) + (['push', 'pop'] if 'pushpop' in F else [])
        if kinds and rng.random() < 0.2:
            k = rng.choice(kinds)
            m = rng.choice(names)
            if k == 'redef':
                lines.append(('undef', m))
                lines.append(('define', m, None, False, [rng.choice(PLAIN + LITS)]))
                defined[m] = (None, False, set(), True)
            else:
                lines.append((k, m))
                if k == 'undef':
                    defined[m] = None
    if 'pushpop' in F and n < len(MACROS) and rng.random() < 0.4:
        # push_macro of a name that is not defined at that point; nested push/pop with redefinition in between
        m = MACROS[n]
        a, b2, c = rng.sample(PLAIN + LITS, 3)
        if rng.random() < 0.5:
            lines += [('push', m), ('define', m, None, False, [a]), ('use', [m, '+']), ('pop', m), ('use', [m, '-'])]
        else:
            lines += [('define', m, None, False, [a]), ('push', m), ('undef', m), ('define', m, None, False, [b2]), ('push', m), ('undef', m),
                      ('define', m, None, False, [c]), ('use', [m]), ('pop', m), ('use', [m]), ('pop', m), ('use', [m]), ('pop', m), ('use', [m])]
    for _ in range(rng.randrange(1, 4)):
        lines.append(('use', use_tokens(rng, names, defined, call_args, level)))
    return lines


def use_tokens(rng, names, defined, call_args, level):
    toks = []
    for _ in range(rng.randrange(1, 5)):
        r = rng.random()
        if r < 0.7 and names:
            m = rng.choice(names)
            toks.append(m)
            d = defined.get(m)
            if d is not None and d[0] is not None and rng.random() < 0.9:
                toks += call_args(len(d[0]), d[1], [], names, 1, d[2])
        elif r < 0.85:
            toks.append(rng.choice(PLAIN + LITS))
        else:
            toks.append(rng.choice(PUNCT))
    return toks


def render(lines, multiline_rng=None):
    out = []
    for ln in lines:
        k = ln[0]
        if k == 'define':
            _, name, params, variadic, body = ln
            head = name
            if params is not None:
                ps = list(params) + (['...'] if variadic else [])
                head += '(' + ', '.join(ps) + ')'
            out.append('#define %s %s' % (head, ' '.join(body)))
        elif k == 'undef':
            out.append('#undef %s' % ln[1])
        elif k == 'push':
            out.append('#pragma push_macro("%s")' % ln[1])
        elif k == 'pop':
            out.append('#pragma pop_macro("%s")' % ln[1])
        else:
            toks = ln[1]
            if multiline_rng is not None and len(toks) > 3 and multiline_rng.random() < 0.3:
                # split an invocation over lines
                i = multiline_rng.randrange(1, len(toks))
                out.append('int u = ' + ' '.join(toks[:i]))
                out.append('  ' + ' '.join(toks[i:]) + ' ;')
            else:
                out.append('int u = ' + ' '.join(toks) + ' ;')
    return '\n'.join(out) + '\n'


TOK = re.compile(r'[A-Za-z_][A-Za-z_0-9]*|\d[\w.]*|"(?:[^"\\\n]|\\.)*"|\'(?:[^\'\\\n]|\\.)*\'|==|<<|>>|->|##|\S')


def tokenize(text):
    return TOK.findall(text)


def features(lines):
    """syntactic risk features of a program (used to key root causes after shrinking)"""
    f = set()
    defs = {}
    for ln in lines:
        if ln[0] == 'define':
            defs[ln[1]] = ln
    for ln in lines:
        if ln[0] == 'define':
            _, name, params, variadic, body = ln
            if params is not None:
                f.add('function-like')
                if '#' in body:
                    f.add('stringify')
                if '##' in body:
                    f.add('paste')
                if variadic:
                    f.add('variadic')
                if '__VA_OPT__' in body:
                    f.add('va_opt')
                if name in body:
                    f.add('fn-self-reference')
                if any(t.startswith('"') and any(p in t for p in params) for t in body):
                    f.add('param-name-in-string')
            else:
                if '##' in body or '#' in body:
                    f.add('hash-in-object-like')
                if name in body:
                    f.add('obj-self-reference')
            if any(t in defs and t != name for t in body):
                f.add('nested-macro')
            if any(t.startswith('"') or t.startswith("'") for t in body):
                f.add('literal-in-body')
        elif ln[0] in ('undef', 'push', 'pop'):
            f.add(ln[0])
        else:
            toks = ln[1]
            if any(t.startswith('"') or t.startswith("'") for t in toks):
                f.add('literal-in-args')
            for i, t in enumerate(toks):
                if t in ('(', ',') and i + 1 < len(toks) and toks[i + 1] in (',', ')'):
                    f.add('empty-arg')
    return f


def shrink_candidates(lines):
    # drop a line
    for i in range(len(lines)):
        yield lines[:i] + lines[i + 1:]
    # drop a token of a body or a use
    for i, ln in enumerate(lines):
        if ln[0] == 'define':
            body = ln[4]
            for j in range(len(body)):
                yield lines[:i] + [ln[:4] + (body[:j] + body[j + 1:],)] + lines[i + 1:]
        elif ln[0] == 'use':
            toks = ln[1]
            for j in range(len(toks)):
                yield lines[:i] + [('use', toks[:j] + toks[j + 1:])] + lines[i + 1:]
