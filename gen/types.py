"""Declarator trees for C06: well-formed C++ types over pointers, references, const, arrays, functions, method pointers.

type = ('base', b) | ('const', t) | ('ptr', t) | ('memptr', cls, t) | ('ref', t) | ('rref', t) | ('arr', t, n) | ('fn', ret, ps)
"""
BASES = {0: 'int', 1: 'char', 2: 'double', 3: 'S', 4: 'unsigned int', 5: 'void'}
PARAMS = {0: '()', 1: '(int)', 2: '(double, char)', 3: '(S *)'}
BOUNDS = {0: '', 1: '1', 2: '2', 3: '3', 4: '8'}
PREAMBLE = 'struct S { int x; int m(double, char); };\n'


def kind(t):
    return t[0]


def is_ref(t):
    return t[0] in ('ref', 'rref')


def gen(rng, depth, top=True, allow_void=False):
    """a random well-formed type; `top` = may be a reference / unbounded array; allow_void: void allowed (pointee / return)"""
    if depth <= 0 or rng.random() < 0.2:
        b = rng.choice([0, 0, 1, 2, 3, 4] + ([5] if allow_void else []))
        return ('base', b)
    r = rng.random()
    if r < 0.25:
        return ('ptr', gen(rng, depth - 1, False, True))
    if r < 0.40:
        t = gen(rng, depth - 1, False, False)
        # const applies to objects and pointers, not to arrays/functions/references here
        if t[0] in ('arr', 'fn', 'const') or is_ref(t):
            return ('ptr', t) if not is_ref(t) else t
        return ('const', t)
    if r < 0.55:
        t = gen(rng, depth - 1, False, False)
        if t[0] == 'fn' or is_ref(t) or t == ('base', 5):
            return ('ptr', t) if not is_ref(t) else t
        n = rng.choice([1, 2, 3, 4] + ([0] if top else []))
        if t[0] == 'arr' and t[2] == 0:
            t = ('arr', t[1], 2)
        return ('arr', t, n)
    if r < 0.70:
        ret = gen(rng, depth - 1, False, True)
        if ret[0] in ('arr', 'fn'):
            ret = ('ptr', ret)
        if ret[0] == 'const' and ret[1][0] == 'base' and ret[1][1] != 3:
            ret = ret[1]          # top-level const on a scalar return type is dropped by the language (is_same still holds; avoid warnings)
        return ('fn', ret, rng.choice([0, 1, 2, 3]))
    if r < 0.80 and top:
        t = gen(rng, depth - 1, False, False)
        if is_ref(t) or t == ('base', 5):
            return t
        return (rng.choice(['ref', 'ref', 'rref']), t)
    if r < 0.90:
        ret = gen(rng, depth - 2, False, True)
        if ret[0] in ('arr', 'fn'):
            ret = ('ptr', ret)
        return ('memptr', 0, ('fn', ret, rng.choice([0, 1, 2])))
    return ('ptr', gen(rng, depth - 1, False, True))


def sexp(t):
    k = t[0]
    if k == 'base':
        return '(base %d)' % t[1]
    if k in ('const', 'ptr', 'ref', 'rref'):
        return '(%s %s)' % (k, sexp(t[1]))
    if k == 'memptr':
        return '(memptr %d %s)' % (t[1], sexp(t[2]))
    if k == 'arr':
        return '(arr %s %d)' % (sexp(t[1]), t[2])
    return '(fn %s %d)' % (sexp(t[1]), t[2])


def source(t, name):
    """independent reference printer (inside-out rule of the C++ declarator grammar), WEST const, different spacing"""
    def go(t, inner, needs_paren_for_suffix):
        k = t[0]
        if k == 'base':
            return BASES[t[1]] + ((' ' + inner) if inner else '')
        if k == 'const':
            if t[1][0] == 'base':
                return 'const ' + BASES[t[1][1]] + ((' ' + inner) if inner else '')
            # const pointer / const member pointer
            return go(t[1], ' const ' + inner, True) if False else _const_ptr(t[1], inner)
        if k == 'ptr':
            return go(t[1], '* ' + inner, True)
        if k == 'memptr':
            return go(t[2], 'S::* ' + inner, True)
        if k == 'ref':
            return go(t[1], '& ' + inner, True)
        if k == 'rref':
            return go(t[1], '&& ' + inner, True)
        if k == 'arr':
            i2 = '(' + inner.strip() + ')' if needs_paren(inner) else inner
            return go(t[1], i2 + '[' + BOUNDS[t[2]] + ']', False)
        i2 = '(' + inner.strip() + ')' if needs_paren(inner) else inner
        return go(t[1], i2 + PARAMS[t[2]], False)

    def needs_paren(inner):
        s = inner.strip()
        return s.startswith('*') or s.startswith('&') or s.startswith('S::*')

    def _const_ptr(p, inner):
        # p is ptr / memptr: the const goes after the star
        if p[0] == 'ptr':
            return go(p[1], '* const ' + inner, True)
        if p[0] == 'memptr':
            return go(p[2], 'S::* const ' + inner, True)
        raise ValueError('const over ' + p[0])
    return go(t, name, True)


def size(t):
    return 1 + sum(size(x) for x in t[1:] if isinstance(x, tuple))


def shape(t):
    k = t[0]
    if k == 'base':
        return 'b'
    if k == 'memptr':
        return 'M(' + shape(t[2]) + ')'
    return {'const': 'c', 'ptr': 'p', 'ref': 'r', 'rref': 'R', 'arr': 'a', 'fn': 'f'}[k] + '(' + shape(t[1]) + ')'
