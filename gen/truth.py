"""Headers for C05 together with the ground truth of every entity (what the header says, nothing about indices or order)."""

SCALARS = ['int', 'double', 'bool', 'float', 'unsigned int', 'long']
DBNAME = {'long': 'long int'}      # the spelling the database uses


class World:
    def __init__(self, rng):
        self.rng = rng
        self.classes = []        # dicts
        self.funcs = []
        self.enums = []
        self.typedefs = []
        self.nid = 0
        self.build()

    def fresh(self, p):
        self.nid += 1
        return '%s%d' % (p, self.nid)

    # a type: (source text, true_name recorded for a parameter/return in the C wrapper layer, owns)
    def ptype(self, known):
        rng = self.rng
        r = rng.random()
        if r < 0.55 or not known:
            t = rng.choice(SCALARS)
            return {'src': t, 'db': DBNAME.get(t, t), 'cls': None}
        c = rng.choice(known)
        m = rng.choice(['ptr', 'cptr', 'cref', 'ref'])
        return {'ptr': {'src': '%s *' % c, 'db': '%s *' % c, 'cls': c}, 'cptr': {'src': 'const %s *' % c, 'db': '%s const *' % c, 'cls': c},
                'cref': {'src': 'const %s &' % c, 'db': '%s const *' % c, 'cls': c}, 'ref': {'src': '%s &' % c, 'db': '%s *' % c, 'cls': c}}[m]

    def rtype(self, known, own):
        rng = self.rng
        r = rng.random()
        if r < 0.25:
            return {'src': 'void', 'db': 'void', 'owns': False}
        if r < 0.65 or not known:
            t = rng.choice(SCALARS)
            return {'src': t, 'db': DBNAME.get(t, t), 'owns': False}
        c = rng.choice(known)
        m = rng.choice(['ptr', 'cptr', 'val', 'cref'])
        if m == 'val':
            return {'src': c, 'db': '%s *' % c, 'owns': True}          # returned by value: the wrapper hands out a new object the caller owns
        if m == 'ptr':
            return {'src': '%s *' % c, 'db': '%s *' % c, 'owns': False}
        if m == 'cptr':
            return {'src': 'const %s *' % c, 'db': '%s const *' % c, 'owns': False}
        return {'src': 'const %s &' % c, 'db': '%s const *' % c, 'owns': False}

    def params(self, known, maxn=4):
        rng = self.rng
        n = rng.randrange(0, maxn + 1)
        ps = []
        for i in range(n):
            t = self.ptype(known)
            ps.append({'name': rng.choice(['alpha', 'beta', 'count', 'flag', 'value', 'other', 'index', 'scale']) + str(i), 'type': t, 'default': None})
        # defaults: a tail of scalars, sometimes with a gap before it (a default in the middle followed by a non-default is not C++)
        nd = rng.choice([0, 0, 1, 2, 3])
        for p in reversed(ps):
            if nd == 0 or p['type']['cls'] is not None:
                break
            p['default'] = {'int': '7', 'double': '2.5', 'bool': 'true', 'float': '1.5f', 'unsigned int': '3', 'long': '9'}[p['type']['src']]
            nd -= 1
        return ps

    def build(self):
        rng = self.rng
        names = []
        for k in range(rng.randrange(1, 5)):
            name = 'C%d' % k
            cls = {'name': name, 'keyword': rng.choice(['class', 'struct']), 'bases': [], 'members': [], 'nested_in': None, 'comment': None}
            pool = list(names)
            if pool and rng.random() < 0.6:
                for bn in rng.sample(pool, min(len(pool), rng.choice([1, 1, 2]))):
                    cls['bases'].append({'name': bn, 'access': rng.choice(['public', 'public', 'public', 'protected', 'private']), 'virtual': rng.random() < 0.25, 'virtual_first': rng.random() < 0.5})
            known = names + [name]
            used = set()
            for _ in range(rng.randrange(1, 8)):
                kind = rng.choice(['method', 'method', 'method', 'static', 'field', 'ctor', 'enum', 'property', 'seq', 'operator', 'typedef', 'overload'])
                if kind == 'overload':
                    # an overload set: same name, parameter lists that differ in arity, in type, or only in the constness / reference-ness of a class parameter
                    o = rng.choice([n for n in known])
                    shapes = [[], [('int', 'int')], [('double', 'double')], [('int', 'int'), ('int', 'int')], [('%s &' % o, '%s *' % o)], [('const %s &' % o, '%s const *' % o)],
                              [('%s *' % o, '%s *' % o)], [('const %s *' % o, '%s const *' % o)], [('bool', 'bool'), ('const %s &' % o, '%s const *' % o)]]
                    chosen = rng.sample(shapes, rng.choice([2, 2, 3]))
                    cls['members'].append({'kind': 'overload', 'name': self.fresh('ov'), 'const': rng.random() < 0.3,
                                           'overloads': [[{'name': 'arg%d' % i, 'type': {'src': a, 'db': d_, 'cls': None}, 'default': None} for i, (a, d_) in enumerate(sh)] for sh in chosen]})
                    continue
                if kind in ('method', 'static'):
                    m = {'kind': kind, 'name': self.fresh('m'), 'ret': self.rtype(known, name), 'params': self.params(known), 'const': kind == 'method' and rng.random() < 0.4,
                         'virtual': kind == 'method' and rng.random() < 0.25, 'comment': None}
                    cls['members'].append(m)
                elif kind == 'field':
                    t = rng.choice(SCALARS)
                    cls['members'].append({'kind': 'field', 'name': self.fresh('f'), 'type': t, 'const': rng.random() < 0.25, 'comment': None})
                elif kind == 'ctor':
                    ps = self.params([n for n in known if n != name], 3)
                    key = tuple(p['type']['db'] for p in ps)
                    # overloads that differ only in defaulted tails are ambiguous: keep one constructor signature family
                    if 'ctor' in used or (len(ps) == 1 and ps[0]['type']['cls'] == name):
                        continue
                    used.add('ctor')
                    cls['members'].append({'kind': 'ctor', 'params': ps, 'comment': None, 'name': name})
                elif kind == 'enum':
                    en = self.fresh('E')
                    vals = []
                    v = 0
                    for j in range(rng.randrange(1, 4)):
                        if rng.random() < 0.4:
                            v = rng.randrange(0, 50)
                        vals.append(('%s_v%d' % (en, j), v))
                        v += 1
                    cls['members'].append({'kind': 'enum', 'name': en, 'values': vals})
                elif kind == 'property':
                    # names from a small pool: different classes may use the same property / sequence name
                    pn = rng.choice(['size', 'value', 'color', 'name_id'])
                    if ('prop', pn) in used:
                        continue
                    used.add(('prop', pn))
                    t = rng.choice(SCALARS)
                    ro = rng.random() < 0.3
                    cls['members'].append({'kind': 'property', 'name': pn, 'type': t, 'getter': 'get_' + pn, 'setter': None if ro else 'set_' + pn})
                elif kind == 'seq':
                    sn = rng.choice(['item', 'child', 'point'])
                    if ('seq', sn) in used:
                        continue
                    used.add(('seq', sn))
                    cls['members'].append({'kind': 'seq', 'name': 'get_' + sn + 's', 'length': 'get_num_' + sn + 's', 'element': 'get_' + sn, 'type': rng.choice(SCALARS)})
                elif kind == 'operator':
                    op = rng.choice(['+', '-', '==', '<', '<=', '>=', '!=', '[]', '()', 'neg', 'not', 'call2'])
                    opname = {'neg': '-', 'not': '!', 'call2': '()'}.get(op, op)
                    if ('op', opname) in used:
                        continue
                    used.add(('op', opname))
                    if op == 'call2':
                        # the call operator as an overload set with a nullary member: one function, two variants
                        cls['members'].append({'kind': 'overload', 'name': 'operator ()', 'const': True, 'unary': False,
                                               'overloads': [[], [{'name': 'arg0', 'type': {'src': 'int', 'db': 'int', 'cls': None}, 'default': None}]]})
                        continue
                    if op in ('()', 'neg', 'not'):
                        # no parameters: a unary operator, except for the call operator
                        cls['members'].append({'kind': 'operator', 'op': opname, 'name': 'operator ' + opname, 'ret': {'src': 'int', 'db': 'int', 'owns': False}, 'params': [], 'const': True,
                                               'unary': op != '()'})
                        continue
                    cls['members'].append({'kind': 'operator', 'op': op, 'name': 'operator ' + op, 'ret': {'src': 'int', 'db': 'int', 'owns': False},
                                           'params': [{'name': 'rhs', 'type': {'src': 'int', 'db': 'int', 'cls': None}, 'default': None}], 'const': True})
                else:
                    cls['members'].append({'kind': 'typedef', 'name': self.fresh('T'), 'target': rng.choice(known)})
            if rng.random() < 0.3:
                cls['members'].append({'kind': 'nested', 'name': self.fresh('In'), 'method': self.fresh('nm'), 'deep': rng.choice([None, 'Deep', 'Item']), 'deep_enum': rng.choice([None, 'Kind'])})
            if rng.random() < 0.3:
                cls['dtor'] = rng.choice(['plain', 'virtual'])
            else:
                cls['dtor'] = None
            self.classes.append(cls)
            names.append(name)
        for k in range(rng.randrange(0, 3)):
            en = self.fresh('GE')
            self.enums.append({'name': en, 'values': [('%s_v%d' % (en, j), j) for j in range(rng.randrange(1, 4))], 'scoped': rng.random() < 0.3})
        for k in range(rng.randrange(0, 4)):
            self.funcs.append({'name': self.fresh('gfn'), 'ret': self.rtype(names, None), 'params': self.params(names), 'comment': None})
        for k in range(rng.randrange(0, 2)):
            self.typedefs.append({'name': self.fresh('GT'), 'target': rng.choice(names)})

    @staticmethod
    def sig(ps):
        return '(' + ', '.join('%s %s%s' % (p['type']['src'], p['name'], (' = ' + p['default']) if p['default'] else '') for p in ps) + ')'

    def render(self):
        """returns text; fills 'line' of every commentable declaration and the list of comment blocks self.blocks = [(id, first, last, text)]"""
        rng = self.rng
        L = []
        self.blocks = []
        self.decl_lines = []      # (line, entity key)

        def comment_before(key):
            """maybe write a documentation comment in front of the next declaration; returns the marker or None"""
            r = rng.random()
            if r < 0.45:
                return None
            cid = len(self.blocks)
            mark = 'DOC%d' % cid
            if r < 0.7:
                n = rng.choice([1, 1, 2, 3])
                first = len(L) + 1
                for j in range(n):
                    L.append('  // %s line%d' % (mark, j))
                self.blocks.append((cid, first, len(L), mark))
            elif r < 0.9:
                n = rng.choice([1, 2, 3])
                first = len(L) + 1
                if n == 1:
                    L.append('  /* %s */' % mark)
                else:
                    L.append('  /* %s' % mark)
                    for j in range(n - 2):
                        L.append('   * more')
                    L.append('   */')
                self.blocks.append((cid, first, len(L), mark))
            else:
                # a comment separated from the declaration by a blank line: not attached
                L.append('  // %s detached' % mark)
                self.blocks.append((cid, len(L), len(L), mark))
                L.append('')
                return None
            return mark

        def decl(text, key, trailing_ok=True):
            c = comment_before(key)
            line = len(L) + 1
            tr = None
            if trailing_ok and rng.random() < 0.12:
                cid = len(self.blocks)
                tr = 'DOC%d' % cid
                L.append('%s // %s trailing' % (text, tr))
                self.blocks.append((cid, line, line, tr))
            else:
                L.append(text)
            self.decl_lines.append((line, key, c, tr))
            if rng.random() < 0.25:
                L.append('')
            return c

        L.append('#ifndef CPPPARSER')
        L.append('#define __published public')
        L.append('#endif')
        for c in self.classes:
            L.append('%s %s;' % (c['keyword'], c['name']))
        L.append('')
        L.append('__begin_publish')
        for e in self.enums:
            L.append('enum %s%s { %s };' % ('class ' if e['scoped'] else '', e['name'], ', '.join('%s = %d' % v for v in e['values'])))
        L.append('__end_publish')
        for c in self.classes:
            b = ''
            if c['bases']:
                b = ' : ' + ', '.join(((('virtual ' + x['access']) if x.get('virtual_first', True) else (x['access'] + ' virtual')) if x['virtual'] else x['access']) + ' ' + x['name'] for x in c['bases'])
            c['comment'] = comment_before(c['name'])
            L.append('%s %s%s {' % (c['keyword'], c['name'], b))
            L.append('__published:')
            for m in c['members']:
                k = m['kind']
                key = '%s::%s' % (c['name'], m.get('name', ''))
                if k in ('method', 'static'):
                    m['comment'] = decl('  %s%s%s %s%s%s;' % ('static ' if k == 'static' else '', 'virtual ' if m['virtual'] else '', m['ret']['src'], m['name'], self.sig(m['params']),
                                                              ' const' if m['const'] else ''), key)
                elif k == 'operator':
                    decl('  %s %s%s const;' % (m['ret']['src'], m['name'], self.sig(m['params'])), key)
                elif k == 'overload':
                    for ps in m['overloads']:
                        L.append('  int %s%s%s;' % (m['name'], self.sig(ps), ' const' if m['const'] else ''))
                elif k == 'field':
                    m['comment'] = decl('  %s%s %s;' % ('const ' if m['const'] else '', m['type'], m['name']), key)
                elif k == 'ctor':
                    m['comment'] = decl('  %s%s;' % (c['name'], self.sig(m['params'])), key + '#ctor')
                elif k == 'enum':
                    L.append('  enum %s { %s };' % (m['name'], ', '.join('%s = %d' % v for v in m['values'])))
                elif k == 'property':
                    L.append('  %s %s() const;' % (m['type'], m['getter']))
                    if m['setter']:
                        L.append('  void %s(%s v);' % (m['setter'], m['type']))
                    L.append('  __make_property(%s, %s%s);' % (m['name'], m['getter'], (', ' + m['setter']) if m['setter'] else ''))
                elif k == 'seq':
                    L.append('  int %s() const;' % m['length'])
                    L.append('  %s %s(int n) const;' % (m['type'], m['element']))
                    L.append('  __make_seq(%s, %s, %s);' % (m['name'], m['length'], m['element']))
                elif k == 'typedef':
                    L.append('  typedef %s %s;' % (m['target'], m['name']))
                elif k == 'nested':
                    L.append('  class %s {' % m['name'])
                    L.append('  __published:')
                    L.append('    int %s(int q) const;' % m['method'])
                    if m.get('deep'):
                        # two levels down: the scoped name keeps every enclosing class (the same inner names are used in several classes)
                        L.append('    class %s {' % m['deep'])
                        L.append('    __published:')
                        L.append('      int deep_method(int q) const;')
                        L.append('    };')
                    if m.get('deep_enum'):
                        L.append('    enum %s { %s_%s_a = 3, %s_%s_b };' % (m['deep_enum'], m['name'], m['deep_enum'], m['name'], m['deep_enum']))
                    L.append('  };')
            if c['dtor']:
                L.append('  %s~%s();' % ('virtual ' if c['dtor'] == 'virtual' else '', c['name']))
            L.append('};')
            L.append('')
        L.append('__begin_publish')
        for f in self.funcs:
            f['comment'] = decl('%s %s%s;' % (f['ret']['src'], f['name'], self.sig(f['params'])), f['name'])
        for t in self.typedefs:
            L.append('typedef %s %s;' % (t['target'], t['name']))
        L.append('__end_publish')
        return '\n'.join(L) + '\n'
