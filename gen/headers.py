"""Random class libraries as C++ headers (shared by C03/C04/C05/C11/C12/C13/C16).
The generator keeps a description (dict) of what it wrote so checks can compare
the database with ground truth."""

INT_TYPES = ['int', 'unsigned int', 'short', 'unsigned short', 'long', 'unsigned long', 'char', 'signed char', 'unsigned char',
             'long long', 'unsigned long long', 'bool', 'float', 'double']


class Lib:
    def __init__(self, rng, prefix='', nclasses=None, ext_bases=()):
        self.rng = rng
        self.p = prefix
        self.classes = []      # dicts
        self.enums = []
        self.funcs = []
        self.ext_bases = list(ext_bases)   # names of classes defined in other headers (already #included)
        self.nclasses = nclasses if nclasses is not None else rng.randrange(1, 5)
        self.build()

    def ptype(self, classes):
        r = self.rng.random()
        if r < 0.55 or not classes:
            return self.rng.choice(INT_TYPES[:6] + ['bool', 'double', 'float', 'char *const', 'const char *'])
        c = '::' + self.rng.choice(classes)
        return self.rng.choice(['%s *', 'const %s &', '%s &', 'const %s *', '%s']) % c

    def rtype(self, classes):
        r = self.rng.random()
        if r < 0.2:
            return 'void'
        return self.ptype(classes)

    def params(self, classes, maxn=3):
        n = self.rng.randrange(0, maxn + 1)
        ps = []
        ndef = self.rng.choice([0, 0, 1, 2]) if n else 0
        for i in range(n):
            t = self.ptype(classes)
            d = None
            if i >= n - ndef and t in INT_TYPES:
                d = self.rng.choice(['0', '1', '42', '-1']) if t not in ('bool', 'float', 'double') else {'bool': 'true', 'float': '1.5f', 'double': '2.5'}[t]
            elif i >= n - ndef:
                ndef = 0   # class-typed parameter breaks the default tail; drop defaults before it
                for q in ps:
                    q['default'] = None
            ps.append({'type': t, 'name': '%sa%d' % ('p_', i), 'default': d})
        return ps

    def build(self):
        rng = self.rng
        names = []
        for k in range(self.nclasses):
            name = '%sC%d' % (self.p, k)
            bases = []
            pool = names + self.ext_bases
            if pool and rng.random() < 0.5:
                for bn in rng.sample(pool, min(len(pool), rng.choice([1, 1, 2]))):
                    bases.append({'name': bn, 'access': rng.choice(['public', 'public', 'public', 'protected', 'private']), 'virtual': rng.random() < 0.15})
            cls = {'name': name, 'bases': bases, 'sections': [], 'keyword': rng.choice(['class', 'struct'])}
            if rng.random() < 0.5:
                # a class constant of some visibility used in array bounds of published members
                cls['const'] = {'name': 'kN%d' % k, 'vis': rng.choice(['public', 'protected', 'protected', 'private']), 'value': rng.choice([2, 3, 5])}
            known = names + [name] + self.ext_bases
            mid = 0
            for sec in range(rng.randrange(1, 5)):
                vis = rng.choice(['__published', '__published', 'public', 'protected', 'private'])
                members = []
                for m in range(rng.randrange(0, 4)):
                    kind = rng.choice(['method', 'method', 'method', 'static', 'field', 'ctor', 'enum', 'nested', 'operator'])
                    mid += 1
                    if kind == 'nested':
                        if vis not in ('__published', 'public'):
                            continue
                        members.append({'kind': 'nested', 'name': 'In%d_%d' % (k, mid), 'static': 'sfn%d_%d' % (k, mid), 'method': 'nm%d_%d' % (k, mid),
                                        'ret': rng.choice(['int', 'double', 'bool'])})
                        continue
                    if kind == 'operator':
                        # assignment-style operators (some declared void), comparison and index operators
                        op = rng.choice(['void operator -=(int v)', '{C} &operator +=(int v)', '{C} &operator =(const {C} &o)', 'void operator *=(double v)', 'bool operator ==(const {C} &o) const',
                                         'bool operator <=(const {C} &o) const', 'int operator [](int i) const', '{C} &operator <<=(int n)'])
                        key = op.split('operator')[1].split('(')[0].strip()
                        if key in cls.setdefault('_ops', set()):
                            continue
                        cls['_ops'].add(key)
                        members.append({'kind': 'operator', 'decl': op.replace('{C}', name)})
                        continue
                    if kind in ('method', 'static'):
                        members.append({'kind': kind, 'name': 'm%d_%d_%s' % (k, mid, rng.choice(['get', 'set_value', 'compute', 'doIt'])), 'ret': self.rtype(known),
                                        'params': self.params(known), 'const': kind == 'method' and rng.random() < 0.4,
                                        'virtual': kind == 'method' and rng.random() < 0.2, 'comment': rng.random() < 0.4})
                    elif kind == 'field':
                        shape = rng.choice(['plain', 'plain', 'plain', 'array', 'fnptr', 'fnptr2', 'cstr', 'objptr', 'ptrptr'])
                        decl = {'plain': '%s {n}' % rng.choice(INT_TYPES[:4] + ['double', 'bool']), 'array': 'int {n}[%d]' % rng.choice([1, 3, 8]),
                                'fnptr': 'void (*{n})(int)', 'fnptr2': 'int (*{n})(double, bool)', 'cstr': 'const char *{n}',
                                'objptr': '::%s *{n}' % rng.choice(known), 'ptrptr': 'int **{n}'}[shape]
                        if shape == 'plain' and rng.random() < 0.25:
                            # a method named like the setter of the data member that follows it (and no getter of that name)
                            members.append({'kind': 'operator', 'decl': 'void set_f%d(int v)' % mid})
                        members.append({'kind': 'field', 'name': 'f%d' % mid, 'decl': decl.replace('{n}', 'f%d' % mid), 'shape': shape})
                    elif kind == 'ctor':
                        ps = self.params(known, 2)
                        for q in ps:
                            q['default'] = None
                        key = tuple(q['type'] for q in ps)
                        if key in cls.setdefault('_ctor_keys', set()) or any(name in q['type'] and '*' not in q['type'] and '&' not in q['type'] for q in ps):
                            continue
                        cls['_ctor_keys'].add(key)
                        members.append({'kind': 'ctor', 'params': ps})
                    else:
                        members.append({'kind': 'enum', 'name': 'E%d' % mid, 'values': ['%s_E%d_V%d' % (name, mid, v) for v in range(rng.randrange(1, 4))]})
                cls['sections'].append({'vis': vis, 'members': members})
            self.classes.append(cls)
            names.append(name)
        if rng.random() < 0.6:
            # a pure virtual function, and what derived classes do about it: override it exactly (concrete again), or declare a function that differs
            # in constness only (hides it: the class stays abstract and no constructor wrapper may be emitted).  Nothing else uses these classes by value.
            bc = rng.random() < 0.5
            meth = lambda const, pure, virt: {'kind': 'method', 'name': 'pvm', 'ret': 'int', 'params': [], 'const': const, 'virtual': virt, 'pure': pure, 'comment': False}
            base = '%sPVB' % self.p
            self.classes.append({'name': base, 'bases': [], 'keyword': 'class', 'sections': [{'vis': '__published', 'members': [meth(bc, True, True)]}]})
            for nm, const in (('%sPVO' % self.p, bc), ('%sPVH' % self.p, not bc)):
                self.classes.append({'name': nm, 'bases': [{'name': base, 'access': 'public', 'virtual': False}], 'keyword': rng.choice(['class', 'struct']),
                                     'sections': [{'vis': '__published', 'members': [meth(const, False, rng.random() < 0.3)]}]})
        for k in range(rng.randrange(0, 3)):
            self.enums.append({'name': '%sGE%d' % (self.p, k), 'values': ['%sGE%d_V%d' % (self.p, k, v) for v in range(rng.randrange(1, 4))], 'scoped': rng.random() < 0.3})
        for k in range(rng.randrange(0, 4)):
            self.funcs.append({'name': '%sfn%d' % (self.p, k), 'ret': self.rtype(names), 'params': self.params(names), 'published': rng.random() < 0.7,
                               'comment': rng.random() < 0.4})

    def class_names(self):
        return [c['name'] for c in self.classes if not c['name'].endswith(('PVB', 'PVO', 'PVH'))]       # (the abstract trio is never used by value elsewhere)

    @staticmethod
    def sig(m):
        return '(' + ', '.join('%s %s%s' % (p['type'], p['name'], ' = ' + p['default'] if p['default'] else '') for p in m['params']) + ')'

    def render(self, includes=(), guard=None):
        out = []
        if guard:
            out += ['#ifndef %s' % guard, '#define %s' % guard]
        for inc in includes:
            out.append('#include "%s"' % inc)
        for c in self.classes:
            out.append('%s %s;' % (c['keyword'], c['name']))
        for e in self.enums:
            out.append('enum %s%s { %s };' % ('class ' if e['scoped'] else '', e['name'], ', '.join(e['values'])))
        for c in self.classes:
            b = ''
            if c['bases']:
                b = ' : ' + ', '.join(('virtual ' if x['virtual'] else '') + x['access'] + ' ' + x['name'] for x in c['bases'])
            out.append('%s %s%s {' % (c['keyword'], c['name'], b))
            if c.get('const'):
                k_ = c['const']
                out.append('%s:' % k_['vis'])
                out.append('  static const int %s = %d;' % (k_['name'], k_['value']))
                out.append('__published:')
                out.append('  int arr_%s[%s];' % (k_['name'], k_['name']))
                out.append('  void fill_%s(int values[%s * 2]);' % (k_['name'], k_['name']))
            for s in c['sections']:
                out.append('%s:' % s['vis'])
                for m in s['members']:
                    if m['kind'] in ('method', 'static'):
                        if m['comment']:
                            out.append('  // doc for %s::%s' % (c['name'], m['name']))
                        out.append('  %s%s%s %s%s%s;' % ('static ' if m['kind'] == 'static' else '', 'virtual ' if m['virtual'] else '', m['ret'], m['name'],
                                                       self.sig(m), (' const' if m['const'] else '') + (' = 0' if m.get('pure') else '')))
                    elif m['kind'] in ('field', 'operator'):
                        out.append('  %s;' % m['decl'])
                    elif m['kind'] == 'ctor':
                        out.append('  %s%s;' % (c['name'], self.sig(m)))
                    elif m['kind'] == 'nested':
                        out.append('  class %s {' % m['name'])
                        out.append('  __published:')
                        out.append('    static %s %s(int a);' % (m['ret'], m['static']))
                        out.append('    %s %s() const;' % (m['ret'], m['method']))
                        out.append('  };')
                    else:
                        out.append('  enum %s { %s };' % (m['name'], ', '.join(m['values'])))
            out.append('};')
        for f in self.funcs:
            if f['comment']:
                out.append('// doc for %s' % f['name'])
            if f['published']:
                out.append('__published:' if False else 'BEGIN_PUBLISH')
            out.append('%s %s%s;' % (f['ret'], f['name'], self.sig(f)))
            if f['published']:
                out.append('END_PUBLISH')
        if guard:
            out.append('#endif')
        text = '\n'.join(out) + '\n'
        return '#ifdef CPPPARSER\n#define BEGIN_PUBLISH __begin_publish\n#define END_PUBLISH __end_publish\n#else\n#define BEGIN_PUBLISH\n#define END_PUBLISH\n#define __published public\n#endif\n' + text
