"""Class libraries for C02 (python-native): header, instrumented implementation and a Python test program with the expected outcome of every call."""

CATS = ['int', 'float', 'str', 'inst']


class PyLib:
    def __init__(self, rng, mixed_widths=False):
        self.rng = rng
        self.mixed = mixed_widths
        self.classes = []
        self.nid = 0
        self.build()

    def fresh(self, p):
        self.nid += 1
        return '%s%d' % (p, self.nid)

    def build(self):
        rng = self.rng
        n = rng.randrange(1, 4)
        for k in range(n):
            name = 'K%d' % k
            base = None
            if k and rng.random() < 0.6:
                base = 'K%d' % rng.randrange(k)
            c = {'name': name, 'base': base, 'ovsets': [], 'dflts': [], 'depth': 0}
            if base:
                c['depth'] = 1 + [x for x in self.classes if x['name'] == base][0]['depth']
            known = [x['name'] for x in self.classes] + [name]
            for _ in range(rng.randrange(1, 4)):
                # an overload set distinguishable by category: every overload has its own category vector
                nm = self.fresh('ov')
                seen = set()
                ovs = []
                for _ in range(rng.choice([2, 2, 3, 4])):
                    ar = rng.choice([1, 1, 2, 2, 3])
                    vec = []
                    for i in range(ar):
                        cat = rng.choice(CATS)
                        vec.append((cat, rng.choice(known)) if cat == 'inst' else (cat, None))
                    key = tuple(vec)
                    if key in seen:
                        continue
                    seen.add(key)
                    ovs.append({'vec': vec, 'tag': 100 + len(ovs) + 10 * len(c['ovsets'])})
                c['ovsets'].append({'name': nm, 'overloads': ovs, 'const': rng.random() < 0.3})       # the whole set const or not: a mixed set makes calls ambiguous in C++
            for _ in range(rng.randrange(0, 3)):
                nd = rng.randrange(1, 3)
                c['dflts'].append({'name': self.fresh('dflt'), 'nreq': rng.randrange(0, 3), 'defaults': [rng.randrange(1, 90) for _ in range(nd)]})
            self.classes.append(c)

    def ctype(self, cat, cls, i, width_variant=0):
        if cat == 'int':
            if self.mixed and width_variant:
                return 'long long a%d' % i
            return 'int a%d' % i
        if cat == 'float':
            return 'double a%d' % i
        if cat == 'str':
            return 'const std::string &a%d' % i
        return 'const %s &a%d' % (cls, i)

    def header(self):
        L = ['#ifndef LIB_H', '#define LIB_H', '#include <string>', '#ifndef CPPPARSER', '#define __published public', '#define __begin_publish', '#define __end_publish',
             '#define __make_property(a, b, c)', '#define __make_seq(a, b, c)', '#endif']
        for c in self.classes:
            L.append('class %s;' % c['name'])
        for c in self.classes:
            L.append('class %s%s {' % (c['name'], (' : public ' + c['base']) if c['base'] else ''))
            L.append('__published:')
            L.append('  enum Color { red = 1, green = 5, blue = 6 };')
            L.append('  %s(int v);' % c['name'])
            L.append('  %s(const %s &o);' % (c['name'], c['name']))
            L.append('  explicit %s(const std::string &a, int b = 0);' % c['name'])      # explicit: never used to convert an argument
            L.append('  int take_%s(const %s &o) const;' % (c['name'], c['name']))
            L.append('  ~%s();' % c['name'])
            L.append('  int get_v_%s() const;' % c['name'])
            L.append('  void set_v_%s(int v);' % c['name'])
            L.append('  __make_property(value_%s, get_v_%s, set_v_%s);' % (c['name'], c['name'], c['name']))
            L.append('  int get_num_items_%s() const;' % c['name'])
            L.append('  int get_item_%s(int n) const;' % c['name'])
            L.append('  __make_seq(get_items_%s, get_num_items_%s, get_item_%s);' % (c['name'], c['name'], c['name']))
            L.append('  static int twice_%s(int x);' % c['name'])
            L.append('  %s make_%s() const;' % (c['name'], c['name']))
            L.append('  %s *self_%s();' % (c['name'], c['name']))
            L.append('  int operator + (const %s &o) const;' % c['name'])
            L.append('  bool operator == (const %s &o) const;' % c['name'])
            L.append('  int operator [] (int i) const;')
            L.append('  Color next_color(Color c) const;')
            L.append('  const %s &cself_%s() const;' % (c['name'], c['name']))
            L.append('  int mut_%s(%s &other);' % (c['name'], c['name']))
            L.append('  int mut_%s(int x);' % c['name'])
            L.append('  int scale_%s(int factor);' % c['name'])
            L.append('  int scale_%s(int factor, int offset);' % c['name'])
            # const / non-const pairs (C++ picks by the constness of the object) and a defaulted overload sharing its lowest arity with a sibling
            L.append('  int which_%s();' % c['name'])
            L.append('  int which_%s() const;' % c['name'])
            L.append('  int tagc_%s(int x) const;' % c['name'])
            L.append('  int tagc_%s(int x);' % c['name'])
            L.append('  int dk_%s(int a, int b = 1);' % c['name'])
            L.append('  int dk_%s(const std::string &s);' % c['name'])
            L.append('  static int sdk_%s(const std::string &s);' % c['name'])
            L.append('  static int sdk_%s(int a, int b = 1, int c = 2);' % c['name'])
            for s in c['ovsets']:
                for j, o in enumerate(s['overloads']):
                    L.append('  int %s(%s)%s;' % (s['name'], ', '.join(self.ctype(cat, cls, i, j % 2) for i, (cat, cls) in enumerate(o['vec'])), ' const' if s['const'] else ''))
            for d in c['dflts']:
                ps = ['int r%d' % i for i in range(d['nreq'])] + ['int d%d = %d' % (i, v) for i, v in enumerate(d['defaults'])]
                L.append('  int %s(%s);' % (d['name'], ', '.join(ps)))
            L.append('public:')
            L.append('  int v_%s;' % c['name'])
            L.append('};')
        # a fixed-size sequence with item assignment: the slot after the last one is a guard
        L += ['class Buf {', '__published:', '  Buf();', '  int size() const;', '  int operator [](int i) const;', '  int &operator [](int i);', '  int guard() const;', 'public:', '  int slots[5];', '};']
        # coercion: Pt converts implicitly from a string only; its (int, int = 0) constructor is explicit and must never convert an argument
        L += ['class Pt {', '__published:', '  Pt();', '  Pt(const std::string &s);', '  explicit Pt(int x, int y = 0);', '  Pt(const Pt &o);', '  int get_x() const;', '  int get_y() const;',
              'public:', '  int x_, y_;', '};', 'class PtUser {', '__published:', '  PtUser();', '  int px(const Pt &p);', '  int calls() const;', 'public:', '  int calls_;', '};']
        L.append('__begin_publish')
        L.append('int live_objects();')
        L.append('std::string last_call();')
        L.append('int echo_int(int x);')
        L.append('long long echo_ll(long long x);')
        L.append('unsigned char echo_u8(unsigned char x);')
        L.append('short echo_i16(short x);')
        L.append('unsigned int echo_u32(unsigned int x);')
        L.append('double echo_double(double x);')
        L.append('bool echo_bool(bool x);')
        L.append('std::string echo_str(const std::string &x);')
        L.append('__end_publish')
        L.append('#endif')
        return '\n'.join(L) + '\n'

    def impl(self):
        L = ['#include "lib.h"', 'static int LIVE = 0;', 'static std::string LAST;', 'int live_objects() { return LIVE; }', 'std::string last_call() { return LAST; }',
             'int echo_int(int x) { return x; }', 'long long echo_ll(long long x) { return x; }', 'unsigned char echo_u8(unsigned char x) { return x; }', 'short echo_i16(short x) { return x; }',
             'unsigned int echo_u32(unsigned int x) { return x; }', 'double echo_double(double x) { return x; }', 'bool echo_bool(bool x) { return x; }',
             'std::string echo_str(const std::string &x) { return x; }',
             'Buf::Buf() { for (int i = 0; i < 4; ++i) slots[i] = 10 + i; slots[4] = 777; }', 'int Buf::size() const { return 4; }', 'int Buf::operator [](int i) const { return slots[i]; }',
             'int &Buf::operator [](int i) { return slots[i]; }', 'int Buf::guard() const { return slots[4]; }',
             'Pt::Pt() : x_(0), y_(0) {}', 'Pt::Pt(const std::string &s) : x_((int)s.size()), y_(-1) {}', 'Pt::Pt(int x, int y) : x_(x), y_(y) {}', 'Pt::Pt(const Pt &o) : x_(o.x_), y_(o.y_) {}',
             'int Pt::get_x() const { return x_; }', 'int Pt::get_y() const { return y_; }', 'PtUser::PtUser() : calls_(0) {}', 'int PtUser::px(const Pt &p) { ++calls_; return p.x_ * 100 + p.y_; }',
             'int PtUser::calls() const { return calls_; }']
        for c in self.classes:
            n = c['name']
            binit = ('%s(v + 100), ' % c['base']) if c['base'] else ''
            bcopy = ('%s(o), ' % c['base']) if c['base'] else ''
            L.append('%s::%s(int v) : %sv_%s(v) { ++LIVE; }' % (n, n, binit, n))
            L.append('%s::%s(const %s &o) : %sv_%s(o.v_%s) { ++LIVE; }' % (n, n, n, bcopy, n, n))
            L.append('%s::%s(const std::string &a, int b) : %sv_%s((int)a.size() + b) { ++LIVE; }' % (n, n, ('%s(100), ' % c['base']) if c['base'] else '', n))
            L.append('int %s::take_%s(const %s &o) const { return o.v_%s; }' % (n, n, n, n))
            L.append('%s::~%s() { --LIVE; }' % (n, n))
            L.append('int %s::get_v_%s() const { return v_%s; }' % (n, n, n))
            L.append('void %s::set_v_%s(int v) { v_%s = v; }' % (n, n, n))
            L.append('int %s::get_num_items_%s() const { return 3; }' % (n, n))
            L.append('int %s::get_item_%s(int i) const { return v_%s * 10 + i; }' % (n, n, n))
            L.append('int %s::twice_%s(int x) { return 2 * x; }' % (n, n))
            L.append('%s %s::make_%s() const { return %s(v_%s + 1); }' % (n, n, n, n, n))
            L.append('%s *%s::self_%s() { return this; }' % (n, n, n))
            L.append('int %s::operator + (const %s &o) const { return v_%s + o.v_%s; }' % (n, n, n, n))
            L.append('bool %s::operator == (const %s &o) const { return v_%s == o.v_%s; }' % (n, n, n, n))
            L.append('int %s::operator [] (int i) const { return v_%s + i; }' % (n, n))
            L.append('const %s &%s::cself_%s() const { return *this; }' % (n, n, n))
            L.append('int %s::mut_%s(%s &other) { other.v_%s += 1000; return 1; }' % (n, n, n, n))
            L.append('int %s::mut_%s(int x) { return 2; }' % (n, n))
            L.append('int %s::scale_%s(int factor) { return factor * 10; }' % (n, n))
            L.append('int %s::scale_%s(int factor, int offset) { return factor * 10 + offset; }' % (n, n))
            L.append('int %s::which_%s() { return 1; }' % (n, n))
            L.append('int %s::which_%s() const { return 2; }' % (n, n))
            L.append('int %s::tagc_%s(int x) const { return 20 + x; }' % (n, n))
            L.append('int %s::tagc_%s(int x) { return 10 + x; }' % (n, n))
            L.append('int %s::dk_%s(int a, int b) { return a * 10 + b; }' % (n, n))
            L.append('int %s::dk_%s(const std::string &s) { return 1000 + (int)s.size(); }' % (n, n))
            L.append('int %s::sdk_%s(const std::string &s) { return 2000 + (int)s.size(); }' % (n, n))
            L.append('int %s::sdk_%s(int a, int b, int c) { return a * 100 + b * 10 + c; }' % (n, n))
            L.append('%s::Color %s::next_color(Color c) const { return c == red ? green : (c == green ? blue : red); }' % (n, n))
            for s in c['ovsets']:
                for j, o in enumerate(s['overloads']):
                    L.append('int %s::%s(%s)%s { LAST = "%s#%d"; return %d; }' % (n, s['name'], ', '.join(self.ctype(cat, cls, i, j % 2) for i, (cat, cls) in enumerate(o['vec'])),
                                                                                ' const' if s['const'] else '', s['name'], o['tag'], o['tag']))
            for d in c['dflts']:
                ps = ['int r%d' % i for i in range(d['nreq'])] + ['int d%d' % i for i in range(len(d['defaults']))]
                expr = ' + '.join(['%d' % (7)] + ['r%d * %d' % (i, 1000 ** 0 * (i + 2)) for i in range(d['nreq'])] + ['d%d * %d' % (i, 1000 * (i + 1)) for i in range(len(d['defaults']))])
                L.append('int %s::%s(%s) { return %s; }' % (n, d['name'], ', '.join(ps), expr))
        return '\n'.join(L) + '\n'
