"""Inputs for C15 (front-end totality): three streams.

  valid(rng, corpus)   -- well-formed C/C++ from the grammar-based generators of the other properties
  mutate(rng, data)    -- token-level and byte-level mutation of a corpus file
  edges()              -- directive / literal edge cases, enumerated (unterminated constructs, every operator in #if, ...)

Everything is bytes."""
import re

from gen import classes as gclasses
from gen import conds as gconds
from gen import exprs as gexprs
from gen import headers as gheaders
from gen import types as gtypes

TOKENS = [b'(', b')', b'{', b'}', b'[', b']', b'<', b'>', b';', b',', b'::', b':', b'#', b'##', b'"', b"'", b'\\', b'\\\n', b'\n', b'/*', b'*/', b'//',
          b'R"x(', b')x"', b'R"(', b')"', b'L"', b'u8"', b"u'", b'0x', b'0b', b"1'0", b'1e', b'1e+', b'.', b'...', b'->', b'->*', b'.*', b'<<', b'>>', b'<=>', b'<=', b'>=',
          b'==', b'!=', b'&&', b'||', b'!', b'~', b'^', b'%', b'/', b'*', b'+', b'-', b'?', b'=', b'+=', b'%=', b'/=', b'<<=', b'>>=',
          b'#define ', b'#undef ', b'#if ', b'#ifdef ', b'#ifndef ', b'#elif ', b'#else', b'#endif', b'#include ', b'#include_next ', b'#pragma ', b'#error ', b'#line ', b'#warning ',
          b'#pragma once', b'defined', b'defined(', b'__has_include(', b'__VA_ARGS__', b'__VA_OPT__(', b'__FILE__', b'__LINE__', b'__published:', b'__make_property(',
          b'__make_seq(', b'__make_map_property(', b'__extension ', b'BEGIN_PUBLISH', b'END_PUBLISH', b'BLOCKING ', b'MAKE_PROPERTY(', b'MAKE_SEQ(', b'EXTENSION(',
          b'class ', b'struct ', b'union ', b'enum ', b'enum class ', b'namespace ', b'template', b'template<', b'typename ', b'typedef ', b'using ', b'operator ', b'operator""',
          b'virtual ', b'static ', b'const ', b'constexpr ', b'volatile ', b'mutable ', b'explicit ', b'inline ', b'friend ', b'extern ', b'extern "C" ', b'public:', b'private:',
          b'protected:', b'final ', b'override ', b'noexcept', b'noexcept(', b'decltype(', b'sizeof(', b'sizeof...(', b'alignof(', b'alignas(', b'typeid(', b'static_cast<',
          b'dynamic_cast<', b'const_cast<', b'reinterpret_cast<', b'static_assert(', b'requires ', b'concept ', b'auto ', b'new ', b'delete ', b'= 0', b'= delete', b'= default',
          b'int ', b'unsigned ', b'long ', b'char ', b'float ', b'double ', b'void ', b'bool ', b'wchar_t ', b'char16_t ', b'nullptr', b'true', b'false', b'this',
          b'0', b'1', b'-1', b'2147483647', b'2147483648', b'4294967296', b'18446744073709551615', b'18446744073709551616', b'99999999999999999999999', b'1.0', b'1.f', b'.5', b'1e400',
          b"'a'", b"'\\''", b"'\\", b"''", b'""', b'"\\', b'"\\x', b'"\\777', b'\x00', b'\xff', b'\x80', b'\xc3\xa9', b'\r\n', b'\t', b'\x0c', b'A', b'F', b'x', b'T', b'K0', b'_', b'$']


def valid(rng):
    """One well-formed header from the generators of the other properties."""
    r = rng.random()
    if r < 0.3:
        lib = gheaders.Lib(rng)
        return lib.render().encode()
    if r < 0.5:
        return gclasses.render(gclasses.gen(rng, features='all')).encode()
    if r < 0.65:
        # constant expressions: as initialisers, array bounds, enumerators and #if conditions
        out = []
        for i in range(rng.randrange(1, 6)):
            e = gexprs.full(gexprs.gen(rng, rng.randrange(1, 5), casts=False))
            k = rng.randrange(4)
            if k == 0:
                out.append('static const int v%d = %s;' % (i, e))
            elif k == 1:
                out.append('enum E%d { a%d = %s, b%d };' % (i, i, e, i))
            elif k == 2:
                out.append('#if %s\nint c%d;\n#else\nlong c%d;\n#endif' % (e, i, i))
            else:
                out.append('extern int arr%d[((%s) & 15) | 1];' % (i, e))
        return ('\n'.join(out) + '\n').encode()
    if r < 0.8:
        g = gconds.Gen(rng).group(rng.randrange(1, 4))
        return ('\n'.join(gconds.render(g) + gconds.probes()) + '\n').encode()
    # declarators
    out = []
    for i in range(rng.randrange(1, 8)):
        ty = gtypes.gen(rng, rng.randrange(1, 5))
        out.append('extern %s;' % gtypes.source(ty, 'd%d' % i))
    return ('struct S {};\n' + '\n'.join(out) + '\n').encode()


TOKEN_RE = re.compile(rb'[A-Za-z_][A-Za-z_0-9]*|\d[\w.\']*|"(?:[^"\\\n]|\\.)*"|\'(?:[^\'\\\n]|\\.)*\'|::|->|<<=|>>=|<=>|[<>=!+\-*/%&|^]=|&&|\|\||<<|>>|##|\s+|.', re.S)


def tokens(data):
    return TOKEN_RE.findall(data)


def mutate(rng, data, corpus=None):
    """Return (mutated bytes, mutation kinds)."""
    kinds = []
    n = rng.choice([1, 1, 1, 2, 2, 3, 5])
    for _ in range(n):
        r = rng.random()
        if r < 0.5:
            # token level
            toks = tokens(data)
            if not toks:
                toks = [b'']
            i = rng.randrange(len(toks))
            k = rng.choice(['tok-delete', 'tok-dup', 'tok-swap', 'tok-replace', 'tok-insert', 'tok-truncate', 'tok-splice'])
            if k == 'tok-delete':
                j = min(len(toks), i + rng.choice([1, 1, 2, 4]))
                del toks[i:j]
            elif k == 'tok-dup':
                j = min(len(toks), i + rng.choice([1, 2, 8]))
                toks[i:i] = toks[i:j] * rng.choice([1, 1, 3, 20])
            elif k == 'tok-swap':
                j = rng.randrange(len(toks))
                toks[i], toks[j] = toks[j], toks[i]
            elif k == 'tok-replace':
                toks[i] = rng.choice(TOKENS)
            elif k == 'tok-insert':
                toks[i:i] = [rng.choice(TOKENS) for _ in range(rng.choice([1, 1, 2, 3]))]
            elif k == 'tok-truncate':
                del toks[i:]
                if rng.random() < 0.5:
                    toks.append(rng.choice(TOKENS))
            else:
                other = tokens(rng.choice(corpus)) if corpus else toks
                if other:
                    a = rng.randrange(len(other))
                    toks[i:i] = other[a:a + rng.choice([1, 3, 10, 40])]
            data = b''.join(toks)
            kinds.append(k)
        else:
            b = bytearray(data)
            k = rng.choice(['byte-flip', 'byte-delete', 'byte-insert', 'byte-truncate', 'byte-dup', 'byte-set'])
            i = rng.randrange(len(b) + 1)
            if k == 'byte-flip' and b:
                i = min(i, len(b) - 1)
                b[i] ^= 1 << rng.randrange(8)
            elif k == 'byte-delete' and b:
                del b[i:i + rng.choice([1, 1, 2, 5, 30])]
            elif k == 'byte-insert':
                b[i:i] = bytes(rng.choice([0, 9, 10, 13, 32, 34, 35, 39, 40, 41, 44, 47, 60, 62, 92, 123, 125, 128, 255, rng.randrange(256)]) for _ in range(rng.choice([1, 1, 2, 4])))
            elif k == 'byte-truncate':
                del b[i:]
            elif k == 'byte-dup' and b:
                j = min(len(b), i + rng.choice([1, 4, 16, 64]))
                b[i:i] = b[i:j] * rng.choice([1, 2, 50])
            elif k == 'byte-set' and b:
                i = min(i, len(b) - 1)
                b[i] = rng.choice([0, 10, 34, 39, 40, 41, 35, 92, 255])
            data = bytes(b)
            kinds.append(k)
        if len(data) > 200000:
            data = data[:200000]
    return data, kinds


BINOPS = ['+', '-', '*', '/', '%', '<<', '>>', '<', '>', '<=', '>=', '==', '!=', '&', '|', '^', '&&', '||', ',', '<=>', '=', '+=', '->', '.', '::', '->*', '.*', '?', ':']
UNOPS = ['-', '+', '!', '~', '*', '&', '++', '--', 'sizeof', 'sizeof ', 'alignof', 'defined', 'defined ', 'new ', 'delete ', 'throw ', 'typeid', 'noexcept', '(int)', 'static_cast<int>']
OPERANDS = ['0', '1', '-1', '2147483647', '(-2147483647-1)', '4294967295', '18446744073709551615', '99999999999999999999', '1.5', "'a'", '"s"', 'X', 'nullptr', 'true', '()', '', '(', ')',
            '0x', '1e', "1'", 'sizeof(int)', 'F(1)', 'F(', 'defined(X)', 'defined(', '__has_include(<a>)', '__has_include(', 'int']
DIRECTIVES = ['define', 'undef', 'if', 'ifdef', 'ifndef', 'elif', 'else', 'endif', 'include', 'include_next', 'pragma', 'error', 'warning', 'line', 'ident', '', 'unknown', 'elifdef', 'import']
DIRARGS = ['', ' ', ' X', ' X ', ' X(', ' X(a', ' X(a,', ' X(a,b', ' X(a)', ' X(a) a', ' X(a) #a', ' X(a) #', ' X(a) a##', ' X(a) ##a', ' X(...) __VA_ARGS__', ' X(a...) a', ' X(...) __VA_OPT__(',
           ' X(...) __VA_OPT__(a', ' X(...) #__VA_OPT__(a)', ' X() X()', ' X(a) X(a)', ' (', ' )', ' "', ' "a', ' <', ' <a', ' <a>', ' "a"', ' once', ' once once', ' 1', ' 0', ' 1/0', ' 1%0',
           ' (1', ' 1)', ' 1 +', ' defined', ' defined(', ' defined(X', ' defined X', ' __has_include', ' __has_include(', ' __has_include(<', ' __has_include("', " '", " '\\", ' \\', ' /*',
           ' //', ' R"(', ' 0x', ' 1e', " 1'", ' 99999999999999999999', ' -', ' !', ' ~', ' ?', ' 1?', ' 1?2', ' 1?2:', ' X X', ' #', ' ##', ' \x00', ' \xff', ' \t\x0c\x0b']


def edges():
    """Enumerated directive/literal edge cases: list of (family, bytes)."""
    out = []

    def add(fam, s):
        out.append((fam, s.encode('latin-1') if isinstance(s, str) else s))
    # every directive with every argument shape, terminated by newline, by EOF and by backslash-newline
    for d in DIRECTIVES:
        for a in DIRARGS:
            for term in ['\n', '', '\\\n']:
                add('directive', '#%s%s%s' % (d, a, term))
                if d in ('if', 'ifdef', 'ifndef', 'elif'):
                    add('directive', '#%s%s\nint x;\n#endif%s' % (d, a, term))
    # every operator in #if, in an initialiser, an enumerator and an array bound, with every operand shape
    for op in BINOPS:
        for a in OPERANDS[:12] + ['']:
            for b in ['0', '1', 'X', '', '1.5', '(']:
                add('if-operator', '#define F(x) x\n#if %s %s %s\nint y;\n#endif\n' % (a, op, b))
                add('expr-operator', 'enum { e = %s %s %s };\nint arr[%s %s %s];\nconstexpr int v = %s %s %s;\n' % (a, op, b, a, op, b, a, op, b))
    for op in UNOPS:
        for a in OPERANDS:
            add('if-operator', '#define F(x) x\n#if %s %s\nint y;\n#endif\n' % (op, a))
            add('if-operator', '#if %s(%s)\n#endif\n' % (op, a))
            add('expr-operator', 'int arr[%s %s];\nenum { e = %s %s };\n' % (op, a, op, a))
    for a in OPERANDS:
        for b in OPERANDS[:8]:
            add('if-operator', '#if %s ? %s : %s\n#endif\n#if %s ? %s\n#endif\n' % (a, b, a, a, b))
    # subscripted string literals (the evaluator indexes the literal itself) and macro redefinition with push/pop
    for lit in ['"abc"', '""', 'u8"abc"', 'L"abc"', "'a'", '"a" "b"', 'X']:
        for idx in ['-2000000000', '-2147483647-1', '-1', '0', '2', '3', '4', '100', '2000000000', '4294967295', '4294967296', '1/0', '""', '"abc"[0]', '', '-', 'Y']:
            add('subscript', '#if %s[%s]\nint y;\n#endif\n' % (lit, idx))
            add('subscript', '#define I %s\n#define S %s\n#if S[I]\nint y;\n#endif\nenum { e = S[I] }; int arr[S[I]];\n' % (idx, lit))
    for m in ['M', 'M(x)', 'M(x, ...)']:
        body = 'a b c d e f g h i j k l m n o p q r s t u v w x y z aa bb cc dd ee ff gg hh ii jj kk'
        for seq in [['def', 'push', 'def', 'pop', 'use'], ['def', 'push', 'undef', 'pop', 'use'], ['def', 'push', 'push', 'def', 'pop', 'def', 'pop', 'use'], ['push', 'def', 'pop', 'use'],
                    ['def', 'pop', 'use'], ['def', 'push', 'def', 'def', 'pop', 'pop', 'use'], ['def', 'def', 'def', 'use'], ['def', 'undef', 'undef', 'use'], ['pop', 'pop', 'use']]:
            out_l = []
            for k, st in enumerate(seq):
                out_l.append({'def': '#define %s %s %d' % (m, body, k), 'undef': '#undef M', 'push': '#pragma push_macro("M")', 'pop': '#pragma pop_macro("M")', 'use': 'int v = M(1, 2);\nint w = M;'}[st])
            add('push-pop', '\n'.join(out_l) + '\n')
    for arg in ['', '(', '("', '("M', '("M"', '("M")', '()', '("")', '(M)', '("M" "N")', '("M", "N")', '("\\', '("M"))', ' ("M")', '("' + 'M' * 300 + '")']:
        for pr in ['push_macro', 'pop_macro']:
            add('push-pop', '#define M 1\n#pragma %s%s\nint v = M;\n' % (pr, arg))
            add('push-pop', '#pragma %s%s' % (pr, arg))
    # literals: every prefix, quote, and unterminated form
    for pre in ['', 'L', 'u', 'U', 'u8', 'R', 'LR', 'uR', 'UR', 'u8R', 'x', 'operator""', '1', '1.0', '"a"']:
        for body in ['', 'a', '\\', '\\"', '\\x', '\\xZZ', '\\777777', '\\u12', '\\U0010FFFFF', '(', ')', '(")', 'x(', 'x()x', 'x(a)y', '()', ')(', '\n', '\\\n', '\x00', '\xff',
                     'aaaaaaaaaaaaaaaaaaaaaaaa(', ' (', '\\(']:
            for q in ['"', "'"]:
                for close in [q, '', q + '_x', q + '1', q + q, '\n' + q]:
                    add('literal', 'auto v = %s%s%s%s;\n' % (pre, q, body, close))
                    add('literal', '%s%s%s%s' % (pre, q, body, close))
    for num in ['0x', '0X', '0b', '0B', '0b2', '08', '09', '1e', '1e+', '1e-', '1.e', '.e1', '1..2', '1.2.3', "1'", "'1", "1''2", "0x'", "0x1'", "1'e1", '1_x', '1.0_x', '1e1_x', '0xg', '1ull', '1llu', '1lul',
                '1uu', '1.0ff', '1.0fl', '0x1p', '0x1p1', '0x1.p', '0x.p1', '1e99999', '0e0', '00000000000000000000000000', '9' * 400, '1.' + '0' * 400, '0x' + 'f' * 400, "1'" * 200]:
        add('number', 'auto v = %s;\n' % num)
        add('number', '#if %s\n#endif\n' % num)
        add('number', num)
    # comments, continuations, trigraph-ish, stray bytes
    for s in ['/*', '/* *', '/*/', '//\\\n', '//\\', '/\\\n*', '/\\\n/', '\\', '\\\n', '\\\r\n', '\\ \n', '\r', '\r\r\n', '\x00', '\x00\x00#', '\xff\xfe', '\xef\xbb\xbf', '\xef\xbb\xbfint x;',
              '??=', '%:', '%:%:', '<:', '<::', '#\n#\n#', '# \n', '#\\\n', '#\\\ndefine X', '#/**/define X 1\nint a = X;', '  #  define   X   1  \n', '\t#\tdefine\tX\t1\t\n', '#define X 1 \\', '@', '`', '$']:
        add('lexical', s)
        add('lexical', 'int a;\n' + s)
        add('lexical', s + '\nint a;\n')
    # macro expansion shapes
    for body in ['#define F(x) x\nF(', '#define F(x) x\nF(1', '#define F(x) x\nF(1,', '#define F(x) x\nF("', "#define F(x) x\nF('", '#define F(x) x\nF((', '#define F(x) x\nF(\\', '#define F(x) x\nF(\\\n',
                 '#define F(x) x\nF(/*', '#define F(x) x\nF(//', '#define F(x) x\nF)', '#define F(x) x\nF', '#define F(x) x\nF ', '#define F(x) x\nF\n(1)', '#define F(x) x\n#if F(\n#endif',
                 '#define F(x) x\n#if F("\n#endif', "#define F(x) x\n#if F('\n#endif", '#define F(x) x\n#if F("abc\n#endif', '#define F(x) x\n#if F(1\n#endif', '#define F(x) x\n#if F(1,\n#endif',
                 '#define F(x) x\n#if F\n#endif', '#define F(x) #x\nF(")', '#define F(x) #x\nF(\\)', '#define F(x) #x\n#if F(\\\n#endif', '#define F(x,y) x##y\nF(,)', '#define F(x,y) x##y\nF(/,/)',
                 '#define F(x,y) x##y\nF(/,*)', '#define F(x,y) x##y\nF(",")', '#define F(x,y) x##y\nF(#,#)', '#define F(x,y) x##y\nF(#,define)', '#define F(...) __VA_ARGS__\nF()',
                 '#define F(...) __VA_OPT__(a)\nF()', '#define F(...) __VA_OPT__()\nF(1)', '#define F(...) __VA_OPT__(__VA_OPT__(a))\nF(1)', '#define F(a,...) a ## __VA_ARGS__\nF(1)',
                 '#define F(a,...) , ## __VA_ARGS__\nF(1)', '#define F(a...) a\nF(1,2)', '#define F(...a) a\nF(1)', '#define F(a,a) a\nF(1,2)', '#define F(,) a\nF(1,2)', '#define F(1) 1\nF(1)',
                 '#define F(x) F(x)\nF(1)', '#define F(x) F(x x)\nF(1)', '#define F(x) G(x)\n#define G(x) F(x)\nF(1)', '#define F(x) x\nF(F(F(1)))', '#define F(x) F\nF(1)(2)(3)',
                 '#define A A\nA', '#define A B\n#define B A\nA', '#define A B\n#define B C\n#define C A\nA B C', '#define A A A\nA', '#define A(x) x A\nA(1)(2)', '#define E\nE E E',
                 '#define O (\n#define C )\n#define F(x) x\nF O 1 C', '#define X defined(Y)\n#if X\n#endif', '#define X defined\n#if X Y\n#endif', '#define X (\n#if defined X\n#endif',
                 '#define X )\n#if defined(X\n#endif', '#define D #define Y 1\nD\nint a = Y;', '#define I #include "nonexistent"\nI', '#define __FILE__ 1\n__FILE__', '#define defined 1\n#if defined(X)\n#endif',
                 '#define __LINE__\n__LINE__', '#undef __FILE__\n__FILE__', '#define L 1\nL"x"', '#define x(...) 1\n"a"x', '#define S "s"\n"a"S"b"', '#define __has_include 1\n#if __has_include(<a>)\n#endif']:
        add('macro', body)
        add('macro', body + '\n')
        add('macro', body + ';\nint z;\n')
    # __VA_OPT__ / __VA_ARGS__ macros called with every argument shape, in text and inside #if (the string-level expander has its own argument scanner)
    for d_ in ['#define F(...) __VA_OPT__(1) 0', '#define F(a, ...) a __VA_OPT__(+ 1)', '#define F(a, ...) #__VA_ARGS__ a', '#define F(a, b, ...) a ## b __VA_OPT__(__VA_ARGS__)',
               '#define F(...) __VA_ARGS__ + 0', '#define F(a...) a + 0']:
        for call in ['F()', 'F(1)', 'F(1,)', 'F(,)', 'F(1,2)', 'F(1,2,3)', 'F( )', 'F((1,2))', 'F', 'F(']:
            add('va-opt', '%s\n#if %s\nint y;\n#endif\n' % (d_, call))
            add('va-opt', '%s\nint v = %s;\n' % (d_, call))
            add('va-opt', '%s\n#define G %s\n#if G\n#endif\nint w = G;\n' % (d_, call))
    # property / sequence declarations that name members which do not exist, in every position
    for decl in ['__make_seq(s, get_n, get_item)', '__make_seq(s, get_n, nope)', '__make_seq(s, nope, get_item)', '__make_seq(s, nope, nope2)', '__make_seq(s, get_item, get_n)', '__make_seq(s, x, get_item)',
                 '__make_seq(s, get_n)', '__make_seq(s)', '__make_seq()', '__make_seq(get_n, get_n, get_n)', '__make_seq(s, get_n, get_item, extra)',
                 '__make_property(p, get_n)', '__make_property(p, nope)', '__make_property(p, get_n, nope)', '__make_property(p, nope, set_n)', '__make_property(p, get_n, set_n)', '__make_property(p, x)',
                 '__make_property(p)', '__make_property()', '__make_property(p, get_item)', '__make_property2(p, has_n, get_n)', '__make_property2(p, nope, get_n)', '__make_property2(p, has_n, get_n, nope, clear_n)',
                 '__make_seq_property(p, get_n, get_item)', '__make_seq_property(p, get_n, nope)', '__make_seq_property(p, nope, get_item)', '__make_seq_property(p, get_n, get_item, nope)',
                 '__make_map_property(p, has_k, get_k)', '__make_map_property(p, nope, get_k)', '__make_map_property(p, has_k, nope)', '__make_map_property(p, get_k)', '__make_map_property(p, nope)',
                 '__make_map_keys_seq(p, get_n, get_item)', '__make_map_keys_seq(p, nope, nope)']:
        add('make-seq', 'class A {\n__published:\n  int get_n() const;\n  void set_n(int v);\n  bool has_n() const;\n  void clear_n();\n  int get_item(int i) const;\n  bool has_k(int k) const;\n'
                        '  int get_k(int k) const;\n  int x;\n  %s;\n};\n' % decl)
    # structure: unterminated / unbalanced constructs
    for s in ['{', '}', '(', ')', '[', ']', '<', '>', ';', 'class', 'class A', 'class A {', 'class A {}', 'class A : ', 'class A : public', 'class A : public B {', 'struct {', 'enum', 'enum {', 'enum { a',
              'enum { a =', 'enum { a = 1,', 'enum A : ', 'namespace', 'namespace {', 'namespace A = ', 'template', 'template<', 'template<class', 'template<class T', 'template<class T>', 'template<class T> class',
              'template<> class A<', 'template<int N = (1>2)> class A;', 'template<int N = 1>>1> class A;', 'A<B<C<D>>> x;', 'A<<B> x;', 'typedef', 'typedef int', 'typedef int ;', 'using', 'using A', 'using A =',
              'using namespace', 'int', 'int x', 'int x =', 'int x = (', 'int x[', 'int x[]', 'int x[-1];', 'int x[1/0];', 'int x[1%0];', 'int (', 'int (*', 'int (*)(', 'int (*f)(int', 'int f(int x = ',
              'int f(int x = 1/0);', 'int f(...', 'int f(..., int);', 'int f() const volatile && noexcept(', 'int f() -> ', 'auto f() -> int (*)[', 'operator', 'operator ""', 'operator "" _x', 'int operator',
              'int operator ()', 'int operator [] (', 'operator int', 'extern "C', 'extern "C"', 'extern "C" {', 'extern "D" {}', 'static_assert(', 'static_assert(0', 'static_assert(0,', 'static_assert(0, "',
              'static_assert(1/0, "");', 'decltype(', 'decltype(1/0) x;', 'sizeof', 'int x = sizeof(', 'int x = sizeof(int[1/0]);', 'alignas(', 'alignas(1/0) int x;', '[[', '[[a', '[[a]]', '[[a(]]',
              '__attribute__((', '__attribute__((a(', '__declspec(', 'friend', 'class A { friend', 'class A { public', 'class A { public: ~', 'class A { A(', 'class A { A() :', 'class A { A() : a(', 'class A { virtual',
              'class A { virtual void f() = ', 'class A { virtual void f() = 1; };', 'class A { int : ', 'class A { int x : 1/0; };', 'class A { __published: __make_property(', 'class A { __make_property(a',
              'class A { __make_property(a, b, c, d, e, f); };', 'class A { __make_seq(a, b); };', 'class A { __make_seq_property(); };', 'class A { __make_map_property(a); };', '__begin_publish', '__end_publish',
              '__end_publish\n__end_publish', '__begin_publish\n__begin_publish', 'class A { __end_publish };', 'enum class', 'enum class A : B {', 'union', 'union {', 'concept', 'requires', 'template<class T> concept C = ',
              'template<class T> requires', 'int x = [', 'int x = []', 'int x = [](', 'int x = []()', 'int x = []() {', 'int x = new', 'int x = new int[', 'int x = delete', 'int x = throw', 'int x = this',
              'int x = a ? : b;', 'int x = a::', 'int x = ::', 'int x = a::template ', 'int x = typename', 'int x = (int', 'int x = (int)', 'int x = static_cast<', 'int x = static_cast<int>(', 'int x = 1 2;',
              'struct K : K {', 'struct K : K { int r; };', 'struct K; struct K : K { int r; }; K k;', 'K{}struct K:virtual private K{r', 'struct A : B {}; struct B : A {}; B b;',
              'decltype(t)y', 'decltype(undeclared_name) y;', 'decltype(undeclared(1)) f();', 'template<class T> decltype(T::x) g();',
              'A::A', 'A::~A', 'A::operator', '::', ':::', '::::', '...', '....', '->', '->*', '.*', '<=>', '<=>=']:
        add('structure', s)
        add('structure', s + '\n')
        add('structure', 'class B; ' + s + ' ; int after;\n')
    # template-ids of declared templates (class, non-type, packs), cut at every point
    prelude = 'template<class T> struct X {}; template<class... T> struct V {}; template<int N> struct I {}; template<int... N> struct J {}; template<class T, int N = 1, class... R> struct W {};\n'
    for use in ['X<int> a;', 'V<int, int> a;', 'V<> a;', 'I<1> a;', 'J<1, 2> a;', 'W<int, 2, char, long> a;', 'V<V<int>, X<V<>>> a;', 'X<X<X<int>>> a;', 'I<(1>2)> a;', 'I<1>>1> a;', 'J<1, 2 a;',
                'V<int, int a;', 'X<int a;', 'W<int, a;', 'V<int,, int> a;', 'V<,> a;', 'X<> a;', 'X<int, int> a;', 'I<int> a;', 'X<1> a;', 'V<int...> a;', 'V<struct Q {}> a;', 'X<decltype(> a;',
                'typedef V<int, X<int> > T; T::', 'V<int>::type a;', 'template<class... U> struct Y : V<U...> {}; Y<int, int', 'template<class... U> using Z = V<U...>; Z<int,']:
        for cut in range(len(use) + 1):
            if cut == len(use) or use[cut] in ' <>,;(':
                add('template-id', prelude + use[:cut])
                add('template-id', prelude + use[:cut] + '\n')
    # a member typedef / alias of a template-dependent (or plain) type used as a scope qualifier: the unwrapping loops of find_scope / find_type
    for s_ in ['template<class T> struct A { typedef typename T::inner inner_t; typename inner_t::other y; };',
               'template<class T> struct A { using inner_t = typename T::inner; typename inner_t::other f(); };',
               'template<class T> struct A { typedef T self_t; typename self_t::x y; };',
               'template<class T> struct A { typedef typename T::a a_t; typedef typename a_t::b b_t; typename b_t::c z; };',
               'template<class T> struct A { typedef A<T> me; typename me::me::me m; };',
               'template<class T> struct A { typedef typename T::template R<int> r_t; typename r_t::q y; };',
               'struct S { typedef int I; I::x y; };', 'struct S { typedef S Me; Me::Me::Me *p; };', 'typedef struct Fwd F; F::x y;',
               'template<class T> struct A { typedef const T ct; typename ct::v w; };', 'template<class T> struct A { typedef T *pt; typename pt::v w; };',
               'template<class T> using Al = typename T::type; template<class T> struct B { typename Al<T>::x y; };',
               'template<class T> struct A { typedef typename T::inner inner_t; int f(typename inner_t::other = typename inner_t::other()); };',
               'template<class T> struct A { typedef typename T::inner inner_t; }; template<class T> struct B : A<T>::inner_t::base {};']:
        add('dependent-scope', s_ + '\n')
        add('dependent-scope', s_ + '\nA<int> inst;\n')
        add('dependent-scope', '// ' + s_[:20] + '\n' + s_)
    # nesting depth
    for n in [50, 500, 5000]:
        add('depth', 'int x = ' + '(' * n + '1' + ')' * n + ';\n')
        add('depth', 'int x = ' + '(' * n + '1;\n')
        add('depth', 'int x = ' + '-' * n + '1;\n')
        add('depth', 'int x = ' + '1+' * n + '1;\n')
        add('depth', '#if ' + '(' * n + '1' + ')' * n + '\n#endif\n')
        add('depth', '#if ' + '!' * n + '1\n#endif\n')
        add('depth', '#if 1\n' * n + '#endif\n' * n)
        add('depth', '#if 1\n' * n)
        add('depth', '#endif\n' * n)
        add('depth', 'namespace a {' * n + '}' * n)
        add('depth', 'struct a {' * n + '};' * n)
        add('depth', 'struct a {' * n)
        add('depth', 'template<class T = ' * min(n, 500) + 'int' + '>' * min(n, 500) + ' class A;')
        add('depth', 'A<' * n + 'int' + '>' * n + ' x;')
        add('depth', 'int ' + '*' * n + 'p;')
        add('depth', 'int ' + '(*' * n + 'p' + ')' * n + ';')
        add('depth', 'int p' + '[1]' * n + ';')
        add('depth', 'int f(' * min(n, 500) + ')' * min(n, 500) + ';')
        add('depth', ''.join('#define M%d M%d\n' % (i, i + 1) for i in range(n)) + 'M0\n')
        add('depth', ''.join('#define M%d(x) M%d(x)\n' % (i, i + 1) for i in range(min(n, 500))) + 'M0(1)\n')
    return out


DEFINES = ['', '=', '=1', 'X', 'X=', 'X=1', 'X =1', ' X=1', 'X(', 'X(a', 'X(a)', 'X(a)=a', 'X(a=1', 'X(a)=#', 'X(a)=a##', 'X(...)=__VA_OPT__(', 'X=(', 'X="', "X='", 'X=\\', 'X=/*', 'X=#', 'X=##', 'X=X', 'X=R"(',
           '1', '1=1', '(', ')', '"', '#', '=X=', 'X=1=2', 'X\n', 'X=\n', 'X(\n', '\xff', 'X=\xff', 'defined', 'defined=1', '__FILE__=1', '__LINE__', 'X(a,)=a', 'X(,)', 'X()', 'X()=', 'X( )= ', 'X(a, b)=a b',
           'X(a,...)=a', 'X(a...)=a', 'X(...a)=a', '(a)=1', ' ', '\t=1', 'X\t=1', 'X=\t']

NFILE_LINES = ['', ' ', '#', '# x', 'forcetype', 'forcetype ', 'forcetype A', 'forcetype A<', 'forcetype A<int>', 'forcetype (', 'forcetype int (', 'forcetype 1', 'forcetype "', "forcetype '", 'forcetype \\',
               'forcetype A::', 'forcetype ::', 'forcetype class', 'forcetype const', 'forcetype int [', 'forcetype int [1/0]', 'forcetype decltype(', 'forcetype decltype(1/0)', 'forcetype void',
               'forcetype A #c', 'renametype', 'renametype A', 'renametype A ', 'renametype A B', 'renametype  B', 'renametype A  B', 'renametype A B C', 'ignoretype', 'ignoretype A', 'ignoretype (',
               'defconstruct', 'defconstruct A', 'defconstruct A ', 'defconstruct A A(', 'defconstruct A A(0)', 'defconstruct ( (', 'forcevisible', 'forcevisible A', 'forcevisible (', 'ignoreinvolved',
               'ignoreinvolved A', 'ignorefile', 'ignorefile a.h', 'ignorefile a.h,b.h', 'ignorefile ,', 'ignorefile ,,', 'ignoremember', 'ignoremember f', 'ignoremember f,,g', 'noinclude', 'noinclude a.h',
               'forceinclude', 'forceinclude "', 'forceinclude ""', 'forceinclude <', 'forceinclude <>', 'forceinclude "a.h"', 'forceinclude <a.h>', 'forceinclude "a.h', 'forceinclude a.h"', 'forceinclude <a.h"',
               'unknown', 'unknown x y', '\x00', 'forcetype \x00', '\xff\xff', 'forcetype \xff', 'forcetype A\r', '\tforcetype\tA\t', 'FORCETYPE A', 'forcetypeA', 'forcetype' + ' A' * 500,
               'forcetype ' + 'A<' * 300, 'forcetype ' + '(' * 300]
