"""Name-lookup scenarios for C06: same-named types of distinct sizes in different scopes.  Every struct S has a data
member `T *ref;` and a method `void probe(T *p);` written with the same (unqualified / qualified / global) type name;
the database records the parameter type of S::probe by its true name, which must denote the type of S::ref."""


def gen(rng, idx):
    sizes = iter(range(1, 80))
    L = []
    structs = []

    def T(indent):
        return '%sstruct T { char x[%d]; };' % (indent, next(sizes))

    counter = [0]

    def probe(indent, name, spelling, qual):
        counter[0] += 1
        structs.append((qual, 'ref_%d_%d' % (idx, counter[0])))
        return ['%sstruct %s {' % (indent, name), '%spublic:' % indent, '%s  %s *ref_%d_%d;' % (indent, spelling, idx, counter[0]), '%s};' % indent]

    L.append(T(''))
    nsn = ['A', 'B']
    has_t = {}
    for ns in nsn:
        L.append('namespace %s {' % ns)
        has_t[ns] = rng.random() < 0.7
        if has_t[ns]:
            L.append(T('  '))
        L.append('  struct Base%s {' % ns)
        L.append('  public:')
        L.append('    char b[%d];' % next(sizes))
        if rng.random() < 0.4:
            L.append(T('    '))
        L.append('  };')
        sp = rng.choice(['T', '::T', 'T'] + (['%s::T' % ns] if has_t[ns] else []))
        L += probe('  ', 'In%s' % ns, sp, '%s::In%s' % (ns, ns))
        L.append('}')
    k = rng.choice(nsn)
    o = nsn[1 - nsn.index(k)]
    sp = rng.choice(['T', 'T', '::T'] + (['%s::T' % o] if has_t[o] else []))
    L.append('struct D%d : public %s::Base%s {' % (idx, k, k))
    L.append('public:')
    L.append('  %s *ref_%d_0;' % (sp, idx))
    L.append('};')
    structs.append(('D%d' % idx, 'ref_%d_0' % idx))
    L.append('struct Outer%d {' % idx)
    L.append('public:')
    if rng.random() < 0.6:
        L.append(T('  '))
    L += probe('  ', 'Inner', rng.choice(['T', '::T']), 'Outer%d::Inner' % idx)
    L.append('};')
    return '\n'.join(L) + '\n', structs
