"""Synthetic interrogate databases (C11/C12/C13/C20): random but referentially closed,
canonical numbering (wrappers 1..W, then functions, types, manifests, elements, make_seqs),
adversarial strings.  The dict layout mirrors coq/C12/Defs.v and the s-expression
format of ocaml/c12/driver.ml."""

ADV = [b'', b' ', b'a b', b'line1\nline2', b'"quoted"', b"it's", b'12 34', b'0', b'\xff\xfe', b'caf\xc3\xa9', b'tab\there', b'trail ',
       b' lead', b'\n', b'x' * 70, b'a\\b', b'5 hello', b'-1', b'\x01\x02']


def hx(b):
    return 's:' + b.hex()


class DbGen:
    def __init__(self, rng, flags, sizes=None, adversarial=True):
        self.rng = rng
        self.fl = flags
        self.adv = adversarial
        r = rng
        self.nw, self.nf, self.nt, self.nm, self.ne, self.ns = sizes or (
            r.randrange(0, 6), r.randrange(0, 6), r.randrange(1, 7), r.randrange(0, 3), r.randrange(0, 4), r.randrange(0, 3))
        base = 1
        self.W = list(range(base, base + self.nw)); base += self.nw
        self.F = list(range(base, base + self.nf)); base += self.nf
        self.T = list(range(base, base + self.nt)); base += self.nt
        self.M = list(range(base, base + self.nm)); base += self.nm
        self.E = list(range(base, base + self.ne)); base += self.ne
        self.S = list(range(base, base + self.ns)); base += self.ns
        self.next = base
        self.uid = 0

    def s(self, ident=False):
        r = self.rng
        self.uid += 1
        if ident or not self.adv or r.random() < 0.5:
            return ('n%d_%s' % (self.uid, r.choice(['a', 'Foo', 'get_x', 'operator +', 'A::B']))).encode()
        return r.choice(ADV)

    def ref(self, pool, zero=0.3):
        if not pool or self.rng.random() < zero:
            return 0
        return self.rng.choice(pool)

    def refs(self, pool, maxn=3):
        if not pool:
            return []
        return [self.rng.choice(pool) for _ in range(self.rng.randrange(0, maxn + 1))]

    def bits(self, prefix, exclude=()):
        v = 0
        for k, b in self.fl.items():
            if k.startswith(prefix) and k not in exclude and self.rng.random() < 0.3:
                v |= b
        return v

    def comp(self, name=None):
        return {'name': name if name is not None else self.s(), 'alts': [self.s() for _ in range(self.rng.choice([0, 0, 0, 1, 2]))]}

    def make(self):
        r = self.rng
        fl = self.fl
        db = {'lib': self.s(True), 'libhash': self.s(True), 'module': self.s(True)}
        funcs = {}
        for i in self.F:
            funcs[i] = {'comp': self.comp(), 'flags': self.bits('Function.F_', ('Function.F_constructor', 'Function.F_destructor')),
                        'cls': self.ref(self.T), 'scoped': self.s(), 'cw': self.refs(self.W), 'pw': self.refs(self.W),
                        'comment': self.s(), 'proto': self.s()}
        wraps = {}
        for i in self.W:
            wraps[i] = {'comp': self.comp(), 'flags': self.bits('FunctionWrapper.F_'), 'function': self.ref(self.F), 'rettype': self.ref(self.T),
                        'retdtor': self.ref(self.F), 'unique': self.s(True), 'comment': self.s(),
                        'params': [{'name': self.s(), 'flags': self.bits('FunctionWrapper.PF_'), 'type': self.ref(self.T, 0.1)} for _ in range(r.randrange(0, 4))]}
        types = {}
        for i in self.T:
            tfl = self.bits('Type.F_', ('Type.F_array',))
            arr = None
            if r.random() < 0.25:
                tfl |= fl['Type.F_array']
                arr = r.choice([0, 1, 5, 2147483647, -1])
            t = {'comp': self.comp(), 'flags': tfl, 'scoped': self.s(), 'true': ('T%d_%d' % (i, r.randrange(1000))).encode() if r.random() < 0.8 else self.s(),
                 'outer': self.ref(self.T), 'atomic': r.randrange(0, 10), 'wrapped': self.ref(self.T), 'array': arr,
                 'ctors': self.refs(self.F, 2), 'dtor': self.ref(self.F, 0.5), 'elements': self.refs(self.E), 'methods': self.refs(self.F),
                 'makeseqs': self.refs(self.S, 2), 'casts': self.refs(self.F, 2),
                 'derivs': [{'flags': self.bits('Type.DF_'), 'base': self.ref(self.T, 0.0), 'upcast': self.ref(self.F), 'downcast': self.ref(self.F)}
                            for _ in range(r.choice([0, 0, 1, 2]))],
                 'enums': [{'name': self.s(), 'scoped': self.s(), 'comment': self.s(), 'value': r.choice([0, 1, -1, 2147483647, -2147483648, 42])}
                           for _ in range(r.choice([0, 0, 1, 3]))],
                 'nested': self.refs(self.T, 2), 'comment': self.s()}
            types[i] = t
            if t['dtor']:
                funcs[t['dtor']]['flags'] |= fl['Function.F_destructor']
            for c in t['ctors']:
                funcs[c]['flags'] |= fl['Function.F_constructor']
        manis = {i: {'comp': self.comp(), 'flags': self.bits('Manifest.F_'), 'int': r.choice([0, 7, -3, 2147483647]), 'type': self.ref(self.T),
                     'getter': self.ref(self.F), 'def': self.s()} for i in self.M}
        elems = {i: {'comp': self.comp(), 'flags': self.bits('Element.F_'), 'type': self.ref(self.T), 'getter': self.ref(self.F), 'setter': self.ref(self.F),
                     'has': self.ref(self.F), 'clear': self.ref(self.F), 'del': self.ref(self.F), 'length': self.ref(self.F),
                     'insert': self.ref(self.F), 'getkey': self.ref(self.F), 'scoped': self.s(), 'comment': self.s()} for i in self.E}
        seqs = {i: {'comp': self.comp(), 'lenget': self.ref(self.F), 'elemget': self.ref(self.F), 'scoped': self.s(), 'comment': self.s()} for i in self.S}
        db.update(functions=funcs, wrappers=wraps, types=types, manifests=manis, elements=elems, makeseqs=seqs)
        return db


def zl(l):
    return '(' + ' '.join(str(x) for x in l) + ')'


def comp_s(c):
    return '(%s (%s))' % (hx(c['name']), ' '.join(hx(a) for a in c['alts']))


def sexp(db):
    def sect(d, f):
        return '(' + ' '.join('(%d %s)' % (i, f(d[i])) for i in sorted(d)) + ')'

    def fn(f):
        return '(%s %d %d %s %s %s %s %s)' % (comp_s(f['comp']), f['flags'], f['cls'], hx(f['scoped']), zl(f['cw']), zl(f['pw']), hx(f['comment']), hx(f['proto']))

    def wr(w):
        ps = '(' + ' '.join('(%s %d %d)' % (hx(p['name']), p['flags'], p['type']) for p in w['params']) + ')'
        return '(%s %d %d %d %d %s %s %s)' % (comp_s(w['comp']), w['flags'], w['function'], w['rettype'], w['retdtor'], hx(w['unique']), hx(w['comment']), ps)

    def ty(t):
        de = '(' + ' '.join('(%d %d %d %d)' % (d['flags'], d['base'], d['upcast'], d['downcast']) for d in t['derivs']) + ')'
        en = '(' + ' '.join('(%s %s %s %d)' % (hx(e['name']), hx(e['scoped']), hx(e['comment']), e['value']) for e in t['enums']) + ')'
        return '(%s %d %s %s %d %d %d %s %s %d %s %s %s %s %s %s %s %s)' % (
            comp_s(t['comp']), t['flags'], hx(t['scoped']), hx(t['true']), t['outer'], t['atomic'], t['wrapped'],
            '-' if t['array'] is None else str(t['array']), zl(t['ctors']), t['dtor'], zl(t['elements']), zl(t['methods']),
            zl(t['makeseqs']), zl(t['casts']), de, en, zl(t['nested']), hx(t['comment']))

    def ma(m):
        return '(%s %d %d %d %d %s)' % (comp_s(m['comp']), m['flags'], m['int'], m['type'], m['getter'], hx(m['def']))

    def el(e):
        return '(%s %d %d %d %d %d %d %d %d %d %d %s %s)' % (comp_s(e['comp']), e['flags'], e['type'], e['getter'], e['setter'], e['has'], e['clear'],
                                                               e['del'], e['length'], e['insert'], e['getkey'], hx(e['scoped']), hx(e['comment']))

    def sq(s):
        return '(%s %d %d %s %s)' % (comp_s(s['comp']), s['lenget'], s['elemget'], hx(s['scoped']), hx(s['comment']))
    return '((%s %s %s) %s %s %s %s %s %s)' % (hx(db['lib']), hx(db['libhash']), hx(db['module']), sect(db['functions'], fn), sect(db['wrappers'], wr),
                                              sect(db['types'], ty), sect(db['manifests'], ma), sect(db['elements'], el), sect(db['makeseqs'], sq))


def size(db):
    return sum(len(db[k]) for k in ('functions', 'wrappers', 'types', 'manifests', 'elements', 'makeseqs'))
