"""Generator of well-nested conditional-inclusion trees (C09).

group  = [item, ...]
item   = ('text', id) | ('define', m, v) | ('undef', m) | ('error', id) | ('cond', [(cond, group), ...], else_group_or_None)
cond   = ('if', expr) | ('ifdef', m) | ('ifndef', m)        expr refs: 2m = value of macro m, 2m+1 = defined(m)
"""
from gen import exprs as X

NMAC = 4
COND_OPS = [o for o in X.BIN if o != 'comma']


class Gen:
    def __init__(self, rng):
        self.rng = rng
        self.next_id = 0

    def fresh(self):
        self.next_id += 1
        return self.next_id

    def cond(self):
        r = self.rng.random()
        if r < 0.2:
            return ('ifdef', self.rng.randrange(NMAC))
        if r < 0.4:
            return ('ifndef', self.rng.randrange(NMAC))
        if r < 0.55:
            return ('if', ('lit', self.rng.choice([0, 1, 0, 2])))
        if r < 0.7:
            return ('if', ('ref', self.rng.randrange(2 * NMAC)))
        return ('if', X.gen(self.rng, self.rng.choice([1, 2, 2, 3]), nrefs=2 * NMAC, ops=COND_OPS,
                            lits=[0, 1, 2, 3, 5, 7, 100, 65536, 2147483647], casts=False))

    def group(self, depth, maxlen=4):
        n = self.rng.randrange(0, maxlen + 1)
        return [self.item(depth) for _ in range(n)]

    def item(self, depth):
        r = self.rng.random()
        if depth > 0 and r < 0.45:
            nb = self.rng.choice([1, 1, 2, 2, 3, 4])
            brs = [(self.cond(), self.group(depth - 1, 3)) for _ in range(nb)]
            els = self.group(depth - 1, 3) if self.rng.random() < 0.5 else None
            return ('cond', brs, els)
        if r < 0.7:
            return ('text', self.fresh())
        if r < 0.85:
            return ('define', self.rng.randrange(NMAC - 1), self.rng.choice([0, 1, 5, -3, 100, 7]))
        if r < 0.95:
            return ('undef', self.rng.randrange(NMAC - 1))
        return ('error', self.fresh())


def cond_sexp(c):
    if c[0] == 'if':
        return '(if %s)' % X.sexp(c[1])
    return '(%s %d)' % c


def sexp(g):
    out = []
    for it in g:
        if it[0] == 'cond':
            parts = ['(%s %s)' % (cond_sexp(c), sexp(b)) for c, b in it[1]]
            if it[2] is not None:
                parts.append('(else %s)' % sexp(it[2]))
            out.append('(cond %s)' % ' '.join(parts))
        else:
            out.append('(' + ' '.join(str(x) for x in it) + ')')
    return '(' + ' '.join(out) + ')'


def ref_name(i, rng=None):
    m = i // 2
    if i % 2 == 0:
        return 'M%d' % m
    return 'defined(M%d)' % m


class Names:
    """list-like: names[i] -> macro value / defined() spelling"""
    def __getitem__(self, i):
        return ref_name(i)


def respell(text):
    """the same integer constants in other spellings: hexadecimal, binary, L suffix (the value in a #if does not change)"""
    import re

    def sp(m):
        v = int(m.group(0))
        k = v % 5
        if k == 1:
            return hex(v)
        if k == 2:
            return '%dL' % v
        if k == 3:
            return '0X%X' % v
        if k == 4 and v < 4096:
            return bin(v)
        return m.group(0)
    return re.sub(r'(?<![A-Za-z_0-9])\d+(?![A-Za-z_0-9])', sp, text)


HAS_INCLUDE = ['__has_include("%s")', '__has_include(<%s>)', '__has_include( "%s" )', '__has_include("%s" )', '__has_include( <%s>)', '__has_include(<%s> )', '__has_include ("%s")']
_hi = [0]


def cond_text(c, first):
    if c[0] == 'if':
        if c[1] in (('lit', 0), ('lit', 1)) and _hi[0] % 3 != 2:
            # the constants 0 and 1 are also spelled as __has_include of a header that is absent / present (present.h sits beside the test file)
            _hi[0] += 1
            return ('#if ' if first else '#elif ') + HAS_INCLUDE[_hi[0] % len(HAS_INCLUDE)] % ('present.h' if c[1][1] else 'absent.h')
        _hi[0] += 1
        return ('#if ' if first else '#elif ') + respell(X.minimal(c[1], Names()))
    if c[0] == 'ifdef':
        return ('#ifdef M%d' if first else '#elifdef M%d') % c[1]
    return ('#ifndef M%d' if first else '#elifndef M%d') % c[1]


def render(g, indent=0):
    lines = []
    for it in g:
        k = it[0]
        if k == 'text':
            lines.append('int m_%d;' % it[1])
        elif k == 'define':
            lines.append('#define M%d (%d)' % (it[1], it[2]))
        elif k == 'undef':
            lines.append('#undef M%d' % it[1])
        elif k == 'error':
            lines.append('#error e_%d' % it[1])
        else:
            for j, (c, b) in enumerate(it[1]):
                lines.append(cond_text(c, j == 0))
                lines += render(b)
            if it[2] is not None:
                lines.append('#else')
                lines += render(it[2])
            lines.append('#endif')
    return lines


def probes():
    return ['int v_%d = M%d;' % (m, m) for m in range(NMAC)]


def count_directives(g):
    n = 0
    for it in g:
        if it[0] == 'cond':
            n += len(it[1]) + 1 + (1 if it[2] is not None else 0)
            for c, b in it[1]:
                n += count_directives(b)
            if it[2] is not None:
                n += count_directives(it[2])
        elif it[0] != 'text':
            n += 1
    return n


def depth(g):
    d = 0
    for it in g:
        if it[0] == 'cond':
            d = max(d, 1 + max([depth(b) for c, b in it[1]] + [depth(it[2]) if it[2] is not None else 0]))
    return d


def shape(g):
    out = []
    for it in g:
        if it[0] == 'cond':
            out.append('[' + ','.join(c[0] + ':' + shape(b) for c, b in it[1]) + (',else:' + shape(it[2]) if it[2] is not None else '') + ']')
        else:
            out.append(it[0][0])
    return ''.join(out)


def shrink_candidates(g):
    """smaller variants of a group"""
    for i, it in enumerate(g):
        yield g[:i] + g[i + 1:]
        if it[0] == 'cond':
            brs, els = it[1], it[2]
            for j, (c, b) in enumerate(brs):
                yield g[:i] + b + g[i + 1:]
                if len(brs) > 1:
                    yield g[:i] + [('cond', brs[:j] + brs[j + 1:], els)] + g[i + 1:]
                if c != ('if', ('lit', 0)):
                    yield g[:i] + [('cond', brs[:j] + [(('if', ('lit', 0)), b)] + brs[j + 1:], els)] + g[i + 1:]
                if c != ('if', ('lit', 1)):
                    yield g[:i] + [('cond', brs[:j] + [(('if', ('lit', 1)), b)] + brs[j + 1:], els)] + g[i + 1:]
                for b2 in shrink_candidates(b):
                    yield g[:i] + [('cond', brs[:j] + [(c, b2)] + brs[j + 1:], els)] + g[i + 1:]
            if els is not None:
                yield g[:i] + [('cond', brs, None)] + g[i + 1:]
                for e2 in shrink_candidates(els):
                    yield g[:i] + [('cond', brs, e2)] + g[i + 1:]


def enumerate_small(max_items, depth, ids=None):
    """all groups with at most max_items items over a small alphabet (exhaustive small scope)"""
    conds = [('if', ('lit', 0)), ('if', ('lit', 1)), ('ifdef', 0), ('ifndef', 0)]
    counter = [0]

    def fresh():
        counter[0] += 1
        return counter[0]

    def groups(n, d):
        # groups with exactly n "cost" units
        if n == 0:
            yield []
            return
        for first_cost in range(1, n + 1):
            for it in items(first_cost, d):
                for rest in groups(n - first_cost, d):
                    yield [it] + rest

    def items(cost, d):
        if cost == 1:
            yield ('text', 0)
            yield ('define', 0, 1)
            yield ('undef', 0)
        if d > 0:
            for c in conds:
                for b in groups(cost - 1, d - 1):
                    yield ('cond', [(c, b)], None)
                if cost >= 2:
                    for b in groups(cost - 2, d - 1):
                        yield ('cond', [(c, b)], [('text', 0)])
                if cost >= 3:
                    for c2 in conds:
                        for b in groups(cost - 3, d - 1):
                            yield ('cond', [(c, [('text', 0)]), (c2, b)], None)
                            yield ('cond', [(c, b), (c2, [('define', 0, 1)])], [('text', 0)])
    for n in range(0, max_items + 1):
        for g in groups(n, depth):
            yield g


def renumber(g, counter=None):
    counter = counter if counter is not None else [0]
    out = []
    for it in g:
        if it[0] in ('text', 'error'):
            counter[0] += 1
            out.append((it[0], counter[0]))
        elif it[0] == 'cond':
            brs = [(c, renumber(b, counter)) for c, b in it[1]]
            els = renumber(it[2], counter) if it[2] is not None else None
            out.append(('cond', brs, els))
        else:
            out.append(it)
    return out
