"""Headers whose function signatures collide in interrogate's 24-bit signature hash (C03, C11).

Three constructions, all driven by the extracted Coq model of hash_string:
  birthday : brute-force search for two signatures with equal hash_string(sig, 5)
  double   : hash_acc adds each character shifted by (position*offset mod 24); the shift has period 24 for
             offsets 5 and 11, so swapping two characters 24 positions apart preserves BOTH hashes
  many     : k independent swap pairs give 2^k signatures that all share h5 and h11 (k=5 -> 32 > 26 letters)
"""
import itertools

import vlib

PTYPES = ['int', 'float', 'double', 'bool', 'char', 'short', 'long']
WORDS = ['get', 'set', 'has', 'is', 'clear', 'reset', 'make', 'find', 'add', 'remove', 'count', 'update', 'apply', 'compute']
NOUNS = ['transform', 'rate', 'anim', 'mutex', 'child', 'parent', 'state', 'color', 'name', 'value', 'size', 'index', 'node', 'path', 'bound', 'mask', 'flag', 'time']


SIGNAME = {'short': 'short int', 'long': 'long int'}     # CPPSimpleType::get_local_name spells the int out


def sig_text(cls, name, ptypes, const):
    return '%s::%s(%s)%s' % (cls, name, ', '.join(SIGNAME.get(t, t) for t in ptypes), ' const' if const else '')


def hashes(sigs, off=5):
    return vlib.run_model('C03', 'hash', ['(%d s:%s)' % (off, s.encode().hex()) for s in sigs])


def birthday(rng, cls='Node', want=2, budget=30000):
    """returns list of groups; each group = list of (name, ptypes, const) sharing h5"""
    cands = []
    seen = set()
    while len(cands) < budget:
        name = '%s_%s' % (rng.choice(WORDS), rng.choice(NOUNS))
        if rng.random() < 0.5:
            name += '_%s' % rng.choice(NOUNS)
        pt = tuple(rng.choice(PTYPES) for _ in range(rng.choice([0, 1, 1, 2])))
        const = rng.random() < 0.3
        key = (name, pt)
        if key in seen:
            continue
        seen.add(key)
        cands.append((name, list(pt), const))
    hs = hashes([sig_text(cls, *c) for c in cands])
    by = {}
    for c, h in zip(cands, hs):
        by.setdefault(h, []).append(c)
    groups = []
    for h, g in by.items():
        # method names must be distinct within a class (overloads with equal names are fine in C++ but keep it simple)
        names = set()
        gg = []
        for c in g:
            if c[0] not in names:
                names.add(c[0])
                gg.append(c)
        if len(gg) >= 2:
            groups.append(gg)
    rng.shuffle(groups)
    return groups[:want]


def swap_variants(rng, cls, k):
    """2^k method names (same length >= 24+k) whose signatures share h5 AND h11: position p and p+24 of the
    signature string carry swapped letters."""
    prefix = len(cls) + 2
    # method name layout: positions 0..k-1 are 'a'/'b' letters, positions 24..24+k-1 their partners
    base = ['x'] * (24 + k)
    out = []
    for bits in itertools.product([0, 1], repeat=k):
        n = list(base)
        for i, bt in enumerate(bits):
            a, b2 = ('p', 'q') if bt == 0 else ('q', 'p')
            n[i] = a
            n[24 + i] = b2
        out.append('m' + ''.join(n))   # leading 'm' keeps it an identifier whatever the letters are
    return out


def header(cls, methods, extra=''):
    lines = ['class %s {' % cls, '__published:']
    for name, ptypes, const in methods:
        ps = ', '.join('%s a%d' % (t, i) for i, t in enumerate(ptypes))
        lines.append('  void %s(%s)%s;' % (name, ps, ' const' if const else ''))
    lines.append('};')
    return '#ifndef CPPPARSER\n#define __published public\n#endif\n' + '\n'.join(lines) + '\n' + extra


def expected_hash_parts(sigs_in_order):
    """model names (hash parts) for signatures processed in the given order; returns (errors, [names])"""
    out = vlib.run_model('C03', 'assign', ['(' + ' '.join('s:' + s.encode().hex() for s in sigs_in_order) + ')'])[0]
    parts = out.split()
    return int(parts[0].split('=')[1]), parts[1:]
