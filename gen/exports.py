"""Worlds for C04: headers spread over command-line / cwd / -I / -S files with interleaved visibility sections, publish regions,
nested protected classes, static / deleted / template members, rvalue references, arrays, typedefs; a .N command file; -promiscuous.
The generator keeps the facts of every entity it writes."""

VIS = ['published', 'public', 'protected', 'private']
KW = {'published': '__published', 'public': 'public', 'protected': 'protected', 'private': 'private'}


def gen_world(rng):
    w = {'promiscuous': rng.random() < 0.35, 'files': [], 'classes': [], 'n': {'ignoremember': [], 'ignoreinvolved': [], 'ignoretype': [], 'ignorefile': []},
         # how the names of a .N line are separated: blanks, tabs or runs of both
         'nsep': rng.choice([' ', ' ', '\t', '  ', ' \t', '\t\t']), 'csep': rng.choice([' ', ' ', '\t'])}
    hows = ['cmdline'] + rng.sample(['cwd', 'alt', 'sys', 'cmdline2'], rng.randrange(1, 4))
    if rng.random() < 0.35:
        # a command-line file in a subdirectory with a sibling header it includes by quote: the sibling is neither named nor in the working directory
        hows += ['cmdline3', 'sibling']
    cid = [0]
    eid = [0]

    def fresh():
        eid[0] += 1
        return eid[0]

    for how in hows:
        f = {'how': how, 'name': {'cmdline': 'main.h', 'cmdline2': 'second.h', 'cwd': 'cwd_inc.h', 'alt': 'alt_inc.h', 'sys': 'sys_inc.h', 'cmdline3': 'third.h', 'sibling': 'sib_inc.h'}[how], 'items': []}
        w['files'].append(f)
        for _ in range(rng.randrange(1, 3)):
            k = {'kind': 'class', 'id': cid[0], 'name': 'K%d' % cid[0], 'file': f, 'region': rng.random() < 0.3, 'template': rng.random() < 0.08,
                 'keyword': rng.choice(['class', 'struct']), 'members': [], 'prot_nested': rng.random() < 0.5, 'prot_vis': rng.choice(['protected', 'private'])}
            cid[0] += 1
            w['classes'].append(k)
            f['items'].append(k)
    # members and globals (may mention any class of a file that is visible, i.e. any: all headers are included by main.h before use)
    allk = w['classes']

    cur_file = [None]

    def visible(f):
        """classes whose name is declared when file f is read: its own, those of the headers it includes"""
        if f['how'] == 'cmdline':
            return [c for c in allk if c['file']['how'] in ('cmdline', 'cwd', 'alt', 'sys')]
        if f['how'] == 'cmdline2':
            return [c for c in allk if c['file']['how'] not in ('cmdline3', 'sibling')]
        if f['how'] == 'cmdline3':
            return [c for c in allk if c['file']['how'] in ('cmdline3', 'sibling')]
        return [c for c in allk if c['file'] is f]

    def gen_type(owner=None):
        """returns (source text, model sexp, python description)"""
        r = rng.random()
        if r < 0.45:
            return rng.choice(['int', 'double', 'bool']), 's'
        if owner is not None and owner['prot_nested'] and r < 0.7:
            # the protected nested class itself, or a public class / enum nested inside it (equally unnameable from outside)
            which = rng.choice(['P', 'P', 'P::Deep', 'P::DE'])
            base, sx = '%s::%s' % (owner['name'], which), '(c %d)' % (100 + owner['id'])
            if which == 'P::DE':
                return base, sx
        else:
            pool = [c for c in visible(owner['file'] if owner is not None else cur_file[0]) if not c['template']]
            if not pool:
                return 'int', 's'
            k = rng.choice(pool)
            base, sx = k['name'], '(c %d)' % k['id']
        m = rng.choice(['ptr', 'cptr', 'ref', 'cref', 'rref', 'arrref', 'typedef', 'val', 'ptrptr'])
        if m == 'ptr':
            return base + ' *', '(p %s)' % sx
        if m == 'cptr':
            return 'const ' + base + ' *', '(p (k %s))' % sx
        if m == 'ref':
            return base + ' &', '(r 0 %s)' % sx
        if m == 'cref':
            return 'const ' + base + ' &', '(r 0 (k %s))' % sx
        if m == 'rref':
            return base + ' &&', '(r 1 %s)' % sx
        if m == 'arrref':
            return ('ARR', base), '(r 0 (a %s))' % sx        # reference to array: needs a declarator
        if m == 'ptrptr':
            return base + ' **', '(p (p %s))' % sx
        if m == 'typedef':
            return ('TD', base), '(t 9999 (p %s))' % sx       # typedef to pointer (declared beside the use)
        return base, sx

    def gen_fn(name, owner=None):
        nparams = rng.randrange(0, 3)
        ps = [gen_type(owner) for _ in range(nparams)]
        rt = gen_type(owner) if rng.random() < 0.3 else ('void', 's')
        if isinstance(rt[0], tuple):
            rt = ('void', 's')
        return {'name': name, 'params': ps, 'ret': rt}

    for k in allk:
        nm = rng.randrange(1, 6)
        for _ in range(nm):
            r = rng.random()
            vis = rng.choice(VIS)
            if r < 0.6:
                fn = gen_fn('m%d' % fresh(), k)
                fn.update(kind='method', vis=vis, static=rng.random() < 0.15, deleted=rng.random() < 0.1, template=rng.random() < 0.08, dtor=False, gct=False)
                k['members'].append(fn)
            elif r < 0.7 and not any(m.get('gct') for m in k['members']):
                k['members'].append({'kind': 'method', 'name': 'get_class_type', 'params': [], 'ret': ('int', 's'), 'vis': vis, 'static': rng.random() < 0.8, 'deleted': False,
                                     'template': False, 'dtor': False, 'gct': True})
            elif r < 0.8 and not any(m.get('dtor') for m in k['members']):
                k['members'].append({'kind': 'method', 'name': '~' + k['name'], 'params': [], 'ret': None, 'vis': vis, 'static': False, 'deleted': False, 'template': False,
                                     'dtor': True, 'gct': False})
            else:
                k['members'].append({'kind': 'element', 'name': 'e%d' % fresh(), 'vis': vis})
        rng.shuffle(k['members'])
        # a __begin_publish ... __end_publish region inside the body: its members are published, the section continues afterwards with its own visibility
        k['members'].sort(key=lambda m: VIS.index(m['vis']))          # group by section so that a region can sit inside one
        if not k['region'] and len(k['members']) >= 2 and rng.random() < 0.4:
            i = rng.randrange(len(k['members']))
            v = k['members'][i]['vis']
            j = i
            while j + 1 < len(k['members']) and k['members'][j + 1]['vis'] == v and rng.random() < 0.5:
                j += 1
            if j + 1 < len(k['members']) and k['members'][j + 1]['vis'] == v or rng.random() < 0.5:
                for m in k['members'][i:j + 1]:
                    m['pubregion'] = True
    for f in w['files']:
        cur_file[0] = f
        for _ in range(rng.randrange(1, 5)):
            r = rng.random()
            region = rng.random() < 0.5
            if r < 0.5:
                fn = gen_fn('g%d' % fresh())
                fn.update(kind='function', region=region, static=rng.random() < 0.12, deleted=rng.random() < 0.08, template=rng.random() < 0.08)
                f['items'].append(fn)
            elif r < 0.65:
                f['items'].append({'kind': 'enum', 'name': 'E%d' % fresh(), 'region': region})
            elif r < 0.85:
                f['items'].append({'kind': 'manifest', 'name': 'MAN%d' % fresh(), 'region': region, 'fn_like': rng.random() < 0.25})
            else:
                f['items'].append({'kind': 'gelement', 'name': 'v%d' % fresh(), 'region': region})
        rng.shuffle(f['items'])
        # classes must precede their users: keep classes first
        f['items'].sort(key=lambda it: 0 if it['kind'] == 'class' else 1)
    # command file
    methods = [m['name'] for k in allk for m in k['members'] if m['kind'] == 'method' and not m['dtor'] and not m['gct']]
    if methods and rng.random() < 0.5:
        w['n']['ignoremember'] = rng.sample(methods, min(len(methods), rng.randrange(1, 3)))
    if rng.random() < 0.3:
        w['n']['ignoreinvolved'] = [rng.choice(allk)['name']]
    if rng.random() < 0.25:
        w['n']['ignoretype'] = [rng.choice(allk)['name']]
    cw = [f['name'] for f in w['files'] if f['how'] == 'cwd']
    if cw and rng.random() < 0.3:
        w['n']['ignorefile'] = cw
    return w


def type_decl(t, pname):
    """declaration text of a parameter of type t named pname; returns (prelude typedefs, text)"""
    if isinstance(t[0], tuple):
        tag, base = t[0]
        if tag == 'ARR':
            return '', '%s (&%s)[3]' % (base, pname)
        return 'TD', '%s' % pname
    return '', '%s %s' % (t[0], pname)


def render_fn(fn, indent, owner=None, tdcount=None):
    pre = []
    ps = []
    for i, t in enumerate(fn['params']):
        if isinstance(t[0], tuple) and t[0][0] == 'TD':
            tdcount[0] += 1
            td = 'TD%d' % tdcount[0]
            pre.append('%stypedef %s *%s;' % (indent, t[0][1], td))
            ps.append('%s a%d' % (td, i))
        else:
            ps.append(type_decl(t, 'a%d' % i)[1])
    if fn.get('dtor'):
        head = '%s()' % fn['name']
    else:
        head = '%s %s(%s)' % (fn['ret'][0], fn['name'], ', '.join(ps))
    q = ''
    if fn.get('template'):
        q += 'template<class T> '
    if fn.get('static'):
        q += 'static '
    return pre, '%s%s%s%s;' % (indent, q, head, ' = delete' if fn.get('deleted') else '')


def render_file(w, f):
    L = ['#ifndef G_%s' % f['name'].replace('.', '_').upper(), '#define G_%s' % f['name'].replace('.', '_').upper()]
    if f['how'] == 'cmdline':
        for g in w['files']:
            if g['how'] in ('cwd', 'alt'):
                L.append('#include "%s"' % g['name'])
            elif g['how'] == 'sys':
                L.append('#include <%s>' % g['name'])
    if f['how'] == 'cmdline2':
        L.append('#include "main.h"')
    if f['how'] == 'cmdline3':
        L.append('#include "sib_inc.h"')
    tdcount = w.setdefault('_td', [0])
    # forward declarations so that any class can be mentioned anywhere
    for k in w['classes']:
        if k['file'] is f:
            L.append(('template<class T> ' if k['template'] else '') + '%s %s;' % (k['keyword'], k['name']))
    for it in f['items']:
        if it['kind'] == 'class':
            k = it
            if k['region']:
                L.append('__begin_publish')
            L.append(('template<class T> ' if k['template'] else '') + '%s %s {' % (k['keyword'], k['name']))
            if k['prot_nested']:
                L.append('%s:' % k['prot_vis'])
                L.append('  class P { public: int x; class Deep { public: int y; }; enum DE { DE_a, DE_b }; };')
            cur = None
            inreg = False
            for m in k['members']:
                if inreg and not m.get('pubregion'):
                    L.append('__end_publish')
                    inreg = False
                if m['vis'] != cur:
                    L.append('%s:' % KW[m['vis']])
                    cur = m['vis']
                if m.get('pubregion') and not inreg:
                    L.append('__begin_publish')
                    inreg = True
                if m['kind'] == 'element':
                    L.append('  int %s;' % m['name'])
                else:
                    pre, txt = render_fn(m, '  ', k, tdcount)
                    L += pre
                    L.append(txt)
            if inreg:
                L.append('__end_publish')
            L.append('};')
            if k['region']:
                L.append('__end_publish')
        else:
            if it['region']:
                L.append('__begin_publish')
            if it['kind'] == 'function':
                pre, txt = render_fn(it, '', None, tdcount)
                L += pre
                L.append(txt)
            elif it['kind'] == 'enum':
                L.append('enum %s { %s_a, %s_b };' % (it['name'], it['name'], it['name']))
            elif it['kind'] == 'manifest':
                L.append('#define %s%s 17' % (it['name'], '(x)' if it['fn_like'] else ''))
            else:
                L.append('extern int %s;' % it['name'])
            if it['region']:
                L.append('__end_publish')
    L.append('#endif')
    return '\n'.join(L) + '\n'


def nfile(w):
    L = []
    n = w['n']
    if n['ignoremember']:
        L.append('ignoremember' + w.get('csep', ' ') + w.get('nsep', ' ').join(n['ignoremember']))
    for x in n['ignoreinvolved']:
        L.append('ignoreinvolved ' + x)
    for x in n['ignoretype']:
        L.append('ignoretype ' + x)
    if n['ignorefile']:
        L.append('ignorefile' + w.get('csep', ' ') + w.get('nsep', ' ').join(n['ignorefile']))
    return '\n'.join(L) + ('\n' if L else '')
