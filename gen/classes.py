"""Class hierarchies for C10 over the member-feature alphabet.  A hierarchy is a list of class dicts (definition order);
bases / class-typed members refer to earlier classes."""


def gen(rng, nclasses=None, features='main'):
    """features: 'main' keeps inside the fragment on which interrogate follows C++ (no const member without initialiser,
    no C(C&), no non-public/deleted destructor, no virtual bases); 'all' uses the whole alphabet."""
    n = nclasses or rng.randrange(1, 5)
    cs = []
    for i in range(n):
        bases = []
        if i and rng.random() < 0.6:
            for j in rng.sample(range(i), min(i, rng.choice([1, 1, 2]))):
                virt = (features == 'all') and rng.random() < 0.3
                bases.append({'cls': j, 'access': rng.choice(['pub', 'pub', 'pub', 'prot', 'priv']), 'virtual': virt})
        fields = []
        for _ in range(rng.choice([0, 0, 1, 2])):
            kinds = ['scalar', 'scalar', 'ref', 'cscalar_init', 'static']
            if i:
                kinds += ['class', 'class']
            if features == 'all':
                kinds += ['cscalar', 'rref']
            k = rng.choice(kinds)
            if k == 'class':
                # the member's class may be spelled through a typedef or a using alias (transparent for every trait)
                fields.append({'ty': ('class', rng.randrange(i)), 'init': False, 'static': False, 'alias': rng.choice([None, None, 'typedef', 'using'])})
            elif k == 'cscalar_init':
                fields.append({'ty': 'cscalar', 'init': True, 'static': False})
            elif k == 'static':
                fields.append({'ty': 'scalar', 'init': False, 'static': True})
            else:
                fields.append({'ty': k, 'init': (k == 'scalar' and rng.random() < 0.2), 'static': False})
        methods = []
        names = set()
        for _ in range(rng.choice([0, 1, 1, 2])):
            nm, sg = rng.randrange(3), rng.randrange(2)
            if (nm, sg) in names:
                continue
            names.add((nm, sg))
            virt = rng.random() < 0.6
            pure = virt and rng.random() < 0.4
            # override / final are only legal on a function that is virtual here or overrides a virtual of a base
            spec = ''
            inherited = (nm, sg) in inherited_virtuals(cs, bases)
            if (virt or inherited) and not pure and rng.random() < 0.35:
                spec = rng.choice([' final', ' override final', ' override']) if inherited else ' final'
            methods.append({'name': nm, 'sig': sg, 'virtual': virt, 'pure': pure, 'deleted': False, 'spec': spec})

        def special(p):
            if rng.random() > p:
                return None
            return {'access': rng.choice(['pub', 'pub', 'pub', 'prot', 'priv']), 'deleted': rng.random() < 0.25}
        dtor = None
        if rng.random() < 0.3:
            if features == 'all':
                dl = rng.random() < 0.15
                dtor = {'access': rng.choice(['pub', 'pub', 'prot', 'priv']), 'deleted': dl, 'virtual': (not dl) and rng.random() < 0.4}
            else:
                dtor = {'access': 'pub', 'deleted': False, 'virtual': rng.random() < 0.4}
            # a pure virtual destructor: the class is abstract, a derived class that declares no destructor is not
            dtor['pure'] = dtor['virtual'] and not dtor['deleted'] and rng.random() < 0.4
        cc = special(0.3)
        cs.append({'bases': bases, 'fields': fields, 'methods': methods, 'dctor': special(0.3), 'cctor': cc,
                   'cctor_nonconst': bool(cc) and features == 'all' and rng.random() < 0.3,
                   'other_ctor': rng.random() < 0.2, 'move': rng.random() < 0.1, 'dtor': dtor})
        # the shape of the two-parameter constructor: no defaults, a default on the last parameter only (still not a default constructor),
        # or defaults on both (then it IS the default constructor; only when no other one is declared)
        c = cs[-1]
        c['other_shape'] = rng.choice(['plain', 'last-default', 'all-default']) if c['other_ctor'] else None
        if c['other_shape'] == 'all-default':
            if c['dctor'] is None:
                c['dctor'] = {'access': 'pub', 'deleted': False, 'via_defaults': True}
            else:
                c['other_shape'] = 'last-default'
    return cs


def inherited_virtuals(cs, bases):
    """(name, sig) of every function that is virtual in some direct or indirect base."""
    out = set()
    todo = [x['cls'] for x in bases]
    seen = set()
    while todo:
        j = todo.pop()
        if j in seen:
            continue
        seen.add(j)
        for m in cs[j]['methods']:
            if m['virtual'] or (m['name'], m['sig']) in inherited_virtuals(cs, cs[j]['bases']):
                out.add((m['name'], m['sig']))
        todo += [x['cls'] for x in cs[j]['bases']]
    return out


def b(x):
    return '1' if x else '0'


def sexp(cs):
    out = []
    for c in cs:
        bs = ' '.join('(%d %s %s)' % (x['cls'], x['access'], b(x['virtual'])) for x in c['bases'])
        fs = ' '.join('(%s %s %s)' % (('(%s %d)' % x['ty']) if isinstance(x['ty'], tuple) else x['ty'], b(x['init']), b(x['static'])) for x in c['fields'])
        ms = ' '.join('(%d %d %s %s %s)' % (m['name'], m['sig'], b(m['virtual']), b(m['pure']), b(m['deleted'])) for m in c['methods'])

        def sp(s):
            return '-' if s is None else '(%s %s)' % (s['access'], b(s['deleted']))
        dt = '-' if c['dtor'] is None else '(%s %s %s %s)' % (c['dtor']['access'], b(c['dtor']['deleted']), b(c['dtor']['virtual']), b(c['dtor'].get('pure', False)))
        out.append('((%s) (%s) (%s) %s %s %s %s %s %s)' % (bs, fs, ms, sp(c['dctor']), sp(c['cctor']), b(c['cctor_nonconst']), b(c['other_ctor']), b(c['move']), dt))
    return '(' + ' '.join(out) + ')'


ACC = {'pub': 'public', 'prot': 'protected', 'priv': 'private'}
SIGS = {0: '()', 1: '(int)'}


def render(cs, prefix='K'):
    L = []
    for i, c in enumerate(cs):
        name = '%s%d' % (prefix, i)
        bases = ', '.join('%s%s %s%d' % ('virtual ' if x['virtual'] else '', ACC[x['access']], prefix, x['cls']) for x in c['bases'])
        aliases = []
        at = len(L)
        L.append('struct %s%s {' % (name, (' : ' + bases) if bases else ''))
        L.append('public:')
        for k, f in enumerate(c['fields']):
            fn = 'f%d' % k
            ty = f['ty']
            if f['static']:
                L.append('  static int %s;' % fn)
            elif ty == 'scalar':
                L.append('  int %s%s;' % (fn, ' = 1' if f['init'] else ''))
            elif ty == 'cscalar':
                L.append('  const int %s%s;' % (fn, ' = 2' if f['init'] else ''))
            elif ty == 'ref':
                L.append('  int &%s;' % fn)
            elif ty == 'rref':
                L.append('  int &&%s;' % fn)
            elif f.get('alias'):
                al = '%s%d_%s_t' % (prefix, i, fn)
                aliases.append(('typedef %s%d %s;' if f['alias'] == 'typedef' else 'using %s = %s%d;') % ((prefix, ty[1], al) if f['alias'] == 'typedef' else (al, prefix, ty[1])))
                L.append('  %s %s;' % (al, fn))
            else:
                L.append('  %s%d %s;' % (prefix, ty[1], fn))
        for m in c['methods']:
            L.append('  %svoid m%d%s%s%s;' % ('virtual ' if m['virtual'] else '', m['name'], SIGS[m['sig']], m.get('spec', ''), ' = 0' if m['pure'] else ''))

        def sp(s, text):
            L.append('%s:' % ACC[s['access']])
            L.append('  %s%s;' % (text, ' = delete' if s['deleted'] else ''))
        if c['dctor'] and not c['dctor'].get('via_defaults'):
            sp(c['dctor'], '%s()' % name)
        if c['cctor']:
            sp(c['cctor'], '%s(%s%s &)' % (name, '' if c['cctor_nonconst'] else 'const ', name))
        if c['other_ctor']:
            L.append('public:')
            L.append('  %s(%s);' % (name, {'plain': 'int, int', 'last-default': 'int a, int b = 0', 'all-default': 'int a = 0, int b = 0'}[c.get('other_shape') or 'plain']))
        if c['move']:
            L.append('public:')
            L.append('  %s(%s &&);' % (name, name))
        if c['dtor']:
            sp(c['dtor'], '%s~%s()%s' % ('virtual ' if c['dtor']['virtual'] else '', name, ' = 0' if c['dtor'].get('pure') else ''))
        L.append('};')
        L[at:at] = aliases          # the aliases are declared in front of the class that uses them
    return '\n'.join(L) + '\n'


def features_of(cs):
    out = set()
    for c in cs:
        if any(x['virtual'] for x in c['bases']):
            out.add('virtual-base')
        for f in c['fields']:
            if f['ty'] == 'cscalar' and not f['init'] and not f['static']:
                out.add('const-member-without-initialiser')
            if f['ty'] == 'rref':
                out.add('rvalue-reference-member')
        if c['cctor_nonconst']:
            out.add('copy-ctor-nonconst-ref')
        if c['dtor'] and (c['dtor']['access'] != 'pub' or c['dtor']['deleted']):
            out.add('inaccessible-or-deleted-destructor')
    return out
