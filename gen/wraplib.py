"""Instrumented class libraries for C01: a header with published members, an implementation whose bodies fold their arguments into
the object's state and append to a trace log, and the abstract description needed to call every exported wrapper and the C++ it wraps."""

# kind -> (C++ type, type as recorded in the database / used by the C wrapper, boundary values as C++ literals)
SCALAR = {
    'i8': ('signed char', 'signed char', ['(signed char)-128', '(signed char)127', '(signed char)5']),
    'u8': ('unsigned char', 'unsigned char', ['(unsigned char)255', '(unsigned char)0', '(unsigned char)200']),
    'i16': ('short', 'short int', ['(short)-32768', '(short)32767']),
    'u16': ('unsigned short', 'unsigned short int', ['(unsigned short)65535', '(unsigned short)40000']),
    'i32': ('int', 'int', ['(-2147483647-1)', '2147483647', '-7']),
    'u32': ('unsigned int', 'unsigned int', ['4294967295u', '3000000000u']),
    'i64': ('long long', 'long long int', ['(-9223372036854775807LL-1)', '9223372036854775807LL', '-5000000000LL']),
    'u64': ('unsigned long long', 'unsigned long long int', ['18446744073709551615ULL', '10000000000000000000ULL']),
    'long': ('long', 'long int', ['-2147483649L', '2147483648L']),
    'ulong': ('unsigned long', 'unsigned long int', ['4294967296UL', '7UL']),
    'f32': ('float', 'float', ['1.5f', '-0.25f', '3.0e30f', '16777217.0f']),
    'f64': ('double', 'double', ['2.5', '-1.0e-300', '9007199254740993.0', '1.0e300']),
    'bool': ('bool', 'bool', ['true', 'false']),
    'enum': ('Mode', 'Mode', ['MB', 'MC', 'MA']),
}
STRINGS = ['""', '"abc"', '"two words"', '"q\\"uote\\\\n\\n"', '"' + 'x' * 40 + '"']


class Lib:
    def __init__(self, rng, use_string):
        self.rng = rng
        self.use_string = use_string
        self.classes = []
        self.funcs = []
        self.nid = 0
        self.build()

    def fresh(self, p):
        self.nid += 1
        return '%s%d' % (p, self.nid)

    def param(self, classes):
        rng = self.rng
        r = rng.random()
        if r < 0.6 or not classes:
            k = rng.choice(list(SCALAR))
            return {'kind': k, 'src': SCALAR[k][0], 'db': SCALAR[k][1]}
        if r < 0.75:
            k = rng.choice(['cstr'] + (['string', 'stringcref', 'stringcptr'] if self.use_string else []))
            src = {'cstr': 'const char *', 'string': 'std::string', 'stringcref': 'const std::string &', 'stringcptr': 'const std::string *'}[k]
            return {'kind': k, 'src': src, 'db': 'char const *'}
        c = rng.choice(classes)
        k = rng.choice(['objptr', 'objcptr', 'objref', 'objcref', 'objval'])
        src = {'objptr': '%s *', 'objcptr': 'const %s *', 'objref': '%s &', 'objcref': 'const %s &', 'objval': '%s'}[k] % c
        db = {'objptr': '%s *', 'objcptr': '%s const *', 'objref': '%s *', 'objcref': '%s const *', 'objval': '%s *'}[k] % c
        return {'kind': k, 'src': src, 'db': db, 'cls': c}

    def ret(self, classes, owner):
        rng = self.rng
        r = rng.random()
        if r < 0.15:
            return {'kind': 'void', 'src': 'void'}
        if r < 0.65 or not classes:
            k = rng.choice(list(SCALAR))
            return {'kind': k, 'src': SCALAR[k][0]}
        if r < 0.8:
            k = rng.choice(['cstr'] + (['string', 'stringcref'] if self.use_string else []))
            return {'kind': k, 'src': {'cstr': 'const char *', 'string': 'std::string', 'stringcref': 'const std::string &'}[k]}
        if owner is None:
            c = rng.choice(classes)
            return {'kind': 'objval', 'src': c, 'cls': c}
        k = rng.choice(['objval', 'objself', 'objselfptr'])
        return {'kind': k, 'src': {'objval': owner, 'objself': owner + ' &', 'objselfptr': owner + ' *'}[k], 'cls': owner}

    def sig(self, classes, maxn=4):
        rng = self.rng
        ps = [self.param(classes) for _ in range(rng.randrange(0, maxn + 1))]
        for i, p in enumerate(ps):
            p['name'] = 'a%d' % i
            p['default'] = None
        nd = rng.choice([0, 0, 1, 2])
        for p in reversed(ps):
            if nd == 0 or p['kind'] not in SCALAR:
                break
            p['default'] = rng.choice(SCALAR[p['kind']][2])
            nd -= 1
        return ps

    def build(self):
        rng = self.rng
        names = []
        for k in range(rng.randrange(1, 4)):
            name = 'K%d' % k
            bases = []
            if names and rng.random() < 0.75:
                for bn in rng.sample(names, min(len(names), rng.choice([1, 1, 2]))):
                    bases.append({'name': bn, 'virtual': rng.random() < 0.25})
                # a direct base that is also an indirect base is ambiguous (the conversion to it is ill-formed): keep one
                anc = {x['name']: self.ancestors(x['name']) for x in bases}
                bases = [x for x in bases if not any(x['name'] in anc[y['name']] for y in bases if y is not x)]
            c = {'name': name, 'bases': bases, 'methods': [], 'fields': [], 'polymorphic': False,
                 # a class with its own copy and move constructors (the move marks its source): passing it by value must copy
                 'movable': not bases and rng.random() < 0.5,
                 # operator [] returning a non-const reference: an item-assignment wrapper is synthesized for it
                 'index': rng.random() < 0.4}
            known = names + [name]
            used_names = set()
            for _ in range(rng.randrange(1, 6)):
                kind = rng.choice(['method', 'method', 'static', 'const', 'virtual', 'virtual', 'field', 'overload', 'operator'])
                if kind == 'field':
                    sk = rng.choice(list(SCALAR) + ['iarr', 'iarr'] + (['string'] if self.use_string else []))
                    c['fields'].append({'name': self.fresh('f'), 'kind': sk, 'src': SCALAR[sk][0] if sk in SCALAR else ('int' if sk == 'iarr' else 'std::string')})
                elif kind == 'overload':
                    nm = self.fresh('ov')
                    shapes = [[('i32', None)], [('f64', None)], [('i32', None), ('i32', None)], [], [('objcref', name)], [('cstr', None)], [('bool', None), ('f32', None)]]
                    if self.use_string:
                        # std::string next to a sibling that a char pointer converts to
                        shapes += [[('stringcref', None)], [('bool', None)], [('stringcref', None), ('i32', None)], [('bool', None), ('i32', None)]]
                        shapes = [sh for sh in shapes if sh != [('cstr', None)]]        # (char const * and std::string are the same wrapper type)
                    for sh in rng.sample(shapes, rng.choice([2, 3])):
                        ps = []
                        for i, (kk, cc) in enumerate(sh):
                            if kk in SCALAR:
                                ps.append({'kind': kk, 'src': SCALAR[kk][0], 'db': SCALAR[kk][1], 'name': 'a%d' % i, 'default': None})
                            elif kk == 'cstr':
                                ps.append({'kind': 'cstr', 'src': 'const char *', 'db': 'char const *', 'name': 'a%d' % i, 'default': None})
                            elif kk == 'stringcref':
                                ps.append({'kind': 'stringcref', 'src': 'const std::string &', 'db': 'char const *', 'name': 'a%d' % i, 'default': None})
                            else:
                                ps.append({'kind': 'objcref', 'src': 'const %s &' % cc, 'db': '%s const *' % cc, 'cls': cc, 'name': 'a%d' % i, 'default': None})
                        c['methods'].append({'name': nm, 'params': ps, 'ret': {'kind': 'i64', 'src': 'long long'}, 'static': False, 'const': False, 'virtual': False, 'tag': len(sh) * 7 + len(c['methods'])})
                elif kind == 'operator':
                    op = rng.choice(['+', '-', '==', '<', '*'])
                    if op in used_names:
                        continue
                    used_names.add(op)
                    c['methods'].append({'name': 'operator ' + op, 'params': [{'kind': 'objcref', 'src': 'const %s &' % name, 'db': '%s const *' % name, 'cls': name, 'name': 'o', 'default': None}],
                                         'ret': {'kind': 'i32', 'src': 'int'}, 'static': False, 'const': True, 'virtual': False, 'tag': 3})
                else:
                    m = {'name': self.fresh('m'), 'params': self.sig(known), 'ret': self.ret(known, name), 'static': kind == 'static', 'const': kind == 'const',
                         'virtual': kind == 'virtual', 'tag': rng.randrange(1, 50)}
                    if m['static'] and m['ret']['kind'] in ('objself', 'objselfptr'):
                        m['ret'] = {'kind': 'i32', 'src': 'int'}
                    if m['const'] and m['ret']['kind'] in ('objself', 'objselfptr'):
                        m['ret'] = {'kind': 'objval', 'src': name, 'cls': name}
                    if m['virtual']:
                        c['polymorphic'] = True
                    c['methods'].append(m)
            # overriders: a virtual method of a direct base, same signature, other body
            for x in bases:
                bc = [q for q in self.classes if q['name'] == x['name']][0]
                for bm in bc['methods']:
                    if bm['virtual'] and rng.random() < 0.9 and not any(q['name'] == bm['name'] for q in c['methods']) and bm['ret']['kind'] not in ('objself', 'objselfptr', 'objval'):
                        c['methods'].append(dict(bm, tag=bm['tag'] + 1000, overrides=bc['name']))
                        c['polymorphic'] = True
            self.classes.append(c)
            names.append(name)
        for k in range(rng.randrange(1, 4)):
            ns = rng.random() < 0.3
            self.funcs.append({'name': self.fresh('g'), 'ns': 'ns' if ns else None, 'params': self.sig(names), 'ret': self.ret(names, None), 'tag': rng.randrange(1, 50)})
        self.use_template = rng.random() < 0.5

    # ------------------------------------------------------------------ rendering
    @staticmethod
    def params_src(ps, with_defaults):
        return ', '.join('%s %s%s' % (p['src'], p['name'], (' = ' + p['default']) if (with_defaults and p['default']) else '') for p in ps)

    def header(self):
        L = ['#ifndef LIB_H', '#define LIB_H', '#ifndef CPPPARSER', '#define __published public', '#define __begin_publish', '#define __end_publish', '#endif']
        if self.use_string:
            L.append('#include <string>')
        L.append('enum Mode { MA = 2, MB = 5, MC = 9 };')
        for c in self.classes:
            L.append('class %s;' % c['name'])
        for c in self.classes:
            b = ''
            if c['bases']:
                b = ' : ' + ', '.join(('virtual ' if x['virtual'] else '') + 'public ' + x['name'] for x in c['bases'])
            L.append('class %s%s {' % (c['name'], b))
            L.append('__published:')
            L.append('  %s(int v);' % c['name'])
            if c['movable']:
                L.append('  %s(const %s &o);' % (c['name'], c['name']))
                L.append('  %s(%s &&o);' % (c['name'], c['name']))
            if c['index']:
                L.append('  int &operator [](int i);')
                L.append('  int operator [](int i) const;')
            if c['polymorphic']:
                L.append('  virtual ~%s();' % c['name'])
            for m in c['methods']:
                L.append('  %s%s%s %s(%s)%s;' % ('static ' if m['static'] else '', 'virtual ' if m['virtual'] else '', m['ret']['src'], m['name'], self.params_src(m['params'], True),
                                               ' const' if m['const'] else ''))
            for f in c['fields']:
                L.append('  %s %s%s;' % (f['src'], f['name'], '[3]' if f['kind'] == 'iarr' else ''))
            L.append('public:')
            L.append('  long long state_%s;' % c['name'])
            L.append('  mutable char buf_%s[64];' % c['name'])
            if self.use_string:
                L.append('  mutable std::string sbuf_%s;' % c['name'])
            if c['index']:
                L.append('  int cell_%s[4];' % c['name'])
            L.append('};')
        if self.use_template:
            L.append('template<class T> class Box {')
            L.append('__published:')
            L.append('  Box(T v);')
            L.append('  T get() const;')
            L.append('  T add(T d);')
            L.append('public:')
            L.append('  T val;')
            L.append('};')
            L.append('typedef Box<int> IntBox;')
        L.append('__begin_publish')
        for f in self.funcs:
            if f['ns']:
                L.append('namespace ns {')
            L.append('%s %s(%s);' % (f['ret']['src'], f['name'], self.params_src(f['params'], True)))
            if f['ns']:
                L.append('}')
        L.append('__end_publish')
        L.append('#endif')
        return '\n'.join(L) + '\n'

    def fold(self, p):
        k = p['kind']
        n = p['name']
        if k in ('f32', 'f64'):
            return 'acc = mix(acc, (long long)(%s * 4));' % n if k == 'f64' else 'acc = mix(acc, (long long)(%s * 4));' % n
        if k in SCALAR:
            return 'acc = mix(acc, (long long)%s);' % n
        if k == 'cstr':
            return 'acc = mix(acc, strsum(%s));' % n
        if k in ('string', 'stringcref'):
            return 'acc = mix(acc, strsum(%s.c_str()) + (long long)%s.size());' % (n, n)
        if k == 'stringcptr':
            return 'acc = mix(acc, strsum(%s->c_str()) + (long long)%s->size());' % (n, n)
        cls = p['cls']
        if k in ('objptr',):
            return 'acc = mix(acc, %s->state_%s); %s->state_%s += 3;' % (n, cls, n, cls)
        if k == 'objref':
            return 'acc = mix(acc, %s.state_%s); %s.state_%s += 5;' % (n, cls, n, cls)
        if k == 'objcptr':
            return 'acc = mix(acc, %s->state_%s);' % (n, cls)
        return 'acc = mix(acc, %s.state_%s);' % (n, cls)

    def body(self, qual, m, owner):
        L = ['  long long acc = %d;' % m['tag']]
        if owner and not m['static']:
            L.append('  acc = mix(acc, state_%s);' % owner)
        for p in m['params']:
            L.append('  ' + self.fold(p))
        L.append('  LOG.push_back(std::string("%s/%d ") + std::to_string(acc));' % (qual, len(m['params'])))
        if owner and not m['static'] and not m['const']:
            L.append('  state_%s = acc;' % owner)
        r = m['ret']['kind']
        if r == 'void':
            pass
        elif r in ('f32', 'f64'):
            L.append('  return (%s)(acc %% 100000) / 8;' % m['ret']['src'])
        elif r == 'bool':
            L.append('  return (acc & 1) != 0;')
        elif r == 'enum':
            L.append('  return (acc % 2) ? MB : MC;')
        elif r in SCALAR:
            L.append('  return (%s)acc;' % m['ret']['src'])
        elif r == 'cstr':
            if owner and not m['static']:
                L.append('  snprintf(buf_%s, sizeof(buf_%s), "c%%lld", acc); return buf_%s;' % (owner, owner, owner))
            else:
                L.append('  static char sb[64]; snprintf(sb, sizeof(sb), "c%lld", acc); return sb;')
        elif r == 'string':
            L.append('  return std::string("s") + std::to_string(acc);')
        elif r == 'stringcref':
            if owner and not m['static']:
                L.append('  sbuf_%s = std::string("r") + std::to_string(acc); return sbuf_%s;' % (owner, owner))
            else:
                L.append('  static std::string sr; sr = std::string("r") + std::to_string(acc); return sr;')
        elif r == 'objval':
            L.append('  return %s((int)(acc %% 1000));' % m['ret']['cls'])
        elif r == 'objself':
            L.append('  return *this;')
        elif r == 'objselfptr':
            L.append('  return this;')
        return L

    def impl(self):
        L = ['#include "lib.h"', '#include <string>', '#include <vector>', '#include <cstdio>', '#include <cstring>', 'std::vector<std::string> LOG;',
             'static long long mix(long long a, long long b) { return (long long)((unsigned long long)a * 31ULL + (unsigned long long)b); }',
             'static long long strsum(const char *s) { unsigned long long t = 7; while (*s) { t = t * 131 + (unsigned char)*s++; } return (long long)(t >> 1); }']
        for c in self.classes:
            inits = ', '.join(['%s(v + 1)' % x['name'] for x in c['bases']] +
                              sorted({'%s(v + 2)' % y for y in self.virtual_ancestors(c) if y not in [x['name'] for x in c['bases']]}))
            L.append('%s::%s(int v)%s {' % (c['name'], c['name'], (' : ' + inits) if inits else ''))
            L.append('  state_%s = v;' % c['name'])
            for f in c['fields']:
                if f['kind'] == 'iarr':
                    L.append('  %s[0] = 1; %s[1] = 2; %s[2] = 3;' % (f['name'], f['name'], f['name']))
                elif f['kind'] == 'string':
                    L.append('  %s = "init";' % f['name'])
                elif f['kind'] == 'enum':
                    L.append('  %s = MA;' % f['name'])
                else:
                    L.append('  %s = (%s)1;' % (f['name'], f['src']))
            L.append('  buf_%s[0] = 0;' % c['name'])
            if c['index']:
                L.append('  for (int i = 0; i < 4; ++i) cell_%s[i] = v * 10 + i;' % c['name'])
            L.append('}')
            if c['movable']:
                for mv in (False, True):
                    L.append('%s::%s(%s o) {' % (c['name'], c['name'], ('%s &&' if mv else 'const %s &') % c['name']))
                    L.append('  state_%s = o.state_%s; memcpy(buf_%s, o.buf_%s, sizeof(buf_%s));' % ((c['name'],) * 5))
                    if self.use_string:
                        L.append('  sbuf_%s = o.sbuf_%s;' % (c['name'], c['name']))
                    for f in c['fields']:
                        if f['kind'] == 'iarr':
                            L.append('  for (int i = 0; i < 3; ++i) %s[i] = o.%s[i];' % (f['name'], f['name']))
                        else:
                            L.append('  %s = o.%s;' % (f['name'], f['name']))
                    if c['index']:
                        L.append('  for (int i = 0; i < 4; ++i) cell_%s[i] = o.cell_%s[i];' % (c['name'], c['name']))
                    if mv:
                        L.append('  o.state_%s = -777;' % c['name'])
                    L.append('}')
            if c['index']:
                L.append('int &%s::operator [](int i) { LOG.push_back("%s::operator []/nc " + std::to_string(i)); return cell_%s[i]; }' % ((c['name'],) * 3))
                L.append('int %s::operator [](int i) const { LOG.push_back("%s::operator []/c " + std::to_string(i)); return cell_%s[i]; }' % ((c['name'],) * 3))
            if c['polymorphic']:
                L.append('%s::~%s() {}' % (c['name'], c['name']))
            for m in c['methods']:
                L.append('%s %s::%s(%s)%s {' % (m['ret']['src'], c['name'], m['name'], self.params_src(m['params'], False), ' const' if m['const'] else ''))
                L += self.body('%s::%s' % (c['name'], m['name']), m, c['name'])
                L.append('}')
        if self.use_template:
            L += ['template<class T> Box<T>::Box(T v) : val(v) {}', 'template<class T> T Box<T>::get() const { LOG.push_back("Box::get"); return val; }',
                  'template<class T> T Box<T>::add(T d) { val += d; LOG.push_back("Box::add"); return val; }', 'template class Box<int>;']
        for f in self.funcs:
            q = (f['ns'] + '::' if f['ns'] else '') + f['name']
            L.append('%s %s(%s) {' % (f['ret']['src'], q, self.params_src(f['params'], False)))
            L += self.body(q, f, None)
            L.append('}')
        return '\n'.join(L) + '\n'

    def ancestors(self, name):
        byname = {k['name']: k for k in self.classes}
        out = set()
        todo = [name]
        while todo:
            n = todo.pop()
            for x in byname[n]['bases']:
                if x['name'] not in out:
                    out.add(x['name'])
                    todo.append(x['name'])
        return out

    def virtual_ancestors(self, c):
        out = set()
        byname = {k['name']: k for k in self.classes}

        def walk(k, virt):
            for x in k['bases']:
                if x['virtual']:
                    out.add(x['name'])
                walk(byname[x['name']], False)
        walk(c, False)
        return out
