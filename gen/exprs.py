"""Integer constant expression generator shared by C07 / C09 / C15.

AST (tuples):  ('lit', n>=0) | ('ref', i) | ('opaque',) | ('un', op, e) | ('bin', op, a, b)
               | ('cond', c, a, b) | ('casti', e) | ('castb', e)
"""
INT_MAX = 2147483647

BIN = {  # op -> (text, C++ precedence level as in [expr], matches Coq prec_cxx)
    'mul': ('*', 13), 'div': ('/', 13), 'mod': ('%', 13), 'add': ('+', 12), 'sub': ('-', 12),
    'shl': ('<<', 11), 'shr': ('>>', 11), 'lt': ('<', 9), 'gt': ('>', 9), 'le': ('<=', 9), 'ge': ('>=', 9),
    'eq': ('==', 8), 'ne': ('!=', 8), 'and': ('&', 7), 'xor': ('^', 6), 'or': ('|', 5),
    'andand': ('&&', 4), 'oror': ('||', 3), 'comma': (',', 0),
}
UN = {'not': '!', 'compl': '~', 'minus': '-', 'plus': '+'}
TEXT2BIN = {v[0]: k for k, v in BIN.items()}
TEXT2UN = {v: k for k, v in UN.items()}

LITS = [0, 1, 2, 3, 5, 7, 8, 15, 16, 31, 32, 255, 256, 1000, 65535, 65536, 1 << 30, INT_MAX - 1, INT_MAX]


def gen(rng, depth, nrefs=0, ops=None, allow_opaque=False, lits=LITS, casts=True):
    ops = ops or [o for o in BIN if o != 'comma']
    if depth <= 0 or rng.random() < 0.15:
        r = rng.random()
        if nrefs and r < 0.25:
            return ('ref', rng.randrange(nrefs))
        if allow_opaque and r < 0.30:
            return ('opaque',)
        return ('lit', rng.choice(lits) if rng.random() < 0.8 else rng.randrange(0, 100))
    r = rng.random()
    if r < 0.62:
        return ('bin', rng.choice(ops), gen(rng, depth - 1, nrefs, ops, allow_opaque, lits, casts), gen(rng, depth - 1, nrefs, ops, allow_opaque, lits, casts))
    if r < 0.82:
        return ('un', rng.choice(list(UN)), gen(rng, depth - 1, nrefs, ops, allow_opaque, lits, casts))
    if r < 0.92:
        return ('cond', gen(rng, depth - 1, nrefs, ops, allow_opaque, lits, casts), gen(rng, depth - 1, nrefs, ops, allow_opaque, lits, casts),
                gen(rng, depth - 1, nrefs, ops, allow_opaque, lits, casts))
    if not casts:
        return ('un', rng.choice(list(UN)), gen(rng, depth - 1, nrefs, ops, allow_opaque, lits, casts))
    if r < 0.96:
        return ('casti', gen(rng, depth - 1, nrefs, ops, allow_opaque, lits, casts))
    return ('castb', gen(rng, depth - 1, nrefs, ops, allow_opaque, lits, casts))


def sexp(e):
    k = e[0]
    if k == 'lit':
        return '(lit %d)' % e[1]
    if k == 'ref':
        return '(ref %d)' % e[1]
    if k == 'opaque':
        return '(opaque)'
    if k == 'un':
        return '(un %s %s)' % (e[1], sexp(e[2]))
    if k == 'bin':
        return '(bin %s %s %s)' % (e[1], sexp(e[2]), sexp(e[3]))
    if k == 'cond':
        return '(cond %s %s %s)' % (sexp(e[1]), sexp(e[2]), sexp(e[3]))
    return '(%s %s)' % (k, sexp(e[1]))


def full(e, names=None, opaque='opq()'):
    """fully parenthesised C++ text"""
    k = e[0]
    if k == 'lit':
        return str(e[1])
    if k == 'ref':
        return names[e[1]] if names else 'R%d' % e[1]
    if k == 'opaque':
        return opaque
    if k == 'un':
        return '(%s %s)' % (UN[e[1]], full(e[2], names, opaque))
    if k == 'bin':
        return '(%s %s %s)' % (full(e[2], names, opaque), BIN[e[1]][0], full(e[3], names, opaque))
    if k == 'cond':
        return '(%s ? %s : %s)' % (full(e[1], names, opaque), full(e[2], names, opaque), full(e[3], names, opaque))
    if k == 'casti':
        return '((int)%s)' % full(e[1], names, opaque) if e[1][0] in ('lit', 'ref') else '((int)(%s))' % full(e[1], names, opaque)
    return '((bool)(%s))' % full(e[1], names, opaque)


PREC_UNARY = 15
PREC_COND = 2


def prec(e):
    k = e[0]
    if k == 'bin':
        return BIN[e[1]][1]
    if k == 'cond':
        return PREC_COND
    if k in ('un', 'casti', 'castb'):
        return PREC_UNARY
    return 20


def minimal(e, names=None, opaque='opq()'):
    """C++ text with only the parentheses the ISO grammar requires (plus a space
    between adjacent unary signs so that no ++/-- token appears)."""
    def sub(x, need):
        t = minimal(x, names, opaque)
        return '(' + t + ')' if need else t
    k = e[0]
    if k == 'lit':
        return str(e[1])
    if k == 'ref':
        return names[e[1]] if names else 'R%d' % e[1]
    if k == 'opaque':
        return opaque
    if k == 'un':
        return UN[e[1]] + ' ' + sub(e[2], prec(e[2]) < PREC_UNARY)
    if k == 'casti':
        return '(int) ' + sub(e[1], prec(e[1]) < PREC_UNARY)
    if k == 'castb':
        return '(bool) ' + sub(e[1], prec(e[1]) < PREC_UNARY)
    if k == 'bin':
        p = BIN[e[1]][1]
        return '%s %s %s' % (sub(e[2], prec(e[2]) < p), BIN[e[1]][0], sub(e[3], prec(e[3]) <= p))
    # conditional: right associative; condition is a logical-or-expression
    return '%s ? %s : %s' % (sub(e[1], prec(e[1]) <= PREC_COND), sub(e[2], prec(e[2]) < 1), sub(e[3], prec(e[3]) < PREC_COND))


# ---------------------------------------------------------------------------
# parser for the fully parenthesised form that CPPExpression::output prints

def parse_printed(s, names=None):
    """-> AST (same shape as above; identifiers become ('ref', index) through names, else ('id', text))"""
    toks = []
    i = 0
    n = len(s)
    while i < n:
        c = s[i]
        if c.isspace():
            i += 1
        elif c.isdigit():
            j = i
            while j < n and s[j].isalnum():
                j += 1
            toks.append(s[i:j])
            i = j
        elif c.isalpha() or c == '_' or s.startswith('::', i):
            j = i
            while j < n and (s[j].isalnum() or s[j] == '_' or s.startswith('::', j)):
                j += 2 if s.startswith('::', j) else 1
            toks.append(s[i:j])
            i = j
        else:
            for op in ('<=>', '<<', '>>', '<=', '>=', '==', '!=', '&&', '||'):
                if s.startswith(op, i):
                    toks.append(op)
                    i += len(op)
                    break
            else:
                toks.append(c)
                i += 1
    pos = [0]

    def peek():
        return toks[pos[0]] if pos[0] < len(toks) else None

    def take(t=None):
        x = peek()
        if t is not None and x != t:
            raise ValueError('expected %r got %r in %r' % (t, x, s))
        pos[0] += 1
        return x

    def item():
        t = peek()
        if t == '(':
            take()
            t2 = peek()
            if t2 in ('!', '~'):
                take()
                e = item()
                take(')')
                return ('un', TEXT2UN[t2], e)
            if t2 in ('int', 'bool') and toks[pos[0] + 1] == ')':
                take()
                take(')')
                take('(')
                e = item()
                take(')')
                return ('casti' if t2 == 'int' else 'castb', e)
            a = item()
            op = take()
            if op == '?':
                b = item()
                take(':')
                c = item()
                take(')')
                return ('cond', a, b, c)
            b = item()
            take(')')
            return ('bin', TEXT2BIN[op], a, b)
        if t in ('-', '+'):
            take()
            return ('un', TEXT2UN[t], item())
        take()
        if t[0].isdigit():
            return ('lit', int(t, 0))
        name = t[2:] if t.startswith('::') else t
        if peek() == '(':   # call: opq()
            take('(')
            take(')')
            return ('opaque',)
        if names and name in names:
            return ('ref', names.index(name))
        return ('id', name)
    e = item()
    if pos[0] != len(toks):
        raise ValueError('trailing tokens in %r' % s)
    return e


def norm_tree(e):
    """normal form for comparing parse trees: casts of non-negative literal print the same; true/false -> lit"""
    k = e[0]
    if k == 'id' and e[1] in ('true', 'false'):
        return ('lit', 1 if e[1] == 'true' else 0)
    if k in ('lit', 'ref', 'opaque', 'id'):
        return e
    if k == 'un':
        return ('un', e[1], norm_tree(e[2]))
    if k == 'bin':
        return ('bin', e[1], norm_tree(e[2]), norm_tree(e[3]))
    if k == 'cond':
        return ('cond', norm_tree(e[1]), norm_tree(e[2]), norm_tree(e[3]))
    return (k, norm_tree(e[1]))


def size(e):
    return 1 + sum(size(x) for x in e[1:] if isinstance(x, tuple))


def ops_of(e, acc=None):
    acc = set() if acc is None else acc
    if e[0] in ('un', 'bin'):
        acc.add(e[1])
    elif e[0] in ('cond', 'casti', 'castb'):
        acc.add(e[0])
    for x in e[1:]:
        if isinstance(x, tuple):
            ops_of(x, acc)
    return acc
