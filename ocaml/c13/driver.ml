open Ext
open Sexp
open Dbsexp

let b x = if x then "1" else "0"

(* loadall: (HEX HEX ...) -> "<errflags> <next> <closed> <keysdistinct> <hex of the merged database written with empty names and identifier 0>" *)
let loadall_line l =
  match parse l with
  | L files ->
    let dbs = List.map (function A hex -> load_file Z0 (bytes_of_hex hex) | _ -> failwith "file") files in
    let errs = String.concat "" (List.map (fun (e, r) -> if e || r = None then "1" else "0") dbs) in
    let good = List.filter_map (fun (e, r) -> match r with Some (_, d) -> Some d | None -> None) dbs in
    let (d, next) = load_all good in
    let h = { h_lib = []; h_libhash = []; h_module = [] } in
    errs ^ " " ^ pz next ^ " " ^ b (closedb d) ^ " " ^ b (nodupb (all_keys d)) ^ " " ^ hex_of_bytes (write_file Z0 (z_of_int 3) h d)
  | _ -> failwith "loadall"

let () =
  match Sys.argv.(1) with
  | "loadall" -> each_line loadall_line
  | m -> failwith ("mode " ^ m)
