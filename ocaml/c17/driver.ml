open Ext
open Sexp

let rec nat_of_int n = if n <= 0 then O else S (nat_of_int (n - 1))
let rec int_of_nat = function O -> 0 | S n -> 1 + int_of_nat n

let comp = function A "." -> Dot | A ".." -> DotDot | A s -> Name (nat_of_int (int_of_string s)) | _ -> failwith "comp"
let show_comp = function Dot -> "." | DotDot -> ".." | Name n -> string_of_int (int_of_nat n)

(* std: (abs c c c ...) with abs = 0|1 and c = . | .. | <number> -> "abs c c ..." *)
let std_line l =
  match parse l with
  | L (A ab :: cs) ->
    let (a, r) = standardize (ab = "1", List.map comp cs) in
    (if a then "1" else "0") ^ " " ^ String.concat " " (List.map show_comp r)
  | _ -> failwith "std"

(* find: (noangles form cwd includer ((dir kind) ...) (hitdir ...) (explicitdir ...)) -> "dir source" | "none" *)
let find_line l =
  match parse l with
  | L [A na; A f; cwd; inc; L dirs; L hits; L expl] ->
    let ds = List.map (function L [d; A k] -> { d_name = nat_of_int (int_of d);
                        d_kind = (match k with "I" -> S_alternate | "S" -> S_system | _ -> failwith "kind") } | _ -> failwith "dir") dirs in
    let hs = List.map int_of hits and es = List.map int_of expl in
    (match find_include (na = "1") (if f = "angle" then Angle else Quote) (nat_of_int (int_of cwd)) (nat_of_int (int_of inc)) ds
             (fun d -> List.mem (int_of_nat d) hs) (fun d -> List.mem (int_of_nat d) es) with
     | None -> "none"
     | Some (d, s) -> string_of_int (int_of_nat d) ^ " " ^ (match s with S_local -> "local" | S_alternate -> "alternate" | S_system -> "system"))
  | _ -> failwith "find"

let () =
  match Sys.argv.(1) with
  | "std" -> each_line std_line
  | "find" -> each_line find_line
  | m -> failwith ("mode " ^ m)
