open Ext
open Sexp

let rec pos_of_int n = if n = 1 then XH else if n land 1 = 0 then XO (pos_of_int (n lsr 1)) else XI (pos_of_int (n lsr 1))
let z_of_int n = if n = 0 then Z0 else if n > 0 then Zpos (pos_of_int n) else Zneg (pos_of_int (-n))
let rec int_of_pos = function XH -> 1 | XO p -> 2 * int_of_pos p | XI p -> 2 * int_of_pos p + 1
let int_of_z = function Z0 -> 0 | Zpos p -> int_of_pos p | Zneg p -> - (int_of_pos p)
let rec nat_of_int n = if n <= 0 then O else S (nat_of_int (n - 1))
let rec int_of_nat = function O -> 0 | S n -> 1 + int_of_nat n

let unop = function "not" -> UNot | "compl" -> UCompl | "minus" -> UMinus | "plus" -> UPlus | s -> failwith ("unop " ^ s)
let binop = function
  | "mul" -> BMul | "div" -> BDiv | "mod" -> BMod | "add" -> BAdd | "sub" -> BSub | "shl" -> BShl | "shr" -> BShr
  | "lt" -> BLt | "gt" -> BGt | "le" -> BLe | "ge" -> BGe | "eq" -> BEq | "ne" -> BNe
  | "and" -> BAnd | "xor" -> BXor | "or" -> BOr | "andand" -> BAndAnd | "oror" -> BOrOr | "comma" -> BComma
  | s -> failwith ("binop " ^ s)

let rec expr = function
  | L [A "lit"; z] -> ELit (z_of_int (int_of z))
  | L [A "ref"; x] -> ERef (nat_of_int (int_of x))
  | L [A "opaque"] -> EOpaque
  | L [A "un"; A o; e] -> EUn (unop o, expr e)
  | L [A "bin"; A o; a; b] -> EBin (binop o, expr a, expr b)
  | L [A "cond"; c; a; b] -> ECond (expr c, expr a, expr b)
  | L [A "casti"; e] -> ECastInt (expr e)
  | L [A "castb"; e] -> ECastBool (expr e)
  | x -> failwith ("expr " ^ show x)

let cond = function
  | L [A "if"; e] -> CIf (expr e)
  | L [A "ifdef"; m] -> CIfdef (nat_of_int (int_of m))
  | L [A "ifndef"; m] -> CIfndef (nat_of_int (int_of m))
  | x -> failwith ("cond " ^ show x)

let action = function
  | L [A "text"; i] -> AText (nat_of_int (int_of i))
  | L [A "define"; m; v] -> ADefine (nat_of_int (int_of m), z_of_int (int_of v))
  | L [A "undef"; m] -> AUndef (nat_of_int (int_of m))
  | L [A "error"; i] -> AError (nat_of_int (int_of i))
  | x -> failwith ("action " ^ show x)

(* group: (ITEM ...), ITEM = action | (cond (COND GROUP) ... [(else GROUP)]) *)
let rec group = function
  | L items -> List.fold_right (fun it rest ->
      match it with
      | L (A "cond" :: brs) -> GCond (branches brs, rest)
      | a -> GAct (action a, rest)) items GNil
  | x -> failwith ("group " ^ show x)
and branches = function
  | [L [c; g]] -> BLast (cond c, group g, ONone)
  | [L [c; g]; L [A "else"; e]] -> BLast (cond c, group g, OSome (group e))
  | L [c; g] :: more -> BCons (cond c, group g, branches more)
  | _ -> failwith "branches"

let show_st s =
  "kept=" ^ String.concat "," (List.rev_map (fun n -> string_of_int (int_of_nat n)) s.kept) ^
  " errors=" ^ String.concat "," (List.rev_map (fun n -> string_of_int (int_of_nat n)) s.errors) ^
  " macros=" ^ String.concat "," (List.map (function None -> "-" | Some z -> string_of_int (int_of_z z)) s.macros)

let run_line l =
  let g = group (parse l) in
  let i = run_impl (flat g) in
  let d = defined_g g cinit in
  show_st i ^ " | " ^ (if d then show_st (run_ref g) else "illformed") ^ " | " ^ (if run_spec g = i then "thm-ok" else "THM-BROKEN")

let () =
  match Sys.argv.(1) with
  | "run" -> each_line run_line
  | m -> failwith ("mode " ^ m)
