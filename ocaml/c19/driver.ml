open Ext
open Sexp

let rec nat_of_int n = if n <= 0 then O else S (nat_of_int (n - 1))
let rec int_of_nat = function O -> 0 | S n -> 1 + int_of_nat n

(* status: ((requested open_ok (w ...) fault|none) ...) -> "<status> <status_old> <complete flags>" *)
let status_line l =
  match parse l with
  | L chs ->
    let cs = List.map (function
      | L [A r; A o; L ws; f] ->
        mk_channel (r = "1") (o = "1") (List.map (fun w -> nat_of_int (int_of w)) ws)
          (match f with A "none" -> None | x -> Some (nat_of_int (int_of x)))
      | _ -> failwith "channel") chs in
    string_of_int (int_of_nat (status cs)) ^ " " ^ string_of_int (int_of_nat (status_old cs)) ^ " " ^
    String.concat "" (List.map (fun c -> if ch_complete c then "1" else "0") cs)
  | _ -> failwith "status"

let () =
  match Sys.argv.(1) with
  | "status" -> each_line status_line
  | m -> failwith ("mode " ^ m)
