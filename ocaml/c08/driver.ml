open Ext
open Sexp

let rec nat_of_int n = if n <= 0 then O else S (nat_of_int (n - 1))
let rec int_of_nat = function O -> 0 | S n -> 1 + int_of_nat n

(* tok: iN | oN *)
let tok = function
  | A s when String.length s > 1 && s.[0] = 'i' -> Id (nat_of_int (int_of_string (String.sub s 1 (String.length s - 1))))
  | A s when String.length s > 1 && s.[0] = 'o' -> Other (nat_of_int (int_of_string (String.sub s 1 (String.length s - 1))))
  | x -> failwith ("tok " ^ show x)
let show_tok = function Id n -> "i" ^ string_of_int (int_of_nat n) | Other n -> "o" ^ string_of_int (int_of_nat n)
let toks = function L l -> List.map tok l | _ -> failwith "toks"
let line = function
  | L [A "d"; A n; b] -> Define (nat_of_int (int_of_string n), toks b)
  | L [A "u"; A n] -> Undef (nat_of_int (int_of_string n))
  | L [A "t"; b] -> Text (toks b)
  | x -> failwith ("line " ^ show x)

(* program: ((d N (toks)) (u N) (t (toks)) ...) -> "toks ok|toks ok|..." one entry per text line *)
let run which l =
  match parse l with
  | L ls ->
    let p = List.map line ls in
    let fuel = nat_of_int 200000 in
    let res = (if which then impl_program fuel p else spec_program fuel p) in
    String.concat "|" (List.map (fun (ts, ok) -> String.concat " " (List.map show_tok ts) ^ (if ok then " ok" else " FUEL")) res)
  | _ -> failwith "program"

let () =
  match Sys.argv.(1) with
  | "impl" -> each_line (run true)
  | "spec" -> each_line (run false)
  | m -> failwith ("mode " ^ m)
