open Ext
open Sexp

let rec nat_of_int n = if n <= 0 then O else S (nat_of_int (n - 1))
let rec int_of_nat = function O -> 0 | S n -> 1 + int_of_nat n

(* tok: iN | oN *)
let tok = function
  | A s when String.length s > 1 && s.[0] = 'i' -> Id (nat_of_int (int_of_string (String.sub s 1 (String.length s - 1))))
  | A s when String.length s > 1 && s.[0] = 'o' -> Other (nat_of_int (int_of_string (String.sub s 1 (String.length s - 1))))
  | x -> failwith ("tok " ^ show x)
let show_tok = function Id n -> "i" ^ string_of_int (int_of_nat n) | Other n -> "o" ^ string_of_int (int_of_nat n)
let toks = function L l -> List.map tok l | _ -> failwith "toks"
let line = function
  | L [A "d"; A n; b] -> Define (nat_of_int (int_of_string n), toks b)
  | L [A "u"; A n] -> Undef (nat_of_int (int_of_string n))
  | L [A "t"; b] -> Text (toks b)
  | x -> failwith ("line " ^ show x)

(* program: ((d N (toks)) (u N) (t (toks)) ...) -> "toks ok|toks ok|..." one entry per text line *)
let run which l =
  match parse l with
  | L ls ->
    let p = List.map line ls in
    let fuel = nat_of_int 200000 in
    let res = (if which then impl_program fuel p else spec_program fuel p) in
    String.concat "|" (List.map (fun (ts, ok) -> String.concat " " (List.map show_tok ts) ^ (if ok then " ok" else " FUEL")) res)
  | _ -> failwith "program"

(* stringify: hex of the argument text -> hex of the string literal *)
let rec pos_of_int n = if n = 1 then XH else if n land 1 = 0 then XO (pos_of_int (n lsr 1)) else XI (pos_of_int (n lsr 1))
let n_of_int n = if n = 0 then N0 else Npos (pos_of_int n)
let rec int_of_pos = function XH -> 1 | XO p -> 2 * int_of_pos p | XI p -> 2 * int_of_pos p + 1
let int_of_n = function N0 -> 0 | Npos p -> int_of_pos p
let hexd c = if c >= '0' && c <= '9' then Char.code c - 48 else Char.code c - 87
let stringify_line fixed l =
  let bytes = List.init (String.length l / 2) (fun i -> n_of_int (hexd l.[2*i] * 16 + hexd l.[2*i+1])) in
  String.concat "" (List.map (fun c -> Printf.sprintf "%02x" (int_of_n c)) (stringify fixed bytes))

(* subst: "<hex define> <hex arg>,<hex arg>,...|-" -> hex of r_expand's text, or the fault *)
let unhex l = List.init (String.length l / 2) (fun i -> n_of_int (hexd l.[2*i] * 16 + hexd l.[2*i+1]))
let tohex bs = String.concat "" (List.map (fun c -> Printf.sprintf "%02x" (int_of_n c)) bs)
let subst_line l =
  let sp = String.index l ' ' in
  let def = unhex (String.sub l 0 sp) in
  let al = String.sub l (sp + 1) (String.length l - sp - 1) in
  let args = if al = "-" then [] else List.map unhex (String.split_on_char ',' al) in
  match subst_define true def args with
  | Ok r -> tohex r
  | OutOfRange -> "THROW"
  | BadIndex -> "BADINDEX"
  | Fuel -> "FUEL"

let () =
  match Sys.argv.(1) with
  | "subst" -> each_line subst_line
  | "stringify" -> (try while true do let l = input_line stdin in print_string (stringify_line true l); print_newline () done with End_of_file -> ())
  | "impl" -> each_line (run true)
  | "spec" -> each_line (run false)
  | m -> failwith ("mode " ^ m)
