open Ext
open Sexp

let rec pos_of_int n = if n = 1 then XH else if n land 1 = 0 then XO (pos_of_int (n lsr 1)) else XI (pos_of_int (n lsr 1))
let z_of_int n = if n = 0 then Z0 else if n > 0 then Zpos (pos_of_int n) else Zneg (pos_of_int (-n))
let rec int_of_pos = function XH -> 1 | XO p -> 2 * int_of_pos p | XI p -> 2 * int_of_pos p + 1
let int_of_z = function Z0 -> 0 | Zpos p -> int_of_pos p | Zneg p -> - (int_of_pos p)

let hexd c = if c >= '0' && c <= '9' then Char.code c - 48 else Char.code c - 87
let bytes_of_hex (s : string) : char list =
  let n = String.length s / 2 in
  List.init n (fun i -> Char.chr (hexd s.[2*i] * 16 + hexd s.[2*i+1]))
let hex_of_bytes (l : char list) : string =
  let b = Buffer.create 64 in List.iter (fun c -> Buffer.add_string b (Printf.sprintf "%02x" (Char.code c))) l; Buffer.contents b

(* strings are atoms "s:<hex>" *)
let str = function A s when String.length s >= 2 && String.sub s 0 2 = "s:" -> bytes_of_hex (String.sub s 2 (String.length s - 2)) | x -> failwith ("str " ^ show x)
let pstr l = "s:" ^ hex_of_bytes l
let z x = z_of_int (int_of x)
let pz v = string_of_int (int_of_z v)
let zl = function L l -> List.map z l | _ -> failwith "zl"
let pzl l = "(" ^ String.concat " " (List.map pz l) ^ ")"
let lst f = function L l -> List.map f l | _ -> failwith "lst"
let plst f l = "(" ^ String.concat " " (List.map f l) ^ ")"

let comp = function L [n; L alts] -> { c_name = str n; c_alts = List.map str alts } | x -> failwith ("comp " ^ show x)
let pcomp c = "(" ^ pstr c.c_name ^ " " ^ plst pstr c.c_alts ^ ")"

let func = function
  | L [c; fl; cl; sc; cw; pw; cm; pr] -> { f_comp = comp c; f_flags = z fl; f_class = z cl; f_scoped = str sc; f_cw = zl cw; f_pw = zl pw; f_comment = str cm; f_proto = str pr }
  | x -> failwith ("func " ^ show x)
let pfunc f = "(" ^ String.concat " " [pcomp f.f_comp; pz f.f_flags; pz f.f_class; pstr f.f_scoped; pzl f.f_cw; pzl f.f_pw; pstr f.f_comment; pstr f.f_proto] ^ ")"

let param = function L [n; fl; t] -> { p_name = str n; p_flags = z fl; p_type = z t } | x -> failwith "param"
let pparam p = "(" ^ String.concat " " [pstr p.p_name; pz p.p_flags; pz p.p_type] ^ ")"
let wrap = function
  | L [c; fl; fn; rt; rd; un; cm; ps] -> { w_comp = comp c; w_flags = z fl; w_function = z fn; w_rettype = z rt; w_retdtor = z rd; w_unique = str un; w_comment = str cm; w_params = lst param ps }
  | x -> failwith ("wrap " ^ show x)
let pwrap w = "(" ^ String.concat " " [pcomp w.w_comp; pz w.w_flags; pz w.w_function; pz w.w_rettype; pz w.w_retdtor; pstr w.w_unique; pstr w.w_comment; plst pparam w.w_params] ^ ")"

let deriv = function L [a; b; c; d] -> { dv_flags = z a; dv_base = z b; dv_upcast = z c; dv_downcast = z d } | _ -> failwith "deriv"
let pderiv d = "(" ^ String.concat " " [pz d.dv_flags; pz d.dv_base; pz d.dv_upcast; pz d.dv_downcast] ^ ")"
let ev = function L [a; b; c; d] -> { ev_name = str a; ev_scoped = str b; ev_comment = str c; ev_value = z d } | _ -> failwith "ev"
let pev e = "(" ^ String.concat " " [pstr e.ev_name; pstr e.ev_scoped; pstr e.ev_comment; pz e.ev_value] ^ ")"
let ty = function
  | L [c; fl; sc; tn; ou; at; wr; ar; ct; dt; el; me; ms; ca; de; en; ne; cm] ->
    { t_comp = comp c; t_flags = z fl; t_scoped = str sc; t_true = str tn; t_outer = z ou; t_atomic = z at; t_wrapped = z wr;
      t_array = (match ar with A "-" -> None | x -> Some (z x)); t_ctors = zl ct; t_dtor = z dt; t_elements = zl el; t_methods = zl me;
      t_makeseqs = zl ms; t_casts = zl ca; t_derivs = lst deriv de; t_enums = lst ev en; t_nested = zl ne; t_comment = str cm }
  | x -> failwith ("type " ^ show x)
let pty t = "(" ^ String.concat " " [pcomp t.t_comp; pz t.t_flags; pstr t.t_scoped; pstr t.t_true; pz t.t_outer; pz t.t_atomic; pz t.t_wrapped;
      (match t.t_array with None -> "-" | Some v -> pz v); pzl t.t_ctors; pz t.t_dtor; pzl t.t_elements; pzl t.t_methods; pzl t.t_makeseqs;
      pzl t.t_casts; plst pderiv t.t_derivs; plst pev t.t_enums; pzl t.t_nested; pstr t.t_comment] ^ ")"
let mani = function
  | L [c; fl; iv; t; g; d] -> { m_comp = comp c; m_flags = z fl; m_int = z iv; m_type = z t; m_getter = z g; m_def = str d }
  | _ -> failwith "mani"
let pmani m = "(" ^ String.concat " " [pcomp m.m_comp; pz m.m_flags; pz m.m_int; pz m.m_type; pz m.m_getter; pstr m.m_def] ^ ")"
let elem = function
  | L [c; fl; t; g; s; h; cl; dl; ln; ins; gk; sc; cm] ->
    { el_comp = comp c; el_flags = z fl; el_type = z t; el_getter = z g; el_setter = z s; el_has = z h; el_clear = z cl; el_del = z dl;
      el_length = z ln; el_insert = z ins; el_getkey = z gk; el_scoped = str sc; el_comment = str cm }
  | _ -> failwith "elem"
let pelem e = "(" ^ String.concat " " [pcomp e.el_comp; pz e.el_flags; pz e.el_type; pz e.el_getter; pz e.el_setter; pz e.el_has; pz e.el_clear;
      pz e.el_del; pz e.el_length; pz e.el_insert; pz e.el_getkey; pstr e.el_scoped; pstr e.el_comment] ^ ")"
let mseq = function
  | L [c; a; b; sc; cm] -> { s_comp = comp c; s_lenget = z a; s_elemget = z b; s_scoped = str sc; s_comment = str cm }
  | _ -> failwith "mseq"
let pmseq s = "(" ^ String.concat " " [pcomp s.s_comp; pz s.s_lenget; pz s.s_elemget; pstr s.s_scoped; pstr s.s_comment] ^ ")"

let sect f = function L l -> List.map (function L [i; r] -> (z i, f r) | _ -> failwith "sect") l | _ -> failwith "sect"
let psect f l = "(" ^ String.concat " " (List.map (fun (i, r) -> "(" ^ pz i ^ " " ^ f r ^ ")") l) ^ ")"

let db = function
  | L [L [a; b; c]; fs; ws; ts; ms; es; ss] ->
    ({ h_lib = str a; h_libhash = str b; h_module = str c },
     { d_functions = sect func fs; d_wrappers = sect wrap ws; d_types = sect ty ts; d_manifests = sect mani ms; d_elements = sect elem es; d_makeseqs = sect mseq ss })
  | x -> failwith "db"
let pdb (h, d) =
  "((" ^ String.concat " " [pstr h.h_lib; pstr h.h_libhash; pstr h.h_module] ^ ") " ^
  String.concat " " [psect pfunc d.d_functions; psect pwrap d.d_wrappers; psect pty d.d_types; psect pmani d.d_manifests; psect pelem d.d_elements; psect pmseq d.d_makeseqs] ^ ")"

