open Ext
open Sexp

let rec nat_of_int n = if n <= 0 then O else S (nat_of_int (n - 1))
let rec int_of_nat = function O -> 0 | S n -> 1 + int_of_nat n
let rec pos_of_int n = if n = 1 then XH else if n land 1 = 0 then XO (pos_of_int (n lsr 1)) else XI (pos_of_int (n lsr 1))
let z_of_int n = if n = 0 then Z0 else if n > 0 then Zpos (pos_of_int n) else Zneg (pos_of_int (-n))
let hexd c = if c >= '0' && c <= '9' then Char.code c - 48 else Char.code c - 87
let bytes_of_hex (s : string) = List.init (String.length s / 2) (fun i -> nat_of_int (hexd s.[2*i] * 16 + hexd s.[2*i+1]))
let hex l = String.concat "" (List.map (fun c -> Printf.sprintf "%02x" (int_of_nat c)) l)

(* (fixed stringresult (result-hex ...)) : a string-returning function called once per listed result -> what the wrapper returns each time *)
let line l =
  match parse l with
  | L [A fx; A sr; L rs] ->
    let results = List.map (fun x -> VStr (bytes_of_hex (let s = atom x in if s = "-" then "" else s))) rs in
    let calls = List.map (fun _ -> []) rs in
    String.concat " " (List.map (function VStr s -> (match hex s with "" -> "-" | h -> h) | _ -> "?") (predict (fx = "1") (sr = "1") results calls))
  | _ -> failwith "line"

let () = each_line line
