open Ext
open Sexp

let rec pos_of_int n = if n = 1 then XH else if n land 1 = 0 then XO (pos_of_int (n lsr 1)) else XI (pos_of_int (n lsr 1))
let z_of_int n = if n = 0 then Z0 else if n > 0 then Zpos (pos_of_int n) else Zneg (pos_of_int (-n))
let rec int_of_pos = function XH -> 1 | XO p -> 2 * int_of_pos p | XI p -> 2 * int_of_pos p + 1
let int_of_z = function Z0 -> 0 | Zpos p -> int_of_pos p | Zneg p -> - (int_of_pos p)
let rec nat_of_int n = if n <= 0 then O else S (nat_of_int (n - 1))
let rec int_of_nat = function O -> 0 | S n -> 1 + int_of_nat n
let hexd c = if c >= '0' && c <= '9' then Char.code c - 48 else Char.code c - 87
let bytes_of_hex (s : string) : char list =
  List.init (String.length s / 2) (fun i -> Char.chr (hexd s.[2*i] * 16 + hexd s.[2*i+1]))
let str = function A s when String.length s >= 2 && String.sub s 0 2 = "s:" -> bytes_of_hex (String.sub s 2 (String.length s - 2)) | x -> failwith ("str " ^ show x)

(* unique: ((MOD ...) QUERY)  MOD = (hash first ((name off) ...)) -> result or "nofuel" *)
let unique_line l =
  match parse l with
  | L [L mods; q] ->
    let ms = List.map (function
      | L [h; f; L names] -> { md_hash = str h; md_first = z_of_int (int_of f);
                               md_names = List.map (function L [n; o] -> (str n, z_of_int (int_of o)) | _ -> failwith "name") names }
      | _ -> failwith "mod") mods in
    (match wrapper_by_unique_name ms (str q) with Some z -> string_of_int (int_of_z z) | None -> "nofuel")
  | _ -> failwith "unique"

(* module: ((first ...) f) -> index of the module found *)
let module_line l =
  match parse l with
  | L [L firsts; f] ->
    let fs = List.map (fun x -> z_of_int (int_of x)) firsts in
    let n = List.length fs in
    (match bsm (nat_of_int (n + 1)) fs O (nat_of_int n) (z_of_int (int_of f)) with Some i -> string_of_int (int_of_nat i) | None -> "nofuel")
  | _ -> failwith "module"

(* lookup: (((idx name) ...) name) -> index *)
let lookup_line l =
  match parse l with
  | L [L es; n] ->
    let entries = List.map (function L [i; nm] -> (z_of_int (int_of i), str nm) | _ -> failwith "entry") es in
    string_of_int (int_of_z (lookup bytes_eqb entries (str n)))
  | _ -> failwith "lookup"

let () =
  match Sys.argv.(1) with
  | "unique" -> each_line unique_line
  | "module" -> each_line module_line
  | "lookup" -> each_line lookup_line
  | m -> failwith ("mode " ^ m)
