open Ext
open Sexp

let rec nat_of_int n = if n <= 0 then O else S (nat_of_int (n - 1))
let rec int_of_nat = function O -> 0 | S n -> 1 + int_of_nat n
let vis_of = function "published" -> Published | "public" -> Public | "protected" -> Protected | "private" -> Private | s -> failwith ("vis " ^ s)
let b = function A "1" -> true | A "0" -> false | x -> failwith ("bool " ^ show x)
let rec ty = function
  | A "s" -> Simple
  | L [A "c"; A n] -> Class (nat_of_int (int_of_string n))
  | L [A "k"; t] -> Const (ty t)
  | L [A "p"; t] -> Ptr (ty t)
  | L [A "r"; rv; t] -> Ref (b rv, ty t)
  | L [A "a"; t] -> Arr (ty t)
  | L [A "t"; A n; t] -> Typedef (nat_of_int (int_of_string n), ty t)
  | L [A "f"; r; L ps] -> Fn (ty r, List.map ty ps)
  | x -> failwith ("ty " ^ show x)
let file = function
  | L [A s; cf; ign] -> { src = (match s with "local" -> S_local | "alternate" -> S_alternate | "system" -> S_system | _ -> failwith "src"); c_file = b cf; ignorefile = b ign }
  | x -> failwith ("file " ^ show x)

(* (kind minvis arrays (classvis ...) (ignored ...) facts...) *)
let line l =
  match parse l with
  | L (A kind :: A mv :: arr :: L cv :: L ign :: rest) ->
    let cvl = List.map (fun x -> vis_of (atom x)) cv in
    let class_vis c = (try List.nth cvl (int_of_nat c) with _ -> Public) in
    let ignl = List.map int_of ign in
    let ignored n = List.mem (int_of_nat n) ignl in
    let mv = vis_of mv and arrays = b arr in
    let r =
      (match kind, rest with
       | ("function" | "method"), [f; A v; st; dl; tp; t; dt; gct; im; iv; fp] ->
         let fn = { f_file = file f; f_vis = vis_of v; f_static = b st; f_deleted = b dl; f_template = b tp; f_type = ty t; f_dtor = b dt; f_get_class_type = b gct;
                    f_ignoremember = b im; f_inherited_virtual = b iv; f_first_decl_published = b fp } in
         if kind = "function" then scan_function mv class_vis ignored arrays fn else define_method mv class_vis ignored arrays fn
       | "class", [f; A v; tp; L mvs] ->
         scan_struct_type mv { k_file = file f; k_vis = vis_of v; k_template = b tp; k_member_vis = List.map (fun x -> vis_of (atom x)) mvs }
       | "simple", [f; A v; tp; fl] -> scan_simple mv { s_file = file f; s_vis = vis_of v; s_template = b tp; s_fn_like = b fl }
       | _ -> failwith ("facts " ^ l)) in
    if r then "1" else "0"
  | _ -> failwith "line"

let () = each_line line
