open Ext
open Sexp

let rec int_of_nat = function O -> 0 | S n -> 1 + int_of_nat n
let rec nat_of_int n = if n <= 0 then O else S (nat_of_int (n - 1))
let rec pos_of_int n = if n = 1 then XH else if n land 1 = 0 then XO (pos_of_int (n lsr 1)) else XI (pos_of_int (n lsr 1))
let n_of_int n = if n = 0 then N0 else Npos (pos_of_int n)
let rec int_of_pos = function XH -> 1 | XO p -> 2 * int_of_pos p | XI p -> 2 * int_of_pos p + 1
let int_of_n = function N0 -> 0 | Npos p -> int_of_pos p
let hexd c = if c >= '0' && c <= '9' then Char.code c - 48 else Char.code c - 87
let bytes_of_hex (s : string) = List.init (String.length s / 2) (fun i -> n_of_int (hexd s.[2*i] * 16 + hexd s.[2*i+1]))
let hex (l : n list) = String.concat "" (List.map (fun c -> Printf.sprintf "%02x" (int_of_n c)) l)
let fixed = ref true

let show f = function Ok a -> f a | OutOfRange -> "THROW" | BadIndex -> "UB" | Fuel -> "FUEL"

(* input lines: "<hex>" or "<p> <hex>" *)
let manifest_line l =
  show (fun m -> Printf.sprintf "name=%s has=%d n=%d var=%d rest=%s" (hex m.m_name) (if m.m_has_params then 1 else 0) (List.length m.m_params)
                   (match m.m_variadic with Some k -> int_of_nat k | None -> -1) (hex m.m_rest))
    (manifest_ctor !fixed (bytes_of_hex l))

let extract_line l =
  let i = String.index l ' ' in
  let p = int_of_string (String.sub l 0 i) and e = bytes_of_hex (String.sub l (i + 1) (String.length l - i - 1)) in
  show (fun (args, tail) -> Printf.sprintf "args=%s tail=%s" (String.concat "," (List.map hex args)) (hex tail)) (expand_call !fixed e (nat_of_int p))

let raw_line l =
  show (fun ((s, rest), closed) -> Printf.sprintf "str=%s rest=%s closed=%d" (hex s) (hex rest) (if closed then 1 else 0)) (scan_raw !fixed (bytes_of_hex l))

let strip_line l = show hex (show_line_strip !fixed (bytes_of_hex l))

let command_line_ l =
  show (function None -> "none" | Some (c, p) -> Printf.sprintf "cmd=%s params=%s" (hex c) (hex p)) (command_line (bytes_of_hex l))

(* the whole #define: constructor, then the replacement list cut into nodes *)
let rec dump nodes =
  String.concat "" (List.map (fun (Node (parm, ex, st, pa, op, text, nested)) ->
    Printf.sprintf "(%s %d%d%d%d %s [%s])" (match parm with Some n -> string_of_int (int_of_nat n) | None -> "-")
      (if ex then 1 else 0) (if st then 1 else 0) (if pa then 1 else 0) (if op then 1 else 0) (hex text) (dump nested)) nodes)
let define_line l =
  show (fun m -> show dump (save_expansion (nat_of_int (List.length m.m_rest + 1)) m.m_params m.m_variadic m.m_rest)) (manifest_ctor !fixed (bytes_of_hex l))

let each (f : string -> string) =
  try
    while true do
      let l = input_line stdin in
      (try print_string (f l) with e -> print_string ("!exn " ^ Printexc.to_string e));
      print_newline ()
    done
  with End_of_file -> ()

let () =
  if Array.length Sys.argv > 2 && Sys.argv.(2) = "pinned" then fixed := false;
  match Sys.argv.(1) with
  | "manifest" -> each manifest_line
  | "extract" -> each extract_line
  | "raw" -> each raw_line
  | "strip" -> each strip_line
  | "command" -> each command_line_
  | "define" -> each define_line
  | m -> failwith ("mode " ^ m)
