open Ext
open Sexp

let rec nat_of_int n = if n <= 0 then O else S (nat_of_int (n - 1))
let rec int_of_nat = function O -> 0 | S n -> 1 + int_of_nat n
let pk = function
  | A "ull" -> PULongLong | A "ll" -> PLongLong | A "int" -> PInt | A "double" -> PDouble | A "float" -> PFloat | A "string" -> PString | A "charp" -> PCharPtr | A "bool" -> PBool
  | L [A "class"; A n] -> PClass (nat_of_int (int_of_string n))
  | x -> failwith ("pkind " ^ show x)
let show_pk = function
  | PULongLong -> "ull" | PLongLong -> "ll" | PInt -> "int" | PDouble -> "double" | PFloat -> "float" | PString -> "string" | PCharPtr -> "charp" | PBool -> "bool"
  | PClass n -> "(class " ^ string_of_int (int_of_nat n) ^ ")"
let ar = function
  | A "int" -> AInt | A "float" -> AFloat | A "str" -> AStr | A "bool" -> ABool | L [A "inst"; A n] -> AInst (nat_of_int (int_of_string n)) | x -> failwith ("arg " ^ show x)
let pair = function L [a; b] -> (nat_of_int (int_of a), nat_of_int (int_of b)) | _ -> failwith "pair"

(* (((cls depth) ...) ((base derived) ...) ((pkind ...) ...) (arg ...)) -> the overload that runs, or none *)
let line l =
  match parse l with
  | L [L ds; L bs; L os; L args] ->
    (match run (List.map pair ds) (List.map pair bs) (List.map (function L ps -> List.map pk ps | _ -> failwith "ov") os) (List.map ar args) with
     | None -> "none"
     | Some o -> "(" ^ String.concat " " (List.map show_pk o) ^ ")")
  | _ -> failwith "line"

(* ((id min max) ...) -> the entries of the generated switch, lowest first: "lo-hi:id,id;..." *)
let table_line l =
  match parse l with
  | L rs ->
    let rs = List.map (function L [i; a; b] -> { r_id = nat_of_int (int_of i); r_min = nat_of_int (int_of a); r_max = nat_of_int (int_of b) } | _ -> failwith "remap") rs in
    String.concat ";" (List.map (fun ((lo, hi), ids) -> string_of_int (int_of_nat lo) ^ "-" ^ string_of_int (int_of_nat hi) ^ ":" ^
                                  String.concat "," (List.map (fun i -> string_of_int (int_of_nat i)) ids)) (arity_labels rs))
  | _ -> failwith "table"

(* (((cls depth) ...) ((base derived) ...) ((const pkind ...) ...) this_const (arg ...)) -> "c (pkinds)" / "n (pkinds)" / none *)
let cline l =
  match parse l with
  | L [L ds; L bs; L os; tc; L args] ->
    let ov = function L (A c :: ps) -> { o_const = (c = "1"); o_params = List.map pk ps } | _ -> failwith "ov" in
    (match crun (List.map pair ds) (List.map pair bs) (List.map ov os) (tc = A "1") (List.map ar args) with
     | None -> "none"
     | Some o -> (if o.o_const then "c (" else "n (") ^ String.concat " " (List.map show_pk o.o_params) ^ ")")
  | _ -> failwith "cline"

let () =
  if Array.length Sys.argv > 1 && Sys.argv.(1) = "table" then each_line table_line
  else if Array.length Sys.argv > 1 && Sys.argv.(1) = "cdispatch" then each_line cline
  else each_line line
