open Ext
open Sexp

let rec int_of_nat = function O -> 0 | S n -> 1 + int_of_nat n
let rec pos_of_int n = if n = 1 then XH else if n land 1 = 0 then XO (pos_of_int (n lsr 1)) else XI (pos_of_int (n lsr 1))
let n_of_int n = if n = 0 then N0 else Npos (pos_of_int n)
let hexd c = if c >= '0' && c <= '9' then Char.code c - 48 else Char.code c - 87
let bytes_of_hex (s : string) : char list =
  List.init (String.length s / 2) (fun i -> Char.chr (hexd s.[2*i] * 16 + hexd s.[2*i+1]))
let str = function A s when String.length s >= 2 && String.sub s 0 2 = "s:" -> bytes_of_hex (String.sub s 2 (String.length s - 2)) | x -> failwith ("str " ^ show x)
let string_of_chars l = String.concat "" (List.map (String.make 1) l)

(* hash: (OFF s:HEX) -> 4 characters *)
let hash_line l =
  match parse l with
  | L [o; s] -> string_of_chars (hash_string (str s) (n_of_int (int_of o)))
  | _ -> failwith "hash"

(* assign: (s:SIG ...) in processing order -> "errors=N name0 name1 ..." *)
let assign_line l =
  match parse l with
  | L sigs ->
    let ss = List.map str sigs in
    let st = run_c (number ss) in
    let names = List.mapi (fun i _ -> match nget st.emitted (let rec nat n = if n = 0 then O else S (nat (n-1)) in nat i) with
                                     | Some k -> string_of_chars k ^ (if ident_ok k then "" else "!INVALID") | None -> "?") ss in
    "errors=" ^ string_of_int (int_of_nat st.errors) ^ " " ^ String.concat " " names
  | _ -> failwith "assign"

let () =
  match Sys.argv.(1) with
  | "hash" -> each_line hash_line
  | "assign" -> each_line assign_line
  | m -> failwith ("mode " ^ m)
