open Ext
open Sexp

let rec nat_of_int n = if n <= 0 then O else S (nat_of_int (n - 1))
let string_of_chars l = String.concat "" (List.map (String.make 1) l)
let chars_of_string s = List.init (String.length s) (String.get s)

let rec ty = function
  | L [A "base"; b] -> TBase (nat_of_int (int_of b))
  | L [A "const"; t] -> TConst (ty t)
  | L [A "ptr"; t] -> TPtr (ty t)
  | L [A "memptr"; c; t] -> TMemPtr (nat_of_int (int_of c), ty t)
  | L [A "ref"; t] -> TRef (ty t)
  | L [A "rref"; t] -> TRRef (ty t)
  | L [A "arr"; t; n] -> TArr (ty t, nat_of_int (int_of n))
  | L [A "fn"; r; ps] -> TFn (ty r, nat_of_int (int_of ps))
  | x -> failwith ("ty " ^ show x)

(* print: (NAME TYPE) -> text of the declaration as the printers emit it | flag whether the model's theorem applies *)
let print_line l =
  match parse l with
  | L [A name; t] -> let t = ty t in
    string_of_chars (print_decl (chars_of_string name) t) ^ " | " ^ (if memptr_ok t then "ok" else "dataptr") ^ " | " ^ (if denotes (pr t [] NName) = t then "same" else "DIFFERENT")
  | _ -> failwith "print"

let () =
  match Sys.argv.(1) with
  | "print" -> each_line print_line
  | m -> failwith ("mode " ^ m)
