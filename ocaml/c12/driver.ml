open Ext
open Sexp
open Dbsexp

(* write: (IDENT MINOR DB) -> hex of the file *)
let write_line l =
  match parse l with
  | L [id; mi; d] -> let (h, d) = db d in hex_of_bytes (write_file (z id) (z mi) h d)
  | _ -> failwith "write"

(* load: (EXPECTED HEX) -> "<errflag> <db|none>" *)
let load_line l =
  match parse l with
  | L [ex; A hex] ->
    let (e, r) = load_file (z ex) (bytes_of_hex hex) in
    (if e then "1 " else "0 ") ^ (match r with None -> "none" | Some hd -> pdb hd)
  | _ -> failwith "load"

let () =
  match Sys.argv.(1) with
  | "write" -> each_line write_line
  | "load" -> each_line load_line
  | m -> failwith ("mode " ^ m)
