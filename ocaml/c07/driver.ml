open Ext
open Sexp

let rec pos_of_int n = if n = 1 then XH else if n land 1 = 0 then XO (pos_of_int (n lsr 1)) else XI (pos_of_int (n lsr 1))
let z_of_int n = if n = 0 then Z0 else if n > 0 then Zpos (pos_of_int n) else Zneg (pos_of_int (-n))
let rec int_of_pos = function XH -> 1 | XO p -> 2 * int_of_pos p | XI p -> 2 * int_of_pos p + 1
let int_of_z = function Z0 -> 0 | Zpos p -> int_of_pos p | Zneg p -> - (int_of_pos p)
let rec nat_of_int n = if n <= 0 then O else S (nat_of_int (n - 1))

let unop = function "not" -> UNot | "compl" -> UCompl | "minus" -> UMinus | "plus" -> UPlus | s -> failwith ("unop " ^ s)
let binop = function
  | "mul" -> BMul | "div" -> BDiv | "mod" -> BMod | "add" -> BAdd | "sub" -> BSub | "shl" -> BShl | "shr" -> BShr
  | "lt" -> BLt | "gt" -> BGt | "le" -> BLe | "ge" -> BGe | "eq" -> BEq | "ne" -> BNe
  | "and" -> BAnd | "xor" -> BXor | "or" -> BOr | "andand" -> BAndAnd | "oror" -> BOrOr | "comma" -> BComma
  | s -> failwith ("binop " ^ s)

let rec expr = function
  | L [A "lit"; z] -> ELit (z_of_int (int_of z))
  | L [A "ref"; x] -> ERef (nat_of_int (int_of x))
  | L [A "opaque"] -> EOpaque
  | L [A "un"; A o; e] -> EUn (unop o, expr e)
  | L [A "bin"; A o; a; b] -> EBin (binop o, expr a, expr b)
  | L [A "cond"; c; a; b] -> ECond (expr c, expr a, expr b)
  | L [A "casti"; e] -> ECastInt (expr e)
  | L [A "castb"; e] -> ECastBool (expr e)
  | x -> failwith ("expr " ^ show x)

let env = function
  | L l -> List.map (function A "?" -> None | x -> Some (z_of_int (int_of x))) l
  | _ -> failwith "env"

let show_res = function RInt z -> string_of_int (int_of_z z) | RErr -> "err"
let show_opt = function Some z -> string_of_int (int_of_z z) | None -> "none"

(* line: (ENV EXPR)  ->  "<impl> <spec>" *)
let eval_line l =
  match parse l with
  | L [r; e] -> let r = env r and e = expr e in show_res (impl_eval r e) ^ " " ^ show_opt (cxx_eval r e)
  | _ -> failwith "eval: (env expr)"

(* line: (INIT ...) with INIT = - | EXPR -> "impl: v v ... | spec: v v ..." *)
let enum_line l =
  match parse l with
  | L inits ->
    let is = List.map (function A "-" -> None | e -> Some (expr e)) inits in
    String.concat " " (List.map show_res (enum_impl [] is (RInt Z0))) ^ " | " ^
    String.concat " " (List.map show_opt (enum_cxx [] is (Some Z0)))
  | _ -> failwith "enum"

let () =
  match Sys.argv.(1) with
  | "eval" -> each_line eval_line
  | "enum" -> each_line enum_line
  | m -> failwith ("mode " ^ m)
