open Ext
open Sexp

let rec nat_of_int n = if n <= 0 then O else S (nat_of_int (n - 1))
let rec int_of_nat = function O -> 0 | S n -> 1 + int_of_nat n

(* order: ((key (dep ...)) ...) keys ascending -> "libs: a b c | removed: a>b ... " or "nofuel" *)
let order_line l =
  match parse l with
  | L es ->
    let g = List.map (function L [k; L ds] -> (nat_of_int (int_of k), List.map (fun d -> nat_of_int (int_of d)) ds) | _ -> failwith "entry") es in
    (match run_order g with
     | None -> "nofuel"
     | Some ((libs, _), removed) ->
       "libs: " ^ String.concat " " (List.map (fun n -> string_of_int (int_of_nat n)) libs) ^ " | removed: " ^
       String.concat " " (List.rev_map (fun (a, b) -> string_of_int (int_of_nat a) ^ ">" ^ string_of_int (int_of_nat b)) removed))
  | _ -> failwith "order"

let () =
  match Sys.argv.(1) with
  | "order" -> each_line order_line
  | m -> failwith ("mode " ^ m)
