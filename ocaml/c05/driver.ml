open Ext
open Sexp

let rec nat_of_int n = if n <= 0 then O else S (nat_of_int (n - 1))
let rec int_of_nat = function O -> 0 | S n -> 1 + int_of_nat n

(* comment: (((id first last) ...) (line ...)) -> "id id - id" (block attached to each declaration line) *)
let comment_line l =
  match parse l with
  | L [L bs; L ls] ->
    let blocks = List.map (function L [i; f; la] -> { b_id = nat_of_int (int_of i); b_first = nat_of_int (int_of f); b_last = nat_of_int (int_of la) } | _ -> failwith "block") bs in
    String.concat " " (List.map (fun x -> match comment_before blocks (nat_of_int (int_of x)) with Some b -> string_of_int (int_of_nat b.b_id) | None -> "-") ls)
  | _ -> failwith "comment"

(* variants: ((name default) ...) -> "1,2,3|1,2" *)
let variants_line l =
  match parse l with
  | L ps ->
    let params = List.map (function L [n; d] -> { p_name = nat_of_int (int_of n); p_type = O; p_default = (atom d = "1") } | _ -> failwith "param") ps in
    String.concat "|" (List.map (fun v -> String.concat "," (List.map (fun p -> string_of_int (int_of_nat p.p_name)) v)) (variants params))
  | _ -> failwith "variants"

let () =
  match Sys.argv.(1) with
  | "comment" -> each_line comment_line
  | "variants" -> each_line variants_line
  | m -> failwith ("mode " ^ m)
