open Ext
open Sexp

(* Z <-> decimal/hex strings without native-int overflow: 64-bit patterns are read as two 32-bit halves *)
let rec pos_of_int n = if n = 1 then XH else if n land 1 = 0 then XO (pos_of_int (n lsr 1)) else XI (pos_of_int (n lsr 1))
let z_of_int n = if n = 0 then Z0 else if n > 0 then Zpos (pos_of_int n) else Zneg (pos_of_int (-n))
let string_of_chars l = String.concat "" (List.map (String.make 1) l)

(* build the Z for hi*2^32 + lo with positive binary constructors *)
let rec shift32 (p : positive) (n : int) = if n = 0 then p else shift32 (XO p) (n - 1)
let z_of_halves hi lo =
  (* hi, lo < 2^32 *)
  let rec add_bits (acc : positive option) (v : int) (bit : int) =
    if bit < 0 then acc else
    let b = (v lsr bit) land 1 in
    let acc' = (match acc with None -> if b = 1 then Some XH else None | Some p -> Some (if b = 1 then XI p else XO p)) in
    add_bits acc' v (bit - 1) in
  let a = add_bits None hi 31 in
  match add_bits a lo 31 with None -> Z0 | Some p -> Zpos p

(* dtoa: 16 hex digits -> text *)
let dtoa_line l =
  let l = String.trim l in
  let hi = int_of_string ("0x" ^ String.sub l 0 8) and lo = int_of_string ("0x" ^ String.sub l 8 8) in
  string_of_chars (pdtoa (z_of_halves hi lo))

let () =
  match Sys.argv.(1) with
  | "dtoa" -> each_line dtoa_line
  | m -> failwith ("mode " ^ m)
