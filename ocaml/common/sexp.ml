(* minimal s-expression reader/printer shared by the model drivers *)
type t = A of string | L of t list

let parse (s : string) : t =
  let n = String.length s in
  let pos = ref 0 in
  let rec skip () = if !pos < n && (s.[!pos] = ' ' || s.[!pos] = '\t') then (incr pos; skip ()) in
  let rec item () =
    skip ();
    if !pos >= n then failwith "sexp: eof"
    else if s.[!pos] = '(' then begin
      incr pos;
      let rec items acc =
        skip ();
        if !pos >= n then failwith "sexp: unclosed"
        else if s.[!pos] = ')' then (incr pos; L (List.rev acc))
        else items (item () :: acc) in
      items []
    end else begin
      let st = !pos in
      while !pos < n && s.[!pos] <> ' ' && s.[!pos] <> '(' && s.[!pos] <> ')' && s.[!pos] <> '\t' do incr pos done;
      A (String.sub s st (!pos - st))
    end in
  item ()

let rec show = function
  | A s -> s
  | L l -> "(" ^ String.concat " " (List.map show l) ^ ")"

let atom = function A s -> s | L _ -> failwith "sexp: atom expected"
let int_of x = int_of_string (atom x)

let each_line (f : string -> string) =
  try
    while true do
      let l = input_line stdin in
      if l <> "" then begin
        (try print_string (f l) with e -> print_string ("!exn " ^ Printexc.to_string e));
        print_newline ()
      end
    done
  with End_of_file -> ()
