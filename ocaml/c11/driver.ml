open Ext
open Sexp
open Dbsexp

let b x = if x then "1" else "0"
let rec len = function [] -> 0 | _ :: t -> 1 + len t
let rec nat_of_int n = if n <= 0 then O else S (nat_of_int (n - 1))

(* check: DB -> "closed=.. links=.. keysdistinct=.. consecutive_from1=.. wrappers_first=.." *)
let check_line l =
  let (h, d) = db (parse l) in
  let ks = all_keys d in
  let n = len ks in
  let sorted = List.sort compare (List.map int_of_z ks) in
  let consecutive = sorted = List.init n (fun i -> i + 1) in
  let nw = len d.d_wrappers in
  let wf = List.sort compare (List.map (fun (i, _) -> int_of_z i) d.d_wrappers) = List.init nw (fun i -> i + 1) in
  "closed=" ^ b (closedb d) ^ " links=" ^ b (linksb d) ^ " keysdistinct=" ^ b (nodupb ks) ^
  " consecutive_from1=" ^ b consecutive ^ " wrappers_first=" ^ b wf ^ " flags=" ^ b (flagsb d)

(* remap: (FIRST DB) -> "<next> <db>" *)
let remap_line l =
  match parse l with
  | L [f; d] -> let (h, d) = db d in let (d', nx) = remap (z f) d in pz nx ^ " " ^ pdb (h, d')
  | _ -> failwith "remap"

(* load: (EXPECTED HEX) -> "<errflag> <db|none>"  (same as the C12 driver; lets C11 read real files) *)
let load_line l =
  match parse l with
  | L [ex; A hex] ->
    let (e, r) = load_file (z ex) (bytes_of_hex hex) in
    (if e then "1 " else "0 ") ^ (match r with None -> "none" | Some hd -> pdb hd)
  | _ -> failwith "load"

let write_line l =
  match parse l with
  | L [id; mi; d] -> let (h, d) = db d in hex_of_bytes (write_file (z id) (z mi) h d)
  | _ -> failwith "write"

let () =
  match Sys.argv.(1) with
  | "check" -> each_line check_line
  | "remap" -> each_line remap_line
  | "load" -> each_line load_line
  | "write" -> each_line write_line
  | m -> failwith ("mode " ^ m)
