open Ext
open Sexp

let rec nat_of_int n = if n <= 0 then O else S (nat_of_int (n - 1))
let acc = function A "pub" -> Public | A "prot" -> Protected | A "priv" -> Private | _ -> failwith "access"
let bl = function A "1" -> true | A "0" -> false | _ -> failwith "bool"
let special = function A "-" -> None | L [a; d] -> Some { sp_access = acc a; sp_deleted = bl d } | _ -> failwith "special"
let ftype = function
  | A "scalar" -> FScalar | A "cscalar" -> FConstScalar | A "ref" -> FRef | A "rref" -> FRRef
  | L [A "class"; i] -> FClass (nat_of_int (int_of i)) | L [A "cclass"; i] -> FConstClass (nat_of_int (int_of i)) | _ -> failwith "ftype"

(* class: ((BASE ...) (FIELD ...) (METHOD ...) dctor cctor cctor_nonconst other_ctor move dtor)
   BASE = (idx access virtual)  FIELD = (ftype init static)  METHOD = (name sig virtual pure deleted)  dtor = - | (access deleted virtual) | (access deleted virtual pure) *)
let cls = function
  | L [L bs; L fs; L ms; dc; cc; ccn; oc; mv; dt] ->
    { c_bases = List.map (function L [i; a; v] -> { b_class = nat_of_int (int_of i); b_access = acc a; b_virtual = bl v } | _ -> failwith "base") bs;
      c_fields = List.map (function L [t; i; s] -> { f_ty = ftype t; f_init = bl i; f_static = bl s } | _ -> failwith "field") fs;
      c_methods = List.map (function L [n; s; v; p; d] -> { m_name = nat_of_int (int_of n); m_sig = nat_of_int (int_of s); m_virtual = bl v; m_pure = bl p; m_deleted = bl d } | _ -> failwith "method") ms;
      c_dctor = special dc; c_cctor = special cc; c_cctor_nonconst = bl ccn; c_other_ctor = bl oc; c_move = bl mv;
      c_dtor = (match dt with A "-" -> None | L (a :: d :: v :: _) -> Some ({ sp_access = acc a; sp_deleted = bl d }, bl v) | _ -> failwith "dtor");
      c_dtor_pure = (match dt with L [_; _; _; p] -> bl p | _ -> false) }
  | x -> failwith ("class " ^ show x)

let b x = if x then "1" else "0"
let show_traits t = b t.t_abstract ^ b t.t_poly ^ b t.t_dflt ^ b t.t_copy ^ b t.t_destr

(* traits: (CLASS ...) -> per class "impl=apdcD cxx=apdcD frag=0/1 xd=0/1 xc=0/1" separated by ';' *)
let traits_line l =
  match parse l with
  | L cs ->
    let cl = List.map cls cs in
    let si = analyze Impl cl and sc = analyze Cxx cl in
    let rec go cl si sc fragsofar = match cl, si, sc with
      | c :: cr, i :: ir, x :: xr ->
        let fr = fragsofar && class_frag c in
        ("impl=" ^ show_traits (traits_of i) ^ " cxx=" ^ show_traits (traits_of x) ^ " frag=" ^ b fr ^
         " xd=" ^ b (exports_default_ctor i c) ^ " xc=" ^ b (exports_copy_ctor i c)) :: go cr ir xr fr
      | _ -> [] in
    String.concat ";" (go cl si sc true)
  | _ -> failwith "traits"

let () =
  match Sys.argv.(1) with
  | "traits" -> each_line traits_line
  | m -> failwith ("mode " ^ m)
