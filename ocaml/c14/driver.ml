open Ext
open Sexp

let rec pos_of_int n = if n = 1 then XH else if n land 1 = 0 then XO (pos_of_int (n lsr 1)) else XI (pos_of_int (n lsr 1))
let z_of_int n = if n = 0 then Z0 else if n > 0 then Zpos (pos_of_int n) else Zneg (pos_of_int (-n))
let rec int_of_pos = function XH -> 1 | XO p -> 2 * int_of_pos p | XI p -> 2 * int_of_pos p + 1
let int_of_z = function Z0 -> 0 | Zpos p -> int_of_pos p | Zneg p -> - (int_of_pos p)
let hexd c = if c >= '0' && c <= '9' then Char.code c - 48 else Char.code c - 87
let bytes_of_hex (s : string) : char list = List.init (String.length s / 2) (fun i -> Char.chr (hexd s.[2*i] * 16 + hexd s.[2*i+1]))

(* ident: (unset|s:HEX NOW) -> identifier *)
let ident_line l =
  match parse l with
  | L [e; now] ->
    let epoch = (match e with A "unset" -> None | A s -> Some (bytes_of_hex (String.sub s 2 (String.length s - 2))) | _ -> failwith "e") in
    string_of_int (int_of_z (file_identifier epoch (z_of_int (int_of now))))
  | _ -> failwith "ident"

let () =
  match Sys.argv.(1) with
  | "ident" -> each_line ident_line
  | m -> failwith ("mode " ^ m)
