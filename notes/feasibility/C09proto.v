From Coq Require Import List Arith Bool Lia.
Import ListNotations.

Section C09.
Variables (st cond action : Type).
Variable evalc : st -> cond -> bool.
Variable act : action -> st -> st.

Inductive line := LAct (a : action) | LIf (c : cond) | LElif (c : cond) | LElse | LEndif.

Fixpoint norm (ls : list line) (s : st) {struct ls} : st :=
  match ls with
  | [] => s
  | LAct a :: r => norm r (act a s)
  | LIf c :: r => if evalc s c then norm r s else skip true 0 r s
  | LElif _ :: r => skip false 0 r s
  | LElse :: r => skip false 0 r s
  | LEndif :: r => norm r s
  end
with skip (consider : bool) (level : nat) (ls : list line) (s : st) {struct ls} : st :=
  match ls with
  | [] => s
  | LAct _ :: r => skip consider level r s
  | LIf _ :: r => skip consider (S level) r s
  | LElse :: r =>
      if (level =? 0) && consider then norm r s else skip consider level r s
  | LElif c :: r =>
      if (level =? 0) && consider
      then (if evalc s c then norm r s else skip true 0 r s)
      else skip consider level r s
  | LEndif :: r =>
      if level =? 0 then norm r s else skip consider (level - 1) r s
  end.

Inductive group :=
| GNil
| GAct (a : action) (rest : group)
| GCond (b : branches) (rest : group)
with branches :=
| BLast (c : cond) (g : group) (e : ogroup)
| BCons (c : cond) (g : group) (more : branches)
with ogroup := ONone | OSome (g : group).

Scheme group_mut := Induction for group Sort Prop
with branches_mut := Induction for branches Sort Prop
with ogroup_mut := Induction for ogroup Sort Prop.
Combined Scheme gbo_ind from group_mut, branches_mut, ogroup_mut.

Fixpoint flat (g : group) : list line :=
  match g with
  | GNil => []
  | GAct a r => LAct a :: flat r
  | GCond b r => flat_br true b ++ LEndif :: flat r
  end
with flat_br (first : bool) (b : branches) : list line :=
  match b with
  | BLast c g e => (if first then LIf c else LElif c) :: flat g ++ flat_o e
  | BCons c g m => (if first then LIf c else LElif c) :: flat g ++ flat_br false m
  end
with flat_o (e : ogroup) : list line :=
  match e with ONone => [] | OSome g => LElse :: flat g end.

Fixpoint keep (g : group) (s : st) : st :=
  match g with
  | GNil => s
  | GAct a r => keep r (act a s)
  | GCond b r => keep r (keep_br b s)
  end
with keep_br (b : branches) (s : st) : st :=
  match b with
  | BLast c g e => if evalc s c then keep g s else keep_o e s
  | BCons c g m => if evalc s c then keep g s else keep_br m s
  end
with keep_o (e : ogroup) (s : st) : st :=
  match e with ONone => s | OSome g => keep g s end.

(* Skipping a nested region never looks inside it. *)
Lemma skip_over :
  (forall g cons L k s, skip cons L (flat g ++ k) s = skip cons L k s) /\
  (forall b cons L k s,
      skip cons (S L) (flat_br false b ++ k) s = skip cons (S L) k s /\
      skip cons L (flat_br true b ++ LEndif :: k) s = skip cons L k s) /\
  (forall e cons L k s, skip cons (S L) (flat_o e ++ k) s = skip cons (S L) k s).
Proof.
  apply gbo_ind.
  - reflexivity.
  - intros a r IH cons L k s. cbn. apply IH.
  - intros b IHb r IHr cons L k s. cbn [flat]. rewrite <- app_assoc. cbn [app].
    destruct (IHb cons L (flat r ++ k) s) as [_ H]. rewrite H. apply IHr.
  - intros c g IHg e IHe cons L k s. split.
    + cbn. rewrite <- app_assoc, IHg. apply IHe.
    + cbn. rewrite <- !app_assoc, IHg, IHe. cbn. now rewrite Nat.sub_0_r.
  - intros c g IHg m IHm cons L k s. split.
    + cbn. rewrite <- app_assoc, IHg. apply IHm.
    + cbn. rewrite <- !app_assoc, IHg.
      destruct (IHm cons L (LEndif :: k) s) as [H _]. rewrite H. cbn. now rewrite Nat.sub_0_r.
  - reflexivity.
  - intros g IH cons L k s. cbn. apply IH.
Qed.

Lemma skip_group g cons L k s : skip cons L (flat g ++ k) s = skip cons L k s.
Proof. apply skip_over. Qed.

(* After a taken branch, the remaining branches are skipped up to #endif. *)
Lemma skip_rest_br b k s : skip false 0 (flat_br false b ++ LEndif :: k) s = norm k s.
Proof.
  revert s. induction b as [c g e|c g m IH]; intros s; cbn.
  - rewrite <- app_assoc, skip_group. destruct e as [|g']; cbn; [reflexivity|].
    now rewrite skip_group.
  - rewrite <- app_assoc, skip_group. apply IH.
Qed.

Lemma skip_rest_o e k s : skip false 0 (flat_o e ++ LEndif :: k) s = norm k s.
Proof. destruct e as [|g]; cbn; [reflexivity|]. now rewrite skip_group. Qed.

Lemma skip_rest_o_norm e k s : norm (flat_o e ++ LEndif :: k) s = norm k s.
Proof. destruct e as [|g]; cbn; [reflexivity|]. now rewrite skip_group. Qed.

Lemma skip_rest_br_norm b k s : norm (flat_br false b ++ LEndif :: k) s = norm k s.
Proof.
  destruct b as [c g e|c g m]; cbn; rewrite <- app_assoc, skip_group.
  - destruct e as [|g']; cbn; [reflexivity|]. now rewrite skip_group.
  - apply skip_rest_br.
Qed.

Theorem keep_exact_gen :
  (forall g k s, norm (flat g ++ k) s = norm k (keep g s)) /\
  (forall b k s,
      norm (flat_br true b ++ LEndif :: k) s = norm k (keep_br b s) /\
      skip true 0 (flat_br false b ++ LEndif :: k) s = norm k (keep_br b s)) /\
  (forall e k s, skip true 0 (flat_o e ++ LEndif :: k) s = norm k (keep_o e s)).
Proof.
  apply gbo_ind.
  - reflexivity.
  - intros a r IH k s. cbn. apply IH.
  - intros b IHb r IHr k s. cbn [flat keep]. rewrite <- app_assoc. cbn [app].
    destruct (IHb (flat r ++ k) s) as [H _]. rewrite H. apply IHr.
  - intros c g IHg e IHe k s. split; cbn; rewrite <- app_assoc.
    + destruct (evalc s c).
      * rewrite IHg. apply skip_rest_o_norm.
      * rewrite skip_group. apply IHe.
    + destruct (evalc s c).
      * rewrite IHg. apply skip_rest_o_norm.
      * rewrite skip_group. apply IHe.
  - intros c g IHg m IHm k s. split; cbn; rewrite <- app_assoc.
    + destruct (evalc s c).
      * rewrite IHg. apply skip_rest_br_norm.
      * rewrite skip_group. apply IHm.
    + destruct (evalc s c).
      * rewrite IHg. apply skip_rest_br_norm.
      * rewrite skip_group. apply IHm.
  - intros k s. reflexivity.
  - intros g IH k s. cbn. rewrite IH. reflexivity.
Qed.
Theorem c09_keep_exact g s : norm (flat g) s = keep g s.
Proof. destruct keep_exact_gen as [H _]. specialize (H g [] s). rewrite app_nil_r in H. exact H. Qed.
End C09.
Print Assumptions c09_keep_exact.

