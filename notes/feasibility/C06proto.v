From Coq Require Import List Bool Arith.
Import ListNotations.

(* Types as interrogate builds them (function parameters kept opaque: they are
   printed by an independent recursion). *)
Inductive ty :=
| TBase (b : nat) | TConst (t : ty) | TPtr (t : ty) | TRef (t : ty)
| TArr (t : ty) (n : nat) | TFn (r : ty) (ps : nat).

(* What the printer emits, structurally: base-type text, a list of prefix
   operators (the "prename" string, leftmost first) and a noptr-declarator
   (the "name" string with its suffixes and parentheses). *)
Inductive pfx := PStar | PConst | PAmp.
Inductive noptr :=
| NName | NArr (c : noptr) (n : nat) | NFn (c : noptr) (ps : nat)
| NParen (pre : list pfx) (c : noptr).

(* [dcl.meaning]: prefixes apply left to right to the base type, then the
   suffixes of the noptr-declarator apply from the inside out. *)
Definition app1 (p : pfx) (t : ty) : ty :=
  match p with PStar => TPtr t | PConst => TConst t | PAmp => TRef t end.
Definition apply (pre : list pfx) (t : ty) : ty := fold_left (fun t p => app1 p t) pre t.
Fixpoint meaning (c : noptr) (t : ty) : ty :=
  match c with
  | NName => t
  | NArr c n => meaning c (TArr t n)
  | NFn c ps => meaning c (TFn t ps)
  | NParen pre c => meaning c (apply pre t)
  end.

(* output_instance of each CPPType subclass, as it is. *)
Fixpoint pr (t : ty) (pre : list pfx) (core : noptr) : nat * list pfx * noptr :=
  match t with
  | TBase b => (b, pre, core)
  | TPtr t' => pr t' (PStar :: pre) core
  | TConst t' => pr t' (PConst :: pre) core
  | TRef t' => pr t' (PAmp :: pre) core
  | TArr t' n => pr t' pre (NArr core n)                       (* prename passed through *)
  | TFn r ps => match pre with
                | [] => pr r [] (NFn core ps)
                | _ => pr r [] (NFn (NParen pre core) ps)
                end
  end.

Definition denotes (out : nat * list pfx * noptr) : ty :=
  let '(b, pre, core) := out in meaning core (apply pre (TBase b)).

(* Types in which no array sits directly under pointer/reference/const. *)
Fixpoint ok (t : ty) (under_prefix : bool) : bool :=
  match t with
  | TBase _ => true
  | TPtr t' | TConst t' | TRef t' => ok t' true
  | TArr t' _ => negb under_prefix && ok t' false
  | TFn r _ => ok r false
  end.

Lemma apply_cons p pre t : apply (p :: pre) t = apply pre (app1 p t).
Proof. reflexivity. Qed.

Lemma pr_denotes t : forall pre core,
  ok t (negb (match pre with [] => true | _ => false end)) = true ->
  denotes (pr t pre core) = meaning core (apply pre t).
Proof.
  induction t as [b|t IH|t IH|t IH|t IH n|r IH ps]; intros pre core Hok; cbn [pr].
  - reflexivity.
  - rewrite IH by exact Hok. reflexivity.
  - rewrite IH by exact Hok. reflexivity.
  - rewrite IH by exact Hok. reflexivity.
  - cbn [ok] in Hok. apply andb_true_iff in Hok as [Hp Hok].
    destruct pre as [|p pre]; [|discriminate Hp].
    rewrite IH by exact Hok. reflexivity.
  - cbn [ok] in Hok. destruct pre as [|p pre]; rewrite IH by exact Hok; reflexivity.
Qed.

Theorem c06_print_denotes_partial t : ok t false = true -> denotes (pr t [] NName) = t.
Proof. intros H. rewrite pr_denotes by exact H. reflexivity. Qed.

(* The excluded shape really is wrong: pointer to array of 3 int. *)
Theorem c06_print_refuted : exists t, denotes (pr t [] NName) <> t.
Proof. exists (TPtr (TArr (TBase 0) 3)). vm_compute. discriminate. Qed.

(* Non-vacuity: a function pointer returning pointer to const, array of pointers. *)
Example ok_example : ok (TArr (TPtr (TFn (TPtr (TConst (TBase 1))) 7)) 4) false = true.
Proof. reflexivity. Qed.
Print Assumptions c06_print_denotes_partial.
