#!/usr/bin/env python3
"""Regenerates the generated tables of DESIGN.md (between <!-- BEGIN x --> / <!-- END x --> markers) from seeded/, known_findings.json and coq/Properties_*.v."""
import glob
import json
import os
import re
import subprocess

V = os.path.dirname(os.path.dirname(os.path.abspath(__file__)))


def seeds():
    L = ['| seed | file changed | what breaks | caught | by what |', '|---|---|---|---|---|']
    n_yes = n_after = n_other = 0
    for d in sorted(glob.glob(V + '/seeded/*')):
        m = json.load(open(d + '/meta.json'))
        diff = open(d + '/patch.diff').read()
        files = sorted(set(re.findall(r'^\+\+\+ b/(\S+)', diff, flags=re.M)))
        br = m['breaks'].split('\n')[0].lstrip('# ').strip()
        br = re.sub(r'^(R2)?C\d\d\s*(\(?round 2\)?)?\s*(seeded change,?\s*)?(R2\s*)?variant \d\s*(\(round 2\))?\s*[-:—]*\s*', '', br, flags=re.I)
        if not br:
            br = [l for l in m['breaks'].split('\n') if l.strip() and not l.startswith('#')][0][:120]
        c = m['caught_by_check']
        if c.startswith('yes'):
            n_yes += 1
            c1 = 'quick'
        elif c.startswith('no'):
            n_other += 1
            c1 = 'NOT by this property\'s check'
        else:
            n_after += 1
            c1 = 'quick, after strengthening'
        L.append('| %s | %s | %s | %s | %s |' % (os.path.basename(d), ', '.join(os.path.basename(x) for x in files), br[:120].replace('|', '/'), c1,
                                               m['needs_to_manifest'][:200].replace('|', '/').replace('\n', ' ')))
    L.append('')
    L.append('%d seeded changes: %d caught by the check as it stood, %d after the generator or check was strengthened, %d not caught by the check of the property they were written for '
             '(see the last column).' % (n_yes + n_after + n_other, n_yes, n_after, n_other))
    return '\n'.join(L)


def fixed():
    kf = json.load(open(V + '/known_findings.json'))
    L = ['| property | commit | what failed before |', '|---|---|---|']
    for l in kf['fixed']:
        m = re.match(r'fixed: property=(\w+) (\w+) (.*)', l)
        if m:
            L.append('| %s | `%s` | %s |' % (m.group(1), m.group(2), m.group(3).replace('|', '/')[:300]))
    return '\n'.join(L)


def findings():
    kf = json.load(open(V + '/known_findings.json'))
    L = ['| property | key | what fails | replay |', '|---|---|---|---|']
    for f in kf['findings']:
        L.append('| %s | `%s` | %s | %s |' % (f['property'], f['key'], f['what'].replace('|', '/')[:340], f['replay'].replace('|', '/').replace('\n', ' ')[:150]))
    return '\n'.join(L)


def theorems():
    L = []
    n = 0
    for f in sorted(glob.glob(V + '/coq/Properties_C*.v')):
        p = os.path.basename(f)[11:14]
        names = re.findall(r'^Theorem (\w+)', open(f).read(), flags=re.M)
        n += len(names)
        L.append('* **%s** — %s' % (p, ', '.join('`%s`' % x for x in names)))
    L.append('')
    L.append('%d theorems in all.' % n)
    return '\n'.join(L)


s = open(V + '/DESIGN.md').read()
for name, fn in (('seeds', seeds), ('fixed', fixed), ('findings', findings), ('theorems', theorems)):
    b, e = '<!-- BEGIN %s -->' % name, '<!-- END %s -->' % name
    if b in s:
        s = s[:s.index(b) + len(b)] + '\n' + fn() + '\n' + s[s.index(e):]
open(V + '/DESIGN.md', 'w').write(s)
