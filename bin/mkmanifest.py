#!/usr/bin/env python3
"""Regenerates MANIFEST.json from the table below (single source of truth for what is claimed)."""
import json
import os

V = os.path.dirname(os.path.dirname(os.path.abspath(__file__)))
TB = ("Coq 8.16.1 kernel (coqc, full .vo build, vm_compute only); axioms per theorem as printed by Print Assumptions into the evidence file; "
      "hand-written Gallina model tied to /repo by a behavioural correspondence check on generated inputs (extraction via ExtrOcamlBasic/ExtrOcamlString, "
      "OCaml driver, Python generators, real binaries built from /repo's working tree); ")

CHECKS = {
    'C07': dict(
        text="Proof: for every integer constant expression (any depth) on which ISO C++ defines an int value, the model of CPPExpression::evaluate() returns that value; "
             "values reported under unknown identifiers are never wrong; enumerator increment; digit-string round trip; precedence table = C++ levels. "
             "The model is tied to the code by running parse_file -p and interrogate -od on thousands of generated expressions/headers (value AND parse tree) and g++ validates the spec.",
        note=TB + "the LALR automaton is abstracted to its precedence table (real parse trees are compared by testing); g++ 12 trusted as C++ reference for the spec.",
        technique="Coq proof (structural induction over expressions) + extracted-model/implementation differential check + g++ static_assert oracle",
        ref="5/C07"),
    'C09': dict(
        text="Proof: for every well-nested arrangement of #if/#ifdef/#ifndef/#elif*/#else/#endif of any depth, any condition evaluator and any effect of kept lines, "
             "the single-counter skipping machine of the preprocessor keeps exactly the groups the tree semantics keeps, and (concrete instance) exactly what the "
             "conforming condition evaluator selects whenever conditions are well-formed int-range expressions. Correspondence: exhaustive small-scope trees and random deep trees "
             "through parse_file -E, the extracted model and gcc -E.",
        note=TB + "gcc -E -std=c++23 trusted as conforming reference for validating the reference semantics; lexing inside skipped groups is outside the line-level model.",
        technique="Coq proof (mutual induction over group trees, simulation of counter machine) + differential check against parse_file -E and gcc -E",
        ref="5/C09"),
}

CHECKS['C12'] = dict(
    text="Proof: the byte-level reader composed with the writer is the identity on every database (all strings, any bytes, every int-range field; current format), "
         "hence re-serialisation is byte-identical; files of minor 3.0-3.3 load with zero defaults for absent fields; a different major / newer minor gives error flag and nothing merged; "
         "identifier mismatch raises the flag. Proved once per combinator (int, string, vector, pair, dependent field) and composed. Correspondence: the extracted codec reproduces "
         "interrogate-written files byte for byte, libinterrogatedb re-writes model-written files (adversarial strings, every minor) to the bytes the model predicts, and every prefix "
         "of valid files is loaded (error flag / nothing merged / no crash or hang); the error flag is read twice, as the very first query after the request and after the load, and must agree.",
    note=TB + "truncation behaviour (every prefix) is enumerated, not proved; istream semantics (operator>> for int, get()) are modelled by hand in C12/Codec.v.",
    technique="Coq proof (codec combinators with compositional round-trip lemmas) + byte-exact differential check against libinterrogatedb + exhaustive prefix sweep",
    ref="5/C12")

CHECKS['C11'] = dict(
    text="Proof: InterrogateDatabase::remap_indices (model transcribing every record's remap_indices) preserves referential closure for every database and every first index, "
         "numbers all entries consecutively with wrappers first (1..n) and returns the right next_index; closedb/linksb/nodupb are verified checkers (iff with their Prop specification) "
         "that are then run on every database interrogate produces, turning 'closed for all outputs' into runtime verification with a proved checker; flagsb (sound and complete) decides that "
         "every has-getter/setter/has/clear/del/insert/getkey flag of an element goes together with a non-zero function index (a flag without its index is a reference to nothing that closure, "
         "which lets 0 pass, cannot see), kept by any remapper that sends exactly 0 to 0; a wrapper's has-return flag is compared with its return type. "
         "Correspondence: libinterrogatedb's load of arbitrarily numbered synthetic databases must reproduce the model remap byte for byte; wrapper signatures recorded in the "
         "database are validated by g++ against the generated definitions (translation validation).",
    note=TB + "that the builder only emits closed databases is observed (verified checker on generated libraries x 8 option sets), not proved; g++ is the oracle for signature agreement.",
    technique="Coq proof (remap preserves closure, consecutive numbering, flag/reference consistency) + verified runtime checkers + differential check of remap against libinterrogatedb + g++ redeclaration check",
    ref="5/C11")

CHECKS['C20'] = dict(
    text="Proof: the bounds-checked accessor pattern answers every position with the neutral default or a stored entry and positions 0..count-1 enumerate exactly the stored entries; "
         "index->record lookups are total; the by-name tables (rebuilt by insertion in index order) return an entity bearing the name (the entity when unique) and 0 for unknown names; "
         "the unique-name search is total for strings of ANY length/content and any table (fuel = table size + 1 suffices) and exact on sorted tables; the module search terminates and "
         "returns the module whose index range holds the wrapper; the pinned (unrepaired) search is shown to diverge. Correspondence: querytool sweeps every function of the C interface "
         "(list regenerated from the header) over all indices/positions on real and synthetic databases, looks up every stored and mutated name, and compares unique-name tables of every "
         "size with keys in every gap against the extracted model (normal build; plus ASan build in the thorough tier).",
    note=TB + "the lexicographic byte order is proved to be a strict total order in Coq; std::string operator< and std::map are trusted to implement it; memory safety is observed "
         "(crash / ASan), not proved.",
    technique="Coq proof (binary search termination+exactness, lookup tables, accessor totality) + exhaustive interface sweep and differential check against libinterrogatedb",
    ref="5/C20")

CHECKS['C03'] = dict(
    text="Proof (naming obligations): for ARBITRARY hash functions, hence any number and pattern of 24-bit hash collisions and any processing order, the collision protocol of "
         "hash_function_signature assigns pairwise distinct names to distinct signatures whenever it reports no internal error, every signature gets a name, hash_string yields four "
         "identifier characters for every input, and every emitted hash part consists of identifier characters; the error hypothesis is shown necessary (28 double collisions, refuted "
         "theorem = recorded finding, reproduced on the real tool). Correspondence: the extracted hash_string finds real collisions (birthday search and the 24-periodic swap construction) "
         "and the names in the databases must equal the model's. Translation validation (not a theorem): every successful run over the option lattice is compiled by g++.",
    note=TB + "well-formedness of emitted C++ is translation validation by g++ -fsyntax-only against shim headers (empty dconfig.h, minimal register_type.h); link/initialise is covered by C16.",
    technique="Coq proof (invariant over the collision table, arbitrary hash functions) + model-driven collision generation + g++ translation validation over the option lattice",
    ref="5/C03")

CHECKS['C16'] = dict(
    text="Proof: for every dependency graph (cyclic or not) the ordering loop of write_python_table_native, when it finishes, lists every contributing library exactly once; every "
         "dependency not broken as part of a reported cycle is respected; in an acyclic graph nothing is broken, so each library precedes all libraries deriving from it; the cycle "
         "search only reports closed walks along current edges; the loop TERMINATES on every graph held in a std::map (potential: libraries not listed + names without entry + edges; "
         "a search that reports no cycle in a live graph has created an entry - by induction over the depth-first path, bounded by pigeonhole). Correspondence: all digraphs on <=3 libraries and random ones on 4-6 libraries are built by real interrogate runs (inheritance edges, chains of derived classes, typedef edges) and "
         "linked by interrogate_module in every command-line order; the exact 'Referencing Library' / RegisterTypes / LibraryDef order must equal the extracted model's; "
         "unloadable databases must give a non-zero exit and no output file.",
    note=TB + "a cross-library typedef edge cannot be produced by interrogate alone (a typedef of a foreign class is exported only under forcetype, which also exports the class): every third edge is realised by a global typedef record appended to the database text in interrogate's own record format (the library uses the foreign class, the record wraps the stub).",
    technique="Coq proof (loop invariant over the dependency map: edge accounting, order, cycle-search soundness, termination by a potential function) + exact-order differential check against interrogate_module",
    ref="5/C16")

CHECKS['C19'] = dict(
    text="Proof: in the model of the output phase (ofstream buffering with an ARBITRARY flush policy, fault oracle = index of the failing write(2)/close(2)), fail() false after close() "
         "implies every byte reached the file; hence exit status 0 implies every requested output is complete, for every channel subset, write pattern and fault point; the pinned "
         "main() is refuted by a one-fault witness (and was repaired). Fault enumeration on the real tools: the k-th write/writev/fclose on each output file is failed (ENOSPC, EIO) for "
         "every k of the fault-free trace, plus unopenable targets; exit status and file completeness are compared with the model.",
    note=TB + "libstdc++ ofstream semantics are modelled by hand (buffering policy left arbitrary); close(2) inside glibc's fclose cannot be interposed, a failing close is a failing fclose; "
         "read-only targets are not exercised (checks run as root).",
    technique="Coq proof (stream invariant disk+buf=written while good, for any flush policy and fault index) + exhaustive LD_PRELOAD fault enumeration on each output channel",
    ref="5/C19")

CHECKS['C17'] = dict(
    text="Proof: Filename::standardize (model transcribing the component loop) is idempotent for every path and, in any file system and from any working directory, denotes the same "
         "position as the original whenever the kernel resolves the original and no symbolic link is traversed; with a symlink, and for 'a/..' (empty name), the statement is refuted by "
         "witnesses that are replayed on the real tools (recorded findings). find_include returns the first existing candidate in the stated order and assigns S_local only for "
         "command-line files and the working-directory rule. Correspondence: every path over {., .., a, b} up to length 5 (7 thorough) through the real Filename class with os.stat as "
         "denotation oracle; random include trees (which file is read, whether it is exported); a #pragma once file under 8x8 spellings incl. symlinks.",
    note=TB + "the kernel (os.stat on a real directory tree) is the reference for what a path denotes; make_canonical/realpath is exercised (once-only stream) but not modelled.",
    technique="Coq proof (stack simulation between lexical normalisation and kernel path walk; first-hit search) + exhaustive small-scope differential check with the kernel as oracle",
    ref="5/C17")

CHECKS['C13'] = dict(
    text="Proof (partial): merge_from (model transcribing the type mapping by true name, merge_with, per-record remapping) carries every cross reference over: merging a closed "
         "database in its own fresh range into a closed database is closed; each file receives a contiguous range starting at next_index; merge_with keeps global-ness as the union "
         "and never loses 'fully defined', and the fully defined side survives in either order. Order independence of the whole load is NOT proved (it is false when two files fully "
         "define one global type: recorded finding); it is tested: every load order of generated 2-4 library modules must give the same name-keyed query dump, also with by-name "
         "lookups interleaved with load requests. LAZY LOADING is proved invisible: request_module only queues a file, every function of the query interface first reads the queue, so for "
         "every history of load requests and queries each query is answered on everything requested before it; the premise (every accessor that interrogate_interface.cxx forwards to, except "
         "the two module-table lookups, calls check_latest() before it returns or touches a data member) is a vm_compute over a table REGENERATED from the C++ source on every run by "
         "translate/accessors.py; each by-name lookup kind is also run as the very first query after a load request, and the public request entry point with one reused file-name buffer. "
         "Correspondence: the merged database written by libinterrogatedb must equal the extracted load_all byte for byte in every order.",
    note=TB + "owner library of non-global incidental types (int, T*, T const) is excluded from the order comparison; order independence is exploration, closure/ranges/flags are proved.",
    technique="Coq proof (closure preserved by merge, range arithmetic, flag algebra; lazy loading invisible, with the accessor table generated from the source by a translator) + byte-exact differential check of load/merge in all permutations + interleaved and first-query lookups",
    ref="5/C13")

CHECKS['C14'] = dict(
    text="Proof (partial): with SOURCE_DATE_EPOCH set the file identifier is independent of the clock and code and database carry the same one; any two outputs a correct (unstable) sort "
         "can produce for the same overload set coincide, whatever order the pointer-keyed set delivered them in, PROVIDED the comparator separates every two overloads — and with a tie "
         "both orders are admissible (refuted theorem = recorded finding, reproduced with GLIBC_TUNABLES). 'No other source of nondeterminism exists' is not a theorem: exploration over "
         "perturbations (ASLR off, environment size, LC_*/LANG, TZ, malloc settings) with sha256 comparison of every output of interrogate and interrogate_module.",
    note=TB + "the list of nondeterminism sources comes from reading the code; locales other than C/POSIX do not exist in the image; wall-clock variation is the natural spacing of runs.",
    technique="Coq proof (uniqueness of sorted permutation under a separating comparator; identifier function) + repeated-run differential exploration under environment perturbations",
    ref="5/C14")

CHECKS['C06'] = dict(
    text="Proof: for every type built from pointers, lvalue/rvalue references, const, arrays, functions and method pointers, nested to any depth, the declarator that the printers "
         "(output_instance of each CPPType subclass, model with prename/name kept structural) emit denotes exactly that type under [dcl.meaning]; the pinned array printer and the "
         "data-member-pointer case are refuted by witnesses (the first was repaired, the second is a recorded finding). Correspondence: thousands of random declarator trees written by an "
         "independent west-const printer are re-printed by parse_file; the text must equal the model's and g++ must find decltype(original) and decltype(reprinted) the same type; "
         "acceptance: every generated declaration and every parser-inc stub header that g++ accepts must parse; name-lookup scenarios, several declarators per declaration, near-identical types, "
         "and template arguments (defaults depending on earlier parameters, function types holding template-ids and commas) are compared with g++ decltype of the instantiated members.",
    note=TB + "the bison grammar (modifier order, name lookup, templates) is not modelled: the parse half is covered only by the g++ differential; g++ 12 decides type identity.",
    technique="Coq proof (invariant denotes(pr t pre c) = meaning c (apply pre t) by induction on types) + round-trip differential check with g++ std::is_same as oracle",
    ref="5/C06")

CHECKS['C18'] = dict(
    text="Proof (partial): the number formatter pdtoa is modelled completely (Grisu2: DiyFp arithmetic with explicit 64-bit wrap-around, boundaries, cached powers, DigitGen, "
         "GrisuRound, Prettify) and proved in parts: Prettify denotes digits*10^k exactly for every digit string and exponent; each of the 87 cached powers is the nearest 64-bit value "
         "to its power of ten; for every boundary exponent of a finite double the selected power lies in DigitGen's window and the double-precision index computation has the exact "
         "ceiling. The round-trip theorem of Grisu2 itself is NOT proved: it is tested (text equal to the extracted model; every output read back bit-identically by a correctly "
         "rounded parser, 3e5 doubles quick / 6e6 thorough). The parser pstrtod violates correct rounding at large (recorded finding); only its exact fragment is guarded.",
    note=TB + "CPython float()/repr() serve as correctly rounded reference; the comma-decimal locale axis cannot be exercised (no such locale in the image; pstrtod never reads the locale).",
    technique="Coq proof of components (Prettify exactness, kernel-checked table and index sweeps by vm_compute) + exact-text differential check of the whole formatter + round-trip exploration",
    ref="5/C18")

CHECKS['C10'] = dict(
    text="Proof (partial): the class-trait predicates of CPPStructType (get_virtual_funcs splice/erase/append, is_abstract, is_default/copy_constructible(min_vis), is_destructible, "
         "after the abstract-base repair) and the C++ rules are one Coq function with a mode; for EVERY class table inside a decidable fragment (no const member without initialiser, "
         "no C(C&), only public non-deleted destructors, no virtual bases; otherwise arbitrary depth/width/access/members/special members) both modes give the same five traits for "
         "every class; never a constructor for an abstract class; an inherited pure virtual destructor does not make a class abstract (the pinned code is refuted, repaired); each excluded shape is refuted by a witness (recorded findings). The Coq C++ rules are validated by g++ std::is_* on "
         "every generated hierarchy; parse_file -p must equal g++ (spec) and the model (correspondence); exported constructors are read from the database.",
    note=TB + "C++ abstractness through virtual-base dominance is not modelled (compared with g++ only); =default special members are not generated; g++ 12 traits are the reference.",
    technique="Coq proof (induction over the class table with pointwise-related environments) + three-way differential check parse_file / extracted model / g++ type traits",
    ref="5/C10")

CHECKS['C15'] = dict(
    text="Proof (partial): the hand-written scanners that index strings by hand are transcribed with CHECKED primitives (s[i] beyond the terminator, substr/compare past the end and "
         "fuel exhaustion are faults) and proved total for EVERY byte string: the #define constructor with parse_parameters (progress of the parameter loop), save_expansion (the replacement list cut into text/parameter/__VA_OPT__ nodes, any nesting, incl. the wrapping length p - 1 - start), the macro-argument scanner "
         "used in #if together with the caller's substr (final position within the string), the raw-string scanner (plus soundness: what is reported closed had the shape "
         "delim ( body ) delim quote), the blank-stripping of show_line, the .N line splitter and the substitution step r_expand (no access to the argument vector or to a string out of range, for every node list and every argument vector, also shorter than the parameter list; its correspondence runs in the C08 check); each pinned variant is refuted by a witness (the repaired defects). Correspondence: the real "
         "functions (ASan build, called through harness/scan_tool) agree with the extracted model on every string up to length 4-5 over each function's delimiter alphabet and on random "
         "longer ones. Whole-program totality is explored, not proved: parse_file and interrogate (ASan/UBSan build and normal build) on generated valid headers, token/byte mutations of "
         "those and of tests/ and parser-inc/, enumerated directive/operator/literal/unbalanced/deep-nesting cases, -D strings and .N files must exit 0/1 in time, without signal, "
         "sanitizer report or uncaught exception; error diagnostics imply non-zero exit and no output file.",
    note=TB + "the bison automaton, scope/type code and builder are outside the model (explored by the streams only); ASan cannot see reads inside a std::string small buffer; a non-recoverable UBSan report ends with exit status 1 like a diagnosed parse error, so the report text decides; "
         "time limit 30 s per run.",
    technique="Coq proof (totality of checked-index scanner models, refutation of the pinned variants) + scanner-level differential check (ASan) + sanitizer fuzzing of the whole programs (a search, supporting the proof, not replacing it)",
    ref="5/C15")

CHECKS['C08'] = dict(
    text="Proof (partial): for every table of object-like macros (self-, mutual and forward reference, any nesting), every text and every amount of fuel, the lexer's stack of active "
         "expansions (get_identifier / expand_manifest / push_expansion with _ignore_manifest and should_ignore_manifest) produces exactly the tokens of the hide-set algorithm of C11 "
         "6.10.3.4 (lock-step simulation: the tokens of a frame carry the hide set of the macros of that frame and below), also with #define/#undef/redefinition interleaved with text; "
         "completed results do not depend on fuel; the # operator: CPPManifest::stringify as a character-level state machine yields, for every argument made of well-formed tokens, the literal 6.10.3.2 prescribes (the pinned machine, which let a quote of the other kind toggle its state, is refuted). The SUBSTITUTION STEP of function-like macros (CPPManifest::r_expand over the nodes that save_expansion cuts the replacement list into: parameters, #, ##, __VA_ARGS__, nested __VA_OPT__ groups, the GCC comma rule) is modelled with checked accesses: __VA_OPT__ contributes exactly when what __VA_ARGS__ is replaced by has text (for every argument vector; looking at the first variable argument only is refuted), a plain parameter is replaced by the expanded argument, an operand of # by the stringified spelling and an operand of ## by the spelling; CPPManifest(define).expand(args) is compared with the extracted model on generated #define lines and argument vectors. Correspondence: stringify against the extracted machine on generated texts; generated object-like programs through parse_file -E, the extracted machine and gcc -E (which also validates the Coq "
         "semantics). Function-like replacement is compared with gcc -E token for token on two generated fragments on which the code conforms (nested calls in arguments; #, ##, "
         "__VA_ARGS__, __VA_OPT__, literals holding macro/parameter names and commas, empty and parenthesised-comma arguments, #undef, push_macro/pop_macro, -D, multi-line calls); "
         "departures outside them are recorded witness programs.",
    note=TB + "of function-like macros the substitution step is modelled (argument collection is C15's extract_args model; rescanning of the result is tested against gcc on the stated fragments, not modelled); gcc 12 -E -P -std=c++23 is the conforming reference.",
    technique="Coq proof (simulation between the expansion stack and hide sets, object-like fragment; the substitution step r_expand with its __VA_OPT__ rule) + direct-call correspondence of stringify and expand + three-way differential check parse_file -E / extracted model / gcc -E; gcc-differential testing for function-like fragments",
    ref="5/C08")

CHECKS['C04'] = dict(
    text="Proof (partial): the export gates of InterrogateBuilder (scan_function, define_method, scan_struct_type, scan_enum_type/scan_manifest/scan_element) transcribed as boolean "
         "functions of a declaration's facts are proved equivalent to the property's statement (named file, not a .C file, not ignorefile, visibility >= requested, not "
         "static/deleted/template/ignoremember, signature mentioning no protected/private class ANYWHERE - proved by induction over the type structure incl. arrays, pointers, references, "
         "typedefs, function types -, no rvalue reference, nothing under ignoreinvolved) for global functions, methods (outside the two deliberate exceptions), classes and simple "
         "declarations; corollary: nothing private/protected/deleted/non-local is exported by these gates; the destructor and get_class_type exceptions and the pinned array blind spot "
         "are refuted by witnesses. Correspondence: generated worlds (command-line / cwd / -I / -S files, shuffled sections, publish regions, protected nested classes used by pointer, "
         "reference, array, typedef, rvalue references, static/deleted/template members, .N commands, -promiscuous): every entity is in the database iff the extracted gate says so and "
         "iff the property says so.",
    note=TB + "the facts come from the generator (it knows what it wrote); inherited virtual methods, forcetype/renametype, namespaces, typedef exports and template instantiations are "
         "not generated.",
    technique="Coq proof (gate = statement, induction over signature types) + extracted-gate / database differential check over generated file trees",
    ref="5/C04")

CHECKS['C05'] = dict(
    text="Proof (partial): (1) comment attachment (CPPPreprocessor::get_comment_before as used by add_declaration): the block attached to a declaration ends on its line or the line "
         "before; the block that ends on the line before a declaration IS attached whatever has been read ahead; a block is attached to two declarations only in the shape 'ends on the "
         "line of the first, the second starts on the next line', hence uniqueness whenever no comment ends on a declaration's line; the unrestricted 'and to no other' is refuted by a "
         "witness (recorded finding). (2) callable variants of a function with default arguments: each variant is a prefix of the declared parameters, one per arity from n-d to n, and "
         "every omitted parameter has a default. Correspondence and specification: generated headers (bases with access/virtual, nesting, methods with named typed parameters and "
         "defaulted tails, static/virtual/const, constructors, destructors, operators, data members, properties, sequences, enums with values, typedefs, documentation comments in every "
         "position) are run through interrogate; every fact kept by the generator is looked up by name in the database (roles, ordered parameter names/types, optional/this flags, "
         "return type, ownership, accessible bases and cast availability, getter/setter), and comment attachment and variant sets are compared with the extracted model.",
    note=TB + "the builder's traversal that fills the records is not modelled (its output is compared with the generator's ground truth by testing); comment blocks are computed from the "
         "text by a small scanner in the check (merging rule of skip_cpp_comment).",
    technique="Coq proof (comment attachment, callable variants) + ground-truth differential check of the database over generated headers",
    ref="5/C05")

CHECKS['C01'] = dict(
    text="Proof (partial): a handle-style wrapper is modelled as a state machine over an ARBITRARY wrapped function f : args -> world -> result * world: a variant that omits k trailing "
         "parameters, argument/result conversion (char const * <-> std::string), and the block-scope static that parks a std::string result. For every f, every variant, every history "
         "of calls, every initial world and initial holder, the repaired wrapper returns exactly the results of the direct calls with the declared defaults and leaves the same world; the "
         "pinned 'static std::string holder = call' is refuted by a two-call witness (second call returns the first value and does not run); the NUL-freeness hypothesis is shown "
         "necessary. Correspondence/specification by EXECUTION: instrumented generated libraries (inheritance incl. multiple/virtual, static/const/virtual methods, overloads, defaults, "
         "operators, data members of every scalar kind, namespace function, typedef'd template instantiation) x {-string} x {-promiscuous}: the -oc file is compiled (ASan+UBSan) and every "
         "exported wrapper and variant is called with boundary values and compared with the direct C++ call (return value, trace log, states of this and argument objects, cast offsets; "
         "classes with their own copy/move constructors, operator [] and the synthesized item assignment). The -python (simple) back-end is built as an extension module and executed in CPython: every "
         "scalar kind through echo functions, methods, static methods, data members and typedefs with boundary values.",
    note=TB + "the generated wrapper text is not modelled statement by statement: the model's claim (wrapper = direct call) is checked by running the real generated code; the -c back-end is executed in full, the -python back-end for scalar kinds; "
         " g++ 12 with ASan/UBSan is the execution platform.",
    technique="Coq proof (wrapper state machine equals direct calls for all histories; pinned holder refuted) + execution-based differential check of the generated wrappers against the wrapped C++",
    ref="5/C01")

CHECKS['C02'] = dict(
    text="Proof (partial): the overload dispatcher of the python-native back-end (sort the overloads of one arity with RemapCompareLess over get_type_sort ranks, run the first whose "
         "parameter extraction accepts the arguments) is modelled with the acceptance relation of the emitted checks (int types take int/bool, floating types take float/int/bool, strings "
         "take str, a class parameter takes the class and its derived classes, bool takes anything). For EVERY class hierarchy in which a base ranks below its derived classes, every "
         "overload list in that order and every argument tuple: if the set uses one C++ type per Python category and its members differ in category somewhere, a call whose arguments "
         "correspond exactly to overload o runs o; the sort is proved to produce such an order (asymmetry and negative transitivity of the comparison); sets with two integer widths and bool "
         "arguments are refuted by witnesses (recorded finding, confirmed on the built module). The ARITY TABLE (map_sets filled per accepted argument count, collapse_default_remaps, the "
         "switch on parameter_count) is modelled too and proved exact: for every set of overloads with any ranges of accepted counts and every count, the overloads the generated code can "
         "run are exactly those that take that count (the assignment written the other way round is refuted); the table of every overloaded wrapper is read back from the generated code "
         "and compared with the extracted one. CONST and non-const members in one set are modelled with RemapCompareLess in full (non-const first, more parameters first, then ranks) and the "
         "emitted const guard: sorting any mix of arities and constness yields a valid order, and the member that corresponds exactly to the arguments and is callable on the object "
         "runs whenever the C++ call is well defined; const members first is refuted. Correspondence/specification by EXECUTION: generated libraries are wrapped, compiled "
         "into an extension module and imported in CPython: names and camelCase aliases, exact-category overload calls, derived instances for base parameters, defaults and keywords, "
         "properties, sequences, operators, enums, integer boundaries of five widths (OverflowError beyond), TypeError with state unchanged, live-object counts for returned copies and "
         "borrowed pointers, zero live objects at exit, const/non-const pairs on const and non-const objects, defaulted overloads sharing their lowest arity with a sibling.",
    note=TB + "the 9000-line generator is not modelled beyond the arity table, the dispatch order and the acceptance relation (coercion passes are not modelled); no sanitizer inside the interpreter (memory errors show as crashes or wrong object "
         "counts); built against harness/shims register_type.h and dconfig.h.",
    technique="Coq proof (first-accepting dispatch over the sorted overload list selects the exactly matching overload; sort order lemma; the collapsed arity table is exact; refuting witnesses) + generated switch read back against the extracted table + execution of the built extension module against expected outcomes and the extracted dispatcher",
    ref="5/C02")

PENDING = {
}

ALL = ['C%02d' % i for i in range(1, 21)]


def main():
    checks = []
    for pid in ALL:
        if pid not in CHECKS:
            continue
        c = CHECKS[pid]
        checks.append({
            "property_id": pid,
            "quick_cmd": "bin/verif check %s --tier quick" % pid,
            "thorough_cmd": "bin/verif check %s --tier thorough" % pid,
            "evidence_file": "/verif/evidence/%s.json" % pid,
            "replay_cmd_template": "bin/verif replay {path}",
            "engine": "coq-model-correspondence",
            "level_claimed": {"category": c.get('category', 'proof'), "text": c['text'], "design_ref": "DESIGN.md section " + c['ref']},
            "level_note": c['note'],
            "technique": c['technique'],
        })
    na = [{"property_id": p, "reason": PENDING.get(p, "not claimed yet: model and check for this property are not built at this commit (see DESIGN.md section 5 for the planned model); nothing is asserted about it")}
          for p in ALL if p not in CHECKS]
    m = {
        "version": 1,
        "setup_cmd": "bin/setup",
        "hooks": {
            "guard": "INTERROGATE_VERIF",
            "enable": "checks build /repo's working tree in /var/tmp/interrogate-verif/<hash>/ with -DCMAKE_CXX_FLAGS='-Wno-error -DINTERROGATE_VERIF'; no source hook is needed so far",
            "baseline_off_cmd": "cmake --build /repo/_build -j16 && ctest --test-dir /repo/_build -j8 --timeout 900",
            "source_commits": [],
            "add_only": True,
        },
        "engines": [{
            "name": "coq-model-correspondence", "path": "/verif/coq + /verif/ocaml + /verif/checks",
            "serves_properties": [c["property_id"] for c in checks],
            "kind_free_text": "Rocq/Coq 8.16 theorems about hand-written executable models; models extracted to OCaml and compared with the real binaries on generated inputs on every run",
        }],
        "checks": checks,
        "not_applicable": na,
        "notes": "Every check: (1) recompiles Properties_<id>.v and records Print Assumptions, (2) rebuilds /repo's working tree in a scratch dir keyed by content hash, "
                 "(3) runs the generators through the real tools, the extracted model and the spec. See DESIGN.md sections 2-4.",
    }
    json.dump(m, open(os.path.join(V, "MANIFEST.json"), "w"), indent=1)


if __name__ == '__main__':
    main()
