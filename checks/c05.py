#!/usr/bin/env python3
"""C05 — the database describes every exported entity truthfully.

model : coq/C05 comment_before (comment attachment) and variants (callable variants of a function with default arguments), extracted
impl  : interrogate -od -c -fnames on generated headers, database read by the independent reader vlib/dbfile.py
spec  : the ground truth kept by the generator that wrote the header (names, kinds, bases, nesting, roles, ordered parameters, optional/this, return, ownership, comments)
"""
import os
import re
import sys

sys.path.insert(0, os.path.dirname(os.path.dirname(os.path.abspath(__file__))))
import vlib
from vlib import dbfile
from gen import truth as T


def blocks_of(text):
    """comment blocks as the preprocessor forms them: (first, last, markers).  Consecutive // comments merge while nothing but blanks lies between and the lines are adjacent."""
    blocks = []
    last_cpp = False
    in_c = None
    for n, line in enumerate(text.split('\n'), 1):
        if in_c is not None:
            in_c[2] += re.findall(r'DOC\d+', line)
            if '*/' in line:
                in_c[1] = n
                in_c = None
            continue
        s = line.strip()
        if not s:
            continue
        if s.startswith('//'):
            if last_cpp and blocks and blocks[-1][1] >= n - 1:
                blocks[-1][1] = n
                blocks[-1][2] += re.findall(r'DOC\d+', s)
            else:
                blocks.append([n, n, re.findall(r'DOC\d+', s)])
            last_cpp = True
            continue
        if s.startswith('/*'):
            b = [n, n, re.findall(r'DOC\d+', s)]
            blocks.append(b)
            last_cpp = False
            if '*/' not in s:
                in_c = b
            continue
        # code, possibly with a trailing // comment
        last_cpp = False
        if '//' in s:
            blocks.append([n, n, re.findall(r'DOC\d+', s[s.index('//'):])])
            last_cpp = True
    return blocks


def main():
    ck = vlib.Check('C05')
    ck.coq()
    b = ck.build()
    wd = vlib.workdir(b, 'c05')
    rng = ck.rng
    fl = dbfile.flags(b['src'])
    F = lambda k: fl[k]
    n_worlds = ck.scale(400, 8000)
    for wi in range(n_worlds):
        w = T.World(rng)
        text = w.render()
        open(os.path.join(wd, 't.h'), 'w').write(text)
        p = vlib.sh([b['interrogate'], '-DCPPPARSER', '-oc', 't.cxx', '-od', 't.in', '-module', 'm', '-library', 'l', '-c', '-fnames', 't.h'], cwd=wd)
        ck.dist('worlds')
        rp0 = {'files': {'t.h': text}, 'cmd': 'interrogate -DCPPPARSER -oc t.cxx -od t.in -module m -library l -c -fnames t.h'}
        if p.returncode != 0:
            ck.count()
            ck.violation('corr_C05_run', 'interrogate failed on a generated header: ' + p.stdout[-300:], dict(rp0, kind='correspondence'), nofail=True)
            continue
        db = dbfile.load(os.path.join(wd, 't.in'), b['src'])
        TY, FN, WR, EL, SQ = db['types'], db['functions'], db['wrappers'], db['elements'], db['make_seqs']
        tyname = lambda i: TY[i]['true_name'] if i in TY else None
        types_by_scoped = {t['scoped_name']: t for t in TY.values()}
        fn_by_scoped = {}
        for f in FN.values():
            fn_by_scoped.setdefault(f['scoped_name'], []).append(f)
        el_by_scoped = {e['scoped_name']: e for e in EL.values()}
        world_ok = [True]

        def bad(key, what, **extra):
            world_ok[0] = False
            ck.spec_failure(key, what, dict(rp0, kind='spec', **extra))

        def fact(cond, key, what, **extra):
            ck.count()
            if not cond:
                bad(key, what, **extra)

        def check_callable(scoped, ps, ret, this_type, owns_expected, is_ctor=False):
            """every variant: ordered names and types, optional flags, this, return type, ownership"""
            fs = fn_by_scoped.get(scoped, [])
            fact(len(fs) == 1, 'function-record', '%s: %d function records' % (scoped, len(fs)))
            if len(fs) != 1:
                return None
            f = fs[0]
            ws = [WR[i] for i in f['c_wrappers']]
            if is_ctor:
                ws = [x for x in ws if not (len(x['parameters']) == 1 and x['parameters'][0]['name'] == 'param0')]      # the implicit copy constructor
            # the Coq model says which variants exist
            ml = '(' + ' '.join('(%d %s)' % (i + 1, '1' if q['default'] else '0') for i, q in enumerate(ps)) + ')'
            mv = vlib.run_model('C05', 'variants', [ml])[0]
            want = [[int(x) for x in v.split(',') if x] for v in mv.split('|')]
            got = []
            for x in ws:
                prm = x['parameters']
                if this_type is not None:
                    fact(bool(prm) and prm[0]['flags'] & F('FunctionWrapper.PF_is_this') and tyname(prm[0]['type']) == this_type, 'this-parameter',
                         '%s: first parameter is not the %s this' % (scoped, this_type), wrapper=x['name'])
                    prm = prm[1:]
                else:
                    fact(not any(q['flags'] & F('FunctionWrapper.PF_is_this') for q in prm), 'this-parameter', '%s: a static/global function has a this parameter' % scoped)
                idx = []
                for j, q in enumerate(prm):
                    if j >= len(ps):
                        break
                    src = ps[j]
                    fact(q['name'] == src['name'] and tyname(q['type']) == src['type']['db'], 'parameter',
                         '%s: parameter %d is (%s %s), declared (%s %s)' % (scoped, j, tyname(q['type']), q['name'], src['type']['db'], src['name']))
                    fact(bool(q['flags'] & F('FunctionWrapper.PF_is_optional')) == bool(src['default']), 'optional-flag',
                         '%s: parameter %s optional flag %s, declared default %s' % (scoped, src['name'], bool(q['flags'] & F('FunctionWrapper.PF_is_optional')), src['default']))
                    idx.append(j + 1)
                got.append(idx)
                if ret is not None:
                    has_ret = bool(x['flags'] & F('FunctionWrapper.F_has_return'))
                    fact(has_ret == (ret['db'] != 'void') and (not has_ret or tyname(x['return_type']) == ret['db']), 'return-type',
                         '%s: return %s recorded as %s' % (scoped, ret['db'], tyname(x['return_type']) if has_ret else 'void'))
                    fact(bool(x['flags'] & F('FunctionWrapper.F_caller_manages')) == owns_expected, 'ownership',
                         '%s: caller_manages=%s, the function returns %s' % (scoped, bool(x['flags'] & F('FunctionWrapper.F_caller_manages')), ret['src']))
            ck.count()
            if sorted(got) != sorted(want):
                # the model of the code and the code disagree on which variants exist
                world_ok[0] = False
                ck.violation('corr_C05_variants', '%s: wrappers with parameters %s, model %s' % (scoped, sorted(got), sorted(want)), dict(rp0, kind='correspondence'), nofail=True)
            return f

        for c in w.classes:
            t = types_by_scoped.get(c['name'])
            fact(t is not None and bool(t['flags'] & F('Type.F_global')), 'class-missing', 'class %s is not recorded as a global type' % c['name'])
            if t is None:
                continue
            fact(bool(t['flags'] & F('Type.F_class')) == (c['keyword'] == 'class') and bool(t['flags'] & F('Type.F_struct')) == (c['keyword'] == 'struct'), 'class-kind',
                 '%s declared %s, flags %x' % (c['name'], c['keyword'], t['flags']))
            # accessible bases, in order, with cast availability
            want_b = [x for x in c['bases'] if x['access'] == 'public']
            got_b = [(tyname(d['base']), d['flags']) for d in t['derivations']]
            fact([x['name'] for x in want_b] == [g[0] for g in got_b], 'bases', '%s: accessible bases %s, recorded %s' % (c['name'], [x['name'] for x in want_b], [g[0] for g in got_b]))
            for x, g in zip(want_b, got_b):
                if x['virtual']:
                    fact(g[1] & F('Type.DF_upcast') and g[1] & F('Type.DF_downcast_impossible') and not g[1] & F('Type.DF_downcast'), 'casts',
                         '%s: virtual base %s recorded with derivation flags %d' % (c['name'], x['name'], g[1]))
                else:
                    fact(not g[1] & F('Type.DF_downcast_impossible') and bool(g[1] & F('Type.DF_upcast')) == bool(g[1] & F('Type.DF_downcast')), 'casts',
                         '%s: non-virtual base %s recorded with derivation flags %d' % (c['name'], x['name'], g[1]))
            for m in c['members']:
                k = m['kind']
                sc = '%s::%s' % (c['name'], m.get('name', ''))
                if k in ('method', 'static', 'operator'):
                    this_t = None if k == 'static' else ('%s const *' % c['name'] if m['const'] else '%s *' % c['name'])
                    f = check_callable(sc, m['params'], m['ret'], this_t, m['ret'].get('owns', False))
                    if f is not None:
                        fact(bool(f['flags'] & F('Function.F_method')) and bool(f['flags'] & F('Function.F_virtual')) == bool(m.get('virtual')), 'function-roles',
                             '%s: flags %x (virtual declared %s)' % (sc, f['flags'], m.get('virtual')))
                        fact(f['index'] in t['methods'] if 'index' in f else any(FN[i] is f for i in t['methods']), 'membership', '%s is not listed among the methods of %s' % (sc, c['name']))
                        fact(bool(f['flags'] & F('Function.F_unary_op')) == bool(m.get('unary')), 'function-roles', '%s: unary-operator flag %s, declared with %d parameters' %
                             (sc, bool(f['flags'] & F('Function.F_unary_op')), len(m['params'])))
                elif k == 'overload':
                    fs = fn_by_scoped.get(sc, [])
                    fact(len(fs) == 1, 'function-record', '%s: %d function records for an overload set' % (sc, len(fs)))
                    if len(fs) == 1:
                        this_t = '%s const *' % c['name'] if m['const'] else '%s *' % c['name']
                        got = sorted(tuple((q['name'], tyname(q['type'])) for q in WR[i]['parameters']) for i in fs[0]['c_wrappers'])
                        want = sorted(tuple([('this', this_t)] + [(q['name'], q['type']['db']) for q in ps]) for ps in m['overloads'])
                        fact(got == want, 'overload-set', '%s: callable variants %s, declared overloads %s' % (sc, got, want))
                        fact(not fs[0]['flags'] & F('Function.F_unary_op'), 'function-roles', '%s: an overload set flagged as a unary operator' % sc)
                elif k == 'ctor':
                    f = check_callable('%s::%s' % (c['name'], c['name']), m['params'], {'db': c['name'] + ' *', 'src': c['name']}, None, True, is_ctor=True)
                    if f is not None:
                        fact(bool(f['flags'] & F('Function.F_constructor')), 'function-roles', '%s constructor without the constructor flag' % c['name'])
                elif k == 'field':
                    e = el_by_scoped.get(sc)
                    fact(e is not None, 'element-missing', 'data member %s is not recorded' % sc)
                    if e is not None:
                        g = FN.get(e['getter'])
                        s = FN.get(e['setter'])
                        fact(tyname(e['type']) == T.DBNAME.get(m['type'], m['type']) and g is not None and bool(g['flags'] & F('Function.F_getter')) and (s is None) == m['const']
                             and (s is None or bool(s['flags'] & F('Function.F_setter'))), 'element-roles',
                             '%s (%s%s): type %s getter %s setter %s' % (sc, 'const ' if m['const'] else '', m['type'], tyname(e['type']), g and g['name'], s and s['name']))
                elif k == 'enum':
                    et = types_by_scoped.get(sc)
                    fact(et is not None and bool(et['flags'] & F('Type.F_enum')) and et['outer_class'] and tyname(et['outer_class']) == c['name']
                         and [(v['name'], v['value']) for v in et['enum_values']] == list(m['values']), 'enum',
                         'enum %s: recorded %s' % (sc, et and [(v['name'], v['value']) for v in et['enum_values']]))
                elif k == 'property':
                    e = el_by_scoped.get(sc)
                    g = e and FN.get(e['getter'])
                    s = e and FN.get(e['setter'])
                    fact(e is not None and g is not None and g['name'] == m['getter'] and ((s is None) if m['setter'] is None else (s is not None and s['name'] == m['setter'])),
                         'property', 'property %s: getter %s setter %s, declared %s / %s' % (sc, g and g['name'], s and s['name'], m['getter'], m['setter']))
                elif k == 'seq':
                    sq = [x for x in SQ.values() if x['scoped_name'] == sc]
                    fact(len(sq) == 1 and FN.get(sq[0]['length_getter'], {}).get('name') == m['length'] and FN.get(sq[0]['element_getter'], {}).get('name') == m['element'], 'sequence',
                         'sequence %s: recorded %s' % (sc, sq))
                elif k == 'typedef':
                    tt = types_by_scoped.get(sc)
                    fact(tt is not None and bool(tt['flags'] & F('Type.F_typedef')) and tyname(tt['wrapped_type']) == m['target'], 'typedef',
                         'typedef %s -> %s: recorded %s' % (sc, m['target'], tt and tyname(tt['wrapped_type'])))
                elif k == 'nested':
                    nt = types_by_scoped.get(sc)
                    fact(nt is not None and bool(nt['flags'] & F('Type.F_nested')) and tyname(nt['outer_class']) == c['name'] and ('%s::%s' % (sc, m['method'])) in fn_by_scoped, 'nesting',
                         'nested class %s: %s' % (sc, nt and (nt['flags'], tyname(nt['outer_class']))))
                    if m.get('deep'):
                        sc2 = '%s::%s' % (sc, m['deep'])
                        dt = types_by_scoped.get(sc2)
                        fact(dt is not None and bool(dt['flags'] & F('Type.F_nested')) and tyname(dt['outer_class']) == sc and ('%s::deep_method' % sc2) in fn_by_scoped, 'nesting',
                             'class nested two levels down %s: %s' % (sc2, dt and (dt['flags'], tyname(dt['outer_class']), dt['scoped_name'])))
                    if m.get('deep_enum'):
                        sc2 = '%s::%s' % (sc, m['deep_enum'])
                        dt = types_by_scoped.get(sc2)
                        fact(dt is not None and bool(dt['flags'] & F('Type.F_enum')) and tyname(dt['outer_class']) == sc
                             and [v['value'] for v in dt['enum_values']] == [3, 4], 'nesting',
                             'enum nested two levels down %s: %s' % (sc2, dt and (dt['flags'], tyname(dt['outer_class']))))
            if c['dtor'] and not c['bases']:      # (a destructor inherited from a single public base with a virtual destructor is not repeated)
                fs = fn_by_scoped.get('%s::~%s' % (c['name'], c['name']), [])

                def virt_dtor(cc):
                    return cc['dtor'] == 'virtual' or any(virt_dtor(next(q for q in w.classes if q['name'] == x['name'])) for x in cc['bases'])
                fact(len(fs) == 1 and bool(fs[0]['flags'] & F('Function.F_destructor')) and bool(fs[0]['flags'] & F('Function.F_virtual')) == virt_dtor(c), 'function-roles',
                     'destructor of %s: %s' % (c['name'], [hex(f['flags']) for f in fs]))
        for e in w.enums:
            et = types_by_scoped.get(e['name'])
            fact(et is not None and bool(et['flags'] & F('Type.F_enum')) and bool(et['flags'] & F('Type.F_scoped_enum')) == e['scoped']
                 and [(v['name'], v['value']) for v in et['enum_values']] == list(e['values']), 'enum', 'enum %s: recorded %s' % (e['name'], et and [(v['name'], v['value']) for v in et['enum_values']]))
        for f in w.funcs:
            r = check_callable(f['name'], f['params'], f['ret'], None, f['ret'].get('owns', False))
            if r is not None:
                fact(bool(r['flags'] & F('Function.F_global')) and not r['flags'] & F('Function.F_method'), 'function-roles', 'global function %s: flags %x' % (f['name'], r['flags']))
        for t in w.typedefs:
            tt = types_by_scoped.get(t['name'])
            fact(tt is not None and bool(tt['flags'] & F('Type.F_typedef')) and tyname(tt['wrapped_type']) == t['target'], 'typedef', 'typedef %s -> %s' % (t['name'], t['target']))

        # ---- comments: the database, the Coq model of get_comment_before, and the property
        blocks = blocks_of(text)
        ml = '((%s) (%s))' % (' '.join('(%d %d %d)' % (i, x[0], x[1]) for i, x in enumerate(blocks)), ' '.join(str(d[0]) for d in w.decl_lines))
        att = vlib.run_model('C05', 'comment', [ml])[0].split() if w.decl_lines else []
        for (line, key, own, trailing), a in zip(w.decl_lines, att):
            scoped = key.replace('#ctor', '')
            if key.endswith('#ctor'):
                scoped = '%s::%s' % (key.split('::')[0], key.split('::')[0])
            cm = None
            if scoped in fn_by_scoped and len(fn_by_scoped[scoped]) == 1:
                cm = fn_by_scoped[scoped][0]['comment']
            elif scoped in el_by_scoped:
                cm = el_by_scoped[scoped]['comment']
            if cm is None:
                continue
            ck.count()
            ck.dist('comment:declarations')
            got = set(re.findall(r'DOC\d+', cm))
            model = set(blocks[int(a)][2]) if a != '-' else set()
            want = {own} if own else set()
            # a trailing comment on the declaration's own line is attached to it as well (by design of get_comment_before)
            want_incl = want | ({trailing} if trailing else set())
            rp = dict(rp0, kind='spec', declaration=scoped, line=line, comment_in_database=sorted(got), comment_written_before_it=sorted(want), model=sorted(model))
            if got != model:
                world_ok[0] = False
                ck.violation('corr_C05_comment', '%s (line %d): database comment %s, model %s' % (scoped, line, sorted(got), sorted(model)), dict(rp, kind='correspondence'), nofail=True)
            if got != want and got != want_incl:
                world_ok[0] = False
                ck.spec_failure('comment:trailing-comment-taken-as-documentation', '%s (line %d) carries %s; the comment written in front of it is %s' % (scoped, line, sorted(got), sorted(want)), rp)
        if world_ok[0]:
            ck.nontrivial(wi)
        if wi == 0:
            ck.sample({'header_lines': text.count('\n'), 'classes': len(w.classes), 'comment_blocks': len(blocks)})
    ck.cov['streams'] = {'worlds': n_worlds}
    ck.cov['rule'] = ('headers with 1-4 classes (class/struct, public/protected/private and virtual bases, methods with 0-4 named parameters of scalar / pointer / reference-to-class types with '
                      'defaulted tails, static/virtual/const, constructors, destructors, operators, const and plain data members, __make_property, __make_seq, nested enums with explicit values, '
                      'nested classes and typedefs), global enums (scoped or not), functions and typedefs, documentation comments (// blocks, /* */ blocks, detached, trailing). Every fact of '
                      'the generator is looked up by name in the database; comment attachment and the set of callable variants are also compared with the extracted Coq model. '
                      'Non-trivial = header whose every fact agreed')
    ck.assumptions += ['the C wrapper layer (-c) decides the recorded parameter types: references are recorded as pointers (T const & -> T const *), a class returned by value as T * with caller_manages',
                       'up/down-cast availability is compared with the C++ rule (virtual base: upcast only; otherwise both or neither cast function)',
                       'templates, namespaces, inherited members and overload sets sharing a name are not generated']
    ck.finish()


if __name__ == '__main__':
    main()
