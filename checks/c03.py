#!/usr/bin/env python3
"""C03 — successful runs yield compilable code with unique wrapper symbols.

proof part  : coq/C03 — hash_string characters, collision protocol gives pairwise distinct names for arbitrary hashes
model<->code: names observed in databases vs the extracted protocol on adversarially colliding signatures
translation validation: every generated -oc file over the option lattice is compiled by g++ (-fsyntax-only)
"""
import itertools
import os
import re
import sys
from concurrent.futures import ThreadPoolExecutor

sys.path.insert(0, os.path.dirname(os.path.dirname(os.path.abspath(__file__))))
import vlib
from vlib import dbfile
from gen import headers, collide

PYINC = '/root/.pyenv/versions/3.11.7/include/python3.11'


def compile_family(opts, errline):
    """root-cause key of a compile failure: by option family + normalised first error"""
    if 'forbids casting to an array type' in errline and '-python' in opts:
        return 'python-array-parameter'
    e = re.sub(r'[\w./-]+\.(cxx|h):\d+:\d+: ', '', errline)
    e = re.sub(r'‘[^’]*’', '‘…’', e)
    e = re.sub(r'\d+', 'N', e)
    return e[:70]


def main():
    ck = vlib.Check('C03')
    ck.coq()
    b = ck.build()
    wd = vlib.workdir(b, 'c03')
    rng = ck.rng
    inc = vlib.gen_includes(b)

    # ---------------- stream A: naming under collisions: model vs code ---------------------------
    groups = collide.birthday(rng, budget=ck.scale(20000, 80000), want=ck.scale(4, 16))
    n_names = 0
    for gi in range(ck.scale(8, 60)):
        methods = []
        for g in rng.sample(groups, min(len(groups), rng.choice([1, 2]))):
            methods += g
        k = rng.choice([0, 1, 2, 3, 4])
        if k:
            methods += [(n_, ['int'], False) for n_ in collide.swap_variants(rng, 'Node', k)]
        rng.shuffle(methods)
        src = collide.header('Node', methods)
        hn = 'col%d.h' % gi
        open(os.path.join(wd, hn), 'w').write(src)
        back = rng.choice(['-c', '-python'])
        opts = [back, '-fnames', '-unique-names']
        p = vlib.sh([b['interrogate'], '-DCPPPARSER', '-oc', 'col%d.cxx' % gi, '-od', 'col%d.in' % gi, '-module', 'm', '-library', 'lib%d' % gi] + opts + [hn], cwd=wd)
        ck.count()
        ck.dist('collision-header:k=%d' % k)
        replay = {'kind': 'spec', 'header': src, 'opts': opts, 'cmd': 'interrogate -DCPPPARSER -oc h.cxx -od h.in -module m -library l %s h.h' % ' '.join(opts)}
        if p.returncode != 0:
            ck.violation('corr_C03_run', 'interrogate failed on a collision header', dict(replay, kind='correspondence', output=p.stdout[-500:]), nofail=True)
            continue
        d = dbfile.load(os.path.join(wd, 'col%d.in' % gi), b['src'])
        libhash = d['library_hash_name']
        mlib = collide.hashes(['lib%d' % gi], 5)[0]
        if libhash != mlib:
            ck.violation('corr_C03_hash', 'library hash name %s, model hash_string gives %s' % (libhash, mlib), dict(replay, kind='correspondence'), nofail=True)
        pre = '_inC' if back == '-c' else '_inP'
        upre = 'c' if back == '-c' else 'p'
        names = [w['name'] for w in d['wrappers'].values() if w['name']]
        uniq = [w['unique_name'] for w in d['wrappers'].values() if w['unique_name']]
        n_names += len(names)
        # specification: distinct, valid identifiers
        bad = [x for x in names + uniq if not re.match(r'^[A-Za-z_][A-Za-z0-9_]*$', x)]
        if bad:
            ck.spec_failure('names:invalid-identifier', 'generated name %r is not a valid identifier' % bad[0], replay)
        dups = sorted(set(x for x in names if names.count(x) > 1)) or sorted(set(x for x in uniq if uniq.count(x) > 1))
        if dups:
            ck.spec_failure('names:duplicate', 'two wrappers share the name %s (hash collision not resolved)' % dups[0], replay)
            continue
        # correspondence: the set of hash parts equals what the model protocol assigns to these signatures
        sigs = [collide.sig_text('Node', *m) for m in methods] + ['Node::Node()', 'Node::Node(Node)']   # implicit constructors; a const-reference parameter is spelled by its target type
        errs, parts = collide.expected_hash_parts(sigs)
        got = sorted(x[len(pre) + 4:] for x in names)
        if errs == 0 and sorted(parts) != got:
            # the letter suffix depends on processing order; compare with suffix letters erased
            def norm(x):
                return x[:8] + ('?' if len(x) > 8 else '')
            if sorted(map(norm, parts)) != sorted(map(norm, got)):
                ck.violation('corr_C03_names', 'hash parts in the database differ from the model protocol: %s vs %s' % (got[:6], sorted(parts)[:6]),
                             dict(replay, kind='correspondence', model=sorted(parts), impl=got), nofail=True)
                continue
        if any(x[:len(pre) + 4] != pre + libhash for x in names) or any(x[:len(upre) + 4] != upre + libhash for x in uniq):
            ck.violation('corr_C03_prefix', 'wrapper/unique name does not start with prefix + library hash', dict(replay, kind='correspondence'), nofail=True)
        q = vlib.sh(['g++', '-std=gnu++14', '-fsyntax-only', '-w', '-DHAVE_PYTHON', '-I', PYINC] + inc + ['-I', wd, os.path.join(wd, 'col%d.cxx' % gi)])
        if q.returncode != 0:
            el = [l for l in q.stdout.splitlines() if 'error' in l][:1]
            ck.spec_failure('compile:collision:' + compile_family(opts, el[0] if el else ''), 'code generated for a collision header does not compile: %s' % (el[0][:200] if el else ''), replay)
        else:
            ck.nontrivial('col%d' % gi)
        if gi < 2:
            ck.sample({'methods': [m[0] for m in methods][:6], 'names': names[:6]})
    # the recorded defect: more than 26 signatures equal in BOTH hashes exhaust the a..z suffixes
    methods = [(n_, ['int'], False) for n_ in collide.swap_variants(rng, 'Node', 5)]
    src = collide.header('Node', methods)
    open(os.path.join(wd, 'many.h'), 'w').write(src)
    p = vlib.sh([b['interrogate'], '-DCPPPARSER', '-oc', 'many.cxx', '-od', 'many.in', '-module', 'm', '-library', 'l', '-c', '-fnames', 'many.h'], cwd=wd)
    ck.count()
    ck.dist('collision-header:k=5(known-finding stream)')
    if p.returncode == 0:
        d = dbfile.load(os.path.join(wd, 'many.in'), b['src'])
        names = [w['name'] for w in d['wrappers'].values() if w['name']]
        errs, parts = collide.expected_hash_parts([collide.sig_text('Node', *m) for m in methods])
        if len(set(names)) != len(names):
            ck.spec_failure('names:too-many-conflicts', '32 signatures equal in both hashes: duplicate wrapper names, exit status 0',
                            {'kind': 'spec', 'header': src, 'cmd': 'interrogate -DCPPPARSER -oc h.cxx -od h.in -module m -library l -c -fnames h.h'})
            if errs == 0:
                ck.violation('corr_C03_many', 'model predicts no error for 32 full collisions but the tool produced duplicates', {'kind': 'correspondence'}, nofail=True)

    # ---------------- stream B: option lattice, every output compiled ----------------------------
    nlib = ck.scale(3, 12)
    libs = []
    for i in range(nlib):
        lib = headers.Lib(rng, nclasses=rng.randrange(2, 5))
        text = lib.render()
        # constants and defaults that need escaping/qualification
        text += '\n'.join([
            'BEGIN_PUBLISH', 'enum Opt%d { O%d_A = 1 << 3, O%d_B = \'x\' };' % (i, i, i),
            'int deflt%d(int a = -1, double b = 1e10, char c = \'\\n\', bool d = true, unsigned int e = 0xffffffffu);' % i,
            'const char *cstr%d(const char *s = "a\\"b\\\\c\\n");' % i, 'END_PUBLISH', ''])
        hn = 'o%d.h' % i
        open(os.path.join(wd, hn), 'w').write(text)
        libs.append((hn, text))
    backs = [['-c'], ['-python'], ['-python-native'], ['-c', '-python']]
    namings = [['-fnames'], ['-fptrs'], []]
    toggles = [['-string'], ['-true-names'], ['-unique-names'], ['-nodb'], ['-promiscuous'], ['-nomangle'], ['-assert']]
    optsets = []
    for back in backs:
        for nm in namings:
            if ck.tier == 'thorough':
                combos = itertools.product(*[[[], t] for t in toggles])
                for c in combos:
                    optsets.append(back + nm + [x for e in c for x in e])
            else:
                # pairwise-ish: none, each toggle alone, all, and a few random combinations
                optsets.append(back + nm)
                for t in toggles:
                    optsets.append(back + nm + t)
                for _ in range(3):
                    optsets.append(back + nm + [x for t in toggles if rng.random() < 0.5 for x in t])
    jobs = [(oi, li) for oi in range(len(optsets)) for li in range(len(libs))]
    if ck.tier != 'thorough':
        jobs = [j for j in jobs if (j[0] + j[1]) % nlib == 0]      # one library per option set in the quick tier

    def run(job):
        oi, li = job
        opts = optsets[oi]
        hn, text = libs[li]
        oc = os.path.join(wd, 'j%d_%d.cxx' % (oi, li))
        p = vlib.sh([b['interrogate'], '-DCPPPARSER', '-oc', oc, '-od', os.path.join(wd, 'j%d_%d.in' % (oi, li)), '-module', 'm', '-library', 'l'] + opts + [hn], cwd=wd)
        if p.returncode != 0:
            return ('rejected', p.stdout[-300:])
        q = vlib.sh(['g++', '-std=gnu++14', '-fsyntax-only', '-w', '-DHAVE_PYTHON', '-include', 'register_type.h', '-I', PYINC] + inc + ['-I', wd, oc])
        if q.returncode == 0:
            return ('ok', '')
        el = [l for l in q.stdout.splitlines() if 'error' in l][:1]
        return ('compile-error', el[0] if el else q.stdout[-200:])

    with ThreadPoolExecutor(vlib.NCPU) as ex:
        results = list(ex.map(run, jobs))
    nok = nrej = 0
    for (oi, li), (st, msg) in zip(jobs, results):
        ck.count()
        opts = optsets[oi]
        ck.dist('lattice:' + opts[0])
        if st == 'ok':
            nok += 1
            ck.nontrivial('lat%d_%d' % (oi, li))
        elif st == 'rejected':
            nrej += 1      # an error exit is not a "successful run": outside the property
        else:
            fam = compile_family(opts, msg)
            ck.spec_failure('compile:' + fam, 'interrogate %s exits 0 but the code does not compile: %s' % (' '.join(opts), msg[:200]),
                            {'kind': 'spec', 'header': libs[li][1], 'opts': opts, 'cmd': 'interrogate -DCPPPARSER -oc h.cxx -od h.in -module m -library l %s h.h; g++ -std=gnu++14 -fsyntax-only h.cxx' % ' '.join(opts),
                             'error': msg})
    ck.cov['programs'] = len(jobs)
    ck.cov['disagreements_checked'] = len(jobs) - nok - nrej
    ck.cov['streams'] = {'collision_headers': ck.scale(8, 60), 'names_compared': n_names, 'option_sets': len(optsets), 'lattice_runs': len(jobs),
                         'lattice_compiled_ok': nok, 'lattice_rejected_by_interrogate': nrej}
    ck.cov['rule'] = ('(A) headers whose signatures collide in the 24-bit hash (birthday search and the 24-periodic swap construction, both driven by the extracted '
                      'hash_string): names distinct, identifiers valid, hash parts equal to the model protocol, code compiles; (B) option lattice '
                      '{-c,-python,-python-native,-c -python} x {-fnames,-fptrs,none} x subsets of {-string,-true-names,-unique-names,-nodb,-promiscuous,-nomangle,-assert} '
                      'on generated libraries with awkward constants/defaults: every successful run is compiled with g++ -fsyntax-only (translation validation). '
                      'Non-trivial = distinct (header, option set) that compiled')
    ck.assumptions += ['compilability is translation validation by g++ 12 against shim headers for dconfig.h (empty) — not a theorem',
                       'linking and module initialisation (interrogate_module) are exercised by C16/C02 harnesses']
    ck.finish()


if __name__ == '__main__':
    main()
