#!/usr/bin/env python3
"""C09 — conditional inclusion keeps exactly the groups a conforming preprocessor keeps.

model : coq/C09/Defs.v run_impl (directive machine with one counter) — proved equal to the tree semantics
spec  : run_ref (tree semantics + conforming condition evaluator), cross-checked against gcc -E
impl  : parse_file -E  (kept marker lines, macro probes, #error diagnostics)
"""
import os
import re
import subprocess
import sys
from concurrent.futures import ThreadPoolExecutor

sys.path.insert(0, os.path.dirname(os.path.dirname(os.path.abspath(__file__))))
import vlib
from gen import conds as G


def observe(text, errtext):
    kept = [int(x) for x in re.findall(r'\bm_(\d+)', text)]
    macros = []
    for m in range(G.NMAC):
        mm = re.search(r'v_%d\s*=\s*([^;]*);' % m, text)
        v = mm.group(1).strip() if mm else '?'
        v = v.replace(' ', '')
        if v == 'M%d' % m:
            macros.append('-')
        else:
            macros.append(v.strip('()').replace(' ', ''))
    errors = [int(x) for x in re.findall(r'error:?\s*(?:#error\s*)?e_(\d+)', errtext)]
    return 'kept=%s errors=%s macros=%s' % (','.join(map(str, kept)), ','.join(map(str, sorted(set(errors)))), ','.join(macros))


def norm_model(s):
    # model prints the macro table only as far as it was ever touched, and errors in order
    m = re.match(r'kept=(\S*) errors=(\S*) macros=(\S*)', s)
    kept, errs, macs = m.groups()
    macs = [x for x in macs.split(',') if x != ''] if macs else []
    macs += ['-'] * (G.NMAC - len(macs))
    errs = sorted(set(int(x) for x in errs.split(',') if x))
    return 'kept=%s errors=%s macros=%s' % (kept, ','.join(map(str, errs)), ','.join(macs))


def run_impl(b, wd, idx, src):
    path = os.path.join(wd, 'c%d.h' % idx)
    open(path, 'w').write(src)
    if not os.path.exists(os.path.join(wd, 'present.h')):
        open(os.path.join(wd, 'present.h'), 'w').write('/* present */\n')
    p = subprocess.run([b['parse_file'], '-E', '-I', wd, '-S', wd, path], stdout=subprocess.PIPE, stderr=subprocess.PIPE, text=True, timeout=60, cwd=wd)
    return p.returncode, observe(p.stdout, p.stderr)


def run_gcc(wd, idx, src):
    path = os.path.join(wd, 'c%d.h' % idx)
    p = subprocess.run(['gcc', '-E', '-P', '-x', 'c++', '-std=c++23', '-I', wd, path], stdout=subprocess.PIPE, stderr=subprocess.PIPE, text=True, timeout=60, cwd=wd)
    return observe(p.stdout, p.stderr)


def main():
    ck = vlib.Check('C09')
    ck.coq()
    b = ck.build()
    wd = vlib.workdir(b, 'c09')
    rng = ck.rng
    cases = []
    # exhaustive small scope
    for g in G.enumerate_small(ck.scale(3, 4), 2):
        cases.append(('small', G.renumber(g)))
    nsmall = len(cases)
    # random deeper trees
    for i in range(ck.scale(700, 12000)):
        gen = G.Gen(rng)
        d = rng.choice([1, 2, 2, 3, 3, 4, 5])
        cases.append(('random', gen.group(d, 5)))
    srcs = ['\n'.join(G.render(g) + G.probes()) + '\n' for _, g in cases]
    model = vlib.run_model('C09', 'run', [G.sexp(g) for _, g in cases], timeout=1800)
    with ThreadPoolExecutor(vlib.NCPU) as ex:
        impl = list(ex.map(lambda a: run_impl(b, wd, a[0], a[1]), enumerate(srcs)))
        gcc = list(ex.map(lambda a: run_gcc(wd, a[0], a[1]), enumerate(srcs)))

    def fails_spec(g):
        src = '\n'.join(G.render(g) + G.probes()) + '\n'
        m = vlib.run_model('C09', 'run', [G.sexp(g)])[0].split(' | ')
        if m[1] == 'illformed':
            return False
        rc, io = run_impl(b, wd, 999999, src)
        return io != norm_model(m[1])

    # ---- fixed shapes outside the tree grammar (compared with gcc only): a directive on the line after an #include of a file that does not end
    #      in a newline; macros that name themselves (directly or through a cycle) inside #if / #elif: what is left of them counts as 0
    open(os.path.join(wd, 'nonl.h'), 'w').write('int from_nonl;')
    open(os.path.join(wd, 'nonl2.h'), 'w').write('#define FROM_NONL2 1')
    open(os.path.join(wd, 'withnl.h'), 'w').write('int from_withnl;\n')
    SHAPES = []
    for inc in ('nonl.h', 'nonl2.h', 'withnl.h'):
        for nxt in ('#else\nint wrong_else;', '#elif 1\nint wrong_elif;', '#elif 0\nint wrong_elif0;\n#else\nint wrong_else2;'):
            SHAPES.append(('include-then-directive', '#if 1\n#include "%s"\n%s\n#endif\nint m_1;\n' % (inc, nxt)))
        SHAPES.append(('include-then-directive', '#include "%s"\n#if 0\nint wrong_if0;\n#endif\nint m_2;\n' % inc))
        SHAPES.append(('include-then-directive', '#if 0\n#else\n#include "%s"\n#endif\n#if 0\nint wrong_after;\n#else\nint m_3;\n#endif\n' % inc))
        SHAPES.append(('include-then-directive', '#ifdef NOPE\n#include "%s"\n#elif 1\n#include "%s"\n#elif 1\nint wrong_second;\n#endif\nint m_4;\n' % (inc, inc)))
    for defs, conds in [('#define FOO FOO\n', ['FOO == 0', '!FOO', 'FOO + 1', 'defined(FOO) && !FOO', 'FOO', 'FOO == 1']),
                        ('#define A B\n#define B A\n', ['!A', 'B + 1', 'A == B', 'A', 'A || 1', 'defined(A) && B == 0']),
                        ('#define X (X + 1)\n', ['X', 'X == 1', 'X - 1']), ('#define F(x) F(x)\n', ['F == 0', 'defined(F)'])]:
        for c_ in conds:
            SHAPES.append(('self-naming-macro', '%s#if %s\nint m_1;\n#else\nint m_2;\n#endif\n#if 0\n#elif %s\nint m_3;\n#else\nint m_4;\n#endif\n' % (defs, c_, c_)))
    ids = lambda text: re.findall(r'\b(m_\d+|from_\w+|wrong_\w+)\b', text)
    for n_, (fam, text) in enumerate(SHAPES):
        path = os.path.join(wd, 'shape%d.h' % n_)
        open(path, 'w').write(text)
        g_ = subprocess.run(['gcc', '-E', '-P', '-x', 'c++', '-std=c++23', '-I', wd, path], stdout=subprocess.PIPE, stderr=subprocess.PIPE, text=True, timeout=60, cwd=wd)
        ck.count()
        ck.dist('shape:' + fam)
        if g_.returncode != 0:
            ck.dist('shape:rejected-by-gcc')
            continue
        p_ = subprocess.run([b['parse_file'], '-E', '-I', wd, '-S', wd, path], stdout=subprocess.PIPE, stderr=subprocess.PIPE, text=True, timeout=60, cwd=wd)
        if ids(p_.stdout) != ids(g_.stdout):
            ck.spec_failure('shape:' + fam, 'kept declarations %s, a conforming preprocessor keeps %s' % (ids(p_.stdout), ids(g_.stdout)),
                            {'kind': 'spec', 'files': {'c.h': text, 'nonl.h': 'int from_nonl; (no newline at the end)', 'nonl2.h': '#define FROM_NONL2 1 (no newline at the end)'},
                             'cmd': 'parse_file -E c.h   vs   gcc -E -P -x c++ -std=c++23 c.h', 'stderr_tail': p_.stderr[-600:]})
        else:
            ck.nontrivial(('shape', text))

    n_def = 0
    for k, ((kind, g), src, m, (rc, io), go) in enumerate(zip(cases, srcs, model, impl, gcc)):
        ck.count()
        mi, mr, thm = m.split(' | ')
        ck.dist('%s:depth%d' % (kind, min(G.depth(g), 5)))
        if thm != 'thm-ok':
            ck.violation('thm-instance', 'extracted run_impl and run_spec differ (contradicts c09_keep_exact)', {'kind': 'proof', 'theorems': ['c09_keep_exact'], 'case': G.sexp(g)}, nofail=True)
        mi = norm_model(mi)
        defined = mr != 'illformed'
        if defined:
            n_def += 1
            mr = norm_model(mr)
            if G.count_directives(g) >= 2:
                ck.nontrivial(G.sexp(g))
            # the specification itself is validated against gcc on every defined case
            if go != mr:
                print('INTERNAL: Coq reference semantics disagrees with gcc -E on\n%s\nref: %s\ngcc: %s' % (src, mr, go))
                sys.exit(3)
            if io != mr:
                g2 = vlib.shrink(g, G.shrink_candidates, fails_spec, budget=150)
                src2 = '\n'.join(G.render(g2) + G.probes()) + '\n'
                ck.spec_failure('keep:' + G.shape(g2)[:80], 'parse_file -E keeps %s, a conforming preprocessor keeps %s' % (io, mr),
                                {'kind': 'spec', 'files': {'c.h': src2}, 'cmd': 'parse_file -E c.h', 'expected': mr, 'got': io, 'original': src})
                continue
        # correspondence with the faithful model (also on ill-formed conditions, where only the code's own choice matters)
        if defined and io != mi:
            ck.violation('corr_C09_run', 'model run_impl gives %s, parse_file -E gives %s' % (mi, io),
                         {'kind': 'correspondence', 'files': {'c.h': src}, 'cmd': 'parse_file -E c.h', 'model': mi, 'impl': io}, nofail=True)
        if len(ck.cov['samples']) < 3 and kind == 'random' and G.depth(g) >= 2 and defined:
            ck.sample({'source': src, 'kept': io})
    ck.cov['streams'] = {'exhaustive_small_scope': nsmall, 'random': len(cases) - nsmall, 'conditions_all_wellformed': n_def,
                         'gcc_validated': n_def}
    ck.cov['exhaustive_small'] = True
    ck.cov['rule'] = ('all groups of cost <= %d over {text,#define,#undef} x {#if 0,#if 1,#ifdef,#ifndef} x {elif,else} (exhaustive), plus random trees '
                      'to depth 5 with conditions from the C07 expression grammar over macros/defined(); non-trivial = at least two directives '
                      'and every evaluated condition well-formed; distinct by tree') % ck.scale(3, 4)
    ck.assumptions += ['gcc -E -P -std=c++23 is the conforming reference used to validate the Coq reference semantics run_ref',
                       'lexing inside skipped groups is below this line-level model (probed by C15)']
    ck.finish()


if __name__ == '__main__':
    main()
