#!/usr/bin/env python3
"""C07 — recorded constants equal the values the C++ compiler computes.

model  : coq/C07/Defs.v impl_eval / enum_impl (extracted)      spec: cxx_eval / enum_cxx
impl   : parse_file -p (value + parse tree), interrogate -od (enum values, manifests, array bounds)
oracle3: g++ static_assert validates the spec on the same expressions
"""
import os
import subprocess
import sys

sys.path.insert(0, os.path.dirname(os.path.dirname(os.path.abspath(__file__))))
import vlib
from vlib import dbfile
from gen import exprs as X

NAMES = ['K0', 'K1', 'E2', 'E3', 'U4', 'U5']          # U4, U5 are not declared: unknown identifiers
ENVVALS = [3, -7, 65536, 2147483647, None, None]
HEADER = """
const int K0 = 3;
constexpr int K1 = -7;
enum En { E2 = 65536, E3 = 2147483647 };
int opq();
"""


def run_parse_file(b, wd, lines):
    open(os.path.join(wd, 'e.h'), 'w').write(HEADER)
    p = subprocess.run([b['parse_file'], '-p', 'e.h'], cwd=wd, input='\n'.join(lines) + '\n', text=True,
                       stdout=subprocess.PIPE, stderr=subprocess.PIPE, timeout=600)
    out = []
    blocks = p.stdout.split('Enter an expression or type name:\n')[1:]
    for blk in blocks:
        d = {'raw': blk.strip()}
        for ln in blk.splitlines():
            if ln.startswith('Expression: '):
                d['tree'] = ln[len('Expression: '):]
            elif ln.startswith('value is '):
                d['value'] = ln[len('value is '):]
            elif ln.startswith('Invalid expression'):
                d['invalid'] = True
        out.append(d)
    return p.returncode, out, p.stderr


def classify(e):
    """root-cause key for a spec failure on expression e (smallest sub-expression shapes first)"""
    ops = X.ops_of(e)
    return 'eval:' + '+'.join(sorted(ops))[:80]


def gxx_validate(ck, wd, cases):
    """third oracle: g++ agrees with the Coq spec on every case where the spec defines a value"""
    lines = ['const int K0 = 3; constexpr int K1 = -7; enum En { E2 = 65536, E3 = 2147483647 }; extern int U4, U5; int opq();']
    n = 0
    for text, v in cases:
        lines.append('static_assert((%s) == (%s), "case %d");' % (text, ('(-2147483647-1)' if v == -2147483648 else str(v)), n))
        n += 1
    src = os.path.join(wd, 'gxx.cpp')
    open(src, 'w').write('\n'.join(lines) + '\n')
    p = vlib.sh(['g++', '-std=gnu++17', '-fsyntax-only', '-w', src])
    if p.returncode != 0:
        bad = [l for l in p.stdout.splitlines() if 'error' in l][:5]
        print('INTERNAL: the Coq specification cxx_eval disagrees with g++ (specification bug, not a repo defect):')
        print('\n'.join(bad))
        sys.exit(3)
    return n


def main():
    ck = vlib.Check('C07')
    ck.coq()
    b = ck.build()
    wd = vlib.workdir(b, 'c07')
    rng = ck.rng
    N = ck.scale(4000, 60000)

    # ---------------- stream 1: expressions through parse_file -p --------------------
    corpus = []
    cpath = os.path.join(vlib.VERIF, 'corpus', 'c07.txt')
    if os.path.exists(cpath):
        for ln in open(cpath):
            ln = ln.strip()
            if ln and not ln.startswith('#'):
                corpus.append(eval(ln))
    cases = list(corpus)
    for i in range(N):
        depth = rng.choice([1, 2, 2, 3, 3, 4])
        r = rng.random()
        if r < 0.55:
            e = X.gen(rng, depth, nrefs=4)                       # all known
        elif r < 0.8:
            e = X.gen(rng, depth, nrefs=6, allow_opaque=True)    # some unknown identifiers / calls
        else:
            e = X.gen(rng, depth, nrefs=0, lits=[0, 1, 2, 3, 4, 5, 31, 32, 33])   # small operands: shifts, division
        cases.append(e)
    envs = '(' + ' '.join('?' if v is None else str(v) for v in ENVVALS) + ')'
    model_out = vlib.run_model('C07', 'eval', ['(%s %s)' % (envs, X.sexp(e)) for e in cases])
    texts_min = [X.minimal(e, NAMES) for e in cases]
    rc, impl_out, err = run_parse_file(b, wd, texts_min)
    if len(impl_out) < len(cases):
        # crash in the middle: the first expression without an answer is the culprit
        k = len(impl_out) - 1 if impl_out and 'value' not in impl_out[-1] and 'invalid' not in impl_out[-1] else len(impl_out)
        k = max(0, min(k, len(cases) - 1))
        ck.spec_failure('crash:' + classify(cases[k]), 'parse_file -p died (status %s) while evaluating: %s' % (rc, texts_min[k]),
                        {'kind': 'crash', 'stdin': texts_min[k], 'header': HEADER, 'cmd': 'parse_file -p e.h', 'stderr': err[-500:]})
        ck.finish()
    gxx_cases = []
    n_spec = n_tree = 0
    for e, t, m, io in zip(cases, texts_min, model_out, impl_out):
        ck.count()
        mi, ms = m.split()
        ck.dist('depth%d' % min(4, X.size(e) // 4))
        if io.get('invalid') or 'value' not in io:
            ck.violation('corr_C07_parse', 'parse_file rejects a valid constant expression: ' + t,
                         {'kind': 'correspondence', 'stage': 'parse', 'stdin': t, 'header': HEADER, 'cmd': 'parse_file -p e.h', 'output': io.get('raw')}, nofail=False)
            continue
        iv = 'err' if io['value'] == '(error)' else io['value']
        # (a) parse tree = the tree the C++ grammar assigns (precedence, associativity)
        try:
            tree = X.norm_tree(X.parse_printed(io['tree'], NAMES))
        except Exception as ex:
            tree = ('unparsed', str(ex))
        if tree != X.norm_tree(e):
            ck.spec_failure('tree:' + classify(e), 'parse tree differs from the C++ grammar for: %s -> %s' % (t, io['tree']),
                            {'kind': 'spec', 'stage': 'tree', 'stdin': t, 'header': HEADER, 'cmd': 'parse_file -p e.h',
                             'expected_tree': X.full(e, NAMES), 'got': io['tree']})
            continue
        n_tree += 1
        in_range = ms != 'none'
        # (b) specification: whenever C++ defines the value, the tool must report it
        if in_range:
            n_spec += 1
            ck.nontrivial(t)
            gxx_cases.append((t, int(ms)))
            if iv != ms:
                ck.spec_failure(classify(e), 'constant %s: C++ value %s, interrogate reports %s' % (t, ms, iv),
                                {'kind': 'spec', 'stdin': t, 'header': HEADER, 'cmd': 'parse_file -p e.h', 'expected': ms, 'got': iv})
                continue
        # (c) correspondence model <-> code (on in-range cases and on err/int status elsewhere)
        if in_range or mi == 'err' or iv == 'err':
            if iv != mi:
                ck.violation('corr_C07_eval', 'model impl_eval=%s but parse_file reports %s for %s' % (mi, iv, t),
                             {'kind': 'correspondence', 'stage': 'eval', 'stdin': t, 'header': HEADER, 'cmd': 'parse_file -p e.h',
                              'model': mi, 'impl': iv, 'spec': ms}, nofail=(not in_range))
        if len(ck.cov['samples']) < 4 and in_range and X.size(e) > 6:
            ck.sample({'expr': t, 'cxx': ms, 'model': mi, 'impl': iv})
    ck.cov['streams']['parse_file_p'] = {'cases': len(cases), 'tree_checked': n_tree, 'spec_defined': n_spec}
    ck.cov['streams']['gxx_validated_spec'] = gxx_validate(ck, wd, gxx_cases[:ck.scale(1500, 8000)])

    # ---------------- stream 2: literals in every base --------------------------------
    lits = []
    for i in range(ck.scale(300, 3000)):
        n = rng.choice([0, 1, 7, 8, 9, 10, 15, 16, 255, 1 << 16, (1 << 31) - 1]) if rng.random() < 0.3 else rng.randrange(0, 1 << rng.randrange(1, 32))
        base = rng.choice([2, 8, 10, 16])
        if base == 2:
            s = '0b' + bin(n)[2:]
        elif base == 8:
            s = '0' + oct(n)[2:]
        elif base == 16:
            s = ('0x%x' if rng.random() < 0.5 else '0X%X') % n
        else:
            s = str(n)
        if rng.random() < 0.2 and len(s) > 4:
            k = rng.randrange(3, len(s))
            s = s[:k] + "'" + s[k:]
        if rng.random() < 0.15:
            s += rng.choice(['u', 'U', 'l', 'L', 'ul', 'LL'])
        lits.append((s, n))
    rc, impl_out, err = run_parse_file(b, wd, [s for s, n in lits])
    for (s, n), io in zip(lits, impl_out):
        ck.count()
        ck.dist('literal')
        got = io.get('value')
        if got != str(n):
            base = 'bin' if s[:2] in ('0b', '0B') else 'hex' if s[:2] in ('0x', '0X') else 'oct' if s[0] == '0' and len(s) > 1 else 'dec'
            key = 'literal:%s%s%s' % (base, ":sep" if "'" in s else '', ':suffix' if s[-1] in 'uUlL' else '')
            ck.spec_failure(key, 'literal %s has value %d, interrogate reports %s' % (s, n, got),
                            {'kind': 'spec', 'stdin': s, 'header': HEADER, 'cmd': 'parse_file -p e.h', 'expected': n, 'got': got})
        else:
            ck.nontrivial('lit' + s)

    # ---------------- stream 2b: character literals (every escape form) ------------------
    chars = []
    for ch in range(32, 127):
        if chr(ch) not in "'\\":
            chars.append(("'%s'" % chr(ch), ch))
    for esc, v in (('n', 10), ('t', 9), ('r', 13), ('a', 7), ('b', 8), ('f', 12), ('v', 11), ('\\', 92), ("'", 39), ('"', 34), ('?', 63), ('0', 0)):
        chars.append(("'\\%s'" % esc, v))
    octs = list(range(256)) if ck.tier == 'thorough' else sorted(set([0, 1, 7, 8, 15, 55, 63, 64, 127, 128, 255, 0o177, 0o007, 0o017, 0o107, 0o377] + [rng.randrange(256) for _ in range(60)]))
    for v in octs:
        sv = v - 256 if v >= 128 else v
        chars.append(("'\\%03o'" % v, sv))
        if v < 64:
            chars.append(("'\\%o'" % v, sv))
        chars.append(("'\\x%x'" % v, sv))
        chars.append(("'\\x%02X'" % v, sv))
    rc, impl_out, err = run_parse_file(b, wd, [c for c, v in chars])
    gx = []
    for (c, v), io in zip(chars, impl_out):
        ck.count()
        ck.dist('charlit')
        gx.append((c, v))
        got = io.get('value')
        if got != str(v):
            kind = 'oct' if c[2:3].isdigit() and c[1] == '\\' else 'hex' if c[1:3] == '\\x' else 'simple-escape' if c[1] == '\\' else 'plain'
            ck.spec_failure('charlit:' + kind, 'character literal %s has value %d, interrogate reports %s' % (c, v, got),
                            {'kind': 'spec', 'stdin': c, 'header': HEADER, 'cmd': 'parse_file -p e.h', 'expected': v, 'got': got})
        else:
            ck.nontrivial('chr' + c)
    ck.cov['streams']['char_literals'] = len(chars)
    ck.cov['streams']['gxx_validated_char_literals'] = gxx_validate(ck, wd, gx)

    # ---------------- stream 3: end to end through the database ------------------------
    nhdr = ck.scale(25, 300)
    n_enum = 0
    for h in range(nhdr):
        inits = []
        k = rng.randrange(2, 8)
        for j in range(k):
            r0 = rng.random()
            if r0 < 0.45:
                inits.append(None)
            elif r0 < 0.65:
                # the shapes CPPEnumType::add_element special-cases for the next implicit enumerator: literal, X op literal
                lhs = ('ref', rng.randrange(j)) if j and rng.random() < 0.7 else ('lit', rng.choice([0, 3, 100]))
                inits.append(('bin', rng.choice(['add', 'sub', 'mul', 'or', 'shl', 'xor']), lhs, ('lit', rng.choice([0, 1, 2, 3, 7]))))
            else:
                inits.append(X.gen(rng, rng.choice([1, 2, 3]), nrefs=j, lits=[0, 1, 2, 3, 5, 8, 100, 65536]))
        en = ['V%d' % j for j in range(k)]
        body = ', '.join(en[j] + ('' if inits[j] is None else ' = ' + X.minimal(inits[j], en)) for j in range(k))
        mac = X.gen(rng, 2, nrefs=0, lits=[0, 1, 2, 7, 9, 255])
        arr = X.gen(rng, 2, nrefs=0, ops=['add', 'mul', 'shl', 'or'], lits=[1, 2, 3, 4])
        src = 'enum En%d { %s };\n#define MAC%d (%s)\nstruct St%d { int a[%s]; };\n' % (h, body, h, X.minimal(mac), h, X.minimal(arr))
        hp = os.path.join(wd, 'h%d.h' % h)
        open(hp, 'w').write(src)
        p = vlib.sh([b['interrogate'], '-DCPPPARSER', '-oc', 'h.cxx', '-od', 'h.in', '-module', 'm', '-library', 'l', '-promiscuous', 'h%d.h' % h], cwd=wd)
        line = '(' + ' '.join('-' if i is None else X.sexp(i) for i in inits) + ')'
        m_impl, m_spec = vlib.run_model('C07', 'enum', [line])[0].split(' | ')
        m_impl = m_impl.split()
        m_spec = m_spec.split()
        mres = vlib.run_model('C07', 'eval', ['(() %s)' % X.sexp(mac), '(() %s)' % X.sexp(arr)])
        ck.count()
        ck.dist('header')
        if p.returncode != 0:
            if any(x == 'none' for x in m_spec) or mres[1].split()[1] in ('none', '0') or mres[1].split()[1].startswith('-'):
                continue   # ill-formed by construction (overflow / bad array bound): rejection is fine
            ck.violation('corr_C07_header', 'interrogate failed on a well-formed header', {'kind': 'correspondence', 'header': src, 'output': p.stdout[-800:]}, nofail=True)
            continue
        db = dbfile.load(os.path.join(wd, 'h.in'), b['src'])
        et = [t for t in db['types'].values() if t['name'] == 'En%d' % h]
        got = [str(v['value']) for v in et[0]['enum_values']] if et else []
        # the builder records the prefix up to the first unevaluable enumerator
        exp_impl = []
        for v in m_impl:
            if v == 'err':
                break
            exp_impl.append(v)
        for j, g in enumerate(got):
            if j < len(m_spec) and m_spec[j] != 'none':
                n_enum += 1
                if g != m_spec[j]:
                    ck.spec_failure('enum:' + ('implicit' if inits[j] is None else classify(inits[j])),
                                    'enumerator V%d recorded as %s, C++ value %s' % (j, g, m_spec[j]),
                                    {'kind': 'spec', 'header': src, 'cmd': 'interrogate -od h.in -promiscuous h.h', 'expected': m_spec, 'got': got})
                    break
        else:
            if all(x != 'none' for x in m_spec) and got != exp_impl:
                ck.violation('corr_C07_enum', 'recorded enumerators %s, model %s' % (got, exp_impl),
                             {'kind': 'correspondence', 'header': src, 'model': m_impl, 'impl': got}, nofail=True)
            if all(x != 'none' for x in m_spec) and len(got) != len(m_spec):
                ck.spec_failure('enum:dropped', 'enumerators missing from the database: %s vs %s' % (got, m_spec),
                                {'kind': 'spec', 'header': src, 'expected': m_spec, 'got': got})
        mm = [m for m in db['manifests'].values() if m['name'] == 'MAC%d' % h]
        fl = dbfile.flags(b['src'])
        ms = mres[0].split()[1]
        if mm and ms != 'none':
            has = bool(mm[0]['flags'] & fl['Manifest.F_has_int_value'])
            if not has or str(mm[0]['int_value']) != ms:
                ck.spec_failure('manifest:' + classify(mac), 'macro constant (%s) recorded as %s (has_int=%s), C++ value %s' % (X.minimal(mac), mm[0]['int_value'], has, ms),
                                {'kind': 'spec', 'header': src, 'expected': ms, 'got': mm[0]['int_value']})
            else:
                ck.nontrivial('mac' + X.minimal(mac))
        asz = mres[1].split()[1]
        at = [t for t in db['types'].values() if t['array_size'] is not None]
        if at and asz != 'none' and int(asz) > 0:
            if str(at[0]['array_size']) != asz:
                ck.spec_failure('array:' + classify(arr), 'array bound [%s] recorded as %s, C++ value %s' % (X.minimal(arr), at[0]['array_size'], asz),
                                {'kind': 'spec', 'header': src, 'expected': asz, 'got': at[0]['array_size']})
            else:
                ck.nontrivial('arr' + X.minimal(arr))
        if h < 2:
            ck.sample({'header': src, 'enum_recorded': got, 'enum_cxx': m_spec})
    ck.cov['streams']['database'] = {'headers': nhdr, 'enumerators_compared': n_enum}
    ck.cov['rule'] = ('random integer constant expressions (depth<=4, literals incl. powers of two and INT_MAX neighbours, refs to const/constexpr/'
                      'enumerators and unknown identifiers) rendered with minimal C++ parentheses; non-trivial = C++ defines an int value '
                      '(Coq cxx_eval, cross-checked with g++ static_assert); distinct by text')
    ck.assumptions += ['g++ 12 is the C++ reference for validating the Coq specification cxx_eval',
                       'the LALR parser is abstracted to its precedence table; real parse trees are compared with the C++ grammar by testing']
    ck.finish()


if __name__ == '__main__':
    main()
