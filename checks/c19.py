#!/usr/bin/env python3
"""C19 — a failed or incomplete output write is reported by a non-zero exit status.

model : coq/C19 stream machine + main() status (extracted): proved status=0 => every requested output complete,
        for every buffering policy and fault point
impl  : interrogate / interrogate_module under harness/faultinject.c (LD_PRELOAD): fail the k-th write/writev/fclose on
        the chosen output file, for every k of the fault-free trace; plus unopenable targets
"""
import os
import shutil
import subprocess
import sys
from concurrent.futures import ThreadPoolExecutor

sys.path.insert(0, os.path.dirname(os.path.dirname(os.path.abspath(__file__))))
import vlib
from gen import headers


import re


def mask(b_):
    return re.sub(rb'/var/tmp/[^\s"]*?/c19/in\d+(/f_\w+)?', b'<DIR>', b_)


def main():
    ck = vlib.Check('C19', level='proof')
    ck.coq()
    b = ck.build()
    wd = vlib.workdir(b, 'c19')
    rng = ck.rng
    so = os.path.join(b['build'], 'faultinject.so')
    p = vlib.sh(['gcc', '-shared', '-fPIC', '-O1', '-o', so, os.path.join(vlib.VERIF, 'harness', 'faultinject.c'), '-ldl'])
    if p.returncode != 0:
        raise SystemExit('cannot build faultinject.so: ' + p.stdout)

    # inputs: a few libraries of different size (different number of write(2) calls)
    cases = []
    for i in range(ck.scale(3, 10)):
        lib = headers.Lib(rng, nclasses=rng.choice([1, 3, 6, 10]))
        d = os.path.join(wd, 'in%d' % i)
        os.makedirs(d)
        open(os.path.join(d, 'h.h'), 'w').write(lib.render())
        cases.append(d)

    def run_tool(d, tool, chan, env_extra, outs):
        """tool: 'interrogate' | 'interrogate_module'; outs: dict channel -> path"""
        env = dict(os.environ)
        env.update(env_extra)
        if tool == 'interrogate':
            cmd = [b['interrogate'], '-DCPPPARSER', '-module', 'm', '-library', 'l', '-python-native']
            for c, pth in outs.items():
                cmd += ['-' + c, pth]
            cmd.append('h.h')
        else:
            cmd = [b['interrogate_module'], '-python-native', '-module', 'm', '-library', 'm', '-oc', outs['oc'], 'base.in']
        pr = subprocess.run(cmd, cwd=d, env=env, stdout=subprocess.PIPE, stderr=subprocess.PIPE, timeout=120)
        return pr.returncode

    jobs = []
    for d in cases:
        # database for interrogate_module
        subprocess.run([b['interrogate'], '-DCPPPARSER', '-module', 'm', '-library', 'l', '-python-native', '-oc', 'base.cxx', '-od', 'base.in', 'h.h'], cwd=d,
                       stdout=subprocess.DEVNULL, stderr=subprocess.DEVNULL)
        for tool, chan in (('interrogate', 'oc'), ('interrogate', 'od'), ('interrogate', 'oh'), ('interrogate_module', 'oc')):
            jobs.append((d, tool, chan))

    n_faults = 0
    for d, tool, chan in jobs:
        outs = {'oc': os.path.join(d, 'out.cxx'), 'od': os.path.join(d, 'out.in'), 'oh': os.path.join(d, 'out.txt')} if tool == 'interrogate' else {'oc': os.path.join(d, 'mod.cxx')}
        target = outs[chan]
        log = os.path.join(d, 'fi.log')
        for f in list(outs.values()) + [log]:
            if os.path.exists(f):
                os.unlink(f)
        rc0 = run_tool(d, tool, chan, {'LD_PRELOAD': so, 'FI_PATH': target, 'FI_LOG': log}, outs)
        if rc0 != 0 or not os.path.exists(target):
            ck.violation('corr_C19_baseline', 'fault-free run failed (status %s)' % rc0, {'kind': 'correspondence', 'tool': tool, 'channel': chan}, nofail=True)
            continue
        full = open(target, 'rb').read()
        events = [l.split() for l in open(log).read().splitlines()]
        n = len(events)
        sizes = [int(e[1]) for e in events if e[0] != 'fclose']
        ks = list(range(n)) if (n <= 14 or ck.tier == 'thorough') else sorted(set([0, 1, 2, n // 2, n - 3, n - 2, n - 1] + [rng.randrange(n) for _ in range(5)]))

        def one(k_err):
            k, err = k_err
            dd = os.path.join(d, 'f_%s_%s_%d_%d' % (tool, chan, k, err))
            os.makedirs(dd, exist_ok=True)
            for f in ('h.h', 'base.in'):
                if os.path.exists(os.path.join(d, f)):
                    shutil.copy(os.path.join(d, f), dd)
            o2 = {c: os.path.join(dd, os.path.basename(pth)) for c, pth in outs.items()}
            rc = run_tool(dd, tool, chan, {'LD_PRELOAD': so, 'FI_PATH': o2[chan], 'FI_FAIL_AT': str(k), 'FI_ERRNO': str(err)}, o2)
            content = open(o2[chan], 'rb').read() if os.path.exists(o2[chan]) else None
            others_ok = all(os.path.exists(pth) for c, pth in o2.items() if c != chan)
            shutil.rmtree(dd, ignore_errors=True)
            return k, err, rc, content, others_ok

        with ThreadPoolExecutor(vlib.NCPU) as ex:
            results = list(ex.map(one, [(k, e) for k in ks for e in (28, 5)]))   # ENOSPC, EIO
        for k, err, rc, content, others_ok in results:
            ck.count()
            n_faults += 1
            ck.dist('%s:-%s' % (tool, chan))
            # the run directory appears inside the outputs (#line, command line): compare with it masked
            complete = content is not None and mask(content) == mask(full)
            # model: replay the observed trace with the fault at event k
            chs = '((1 1 (%s) %d))' % (' '.join(map(str, sizes)), k)
            mstatus, mold, mcomp = vlib.run_model('C19', 'status', [chs])[0].split()
            replay = {'kind': 'spec', 'tool': tool, 'channel': '-' + chan, 'fail_event': k, 'errno': err, 'trace': events,
                      'cmd': 'LD_PRELOAD=faultinject.so FI_PATH=<out> FI_FAIL_AT=%d FI_ERRNO=%d %s ...' % (k, err, tool), 'exit_status': rc,
                      'bytes_written': None if content is None else len(content), 'bytes_expected': len(full)}
            if rc < 0:
                ck.spec_failure('signal:%s:%s' % (tool, chan), '%s died from signal %d when event %d on -%s failed' % (tool, -rc, k, chan), replay)
            elif rc == 0:
                # a failed write or close was reported to the stream: success must not be claimed, whether or not the bytes happen to be there
                ck.spec_failure('silent-loss:%s:-%s' % (tool, chan), '%s exits 0 although %s number %d of %d on -%s failed (%s)'
                                % (tool, events[k][0], k, n, chan, 'file complete' if complete else 'file incomplete: %s bytes of %d' % (replay['bytes_written'], len(full))), replay)
            elif (rc != 0) != (mstatus != '0'):
                ck.violation('corr_C19_status', 'model status %s, tool exit %d (event %d of %d on -%s)' % (mstatus, rc, k, n, chan), dict(replay, kind='correspondence'), nofail=True)
            else:
                ck.nontrivial('%s|%s|%s|%d|%d' % (os.path.basename(d), tool, chan, k, err))
        if len(ck.cov['samples']) < 3:
            ck.sample({'tool': tool, 'channel': '-' + chan, 'fault_free_trace': events[:8], 'events': n, 'fault_points_tried': len(ks)})

    # ---------------- unopenable targets ---------------------------------------------------
    d = cases[0]
    open(os.path.join(d, 'afile'), 'w').write('x')
    os.makedirs(os.path.join(d, 'adir'), exist_ok=True)
    bad_targets = {'missing-directory': os.path.join(d, 'no', 'such', 'dir', 'o.x'), 'target-is-directory': os.path.join(d, 'adir'),
                   'component-is-file': os.path.join(d, 'afile', 'o.x')}
    # a full device is the k=0 ENOSPC case of the injection sweep above; /dev/full itself is not used as a target
    # (the checks run as root and a tool that unlinks its target on failure would remove the device node)
    for label, pth in bad_targets.items():
        for tool, chan in (('interrogate', 'oc'), ('interrogate', 'od'), ('interrogate', 'oh'), ('interrogate_module', 'oc')):
            outs = {chan: pth}
            if tool == 'interrogate':
                for c, f in (('oc', 'x.cxx'), ('od', 'x.in'), ('oh', 'x.txt')):
                    if c != chan:
                        outs[c] = os.path.join(d, f)
            rc = run_tool(d, tool, chan, {}, outs)
            ck.count()
            ck.dist('unopenable:' + label)
            mstatus = vlib.run_model('C19', 'status', ['((1 0 (10) none))'])[0].split()[0]
            if rc == 0:
                ck.spec_failure('unopenable:%s:-%s:%s' % (tool, chan, label), '%s exits 0 although -%s %s cannot be written (%s)' % (tool, chan, pth, label),
                                {'kind': 'spec', 'tool': tool, 'channel': '-' + chan, 'target': pth, 'cmd': '%s -%s %s ...' % (tool, chan, pth)})
            elif mstatus == '0':
                ck.violation('corr_C19_open', 'model predicts success for an unopenable target', {'kind': 'correspondence'}, nofail=True)
            else:
                ck.nontrivial('open|%s|%s|%s' % (tool, chan, label))
    ck.cov['streams'] = {'fault_injections': n_faults, 'unopenable_cases': len(bad_targets) * 4}
    ck.cov['rule'] = ('for each output channel (-oc/-od/-oh of interrogate, -oc of interrogate_module) and several libraries: record the fault-free system-call trace on that file, then '
                      'fail the k-th write/writev/fclose (ENOSPC and EIO) for every k (quick: all k when <= 14 events, else first/last/strided); plus missing directory, target is a '
                      'directory, path component is a file. Non-trivial = distinct (input, tool, channel, k, errno)')
    ck.assumptions += ['close(2) inside glibc fclose cannot be interposed; a failing close is modelled by a failing fclose',
                       'read-only targets are not exercised because the checks run as root (permission bits are not enforced)']
    ck.finish()


if __name__ == '__main__':
    main()
