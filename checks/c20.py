#!/usr/bin/env python3
"""C20 — the query interface is total and name lookups are exact.

model : coq/C20 at_pos / get_rec / lookup / wrapper_by_unique_name (bsearch) / bsm
impl  : libinterrogatedb through harness/querytool (normal build; ASan build in the thorough tier)
"""
import os
import subprocess
import sys

sys.path.insert(0, os.path.dirname(os.path.dirname(os.path.abspath(__file__))))
import vlib
from vlib import dbfile
from gen import dbgen, headers

NEUTRAL_NULL_OK = ('library_name', 'module_name')   # documented to return NULL ("0") when unknown


def build_tools(ck, b, kind='normal'):
    gd = os.path.join(b['build'], 'harness-gen')
    os.makedirs(gd, exist_ok=True)
    p = vlib.sh(['python3', os.path.join(vlib.VERIF, 'harness', 'gen_querytool.py'),
                 os.path.join(b['src'], 'src', 'interrogatedb', 'interrogate_interface.h'), os.path.join(gd, 'querytool_gen.inc')])
    counts = p.stdout.split()
    import hashlib
    gh = hashlib.sha256(open(os.path.join(gd, 'querytool_gen.inc'), 'rb').read()).hexdigest()[:12]
    return vlib.harness(b, 'querytool', ['querytool.cxx'], extra=['-I', gd], kind=kind, defines=['GENHASH_' + gh]), counts


def classify_bad(line):
    # "BAD fn(args) = value ..."
    fn = line.split('(')[0].replace('BAD ', '').strip()
    return fn


def run_tool(tool, mode, files, timeout=120, inp=None):
    try:
        p = subprocess.run([tool, mode] + files, input=inp, stdout=subprocess.PIPE, stderr=subprocess.PIPE, timeout=timeout)
        return p.returncode, p.stdout.decode('latin-1'), p.stderr.decode('latin-1')
    except subprocess.TimeoutExpired as e:
        return 'timeout', (e.stdout or b'').decode('latin-1'), ''


def hx(s):
    return 's:' + s.encode('latin-1').hex()


def main():
    os.environ.setdefault('ASAN_OPTIONS', 'detect_leaks=0')       # module definitions are one-time allocations by design: a leak report at exit is not a crash

    ck = vlib.Check('C20')
    ck.coq()
    b = ck.build()
    tool, counts = build_tools(ck, b)
    tools = [('normal', tool)]
    if ck.tier == 'thorough':
        ba = ck.build('asan')
        tools.append(('asan', build_tools(ck, ba, 'asan')[0]))
    wd = vlib.workdir(b, 'c20')
    rng = ck.rng
    fl = dbfile.flags(b['src'])
    ck.cov['interface_functions_swept'] = {'index': int(counts[0]), 'index_position': int(counts[1]), 'positional': int(counts[2]), 'by_name_and_other': int(counts[3])}

    # ---------------- databases: real + synthetic ----------------------------------------
    files = []
    for i in range(ck.scale(6, 60)):
        lib = headers.Lib(rng, nclasses=rng.randrange(1, 5))
        hp = os.path.join(wd, 'a%d.h' % i)
        # plus published global variables and macros, so that every global list (manifests, globals, types, functions) is non-empty
        open(hp, 'w').write(lib.render() + 'BEGIN_PUBLISH\nextern int gvar_%d;\nextern double gdbl_%d;\nint gfun_%d(int x);\n#define GMAN_%d %d\nEND_PUBLISH\n' % (i, i, i, i, 40 + i))
        dbp = os.path.join(wd, 'a%d.in' % i)
        opts = rng.choice([['-c', '-fnames'], ['-python-native'], ['-c', '-python', '-fnames', '-promiscuous']])
        p = vlib.sh([b['interrogate'], '-DCPPPARSER', '-oc', os.path.join(wd, 'a.cxx'), '-od', dbp, '-module', 'm', '-library', 'lib%d' % i] + opts + [hp], cwd=wd)
        if p.returncode == 0:
            files.append(('real', [dbp]))
    for i in range(ck.scale(25, 400)):
        g = dbgen.DbGen(rng, fl, adversarial=(i % 2 == 0))
        db = g.make()
        data = bytes.fromhex(vlib.run_model('C12', 'write', ['(9 3 %s)' % dbgen.sexp(db)])[0])
        path = os.path.join(wd, 's%d.in' % i)
        open(path, 'wb').write(data)
        files.append(('synthetic', [path]))
    # several files loaded together (index ranges of several modules)
    for i in range(ck.scale(3, 30)):
        pick = rng.sample([f[1][0] for f in files if f[0] == 'real'] or [files[0][1][0]], min(2, len([f for f in files if f[0] == 'real']) or 1))
        files.append(('multi', pick))

    for kind, fs in files:
        for tk, t in tools:
            for mode in ('sweep', 'names'):
                rc, out, err = run_tool(t, mode, fs)
                ck.count()
                ck.dist('%s:%s:%s' % (kind, mode, tk))
                done = [l for l in out.splitlines() if l.startswith('DONE')]
                if rc == 'timeout' or (rc not in (0, 1)) or not done:
                    ck.spec_failure('crash:%s' % mode, 'interface %s over %s database crashed or hung (%s build, status %s): %s' % (mode, kind, tk, rc, err[-300:]),
                                    {'kind': 'spec', 'files_hex': {os.path.basename(f): open(f, 'rb').read().hex() for f in fs}, 'cmd': 'querytool %s <files>' % mode, 'stderr': err[-1500:]})
                    continue
                calls = int(done[0].split()[1])
                ck.cov['interface_calls'] = ck.cov.get('interface_calls', 0) + calls
                for l in out.splitlines():
                    if not l.startswith('BAD'):
                        continue
                    fn = classify_bad(l)
                    if '<null>' in l and fn.endswith(NEUTRAL_NULL_OK):
                        continue            # NULL is the documented neutral answer of these two
                    ck.spec_failure('neutral:' + fn if mode == 'sweep' else 'lookup:' + fn, l[4:],
                                    {'kind': 'spec', 'files_hex': {os.path.basename(f): open(f, 'rb').read().hex() for f in fs}, 'cmd': 'querytool %s <files>' % mode, 'line': l})
                if rc == 0 or all(('<null>' in l and classify_bad(l).endswith(NEUTRAL_NULL_OK)) for l in out.splitlines() if l.startswith('BAD')):
                    ck.nontrivial('%s:%s:%s' % (mode, tk, fs[0]))
    # the function-pointer table of a registered module: the entry inside its index range, the neutral value everywhere else (extremes included)
    reals = [f[1][0] for f in files if f[0] == 'real']
    for tk, t in tools:
        for plain in ['-'] + reals[:2]:
            for modf in reals[:3]:
                if modf == plain:
                    continue
                for nptr in (1, 3, 7):
                    p = subprocess.run([t, 'fptrs', plain, modf, str(nptr)], stdout=subprocess.PIPE, stderr=subprocess.PIPE, text=True, timeout=60)
                    ck.count()
                    ck.dist('fptrs:%s' % tk)
                    rp = {'kind': 'spec', 'cmd': 'querytool fptrs <plain.in or -> <module.in> %d' % nptr, 'files_hex': {os.path.basename(f): open(f, 'rb').read().hex() for f in [modf] + ([plain] if plain != '-' else [])},
                          'output': p.stdout[-800:]}
                    if p.returncode not in (0, 1) or 'DONE' not in p.stdout or (p.returncode == 1 and not any(l.startswith('BAD') for l in p.stdout.splitlines())):
                        ck.spec_failure('crash:fptrs', 'interrogate_wrapper_pointer sweep crashed (status %s): %s' % (p.returncode, p.stderr[-200:]), rp)
                    elif p.returncode == 1:
                        ck.spec_failure('neutral:interrogate_wrapper_pointer', [l for l in p.stdout.splitlines() if l.startswith('BAD')][0][4:], rp)
                    else:
                        ck.nontrivial('fptrs%s%s%s%d' % (tk, plain, modf, nptr))
        # a count asked as the very first query after a request equals the count once everything is loaded
        for fs in [[f] for f in reals[:3]] + ([reals[:2]] if len(reals) >= 2 else []):
            for k in range(6):
                p = subprocess.run([t, 'firstcount', str(k)] + fs, stdout=subprocess.PIPE, stderr=subprocess.PIPE, text=True, timeout=60)
                ck.count()
                ck.dist('firstcount:%s' % tk)
                if p.returncode != 0:
                    ck.spec_failure('count:first-query', 'a count asked first differs from the count after loading: %s' % p.stdout.strip()[:200],
                                    {'kind': 'spec', 'cmd': 'querytool firstcount %d <files>' % k, 'files_hex': {os.path.basename(f): open(f, 'rb').read().hex() for f in fs}, 'output': p.stdout})
                else:
                    ck.nontrivial('firstcount%s%d%s' % (tk, k, fs[0]))
    # by-name lookup model vs library on synthetic name tables with duplicates
    for i in range(ck.scale(40, 600)):
        g = dbgen.DbGen(rng, fl, sizes=(0, 0, rng.randrange(1, 7), 0, 0, 0), adversarial=False)
        db = g.make()
        pool = [b'A', b'B', b'A::B', b'x y']
        for t in db['types'].values():
            t['true'] = rng.choice(pool)
        data = bytes.fromhex(vlib.run_model('C12', 'write', ['(9 3 %s)' % dbgen.sexp(db)])[0])
        path = os.path.join(wd, 'n%d.in' % i)
        open(path, 'wb').write(data)
        rc, out, err = run_tool(tool, 'names', [path])
        ck.count()
        ck.dist('duplicate-names')
        for l in out.splitlines():
            if l.startswith('BAD'):
                ck.spec_failure('lookup:' + classify_bad(l), l[4:], {'kind': 'spec', 'files_hex': {'n.in': data.hex()}, 'cmd': 'querytool names n.in', 'line': l})
        # NB: merge_from identifies types with equal true name on load, so the library never holds duplicates here;
        # the model's "last one wins" rule is exercised by the Coq theorem, the library by uniqueness.

    # ---------------- unique-name tables of every size, keys in every gap ------------------
    alphabet = 'bdfhjlnprtvxz'
    nq = 0
    for size in range(0, ck.scale(9, 14)):
        for rep in range(ck.scale(2, 6)):
            names = sorted(set(''.join(rng.choice(alphabet) for _ in range(rng.choice([1, 2, 4, 4]))) for _ in range(size)))
            if rep == 0:
                names = [alphabet[k] * 4 for k in range(size)]
            nidx = len(names) + rng.randrange(0, 3)
            offs = list(range(len(names)))
            rng.shuffle(offs)
            hash4 = rng.choice(['LIBH', 'AAAA', '_zz9'])
            pre = rng.randrange(0, 4)     # another module registered before: first_index shifts
            script = []
            mods = []
            first = 1
            if pre:
                script.append('module PREV %d 1' % pre)
                script.append('only 0')
                mods.append(('PREV', first, [('only', 0)]))
                first += pre
            script.append('module %s %d %d' % (hash4, nidx, len(names)))
            for n_, o in zip(names, offs):
                script.append('%s %d' % (n_, o))
            mods.append((hash4, first if nidx > 0 else 0, list(zip(names, offs))))
            queries = []
            for n_ in names:
                queries.append(hash4 + n_)
            gaps = set()
            for n_ in names + ['']:
                for m in (n_ + 'a', n_[:-1], n_ + '~', 'a' + n_, n_[:1], '~' + n_):
                    if m not in names:
                        gaps.add(m)
            for gq in sorted(gaps):
                queries.append(hash4 + gq)
            queries += ['', 'L', 'LI', 'LIB', hash4, 'XXXX' + (names[0] if names else 'q'), 'PREVonly', 'PREVonlx', 'PRE']
            for q in queries:
                script.append('query ' + (q if q else '<empty>'))
            rc, out, err = run_tool(tool, 'unique', [], inp=('\n'.join(script) + '\n').encode('latin-1'), timeout=60)
            got = [l[2:].strip() for l in out.splitlines() if l.startswith('q ')]
            firsts = [l.split() for l in out.splitlines() if l.startswith('first ')]
            # model with the first_index values the library actually assigned
            ms = []
            for (h, f0, nm), fl_ in zip(mods, firsts):
                ms.append('(%s %s (%s))' % (hx(h), fl_[1], ' '.join('(%s %d)' % (hx(n_), o) for n_, o in nm)))
            lines = ['((%s) %s)' % (' '.join(ms), hx(q)) for q in queries]
            model = vlib.run_model('C20', 'unique', lines)
            for k, q in enumerate(queries):
                ck.count()
                nq += 1
                ck.dist('unique:size%d' % len(names))
                exp = model[k]
                if k >= len(got) or got[k] == '':
                    ck.spec_failure('unique:crash', 'interrogate_get_wrapper_by_unique_name(%r) crashed or hung with table %s (status %s)' % (q, names, rc),
                                    {'kind': 'spec', 'stdin': '\n'.join(script[:script.index('query ' + (queries[0] if queries[0] else '<empty>'))] + ['query ' + (q if q else '<empty>')]),
                                     'cmd': 'querytool unique', 'expected': exp})
                    break
                # specification: present -> first+offset, absent -> 0
                spec = 0
                for (h, f0, nm), fl_ in zip(mods, firsts):
                    if len(q) >= 4 and q[:4] == h:
                        d = dict(nm)
                        spec = int(fl_[1]) + d[q[4:]] if q[4:] in d else 0
                if int(got[k]) != spec:
                    ck.spec_failure('unique:wrong', 'unique name %r -> %s, expected %d (table %s)' % (q, got[k], spec, names),
                                    {'kind': 'spec', 'stdin': '\n'.join(script), 'cmd': 'querytool unique', 'expected': spec, 'got': got[k]})
                elif exp != got[k]:
                    ck.violation('corr_C20_unique', 'model says %s, library %s for %r' % (exp, got[k], q), {'kind': 'correspondence', 'stdin': '\n'.join(script)}, nofail=True)
                else:
                    ck.nontrivial('u:%s:%s' % (','.join(names), q))
    ck.cov['streams'] = {'databases': len(files), 'unique_name_queries': nq}
    ck.sample({'unique_table_example': ['bbbb', 'dddd', 'ffff'], 'queries': ['LIBHbbbb', 'LIBHcccc', 'LIBHgggg', 'LIB', '']})
    ck.sample({'sweep': 'every interface function x index in [-2, next+2] + {INT_MIN, INT_MAX, INT_MAX-1, 2^20} x position in [-2, 9] + {INT_MIN, 10^6, INT_MAX}'})
    ck.cov['rule'] = ('querytool sweeps every function of interrogate_interface.h (list regenerated from the header of the tree under test) over all indices and positions on real and '
                      'synthetic databases and checks the neutral-value rule, count = number of answering positions, and by-name lookups of every stored and mutated name; '
                      'unique-name tables of every size 0..n with keys in every gap, short names and unknown hashes are compared with the extracted model. '
                      'Non-trivial = distinct (database, mode) sweep or distinct unique-name query')
    ck.assumptions += ['NULL is accepted as the neutral answer of *_library_name / *_module_name (documented: "or NULL if it is not [known]")',
                       'ASan/UBSan build of the library is exercised in the thorough tier only']
    ck.finish()


if __name__ == '__main__':
    main()
