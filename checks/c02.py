#!/usr/bin/env python3
"""C02 — python-native bindings dispatch, convert and own objects as C++ would.

model : coq/C02 dispatch (first accepting overload in RemapCompareLess order) — proved to run the exactly matching overload in category-distinguishable,
        one-type-per-category sets; mixed widths and bool arguments refuted
impl  : the extension module built from interrogate -python-native + interrogate_module output and an instrumented library, imported and called
spec  : the overload whose parameter categories equal the argument categories; value fidelity of conversions; TypeError/OverflowError; object counts
"""
import os
import re
import subprocess
import sys
import sysconfig

sys.path.insert(0, os.path.dirname(os.path.dirname(os.path.abspath(__file__))))
import vlib
from gen import pylib as P

PYINC = sysconfig.get_paths()['include']


def camel(name):
    out = []
    up = False
    for ch in name:
        if ch == '_':
            up = True
        elif up:
            out.append(ch.upper())
            up = False
        else:
            out.append(ch)
    return ''.join(out)


def build_module(b, d, hdr, impl):
    open(os.path.join(d, 'lib.h'), 'w').write(hdr)
    open(os.path.join(d, 'lib.cxx'), 'w').write(impl)
    p = vlib.sh([b['interrogate'], '-DCPPPARSER', '-S', os.path.join(b['src'], 'parser-inc'), '-oc', 'w.cxx', '-od', 'w.in', '-module', 'mymod', '-library', 'mylib', '-python-native', '-string', 'lib.h'], cwd=d)
    if p.returncode != 0:
        return 'interrogate: ' + p.stdout[-400:]
    p = vlib.sh([b['interrogate_module'], '-oc', 'm.cxx', '-module', 'mymod', '-library', 'mylib', '-python-native', 'w.in'], cwd=d)
    if p.returncode != 0:
        return 'interrogate_module: ' + p.stdout[-400:]
    inc = ['-I', PYINC] + vlib.gen_includes(b) + ['-I', os.path.join(b['build'], 'src', 'dtoolbase'), '-I', b['build'], '-I', d]
    for root, dirs, files in os.walk(b['build']):
        if 'dtool_config.h' in files:
            inc += ['-I', root]
            break
    p = vlib.sh(['g++', '-std=gnu++14', '-w', '-O0', '-g', '-fPIC', '-DHAVE_PYTHON', '-shared', '-o', 'mylib.so', 'w.cxx', 'm.cxx', 'lib.cxx'] + inc, cwd=d)
    if p.returncode != 0:
        return 'g++: ' + '; '.join(l for l in p.stdout.splitlines() if 'error' in l)[:600]
    return None


def truth_remaps(lib, c):
    """function name -> [(normalised parameter text as interrogate prints it, const?, min args, max args)] for every overloaded / defaulted published member of class c"""
    n = c['name']

    def norm(cat, cls, i, wide=False):
        if cat == 'int':
            return ('long long int a%d' if wide else 'int a%d') % i
        return {'float': 'double a%d' % i, 'str': 'std::string const &a%d' % i}.get(cat) or '%s const &a%d' % (cls, i)
    out = {}
    for s_ in c['ovsets']:
        out[s_['name']] = [(', '.join(norm(cat, cls, i, lib.mixed and j % 2 == 1) for i, (cat, cls) in enumerate(o['vec'])), s_['const'], len(o['vec']), len(o['vec'])) for j, o in enumerate(s_['overloads'])]
    for d_ in c['dflts']:
        ps = ['int r%d' % i for i in range(d_['nreq'])] + ['int d%d' % i for i in range(len(d_['defaults']))]
        out[d_['name']] = [(', '.join(ps), False, d_['nreq'], d_['nreq'] + len(d_['defaults']))]
    out['scale_' + n] = [('int factor', False, 1, 1), ('int factor, int offset', False, 2, 2)]
    out['mut_' + n] = [('%s &other' % n, False, 1, 1), ('int x', False, 1, 1)]
    out['which_' + n] = [('void', False, 0, 0), ('void', True, 0, 0)]
    out['tagc_' + n] = [('int x', True, 1, 1), ('int x', False, 1, 1)]
    out['dk_' + n] = [('int a, int b', False, 1, 2), ('std::string const &s', False, 1, 1)]
    out['sdk_' + n] = [('std::string const &s', False, 1, 1), ('int a, int b, int c', False, 1, 3)]
    return out


def switch_of(code, cls, fname):
    """the arity table of the generated wrapper: [(sorted case labels or None, set of (parameter text, const?))], or None when the wrapper is not found"""
    m = re.search(r'^static PyObject \*Dtool_%s_%s_\d+\(PyObject \*[^\n]*\{\n(.*?)^\}\n' % (cls, fname), code, re.S | re.M)
    if not m:
        return None
    body = m.group(1)

    def protos(text):
        out = set()
        for pm in re.finditer(r'^\s*// (?:1-|-2 )[^\n]*?::%s\((.*)\)( const)?\s*$' % re.escape(fname), text, re.M):
            out.add((re.sub(r' = [^,)]*', '', pm.group(1)), bool(pm.group(2))))
        return out
    if 'switch (parameter_count)' not in body:
        return [(None, protos(body))]
    groups = []
    sw = body.split('switch (parameter_count)', 1)[1]
    cur = None
    chunk = []
    for line in sw.split('\n'):
        cm = re.match(r'\s*case (\d+):\s*$', line)
        if cm or re.match(r'\s*default:', line) or (cur is not None and re.match(r'  \}', line) and not line.startswith('   ')):
            if cm and cur is not None and not ''.join(chunk).strip():
                cur.append(int(cm.group(1)))         # consecutive labels of one entry
                continue
            if cur is not None:
                groups.append((sorted(cur), protos('\n'.join(chunk))))
            cur = [int(cm.group(1))] if cm else None
            chunk = []
            if not cm:
                break
        elif cur is not None:
            chunk.append(line)
    return groups


HARNESS = r'''
import sys, gc
sys.path.insert(0, %r)
import mylib as M
bad = []
n = [0]
def expect(label, fn, want):
    n[0] += 1
    try:
        got = fn()
    except BaseException as e:
        got = ('EXC', type(e).__name__)
    if got != want:
        bad.append('%%s: got %%r, expected %%r' %% (label, got, want))
def raises(label, fn, exc):
    n[0] += 1
    try:
        got = fn()
        bad.append('%%s: returned %%r, expected %%s' %% (label, got, exc))
    except BaseException as e:
        if type(e).__name__ != exc:
            bad.append('%%s: raised %%s, expected %%s' %% (label, type(e).__name__, exc))
'''


def main():
    ck = vlib.Check('C02')
    ck.coq()
    b = ck.build()
    wd = vlib.workdir(b, 'c02')
    rng = ck.rng
    n_libs = ck.scale(12, 200)
    for li in range(n_libs + 1):
        mixed = (li == n_libs)           # the last library is the witness of the mixed-width finding
        lib = P.PyLib(rng, mixed_widths=mixed)
        d = os.path.join(wd, 'l%d' % (li % 4))
        vlib.shutil.rmtree(d, ignore_errors=True)
        os.makedirs(d)
        hdr, impl = lib.header(), lib.impl()
        rp0 = {'files': {'lib.h': hdr, 'lib.cxx': impl}, 'cmd': 'interrogate -python-native lib.h; interrogate_module; g++ -shared; python3 test.py'}
        err = build_module(b, d, hdr, impl)
        ck.dist('libraries' + (':mixed-widths' if mixed else ''))
        if err:
            ck.count()
            ck.spec_failure('build:' + err.split(':')[0], 'the python-native module does not build: %s' % err, dict(rp0, kind='spec'))
            continue
        # ---- the arity table of every overloaded wrapper: the generated switch against map_sets + collapse_default_remaps of the model (proved exact)
        code = open(os.path.join(d, 'w.cxx')).read()
        for c in lib.classes:
            for fname, remaps in sorted(truth_remaps(lib, c).items()):
                ck.count()
                ck.dist('arity-tables')
                got = switch_of(code, c['name'], fname)
                ml = vlib.run_model('C02', 'table', ['(' + ' '.join('(%d %d %d)' % (i, r[2], r[3]) for i, r in enumerate(remaps)) + ')'])[0]
                want = []
                for ent in ml.split(';'):
                    rng_, ids_ = ent.split(':')
                    lo, hi = [int(x) for x in rng_.split('-')]
                    want.append((list(range(lo, hi + 1)), {(remaps[int(i)][0], remaps[int(i)][1]) for i in ids_.split(',')}))
                if got is not None and len(got) == 1 and got[0][0] is None and len(want) == 1:
                    got = [(want[0][0], got[0][1])]            # a single entry is written without a switch
                if got != want:
                    ck.violation('corr_C02_arity_table', '%s::%s: the generated wrapper dispatches on the argument count as %s, the model of map_sets/collapse_default_remaps says %s' % (c['name'], fname, got, want),
                                 dict(rp0, kind='correspondence', theorems=['c02_arity_table_exact'], function=fname), nofail=True)
        T = [HARNESS % d]
        ids = {c['name']: i for i, c in enumerate(lib.classes)}
        depths = ' '.join('(%d %d)' % (ids[c['name']], c['depth']) for c in lib.classes)
        bases = []
        for c in lib.classes:
            x = c
            while x['base']:
                bases.append('(%d %d)' % (ids[x['base']], ids[c['name']]))
                x = [y for y in lib.classes if y['name'] == x['base']][0]
        model_lines = []
        model_expect = []      # (label, tag)
        cmodel_lines = []      # the const-aware dispatcher: (line, label, expected model answer)
        T.append('objs = {}')
        for c in lib.classes:
            T.append('objs[%r] = M.%s(%d)' % (c['name'], c['name'], 10 + ids[c['name']]))
        for c in lib.classes:
            n = c['name']
            v = 10 + ids[n]
            T.append('k = objs[%r]' % n)
            for nm in ['get_v_' + n, 'set_v_' + n, 'twice_' + n, 'make_' + n, 'self_' + n, 'next_color']:
                T.append('expect("name %s.%s", lambda: hasattr(M.%s, %r) and hasattr(M.%s, %r), True)' % (n, nm, n, nm, n, camel(nm)))
            T.append('expect("%s.get_v", lambda: k.get_v_%s(), %d)' % (n, n, v))
            T.append('expect("%s property read", lambda: k.value_%s, %d)' % (n, n, v))
            T.append('k.value_%s = %d' % (n, v + 50))
            T.append('expect("%s property write", lambda: k.get_v_%s(), %d)' % (n, n, v + 50))
            T.append('k.set_v_%s(%d)' % (n, v))
            T.append('expect("%s sequence", lambda: tuple(k.get_items_%s()), (%d, %d, %d))' % (n, n, v * 10, v * 10 + 1, v * 10 + 2))
            T.append('expect("%s static", lambda: M.%s.twice_%s(21), 42)' % (n, n, n))
            T.append('expect("%s static via alias", lambda: M.%s.%s(4), 8)' % (n, n, camel('twice_' + n)))
            T.append('live0 = M.live_objects()')
            T.append('m = k.make_%s()' % n)
            T.append('expect("%s returned copy", lambda: (m.get_v_%s(), M.live_objects() - live0 >= 1), (%d, True))' % (n, n, v + 1))
            T.append('del m; gc.collect()')
            T.append('expect("%s returned copy is destroyed when dropped", lambda: M.live_objects() - live0, 0)' % n)
            T.append('s = k.self_%s()' % n)
            T.append('s.set_v_%s(%d)' % (n, v + 7))
            T.append('expect("%s identity of returned pointer", lambda: k.get_v_%s(), %d)' % (n, n, v + 7))
            T.append('del s; gc.collect()')
            T.append('expect("%s borrowed pointer does not destroy", lambda: (M.live_objects() - live0, k.get_v_%s()), (0, %d))' % (n, n, v + 7))
            T.append('k.set_v_%s(%d)' % (n, v))
            T.append('o2 = M.%s(5)' % n)
            T.append('expect("%s operator +", lambda: k + o2, %d)' % (n, v + 5))
            T.append('expect("%s operator ==", lambda: (k == o2, k == M.%s(%d)), (False, True))' % (n, n, v))
            T.append('expect("%s operator []", lambda: k[3], %d)' % (n, v + 3))
            T.append('expect("%s enum constant", lambda: (int(M.%s.red), int(M.%s.green)), (1, 5))' % (n, n, n))
            T.append('expect("%s enum round trip", lambda: int(k.next_color(M.%s.green)), 6)' % (n, n))
            T.append('raises("%s wrong type", lambda: k.set_v_%s("x"), "TypeError")' % (n, n))
            T.append('raises("%s too many arguments", lambda: k.get_v_%s(1), "TypeError")' % (n, n))
            T.append('raises("%s too few arguments", lambda: k.set_v_%s(), "TypeError")' % (n, n))
            T.append('expect("%s unchanged after failed calls", lambda: k.get_v_%s(), %d)' % (n, n, v))
            # constness: a const view of the object must not reach a non-const parameter or a non-const method
            T.append('cv = k.cself_%s()' % n)
            T.append('expect("%s const view reads", lambda: cv.get_v_%s(), %d)' % (n, n, v))
            T.append('raises("%s const object passed where a non-const reference is required", lambda: k.mut_%s(cv), "TypeError")' % (n, n))
            T.append('raises("%s non-const method on a const object", lambda: cv.set_v_%s(1), "TypeError")' % (n, n))
            T.append('expect("%s unchanged after rejected const uses", lambda: k.get_v_%s(), %d)' % (n, n, v))
            T.append('expect("%s non-const reference parameter", lambda: (k.mut_%s(o2), o2.get_v_%s()), (1, 1005))' % (n, n, n))
            T.append('expect("%s sibling overload", lambda: k.mut_%s(4), 2)' % (n, n))
            # const / non-const pairs: C++ selects by the constness of the object
            T.append('expect("%s const/non-const pair on a non-const object", lambda: (k.which_%s(), k.tagc_%s(1)), (1, 11))' % (n, n, n))
            T.append('expect("%s const/non-const pair on a const object", lambda: (cv.which_%s(), cv.tagc_%s(1)), (2, 21))' % (n, n, n))
            T.append('del cv')
            # a defaulted overload that shares its lowest arity with a sibling
            T.append('expect("%s defaulted overload, default used", lambda: k.dk_%s(5), 51)' % (n, n))
            T.append('expect("%s defaulted overload, all given", lambda: (k.dk_%s(5, 2), k.dk_%s(5, b=3)), (52, 53))' % (n, n, n))
            T.append('expect("%s sibling of a defaulted overload at its lowest arity", lambda: (k.dk_%s("abc"), k.dk_%s(s="ab")), (1003, 1002))' % (n, n, n))
            T.append('expect("%s static defaulted overload", lambda: (M.%s.sdk_%s(1), M.%s.sdk_%s(1, 5), M.%s.sdk_%s(1, 5, 7)), (112, 152, 157))' % (n, n, n, n, n, n, n))
            T.append('expect("%s static sibling of a defaulted overload", lambda: M.%s.sdk_%s("abcd"), 2004)' % (n, n, n))
            # keyword arguments on a set overloaded by arity
            T.append('expect("%s one keyword argument", lambda: k.scale_%s(factor=3), 30)' % (n, n))
            T.append('expect("%s two keyword arguments", lambda: k.scale_%s(offset=4, factor=3), 34)' % (n, n))
            T.append('expect("%s positional + keyword", lambda: k.scale_%s(2, offset=5), 25)' % (n, n))
            T.append('raises("%s wrong keyword name", lambda: k.scale_%s(offset=3), "TypeError")' % (n, n))
            T.append('raises("%s unknown keyword", lambda: k.scale_%s(nothing=3), "TypeError")' % (n, n))
            # coercion: an object parameter takes an instance; a non-explicit constructor may convert an argument, an explicit one never does
            T.append('expect("%s explicit constructor called directly", lambda: (M.%s("abcd").get_v_%s(), M.%s("ab", 5).get_v_%s()), (4, 7))' % (n, n, n, n, n))
            T.append('expect("%s object argument", lambda: k.take_%s(o2), o2.get_v_%s())' % (n, n, n))
            T.append('raises("%s explicit constructor used to convert a str argument", lambda: k.take_%s("abc"), "TypeError")' % (n, n))
            T.append('raises("%s explicit constructor used to convert a tuple argument", lambda: k.take_%s(("abc", 2)), "TypeError")' % (n, n))
            T.append('del o2')
            T.append('cv2 = k.cself_%s()' % n)
            for s in c['ovsets']:
                ovl = '(' + ' '.join('(' + ' '.join({'int': 'll' if (mixed and j % 2) else 'int', 'float': 'double', 'str': 'string'}.get(cat) or '(class %d)' % ids[cls] for cat, cls in o['vec']) + ')'
                                     for j, o in enumerate(s['overloads'])) + ')'
                for o in s['overloads']:
                    args_py = []
                    args_m = []
                    for cat, cls in o['vec']:
                        if cat == 'int':
                            args_py.append('3')
                            args_m.append('int')
                        elif cat == 'float':
                            args_py.append('2.5')
                            args_m.append('float')
                        elif cat == 'str':
                            args_py.append('"abc"')
                            args_m.append('str')
                        else:
                            args_py.append('objs[%r]' % cls)
                            args_m.append('(inst %d)' % ids[cls])
                    label = '%s.%s(%s)' % (n, s['name'], ', '.join(args_m))
                    T.append('expect(%r, lambda: k.%s(%s), %d)' % (label, s['name'], ', '.join(args_py), o['tag']))
                    model_lines.append('((%s) (%s) %s (%s))' % (depths, ' '.join(bases), ovl, ' '.join(args_m)))
                    model_expect.append((label, o, s))
                    # the same call on a const view of the object: a const set answers alike, a non-const set is not callable
                    if s['const']:
                        T.append('expect(%r, lambda: cv2.%s(%s), %d)' % (label + ' on a const object', s['name'], ', '.join(args_py), o['tag']))
                    else:
                        T.append('raises(%r, lambda: cv2.%s(%s), "TypeError")' % (label + ' on a const object', s['name'], ', '.join(args_py)))
                    covl = '(' + ' '.join('(' + ('1 ' if s['const'] else '0 ') + ' '.join({'int': 'll' if (mixed and j % 2) else 'int', 'float': 'double', 'str': 'string'}.get(cat) or '(class %d)' % ids[cls]
                                                                                        for cat, cls in q['vec']) + ')' for j, q in enumerate(s['overloads'])) + ')'
                    want_m = ('c ' if s['const'] else 'n ') + '(' + ' '.join({'int': 'int', 'float': 'double', 'str': 'string'}.get(cat) or '(class %d)' % ids[cls] for cat, cls in o['vec']) + ')'
                    cmodel_lines.append(('((%s) (%s) %s 0 (%s))' % (depths, ' '.join(bases), covl, ' '.join(args_m)), label, want_m))
                    cmodel_lines.append(('((%s) (%s) %s 1 (%s))' % (depths, ' '.join(bases), covl, ' '.join(args_m)), label + ' on a const object', want_m if s['const'] else 'none'))
                # an instance of a derived class where a base class is expected (only overload of its arity: nothing else can compete)
                for o in s['overloads']:
                    if sum(1 for q in s['overloads'] if len(q['vec']) == len(o['vec'])) != 1:
                        continue
                    for pos, (cat, cls) in enumerate(o['vec']):
                        if cat != 'inst':
                            continue
                        ders = [x['name'] for x in lib.classes if x['name'] != cls and ('(%d %d)' % (ids[cls], ids[x['name']])) in bases]
                        if ders:
                            a2 = []
                            for p2, (c2, k2) in enumerate(o['vec']):
                                a2.append({'int': '3', 'float': '2.5', 'str': '"abc"'}.get(c2) or ('objs[%r]' % (ders[0] if p2 == pos else k2)))
                            T.append('expect("%s.%s with a %s where %s is expected", lambda: k.%s(%s), %d)' % (n, s['name'], ders[0], cls, s['name'], ', '.join(a2), o['tag']))
                T.append('raises("%s.%s(None)", lambda: k.%s(None), "TypeError")' % (n, s['name'], s['name']))
                T.append('raises("%s.%s with 9 arguments", lambda: k.%s(1, 2, 3, 4, 5, 6, 7, 8, 9), "TypeError")' % (n, s['name'], s['name']))
            T.append('del cv2')
            # the const / non-const pairs through the const-aware dispatcher of the model
            for fn_, pk_ in (('which', ''), ('tagc', ' int')):
                pair_ = '((1%s) (0%s))' % (pk_, pk_)
                cmodel_lines.append(('(() () %s 0 (%s))' % (pair_, pk_.strip()), '%s const/non-const pair on a non-const object' % n, 'n (%s)' % pk_.strip()))
                cmodel_lines.append(('(() () %s 1 (%s))' % (pair_, pk_.strip()), '%s const/non-const pair on a const object' % n, 'c (%s)' % pk_.strip()))
            for dd in c['dflts']:
                req = list(range(2, 2 + dd['nreq']))
                def val(rs, ds):
                    return 7 + sum(r * (i + 2) for i, r in enumerate(rs)) + sum(x * 1000 * (i + 1) for i, x in enumerate(ds))
                for k_ in range(len(dd['defaults']) + 1):
                    given = [40 + i for i in range(k_)]
                    ds = given + dd['defaults'][k_:]
                    T.append('expect("%s.%s with %d optional arguments", lambda: k.%s(%s), %d)' % (n, dd['name'], k_, dd['name'], ', '.join(str(x) for x in req + given), val(req, ds)))
                kw = dict(('d%d' % i, 60 + i) for i in range(len(dd['defaults'])))
                T.append('expect("%s.%s with keyword arguments", lambda: k.%s(%s), %d)' % (n, dd['name'], dd['name'], ', '.join([str(x) for x in req] + ['%s=%d' % kv for kv in sorted(kw.items(), reverse=True)]),
                                                                                           val(req, [60 + i for i in range(len(dd['defaults']))])))
                if dd['nreq']:
                    T.append('raises("%s.%s too few", lambda: k.%s(), "TypeError")' % (n, dd['name'], dd['name']))
        # coercion constructors: the implicit one converts an argument, the explicit one never does
        T.append('u = M.PtUser()')
        T.append('expect("explicit constructor called directly", lambda: (M.Pt(5).get_x(), M.Pt(5).get_y(), M.Pt(5, 6).get_y()), (5, 0, 6))')
        T.append('expect("object argument", lambda: u.px(M.Pt(3, 4)), 304)')
        T.append('expect("argument converted by the implicit constructor", lambda: u.px("abc"), 299)')
        for a_ in ('5', '(5, 6)', '(5,)', '2.5', 'None'):
            T.append('raises("argument %s offered to a const Pt & parameter (only an explicit constructor could take it)", lambda: u.px(%s), "TypeError")' % (a_, a_))
        T.append('expect("rejected calls did not run", lambda: u.calls(), 2)')
        T.append('del u')
        # item assignment on a fixed-size sequence: every index from -size-1 to size+1
        T.append('b = M.Buf()')
        T.append('expect("sequence read", lambda: (len(b), list(b)), (4, [10, 11, 12, 13]))')
        T.append('b[1] = 99')
        T.append('expect("item assignment", lambda: (b[1], list(b)), (99, [10, 99, 12, 13]))')
        for ix in (4, 5, 100):
            T.append('raises("item assignment at index %d of a sequence of 4", lambda: b.__setitem__(%d, 1), "IndexError")' % (ix, ix))
            T.append('raises("item read at index %d of a sequence of 4", lambda: b[%d], "IndexError")' % (ix, ix))
        T.append('expect("nothing written outside the sequence", lambda: (b.guard(), list(b)), (777, [10, 99, 12, 13]))')
        T.append('del b')
        # conversions
        for fn, good, over in [('echo_int', [0, -2 ** 31, 2 ** 31 - 1], [2 ** 31, -2 ** 31 - 1]), ('echo_ll', [-2 ** 63, 2 ** 63 - 1], [2 ** 63]), ('echo_u8', [0, 255], [256, -1]),
                               ('echo_i16', [-32768, 32767], [32768, -32769]), ('echo_u32', [0, 2 ** 32 - 1], [2 ** 32, -1])]:
            for g in good:
                T.append('expect("%s(%d)", lambda: M.%s(%d), %d)' % (fn, g, fn, g, g))
            for o in over:
                T.append('raises("%s(%d)", lambda: M.%s(%d), "OverflowError")' % (fn, o, fn, o))
            T.append('raises("%s(str)", lambda: M.%s("7"), "TypeError")' % (fn, fn))
            T.append('raises("%s(float)", lambda: M.%s(1.5), "TypeError")' % (fn, fn))
        for g in ['1e300', '-2.5', '0.1', '5e-324']:
            T.append('expect("echo_double(%s)", lambda: M.echo_double(%s), %s)' % (g, g, g))
        T.append('expect("echo_double(int)", lambda: M.echo_double(3), 3.0)')
        T.append('raises("echo_double(str)", lambda: M.echo_double("x"), "TypeError")')
        for g in ['""', '"abc"', '"two words"', '"h\\u00e9llo"', '"x" * 5000']:
            T.append('expect(%r, lambda: M.echo_str(%s), %s)' % ('echo_str(%s)' % g, g, g))
        T.append('raises("echo_str(int)", lambda: M.echo_str(5), "TypeError")')
        T.append('expect("echo_bool", lambda: (M.echo_bool(True), M.echo_bool(False)), (True, False))')
        T.append('del k, objs; gc.collect()')
        T.append('expect("every wrapped object is destroyed exactly once", lambda: M.live_objects(), 0)')
        T.append('print("DONE", n[0], len(bad))')
        T.append('for x in bad: print("BAD", x)')
        open(os.path.join(d, 'test.py'), 'w').write('\n'.join(T) + '\n')
        r = subprocess.run([sys.executable, 'test.py'], cwd=d, stdout=subprocess.PIPE, stderr=subprocess.PIPE, text=True, timeout=300)
        out = r.stdout.splitlines()
        done = [l for l in out if l.startswith('DONE')]
        if r.returncode != 0 or not done:
            ck.count()
            ck.spec_failure('crash', 'the interpreter died or the test program failed: rc=%s %s' % (r.returncode, r.stderr[-400:]), dict(rp0, kind='spec', test='\n'.join(T)[-3000:]))
            continue
        ncalls = int(done[0].split()[1])
        ck.count(ncalls)
        ck.dist('python-calls', ncalls)
        bads = [l[4:] for l in out if l.startswith('BAD')]
        # the model's prediction for every exact-category overload call
        m = vlib.run_model('C02', 'x', [ml for ml in model_lines]) if model_lines else []
        for (label, o, s), mres in zip(model_expect, m):
            ck.count()
            want = '(' + ' '.join({'int': 'int', 'float': 'double', 'str': 'string'}.get(cat) or '(class %d)' % ids[cls] for cat, cls in o['vec']) + ')'
            impl_bad = [x for x in bads if x.startswith(label + ':')]
            if mixed:
                continue
            if mres != want:
                ck.violation('thm-instance', 'the model dispatches %s to %s in a consistent, distinguishable set (contradicts c02_dispatch_exact_partial)' % (label, mres),
                             dict(rp0, kind='proof', theorems=['c02_dispatch_exact_partial']), nofail=True)
        # the const-aware dispatcher (c02_const_dispatch_exact_partial): its answer must be the expected member, and the module must agree with it
        cm = vlib.run_model('C02', 'cdispatch', [x[0] for x in cmodel_lines]) if cmodel_lines and not mixed else []
        for (line_, label, want_m), mres in zip(cmodel_lines, cm):
            ck.count()
            if mres != want_m:
                ck.violation('thm-instance', 'the const-aware model dispatches %s to %s, expected %s (contradicts c02_const_dispatch_exact_partial)' % (label, mres, want_m),
                             dict(rp0, kind='proof', theorems=['c02_const_dispatch_exact_partial'], case=line_), nofail=True)
        for x in bads:
            if mixed and '.ov' in x:
                ck.spec_failure('dispatch:mixed-integer-widths', x, dict(rp0, kind='spec'))
            elif '.ov' in x and 'expected 1' in x:
                ck.spec_failure('dispatch:wrong-overload', x, dict(rp0, kind='spec', test='\n'.join(T)[-2000:]))
            else:
                ck.spec_failure('python:' + x.split(':')[0].split('(')[0].split(' ', 1)[-1][:40], x, dict(rp0, kind='spec'))
        if not bads:
            ck.nontrivial(li)
        if li == 0:
            ck.sample({'calls': ncalls, 'bad': len(bads), 'classes': len(lib.classes)})
    # ---- witness of the recorded departure: two integer widths in one overload set
    d = os.path.join(wd, 'wit')
    os.makedirs(d, exist_ok=True)
    hdr = ('#ifndef LIB_H\n#define LIB_H\n#ifndef CPPPARSER\n#define __published public\n#endif\nclass K {\n__published:\n  K(int v);\n  int f(int a, int b);\n  int f(long long a, double b);\n'
           'public:\n  int v;\n};\n#endif\n')
    impl = '#include "lib.h"\nK::K(int v) : v(v) {}\nint K::f(int a, int b) { return 1; }\nint K::f(long long a, double b) { return 2; }\n'
    err = build_module(b, d, hdr, impl)
    ck.count()
    if not err:
        r = subprocess.run([sys.executable, '-c', 'import sys; sys.path.insert(0, %r); import mylib; print(mylib.K(1).f(1, 1))' % d], stdout=subprocess.PIPE, stderr=subprocess.PIPE, text=True, timeout=60)
        mres = vlib.run_model('C02', 'x', ['(() () ((int int) (ll double)) (int int))'])[0]
        if r.stdout.strip() != '1':
            ck.spec_failure('dispatch:mixed-integer-widths', 'K.f(1, 1) with overloads f(int, int) / f(long long, double) returns %s: the second overload ran (C++ selects the first)' % r.stdout.strip(),
                            {'kind': 'spec', 'files': {'lib.h': hdr, 'lib.cxx': impl}, 'cmd': 'python3 -c "import mylib; print(mylib.K(1).f(1, 1))"', 'model': mres})
        if (r.stdout.strip() == '2') != (mres == '(ll double)'):
            ck.violation('corr_C02_dispatch', 'module runs overload %s, model %s' % (r.stdout.strip(), mres), {'kind': 'correspondence', 'files': {'lib.h': hdr}}, nofail=True)
    ck.cov['streams'] = {'libraries': n_libs, 'mixed_width_witness_library': 1}
    ck.cov['rule'] = ('libraries of 1-3 classes (inheritance chains, overload sets over the categories int/float/str/instance with 1-3 parameters, default arguments, properties, sequences, static '
                      'methods, operators + == [], enums, returned copies and returned self pointers) are wrapped with -python-native + interrogate_module, compiled into an extension module and '
                      'imported: names and camelCase aliases, exact-category overload calls (expected: the matching overload; also compared with the extracted dispatcher), defaults and keyword '
                      'arguments, integer boundaries of 5 widths (OverflowError beyond), TypeError for wrong types/counts with state unchanged, live-object counts after dropping copies and '
                      'borrowed pointers, zero live objects at exit; const/non-const pairs on const and non-const objects; a defaulted overload sharing its lowest arity with a sibling. The switch on the '
                      'argument count of every overloaded wrapper is read back from the generated code and compared with the extracted map_sets/collapse_default_remaps (proved exact). '
                      'Non-trivial = library whose every call agreed')
    ck.assumptions += ['CPython %s is the interpreter; the module is built against shim register_type.h/dconfig.h kept in harness/shims' % sys.version.split()[0],
                       'no sanitizer inside the interpreter process: memory errors are seen as crashes or wrong live-object counts only',
                       'bytes/None arguments for pointers are not generated; coercion is exercised on one class (implicit string constructor, explicit (int, int = 0) constructor)']
    ck.finish()


if __name__ == '__main__':
    main()
