#!/usr/bin/env python3
"""C15 — the front-end is total: any input ends in a diagnostic, never a crash or hang.

model : coq/C15 — the hand-written scanners (manifest constructor / parse_parameters, extract_args + the caller's substr,
        scan_raw, show_line's blank stripping, .N line splitting) with CHECKED string primitives; proved total for every byte string
impl  : (a) the same functions of libcppParser called through harness/scan_tool (ASan build) — correspondence with the model;
        (b) parse_file and interrogate as whole programs (ASan/UBSan build and the normal build) on valid, mutated and edge-case inputs
oracle: process status: exit 0/1 only, no signal, no sanitizer report, no uncaught exception, within the time limit;
        a run that printed an error diagnostic exits non-zero and leaves no output file
"""
import itertools
import os
import re
import subprocess
import sys
from concurrent.futures import ThreadPoolExecutor

sys.path.insert(0, os.path.dirname(os.path.dirname(os.path.abspath(__file__))))
import vlib
from gen import fuzz

ASAN_ENV = dict(os.environ, ASAN_OPTIONS='detect_leaks=0:abort_on_error=0:exitcode=99:symbolize=1:detect_stack_use_after_return=0:fast_unwind_on_fatal=0',
                UBSAN_OPTIONS='print_stacktrace=1:halt_on_error=1')
TIMEOUT = 30


def hx(b):
    return b.hex()


# ------------------------------------------------------------------------------------------------ whole-program runs
def run_prog(cmd, cwd, timeout=TIMEOUT, stack_kb=8192):
    def once(kb):
        try:
            p = subprocess.run(['bash', '-c', 'ulimit -s %d; exec "$0" "$@"' % kb] + cmd, stdin=subprocess.DEVNULL, stdout=subprocess.DEVNULL,
                               stderr=subprocess.PIPE, timeout=timeout, env=ASAN_ENV, cwd=cwd)
            return p.returncode, p.stderr.decode('latin-1')
        except subprocess.TimeoutExpired:
            return 'timeout', ''
    rc, err = once(stack_kb)
    for kb in (6000, 3000, 1500, 700):
        # the unwinder sometimes fails exactly at the overflowing frame: the same bytes with another stack size name the recursion
        if 'stack-overflow' in err and '<empty stack>' in err:
            rc, err = once(kb)
    if rc == 'timeout':
        # unbounded recursion whose every level also grows the text looks like a hang: a small stack shows what it is
        rc2, err2 = once(256)
        for kb in (200, 400, 150):
            if 'stack-overflow' in err2 and '<empty stack>' in err2:
                rc2, err2 = once(kb)
        if rc2 != 'timeout' and 'stack-overflow' in err2:
            return rc2, err2
    return rc, err


def classify(rc, err):
    """None if the run ended normally, else a root-cause key."""
    # UBSan's non-recoverable reports end the process with status 1, the same status a diagnosed parse error gives
    if rc in (0, 1) and 'runtime error: ' not in err:
        return None
    if rc == 'timeout':
        return 'timeout'
    m = re.search(r'ERROR: AddressSanitizer: (\S+)', err)
    if m:
        frames = re.findall(r'#\d+ 0x[0-9a-f]+ in ([^\s(]+)', err)
        own = [f for f in frames if not f.startswith('__') and not f.startswith('std::') and f not in ('operator', 'main', '_start')]
        if m.group(1) == 'stack-overflow':
            # the recursion cycle names the cause; the innermost frame is incidental
            cyc = [f for f in own if own.count(f) > 5]
            names = sorted(set(cyc))
            if any('expand_manifest' in f for f in names):
                return 'stack-overflow:macro-expansion-recursion'
            if any('nested_parse_template_instantiation' in f for f in names):
                return 'stack-overflow:nested-template-instantiation'
            if names and all(re.search(r'CPPStructType::(is_trivial|is_\w*constructible|is_\w*assignable|is_destructible|is_constructible|is_standard_layout|is_empty|check_virtual)$', f) or
                             re.search(r'CPP\w*Type::is_\w+$', f) for f in names):
                return 'stack-overflow:class-containing-itself'
            return 'stack-overflow:' + '/'.join(n.split('::')[-1] for n in names[:3])
        return 'asan:%s:%s' % (m.group(1), '/'.join(own[:2]))
    m = re.search(r'runtime error: (.*)', err)
    if m:
        return 'ubsan:' + re.sub(r'0x[0-9a-f]+|\d+', 'N', m.group(1))[:70]
    m = re.search(r"terminate called after throwing an instance of '([^']*)'(?:\s*what\(\):\s*(\S+))?", err)
    if m:
        return 'uncaught:%s:%s' % (m.group(1), m.group(2) or '')
    m = re.search(r"Assertion `(.*)' failed", err)
    if m:
        return 'assert:' + m.group(1)[:70]
    if isinstance(rc, int) and rc < 0:
        return 'signal:%d' % -rc
    return 'exit-status:%s' % rc


def main():
    ck = vlib.Check('C15')
    ck.coq()
    b = ck.build()
    ba = ck.build('asan')
    wd = vlib.workdir(b, 'c15')
    rng = ck.rng
    L = ba['lib']
    tool = vlib.harness(ba, 'scan_tool', ['scan_tool.cxx'], libs=(), kind='asan',
                        extra=[os.path.join(L, 'libcppParser.a'), os.path.join(L, 'libdtoolutil.a'), os.path.join(L, 'libdtoolbase.a')])

    # ================================================================ 1. correspondence: scanners vs the checked model
    def strings(alphabet, exhaustive_len, nrandom, maxlen):
        out = []
        for n in range(exhaustive_len + 1):
            for t in itertools.product(alphabet, repeat=n):
                out.append(bytes(t))
        for _ in range(nrandom):
            out.append(bytes(rng.choice(alphabet) for _ in range(rng.randrange(exhaustive_len + 1, maxlen + 1))))
        return out

    def run_tool(lines):
        # shard: a crash of the harness (sanitizer report) must be attributed to one line
        res = []
        i = 0
        while i < len(lines):
            chunk = lines[i:i + 4000]
            p = subprocess.run([tool, os.path.join(wd, 'line.txt')], input='\n'.join(chunk) + '\n', text=True, stdout=subprocess.PIPE, stderr=subprocess.PIPE, env=ASAN_ENV)
            got = p.stdout.splitlines()
            res += got[:len(chunk)]
            if len(got) < len(chunk):
                res.append('CRASH ' + (classify(p.returncode, p.stderr) or 'rc=%s' % p.returncode))
                i += len(got) + 1
            else:
                i += len(chunk)
        return res

    def compare(stream, mode, tool_lines, model_lines, canon_impl, canon_model, inputs):
        impl = run_tool(tool_lines)
        model = vlib.run_model('C15', mode, model_lines)
        for inp, a, m in zip(inputs, impl, model):
            ck.count()
            ck.dist('scanner:' + stream)
            rp = {'kind': 'correspondence', 'cmd': 'harness/scan_tool (ASan build); stdin line: <mode letter> [p] <input_hex>', 'stream': stream, 'input_hex': hx(inp),
                  'input': inp.decode('latin-1'), 'implementation': a, 'model': m}
            if a.startswith('CRASH') or a == 'THROW':
                # the real function faults on this input: that is a violation of the property with a concrete input
                ck.spec_failure('scanner:%s:%s' % (stream, a.split()[0].lower()), '%s faults on %r: %s' % (stream, inp, a), dict(rp, kind='spec'))
                continue
            if m in ('THROW', 'UB', 'FUEL'):
                ck.violation('thm-instance-' + stream, 'the model faults (%s) on %r although the totality theorem covers it' % (m, inp), dict(rp, kind='proof'), nofail=True)
                continue
            if canon_impl(a) != canon_model(m):
                ck.violation('corr_C15_' + stream, '%s on %r: implementation %s, model %s' % (stream, inp, canon_impl(a), canon_model(m)), rp, nofail=True)
                continue
            ck.nontrivial((stream, inp))

    nrand = ck.scale(1500, 40000)
    # manifest constructor: the caller passes a non-empty string that starts with a non-blank
    A = [ord(c) for c in 'F(),. a"#']
    ins = [s for s in strings(A, 4, nrand, 14) if s and not chr(s[0]).isspace()]
    compare('manifest_ctor', 'manifest', ['m ' + hx(s) for s in ins], [hx(s) for s in ins], lambda a: a, lambda m: re.sub(r' rest=\S*$', '', m), ins)
    # the whole #define: parameter list + replacement list cut into nodes (save_expansion)
    A = [ord(c) for c in 'Fab(),. #"\'1_']
    ins = [s for s in strings(A, 3, nrand, 24) if s and not chr(s[0]).isspace()]
    for _ in range(nrand):
        # structured: F(params) body with the pieces that matter
        ps = rng.choice([b'', b'(a)', b'(a,b)', b'(a, ...)', b'(a...)', b'(...)', b'()', b'(a,b', b'('])
        body = b' '.join(rng.choice([b'a', b'b', b'x', b'#a', b'# b', b'a##b', b'x ## a', b'##', b'#', b'__VA_ARGS__', b'__VA_OPT__(a)', b'__VA_OPT__ (', b'__VA_OPT__(', b'__VA_OPT__(a(b)c)',
                                     b'__VA_OPT__(__VA_OPT__(a) b)', b'__VA_OPT__', b'"a"', b'"a', b"'a'", b"'", b'"\\"a"', b'1a', b"1'000", b'1.5e3a', b'a1', b'_a', b'a_', b'(a)', b',', b'\t', b''])
                          for _ in range(rng.randrange(0, 6)))
        ins.append(b'F' + ps + b' ' + body)
    compare('save_expansion', 'define', ['e ' + hx(s) for s in ins], [hx(s) for s in ins], lambda a: a, lambda m: m, ins)
    # argument scanner after "F("
    A = [ord(c) for c in '(),"\'\\ a\n']
    ins = [b'F(' + s for s in strings(A, 4, nrand, 12)]
    compare('extract_args', 'extract', ['x 1 ' + hx(s) for s in ins], ['1 ' + hx(s) for s in ins], lambda a: re.sub(r'^p=\d+ ', '', a), lambda m: m, ins)
    # raw strings (the stream ends with the newline the preprocessor synthesises at end of input)
    A = [ord(c) for c in '()"xy']
    ins = [s for s in strings(A, 5, nrand, 14) if s]      # (the preprocessor never scans an empty stream: a file always ends with the synthesised newline)
    compare('scan_raw', 'raw', ['r ' + hx(s) for s in ins], [hx(s + b'\n') for s in ins], lambda a: a, lambda m: m, ins)
    # echo of the offending line
    A = [32, 9, 11, 97, 0, 255]
    ins = strings(A, 4, nrand // 2, 40)
    compare('show_line', 'strip', ['l ' + hx(s) for s in ins], [hx(s) for s in ins], lambda a: a, lambda m: m, ins)

    # .N command lines through the real interrogate: unknown commands are echoed as "Ignoring <command> <params>"
    lines = []
    for i in range(ck.scale(300, 3000)):
        lead = rng.choice(['', ' ', '\t ', '  '])
        cmd = 'zz%d' % i + ''.join(rng.choice('ab<:(') for _ in range(rng.randrange(0, 3)))
        tail = ''.join(rng.choice(['a', 'b', ' ', ' ', '\t', '#', '<', ',', '(']) for _ in range(rng.randrange(0, 10)))
        lines.append((lead + cmd + rng.choice(['', ' ', '\t']) + tail).encode())
    open(os.path.join(wd, 'n.h'), 'w').write('int x;\n')
    open(os.path.join(wd, 'n.N'), 'wb').write(b'\n'.join(lines) + b'\n')
    p = subprocess.run([ba['interrogate'], '-oc', 'n.cxx', '-od', 'n.in', '-module', 'm', '-library', 'l', '-c', '-fnames', 'n.h'], cwd=wd, stdout=subprocess.PIPE,
                       stderr=subprocess.STDOUT, env=ASAN_ENV, stdin=subprocess.DEVNULL)
    seen = {}
    for ln in p.stdout.decode('latin-1').splitlines():
        m = re.match(r'^Ignoring (zz(\d+)\S*) ?(.*)$', ln)
        if m:
            seen[int(m.group(2))] = (m.group(1), m.group(3))
    model = vlib.run_model('C15', 'command', [hx(s) for s in lines])
    for i, (s, m) in enumerate(zip(lines, model)):
        ck.count()
        ck.dist('scanner:command_line')
        mm = re.match(r'^cmd=(\S*) params=(\S*)$', m)
        want = (bytes.fromhex(mm.group(1)).decode('latin-1'), bytes.fromhex(mm.group(2)).decode('latin-1')) if mm else None
        if seen.get(i) != want:
            ck.violation('corr_C15_command_line', '.N line %r: interrogate %r, model %r' % (s, seen.get(i), want),
                         {'kind': 'correspondence', 'cmd': 'interrogate -c -fnames n.h (with n.N beside it)', 'nfile_line': s.decode('latin-1'), 'rc': p.returncode}, nofail=True)
        else:
            ck.nontrivial(('cmd', s))

    # ================================================================ 2. whole programs on valid / mutated / edge-case inputs
    corpus = []
    for root in [os.path.join(b['src'], 'tests'), os.path.join(b['src'], 'parser-inc')]:
        for dp, dn, fs in os.walk(root):
            for f in sorted(fs):
                if f.endswith(('.h', '.c', '.cxx', '.I', '.hpp')) or '.' not in f:
                    corpus.append(open(os.path.join(dp, f), 'rb').read())
    nvalid = ck.scale(150, 1500)
    valid = [fuzz.valid(rng) for _ in range(nvalid)]
    corpus += valid[:200]
    cases = [('valid', v, ['generated']) for v in valid]
    for _ in range(ck.scale(2500, 60000)):
        m, kinds = fuzz.mutate(rng, rng.choice(corpus), corpus)
        cases.append(('mutated', m, kinds))
    edges = fuzz.edges()
    if ck.tier == 'quick':
        # every family keeps its rare members; the big cross products are sampled; the deepest nests are thorough-only
        keep = []
        for fam in sorted({f for f, _ in edges}):
            members = [e for e in edges if e[0] == fam and not (fam == 'depth' and len(e[1]) > 6000)]
            if len(members) <= 500:
                keep += members
            else:
                # every directive cut at end of input (no trailing newline) is always kept: the lexer pops its input there
                must = [e for e in members if fam == 'directive' and not e[1].endswith(b'\n')][:900]
                keep += must + rng.sample(members, 500)
        edges = keep
    cases += [('edge:' + fam, data, [fam]) for fam, data in edges]

    def run_case(i, kind, data):
        d = os.path.join(wd, 'w%d' % (i % 64))
        os.makedirs(d, exist_ok=True)
        fn = os.path.join(d, 'f%d.h' % i)
        open(fn, 'wb').write(data)
        out = []
        rc, err = run_prog([ba['parse_file'], fn], d)
        out.append(('parse_file(asan)', rc, err))
        if i % 4 == 0:
            rc2, err2 = run_prog([b['parse_file'], fn], d)
            out.append(('parse_file(normal)', rc2, err2))
        if i % 3 == 0 or kind == 'valid':
            oc, od = os.path.join(d, 'o%d.cxx' % i), os.path.join(d, 'o%d.in' % i)
            opts = [['-c', '-fnames'], ['-python-native'], ['-c', '-python', '-fptrs', '-unique-names']][i % 3]
            rc3, err3 = run_prog([ba['interrogate'], '-DCPPPARSER', '-oc', oc, '-od', od, '-module', 'm', '-library', 'l'] + opts + [fn], d)
            left = [f for f in (oc, od) if os.path.exists(f)]
            out.append(('interrogate(asan) ' + ' '.join(opts), rc3, err3, left))
            for f in left:
                os.unlink(f)
        os.unlink(fn)
        return out

    def judge(stream, kinds, data, results, extra=None):
        ok = True
        asan_key = classify(results[0][1], results[0][2]) if results and '(asan)' in results[0][0] else None
        for r in results:
            prog, rc, err = r[0], r[1], r[2]
            ck.count()
            ck.dist('%s:%s' % (stream.split(':')[0], prog.split()[0]))
            rp = {'kind': 'spec', 'program': prog, 'input': data.decode('latin-1'), 'input_hex': hx(data) if len(data) < 4000 else None, 'mutation': kinds,
                  'exit': rc, 'stderr_tail': err[-2500:], 'cmd': '%s <file with these bytes>' % prog}
            if extra:
                rp.update(extra)
            key = classify(rc, err)
            if key and '(normal)' in prog and asan_key:
                key = asan_key          # the uninstrumented build dies without a report: the sanitizer run on the same bytes names the cause
            if key:
                ok = False
                ck.spec_failure(key, '%s on a %s input (%s): %s' % (prog, stream, ','.join(kinds), key), rp)
                continue
            # a run that reported an error exits non-zero and leaves no output file
            reported = re.search(r'(?m)(: error: |^Error in parsing|failed to parse file|^Error parsing)', err) is not None
            if reported and rc == 0:
                ok = False
                ck.spec_failure('status:error-reported-but-exit-0', '%s printed an error diagnostic and exited 0' % prog, rp)
            if len(r) > 3 and r[3] and (rc != 0 or reported):
                ok = False
                ck.spec_failure('status:output-written-after-error', '%s exit %s but left %s' % (prog, rc, [os.path.basename(f) for f in r[3]]), rp)
        return ok

    with ThreadPoolExecutor(vlib.NCPU) as ex:
        futs = [(kind, data, kinds, ex.submit(run_case, i, kind, data)) for i, (kind, data, kinds) in enumerate(cases)]
        for kind, data, kinds, f in futs:
            if judge(kind, kinds, data, f.result()):
                ck.nontrivial((kind, data[:200], len(data)))
            for k in kinds[:1]:
                ck.dist('mutation:' + k if kind == 'mutated' else 'family:' + k)

    # ================================================================ 2b. several files on one command line: an error in ANY of them decides the run
    mf = os.path.join(wd, 'multi')
    os.makedirs(mf, exist_ok=True)
    GOOD = {'common.h': '#pragma once\nclass Common { public: int f(); };\n', 'guarded.h': '#ifndef G_H\n#define G_H\nclass Guarded { public: int g(); };\n#endif\n',
            'plain.h': 'class Plain { public: int h(); };\n'}
    BAD = {'broken_inc.h': '#include "common.h"\nclass Broken { public: int f( };\n', 'broken_inc2.h': '#include "guarded.h"\nstruct { int x\n', 'broken.h': 'int f(;\n',
           'broken_tail.h': '#include "common.h"\nclass Late {};\n}\n'}
    for n_, t_ in list(GOOD.items()) + list(BAD.items()):
        open(os.path.join(mf, n_), 'w').write(t_)
    orders = []
    for bad_ in sorted(BAD):
        for good_ in sorted(GOOD):
            orders += [[bad_, good_], [good_, bad_], [good_, bad_, 'plain.h'] if good_ != 'plain.h' else [bad_, good_, 'common.h']]
    orders += [[g1, g2] for g1 in sorted(GOOD) for g2 in sorted(GOOD) if g1 != g2]

    def run_multi(i, files_):
        oc, od = os.path.join(mf, 'mo%d.cxx' % i), os.path.join(mf, 'mo%d.in' % i)
        rc, err = run_prog([ba['interrogate'], '-DCPPPARSER', '-oc', oc, '-od', od, '-module', 'm', '-library', 'l'] + [['-c', '-fnames'], ['-python-native']][i % 2] + files_, mf)
        left = [f for f in (oc, od) if os.path.exists(f)]
        for f in left:
            os.unlink(f)
        return [('interrogate(asan) ' + ' '.join(files_), rc, err, left)]
    with ThreadPoolExecutor(vlib.NCPU) as ex:
        futs = [(o_, ex.submit(run_multi, i, o_)) for i, o_ in enumerate(orders)]
        for o_, f in futs:
            res = f.result()
            has_bad = any(x in BAD for x in o_)
            okm = judge('multi-file', ['multi-file'], ' '.join(o_).encode(), res, {'files': dict(list(GOOD.items()) + list(BAD.items())), 'cmd': 'interrogate -oc o.cxx -od o.in ... ' + ' '.join(o_)})
            # the run is judged by its own diagnostics above; independently of them, a command line that names a file with a syntax error may not succeed
            if has_bad and res[0][1] == 0:
                okm = False
                ck.spec_failure('status:error-reported-but-exit-0', 'interrogate %s exits 0 although %s does not parse' % (' '.join(o_), [x for x in o_ if x in BAD]),
                                {'kind': 'spec', 'files': dict(list(GOOD.items()) + list(BAD.items())), 'cmd': 'interrogate -oc o.cxx -od o.in -module m -library l ' + ' '.join(o_), 'stderr_tail': res[0][2][-1500:]})
            if not has_bad and res[0][1] != 0:
                okm = False
                ck.spec_failure('status:valid-files-rejected', 'interrogate %s exits %s' % (' '.join(o_), res[0][1]), {'kind': 'spec', 'files': GOOD, 'stderr_tail': res[0][2][-1500:]})
            if okm:
                ck.nontrivial(('multi', tuple(o_)))

    # ================================================================ 3. -D definitions and .N files
    open(os.path.join(wd, 'd.h'), 'w').write('#ifdef X\nint with_x = X;\n#endif\nclass A { public: int f(); };\n')
    defs = [d.encode('latin-1') for d in fuzz.DEFINES]
    for _ in range(ck.scale(150, 3000)):
        defs.append(bytes(rng.choice([ord(c) for c in 'X(),.= a"#\\1']) for _ in range(rng.randrange(1, 9))))
    defs = [d for d in defs if b'\x00' not in d]

    def run_def(i, d):
        out = []
        rc, err = run_prog([ba['parse_file'], b'-D' + d, 'd.h'], wd)
        out.append(('parse_file(asan) -D', rc, err))
        if i % 2 == 0:
            oc, od = os.path.join(wd, 'do%d.cxx' % i), os.path.join(wd, 'do%d.in' % i)
            rc, err = run_prog([ba['interrogate'], b'-D' + d, '-oc', oc, '-od', od, '-module', 'm', '-library', 'l', '-c', '-fnames', 'd.h'], wd)
            left = [f for f in (oc, od) if os.path.exists(f)]
            out.append(('interrogate(asan) -D', rc, err, left))
            for f in left:
                os.unlink(f)
        return out
    with ThreadPoolExecutor(vlib.NCPU) as ex:
        futs = [(d, ex.submit(run_def, i, d)) for i, d in enumerate(defs)]
        for d, f in futs:
            if judge('define', ['-D'], d, f.result(), {'cmd': "parse_file / interrogate -D'<these bytes>' d.h"}):
                ck.nontrivial(('define', d))

    nfiles = []
    for i in range(ck.scale(60, 600)):
        ls = [rng.choice(fuzz.NFILE_LINES) for _ in range(rng.randrange(1, 6))]
        nfiles.append('\n'.join(ls).encode('latin-1') + rng.choice([b'\n', b'', b'\r\n']))
    nfiles += [l.encode('latin-1') + b'\n' for l in fuzz.NFILE_LINES]

    def run_n(i, data):
        d = os.path.join(wd, 'n%d' % i)
        os.makedirs(d, exist_ok=True)
        open(os.path.join(d, 'a.h'), 'w').write('template<class T> class A { public: T f(); };\nclass B { public: B(int); int g(); };\nnamespace N { class C {}; }\n')
        open(os.path.join(d, 'a.N'), 'wb').write(data)
        rc, err = run_prog([ba['interrogate'], '-oc', 'a.cxx', '-od', 'a.in', '-module', 'm', '-library', 'l', '-python-native' if i % 2 else '-c', 'a.h'], d)
        left = [f for f in ('a.cxx', 'a.in') if os.path.exists(os.path.join(d, f))]
        return [('interrogate(asan) with .N file', rc, err, left)]
    with ThreadPoolExecutor(vlib.NCPU) as ex:
        futs = [(data, ex.submit(run_n, i, data)) for i, data in enumerate(nfiles)]
        for data, f in futs:
            if judge('nfile', ['.N'], data, f.result(), {'cmd': 'interrogate a.h with these bytes as a.N'}):
                ck.nontrivial(('nfile', data))

    ck.cov['streams'] = {'valid_generated': nvalid, 'mutated': sum(1 for c in cases if c[0] == 'mutated'), 'edge_cases': len(edges), 'defines': len(defs), 'nfiles': len(nfiles),
                         'corpus_files': len(corpus)}
    ck.cov['rule'] = ('scanners: every string up to length 4-5 over the delimiter alphabet of each function plus random longer ones, real function (ASan) vs extracted checked model; '
                      'programs: valid headers from the generators of C03-C13, token/byte mutations of those and of tests/ and parser-inc/, enumerated directive x argument, operator x operand, '
                      'literal prefix x body x terminator, unbalanced-construct and nesting-depth cases; -D strings; .N files. Every run must end with exit 0/1 within %d s, no signal, no '
                      'sanitizer report, no uncaught exception; error diagnostics imply non-zero exit and no output file. Non-trivial = distinct input that passed') % TIMEOUT
    ck.assumptions += ['totality of the WHOLE front-end (bison automaton, scope/type code, builder) is explored by the streams above, not proved: the theorems cover the hand-written index '
                       'arithmetic of the modelled scanners only',
                       'memory errors are those ASan/UBSan (address, bounds, null, vptr, object-size) detect; reads inside a std::string small-buffer are not visible to ASan',
                       'time bound: %d s per run on this machine (cubic behaviour, e.g. 5000 nested array declarators, is reported as a hang only beyond that)' % TIMEOUT,
                       'glibc isspace/isalnum on bytes >= 0x80 (negative char) is modelled as false (C locale)']
    ck.finish()


if __name__ == '__main__':
    main()
