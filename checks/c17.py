#!/usr/bin/env python3
"""C17 — include lookup, once-only inclusion, file ownership, path normalisation.

model : coq/C17 standardize (proved idempotent and denotation preserving without symlinks), find_include (search order, owner)
impl  : Filename::standardize through harness/filename_tool; interrogate on generated directory trees
oracle: the kernel (os.stat) for what a path denotes
"""
import itertools
import os
import shutil
import subprocess
import sys
from concurrent.futures import ThreadPoolExecutor

sys.path.insert(0, os.path.dirname(os.path.dirname(os.path.abspath(__file__))))
import vlib
from vlib import dbfile

NAMES = {1: 'a', 2: 'b', 3: 'c'}


def render(ab, comps, rng=None):
    parts = [c if c in ('.', '..') else NAMES[int(c)] for c in comps]
    s = '/'.join(parts)
    if rng is not None and parts:
        s = '/'.join(p + ('/' if rng.random() < 0.15 else '') for p in parts).rstrip('/') + ('/' if rng.random() < 0.1 else '')
        s = s.replace('//', '//' if rng.random() < 0.5 else '/')
    return ('/' if ab else '') + s


def model_std(cases):
    lines = ['(%d %s)' % (1 if ab else 0, ' '.join(comps)) for ab, comps in cases]
    out = vlib.run_model('C17', 'std', lines)
    res = []
    for o in out:
        f = o.split()
        res.append((f[0] == '1', f[1:]))
    return res


def main():
    ck = vlib.Check('C17')
    ck.coq()
    b = ck.build()
    wd = vlib.workdir(b, 'c17')
    rng = ck.rng
    tool = vlib.harness(b, 'filename_tool', ['filename_tool.cxx'], libs=(), extra=[os.path.join(b['lib'], 'libdtoolutil.a'), os.path.join(b['lib'], 'libdtoolbase.a')])

    # ---------------- stream A: normalisation, exhaustive over the component alphabet -----------------
    alpha = ['.', '..', '1', '2']
    maxlen = ck.scale(5, 7)
    cases = []
    for n in range(0, maxlen + 1):
        for comps in itertools.product(alpha, repeat=n):
            for ab in (False, True):
                if n == 0 and not ab:
                    continue
                cases.append((ab, list(comps)))
    texts = [render(ab, c) for ab, c in cases]
    # extra spellings with repeated and trailing slashes
    extra = [(ab, c) for ab, c in rng.sample(cases, min(len(cases), ck.scale(400, 4000)))]
    cases += extra
    texts += [render(ab, c, rng) for ab, c in extra]
    p = subprocess.run([tool], input='\n'.join(texts) + '\n', text=True, stdout=subprocess.PIPE, stderr=subprocess.PIPE, timeout=600)
    got = [l[1:-1] for l in p.stdout.splitlines()]
    mod = model_std(cases)
    # a real directory tree (no symbolic links) to ask the kernel what a path denotes: a/ b/ at every level to depth 4
    root = os.path.join(wd, 'tree')

    def mk(d, depth):
        os.makedirs(d, exist_ok=True)
        if depth:
            for nme in ('a', 'b'):
                mk(os.path.join(d, nme), depth - 1)
    mk(root, 4)
    cwd = os.path.join(root, 'a', 'b')

    def kernel(path):
        """identity (device, inode) of what `path` denotes, seen from cwd with the tree root as '/'"""
        if path == '':
            return None
        full = root + path if path.startswith('/') else os.path.join(cwd, path)
        try:
            st = os.stat(full)
            return (st.st_dev, st.st_ino)
        except OSError:
            return None
    second = subprocess.run([tool], input='\n'.join(got) + '\n', text=True, stdout=subprocess.PIPE, timeout=600).stdout.splitlines()
    for (ab, comps), t, g, (mab, mc), g2 in zip(cases, texts, got, mod, second):
        ck.count()
        ck.dist('std:len%d' % len(comps))
        mtext = render(mab, mc)
        rp = {'kind': 'spec', 'stdin': t, 'cmd': 'filename_tool (Filename::standardize)', 'got': g}
        # specification 1: idempotent
        if g != '' and g2[1:-1] != g:
            ck.spec_failure('std:not-idempotent', 'standardize(%r) = %r but standardize of that = %r' % (t, g, g2[1:-1]), rp)
            continue
        # specification 2: denotes the same file as the original whenever the original exists (kernel is the oracle).
        # An absolute path is interpreted under the tree root, where "/.." must stay inside: skip those that climb above it.
        k0 = kernel(t)
        climbs = ab and any(c == '..' for c in comps[:1])
        if k0 is not None and not (ab and '..' in comps and _climbs(comps)):
            k1 = kernel(g)
            if k1 != k0:
                key = 'std:empty-name' if g == '' else 'std:denotes-other'
                ck.spec_failure(key, 'standardize(%r) = %r denotes %s, the original denotes an existing directory' % (t, g, 'nothing' if k1 is None else 'another file'), rp)
                if key != 'std:empty-name':
                    continue
        # correspondence
        if g != mtext:
            ck.violation('corr_C17_std', 'Filename::standardize(%r) = %r, model %r' % (t, g, mtext), dict(rp, kind='correspondence', model=mtext), nofail=True)
        else:
            ck.nontrivial('std' + t)
    # the lexical treatment of ".." after a symbolic link (recorded finding): l -> ../other/inc
    sroot = os.path.join(wd, 'sym')
    os.makedirs(os.path.join(sroot, 'real'))
    os.makedirs(os.path.join(sroot, 'other', 'inc'))
    open(os.path.join(sroot, 'real', 'x'), 'w').write('real')
    open(os.path.join(sroot, 'other', 'x'), 'w').write('other')
    os.symlink('../other/inc', os.path.join(sroot, 'real', 'l'))
    g = subprocess.run([tool], input='l/../x\n', text=True, stdout=subprocess.PIPE).stdout.strip()[1:-1]
    ck.count()
    if open(os.path.join(sroot, 'real', 'l/../x')).read() != open(os.path.join(sroot, 'real', g)).read():
        ck.spec_failure('std:symlink-dotdot', 'standardize("l/../x") = %r names real/x, but with l -> ../other/inc the kernel (and gcc) read other/x' % g,
                        {'kind': 'spec', 'stdin': 'l/../x', 'cmd': 'filename_tool', 'tree': 'real/l -> ../other/inc; real/x; other/x'})

    # ---------------- stream B: include search order and ownership on real trees ------------------------
    nB = ck.scale(60, 800)

    def lookup_case(i):
        r = __import__('random').Random(ck.seed * 7919 + i)
        d = os.path.join(wd, 'inc%d' % i)
        dirs = ['.', 'sub', 'i1', 'i2', 's1', 's2']
        for x in dirs:
            os.makedirs(os.path.join(d, x), exist_ok=True)
        present = [x for x in dirs if r.random() < 0.45]
        for k, x in enumerate(dirs):
            if x in present:
                open(os.path.join(d, x, 'x.h'), 'w').write('#define WHICH %d\n#ifdef CPPPARSER\n__begin_publish\n#endif\nvoid owned_%d();\n#ifdef CPPPARSER\n__end_publish\n#endif\n' % (k + 1, k + 1))
        form = r.choice(['quote', 'angle'])
        noangles = r.random() < 0.3
        order = ['i1', 'i2', 's1', 's2']
        r.shuffle(order)
        order = order[:r.randrange(0, 5)]
        inc = '#include "x.h"' if form == 'quote' else '#include <x.h>'
        open(os.path.join(d, 'sub', 'main.h'), 'w').write(inc + '\n#ifndef WHICH\n#define WHICH 0\n#endif\nstruct Probe { int arr[WHICH + 10]; };\n')
        cmd = [b['interrogate'], '-DCPPPARSER', '-oc', 'o.cxx', '-od', 'o.in', '-module', 'm', '-library', 'l', '-promiscuous']
        if noangles:
            cmd.append('-noangles')
        for x in order:
            cmd += [('-I' if x.startswith('i') else '-S') + x]
        cmd.append('sub/main.h')
        p = vlib.sh(cmd, cwd=d)
        if p.returncode != 0:
            return ('failed', p.stdout[-300:], None)
        db = dbfile.load(os.path.join(d, 'o.in'), b['src'])
        sizes = [t['array_size'] for t in db['types'].values() if t['array_size'] is not None]
        which = sizes[0] - 10 if sizes else None
        owned = sorted(int(f['name'].split('_')[1]) for f in db['functions'].values() if f['name'].startswith('owned_'))
        # model
        ids = {x: k + 1 for k, x in enumerate(dirs)}
        line = '(%d %s %d %d (%s) (%s) ())' % (1 if noangles else 0, form, ids['.'], ids['sub'],
                                              ' '.join('(%d %s)' % (ids[x], 'I' if x.startswith('i') else 'S') for x in order),
                                              ' '.join(str(ids[x]) for x in present))
        return ('ok', (which, owned, line, form, noangles, order, present), ' '.join(cmd[1:]))

    with ThreadPoolExecutor(vlib.NCPU) as ex:
        res = list(ex.map(lookup_case, range(nB)))
    lines = [r[1][2] for r in res if r[0] == 'ok']
    mout = iter(vlib.run_model('C17', 'find', lines))
    for i, r in enumerate(res):
        ck.count()
        if r[0] != 'ok':
            ck.violation('corr_C17_run', 'interrogate failed on an include-lookup tree: ' + r[1], {'kind': 'correspondence'}, nofail=True)
            continue
        which, owned, line, form, noangles, order, present = r[1]
        ck.dist('lookup:%s%s' % (form, ':noangles' if noangles else ''))
        m = next(mout)
        rp = {'kind': 'spec', 'form': form, 'noangles': noangles, 'search_dirs': order, 'x.h present in': present, 'cmd': 'interrogate ' + r[2],
              'observed_which': which, 'observed_owned': owned, 'model': m}
        # specification, written out independently of the model: expected directory by the stated rules
        dirs = ['.', 'sub', 'i1', 'i2', 's1', 's2']
        if form == 'quote' or noangles:
            cand = ['.', 'sub'] + order
        else:
            cand = [x for x in order if x.startswith('s')]
        exp = next((x for x in cand if x in present), None)
        exp_id = dirs.index(exp) + 1 if exp else 0
        exp_owned = [exp_id] if (exp == '.' and (form == 'quote' or noangles)) else []
        if which != exp_id and form == 'angle' and not noangles and not any(x.startswith('s') for x in order) and which == 1:
            ck.spec_failure('lookup:angle-without-S-dirs', '#include <x.h> with no -S directory at all is looked up in the working directory', rp)
            if m.split()[0] != '1':
                ck.violation('corr_C17_find', 'model find_include says %s, observed cwd' % m, dict(rp, kind='correspondence'), nofail=True)
        elif which != exp_id:
            ck.spec_failure('lookup:order', '#include %s resolved to %s, the stated search order gives %s' % (form, dirs[which - 1] if which else 'nothing', exp or 'nothing'), rp)
        elif owned != exp_owned:
            ck.spec_failure('lookup:owner', 'file found in %s: exported=%s, expected exported=%s' % (exp, bool(owned), bool(exp_owned)), rp)
        else:
            mexp = 'none' if not exp else '%d %s' % (exp_id, 'local' if exp_owned else ('system' if exp.startswith('s') and True else 'alternate'))
            if (m == 'none') != (exp is None) or (m != 'none' and int(m.split()[0]) != exp_id) or (m != 'none' and (m.split()[1] == 'local') != bool(exp_owned)):
                ck.violation('corr_C17_find', 'model find_include says %s, observed %s' % (m, mexp), dict(rp, kind='correspondence'), nofail=True)
            else:
                ck.nontrivial('find%d' % i)
        if i < 2:
            ck.sample(rp)

    # ---------------- stream C: once-only inclusion under different spellings ---------------------------
    d = os.path.join(wd, 'once')
    os.makedirs(os.path.join(d, 'dd'))
    open(os.path.join(d, 'x.h'), 'w').write('#pragma once\n#ifdef SEEN1\n#define SEEN2\n#endif\n#define SEEN1\n')
    os.symlink('.', os.path.join(d, 'lnk'))
    os.symlink('x.h', os.path.join(d, 'y.h'))
    spellings = ['x.h', './x.h', './/x.h', 'dd/../x.h', 'lnk/x.h', 'y.h', os.path.join(d, 'x.h'), 'lnk/lnk/./x.h']
    for a, c in itertools.product(spellings, repeat=2):
        open(os.path.join(d, 'm.h'), 'w').write('#include "%s"\n#include "%s"\n#ifdef SEEN2\nstruct P { int arr[2]; };\n#else\nstruct P { int arr[1]; };\n#endif\n' % (a, c))
        p = vlib.sh([b['interrogate'], '-DCPPPARSER', '-oc', 'o.cxx', '-od', 'o.in', '-module', 'm', '-library', 'l', '-promiscuous', 'm.h'], cwd=d)
        ck.count()
        ck.dist('once')
        if p.returncode != 0:
            ck.violation('corr_C17_once', 'interrogate failed: ' + p.stdout[-200:], {'kind': 'correspondence'}, nofail=True)
            continue
        db = dbfile.load(os.path.join(d, 'o.in'), b['src'])
        sizes = [t['array_size'] for t in db['types'].values() if t['array_size'] is not None]
        if sizes != [1]:
            ck.spec_failure('once:%s' % ('symlink' if ('lnk' in a + c or 'y.h' in a + c) else 'spelling'), 'a #pragma once file included as "%s" and "%s" contributed twice' % (a, c),
                            {'kind': 'spec', 'files': {'x.h': open(os.path.join(d, 'x.h')).read(), 'm.h': open(os.path.join(d, 'm.h')).read()}, 'cmd': 'interrogate -promiscuous m.h'})
        else:
            ck.nontrivial('once%s|%s' % (a, c))
    # the same for a header that is NOT in the working directory: found through -I, through -S (angle form, also via a symlinked directory),
    # and beside an includer that lives in a subdirectory
    n_once2 = 0
    for place in ('I', 'S', 'includer'):
        d2 = os.path.join(wd, 'once_' + place)
        os.makedirs(os.path.join(d2, 'inc', 'dd'))
        os.makedirs(os.path.join(d2, 'deep'))
        os.symlink('inc', os.path.join(d2, 'inclnk'))
        os.symlink('.', os.path.join(d2, 'inc', 'lnk'))
        once_text = '#pragma once\n#ifdef SEEN1\n#define SEEN2\n#endif\n#define SEEN1\n'
        if place == 'includer':
            open(os.path.join(d2, 'deep', 'x.h'), 'w').write(once_text)
            sp = ['x.h', './x.h', '../deep/x.h', '../deep//x.h']
            opts2 = []
        else:
            open(os.path.join(d2, 'inc', 'x.h'), 'w').write(once_text)
            sp = ['x.h', './x.h', 'dd/../x.h', 'lnk/x.h', './/x.h']
            opts2 = ['-I', 'inc'] if place == 'I' else ['-S', 'inc', '-S', 'inclnk']
        for a, c in itertools.product(sp, repeat=2):
            q1, q2 = ('<', '>') if place == 'S' else ('"', '"')
            tail = '#ifdef SEEN2\nstruct P { int arr[2]; };\n#else\nstruct P { int arr[1]; };\n#endif\n'
            if place == 'includer':
                open(os.path.join(d2, 'deep', 'a.h'), 'w').write('#include "%s"\n#include "%s"\n' % (a, c))
                open(os.path.join(d2, 'm.h'), 'w').write('#include "deep/a.h"\n' + tail)
            else:
                open(os.path.join(d2, 'm.h'), 'w').write('#include %s%s%s\n#include %s%s%s\n' % (q1, a, q2, q1, c, q2) + tail)
            p = vlib.sh([b['interrogate'], '-DCPPPARSER', '-oc', 'o.cxx', '-od', 'o.in', '-module', 'm', '-library', 'l', '-promiscuous'] + opts2 + ['m.h'], cwd=d2)
            ck.count()
            ck.dist('once:' + place)
            n_once2 += 1
            if p.returncode != 0:
                ck.spec_failure('once:not-in-cwd', 'interrogate fails on a #pragma once header found through %s and included as %s and %s: %s' % (place, a, c, p.stdout[-150:]),
                                {'kind': 'spec', 'place': place, 'files': {'m.h': open(os.path.join(d2, 'm.h')).read()}, 'cmd': 'interrogate -promiscuous %s m.h' % ' '.join(opts2)})
                continue
            db = dbfile.load(os.path.join(d2, 'o.in'), b['src'])
            sizes = [t['array_size'] for t in db['types'].values() if t['array_size'] is not None]
            if sizes != [1]:
                ck.spec_failure('once:%s' % ('symlink' if 'lnk' in a + c else 'not-in-cwd'), 'a #pragma once file found through %s and included as "%s" and "%s" contributed twice' % (place, a, c),
                                {'kind': 'spec', 'place': place, 'files': {'m.h': open(os.path.join(d2, 'm.h')).read()}, 'cmd': 'interrogate -promiscuous %s m.h' % ' '.join(opts2)})
            else:
                ck.nontrivial('once2%s%s|%s' % (place, a, c))
    # ---------------- stream D: ownership of files named on the command line, with and without -srcdir ----------------------------------
    d3 = os.path.join(wd, 'named')
    os.makedirs(os.path.join(d3, 'src', 'sub'))
    open(os.path.join(d3, 'src', 'a.h'), 'w').write('#ifndef A_H\n#define A_H\n#include "b.h"\nclass Alpha {\n__published:\n  int fa();\n};\n#endif\n')
    open(os.path.join(d3, 'src', 'sub', 'b.h'), 'w').write('#ifndef B_H\n#define B_H\nclass Beta {\n__published:\n  int fb();\n};\n#endif\n')
    src_abs = os.path.join(d3, 'src')
    named_cases = [
        ('no -srcdir, both files named', src_abs, ['-I', os.path.join(src_abs, 'sub'), 'a.h', 'sub/b.h'], {'Alpha', 'Beta'}),
        ('-srcdir, only a.h named', d3, ['-srcdir', 'src', '-I', 'src/sub', 'a.h'], {'Alpha'}),
        ('-srcdir, both files named', d3, ['-srcdir', 'src', '-I', 'src/sub', 'a.h', 'sub/b.h'], {'Alpha', 'Beta'}),
        ('-I absolute, -srcdir absolute, both named', d3, ['-I', os.path.join(src_abs, 'sub'), '-srcdir', src_abs, 'a.h', 'sub/b.h'], {'Alpha', 'Beta'}),
        ('-srcdir, both named, later file first', d3, ['-srcdir', 'src', '-I', 'src/sub', 'sub/b.h', 'a.h'], {'Alpha', 'Beta'}),
    ]
    for label, cwd_, args, want in named_cases:
        oc, od = os.path.join(d3, 'o.cxx'), os.path.join(d3, 'o.in')
        p = vlib.sh([b['interrogate'], '-oc', oc, '-od', od, '-module', 'm', '-library', 'l', '-c', '-fnames'] + args, cwd=cwd_)
        ck.count()
        ck.dist('named-files')
        rp = {'kind': 'spec', 'case': label, 'cmd': 'interrogate -c -fnames ' + ' '.join(args), 'files': {'src/a.h': open(os.path.join(d3, 'src', 'a.h')).read(), 'src/sub/b.h': open(os.path.join(d3, 'src', 'sub', 'b.h')).read()}}
        if p.returncode != 0:
            ck.spec_failure('owner:run', 'interrogate fails (%s): %s' % (label, p.stdout[-200:]), rp)
            continue
        db = dbfile.load(od, b['src'])
        got = {t['name'] for t in db['types'].values() if t['name'] in ('Alpha', 'Beta') and t['methods']}
        if got != want:
            ck.spec_failure('owner:named-file', '%s: classes exported with their methods %s, expected %s (a file named on the command line is the user\'s own)' % (label, sorted(got), sorted(want)), rp)
        else:
            ck.nontrivial('named' + label)
    ck.cov['streams'] = {'paths': len(cases), 'include_trees': nB, 'once_spelling_pairs': len(spellings) ** 2, 'once_pairs_outside_cwd': n_once2, 'named_file_cases': len(named_cases)}
    ck.cov['exhaustive_paths_up_to_length'] = maxlen
    ck.cov['rule'] = ('(A) every path over the component alphabet {., .., a, b} up to length %d, absolute and relative, plus spellings with repeated/trailing slashes: '
                      'Filename::standardize vs the model, idempotence, and the kernel (os.stat on a real tree without symlinks) as oracle for what a path denotes; '
                      '(B) random trees with x.h in subsets of {cwd, includer dir, -I dirs, -S dirs} x quote/angle x -noangles x search-path orders: which file is read (macro WHICH) '
                      'and whether it is exported; (C) a #pragma once file included twice under 8x8 spellings (., //, dd/.., symlinked directory, symlinked file, absolute). '
                      'Non-trivial = distinct case that passed the full comparison') % maxlen
    ck.assumptions += ['the kernel is the reference for what a path denotes', 'the _explicit_files override is proved on the model but not exercised by the harness']
    ck.finish()


def _climbs(comps):
    depth = 0
    for c in comps:
        if c == '..':
            depth -= 1
            if depth < 0:
                return True
        elif c != '.':
            depth += 1
    return False


if __name__ == '__main__':
    main()
