#!/usr/bin/env python3
"""C08 — macro expansion yields the token sequence a conforming preprocessor yields.

model : coq/C08 run (stack of active expansions, as the lexer keeps it) = expand (hide sets, C11 6.10.3.4) — proved equal for every table of
        object-like macros; both extracted
impl  : parse_file -E
oracle: gcc -E -P -std=c++23 on the same file, compared token by token
"""
import os
import re
import subprocess
import sys

sys.path.insert(0, os.path.dirname(os.path.dirname(os.path.abspath(__file__))))
import vlib
from gen import macros as M

EXT = {'fn', 'stringify', 'paste', 'variadic', 'va_opt', 'literals', 'empty-arg', 'paren-comma', 'undef', 'pushpop'}

# programs on which the implementation is known to leave the standard: (key, source)
WITNESSES = [
    ('rescan:function-like-macro-re-entered-in-own-rescan', '#define ID(x) x\nint u = ID ( ID ) ( 3 ) ;\n'),
    ('rescan:function-like-macro-re-entered-in-own-rescan', '#define M0(p0, ...) M1\n#define M1 M0 ( )\nint u = M0 ( 0 , 0 ) ;\n'),
    ('rescan:self-referential-object-macro-in-argument', '#define M2 M2 "s"\n#define M1(p0) p0\nint u = M1 ( M2 ) ;\n'),
    ('stringify:absent-variable-argument', '#define V(a, ...) [ #__VA_ARGS__ ]\nint u = V ( 1 ) ;\n'),
    ('stringify:variadic-arguments-rejoined-with-comma-space', '#define W(...) #__VA_ARGS__\nint u = W(2,3) ;\n'),
    ('stringify:argument-of-nested-call-expanded-first', '#define M0(p0) p0 # p0\n#define M2 q\n#define M3 M0 ( M2 )\nint u = M0 ( M3 ) ;\n'),
    ('va_opt:variable-argument-expanding-to-nothing', '#define E\n#define V(...) [ __VA_OPT__ ( c ) ]\nint u = V ( E ) ;\n'),
    ('hash-in-object-like-macro', '#define O # x\nint u = O 1 ;\n'),
]


def run_gcc(wd, name, src, defs=()):
    p = os.path.join(wd, name)
    open(p, 'w').write(src)
    g = subprocess.run(['gcc', '-E', '-P', '-x', 'c++', '-std=c++23'] + ['-D' + d for d in defs] + [p], stdout=subprocess.PIPE, stderr=subprocess.PIPE, text=True)
    if g.returncode != 0 or 'error' in g.stderr or 'warning' in g.stderr:
        return None
    return M.tokenize(g.stdout)


def run_impl(b, wd, name, src, defs=(), timeout=20):
    p = os.path.join(wd, name)
    open(p, 'w').write(src)
    try:
        i = subprocess.run([b['parse_file'], '-E'] + ['-D' + d for d in defs] + [p], stdout=subprocess.PIPE, stderr=subprocess.PIPE, text=True, timeout=timeout)
    except subprocess.TimeoutExpired:
        return 'TIMEOUT'
    if i.returncode != 0:
        return 'ERROR: ' + i.stderr[-300:]
    return M.tokenize(i.stdout)


# ---- object-like programs as model input -------------------------------------------------------------------------------
def model_sexp(prog):
    ids = {}

    def tk(t):
        if t in M.MACROS:
            return 'i%d' % M.MACROS.index(t)
        if t[0].isalpha() or t[0] == '_':
            return 'i%d' % (100 + ids.setdefault(t, len(ids)))
        return 'o%d' % ids.setdefault(t, len(ids))
    out = []
    for ln in prog:
        if ln[0] == 'define':
            out.append('(d %d (%s))' % (M.MACROS.index(ln[1]), ' '.join(tk(t) for t in ln[4])))
        elif ln[0] == 'undef':
            out.append('(u %d)' % M.MACROS.index(ln[1]))
        elif ln[0] == 'use':
            out.append('(t (%s))' % ' '.join(tk(t) for t in ['int', 'u', '='] + ln[1] + [';']))
    back = {}
    for t, k in ids.items():
        back[('i%d' % (100 + k)) if (t[0].isalpha() or t[0] == '_') else ('o%d' % k)] = t
    for k, m in enumerate(M.MACROS):
        back['i%d' % k] = m
    return '(' + ' '.join(out) + ')', back


def main():
    ck = vlib.Check('C08')
    ck.coq()
    b = ck.build()
    wd = vlib.workdir(b, 'c08')
    rng = ck.rng

    def first_diff(g, i):
        if not isinstance(i, list):
            return str(i)[:200]
        for k, (x, y) in enumerate(zip(g, i)):
            if x != y:
                return 'token %d: conforming %s / parse_file %s' % (k, ' '.join(g[max(0, k - 4):k + 5]), ' '.join(i[max(0, k - 4):k + 5]))
        return 'length %d / %d' % (len(g), len(i))

    def shrink(prog, defs=()):
        def fails(p):
            src = M.render(p)
            g = run_gcc(wd, 's.h', src, defs)
            return g is not None and g != run_impl(b, wd, 's.h', src, defs)
        return vlib.shrink(prog, M.shrink_candidates, fails, budget=120)

    # ---------------- stream 1: object-like macros (the proved fragment): parse_file = model = gcc -------------------------------------
    n_obj = ck.scale(250, 4000)
    progs = [M.gen_program(rng, 'object') for _ in range(n_obj)]
    sx = [model_sexp(p) for p in progs]
    mi = vlib.run_model('C08', 'impl', [s for s, _ in sx])
    ms = vlib.run_model('C08', 'spec', [s for s, _ in sx])
    for prog, (s, back), a, sp in zip(progs, sx, mi, ms):
        ck.count()
        ck.dist('object-like')
        src = M.render(prog)
        if a != sp:
            ck.violation('thm-instance', 'extracted run and expand differ (contradicts c08_program_conforming_partial)', {'kind': 'proof', 'theorems': ['c08_program_conforming_partial'], 'case': s}, nofail=True)
            continue
        if 'FUEL' in a:
            continue
        mt = [back[t] for ln in a.split('|') for t in ln.split()[:-1]]
        g = run_gcc(wd, 'o.h', src)
        i = run_impl(b, wd, 'o.h', src)
        rp = {'kind': 'spec', 'files': {'m.h': src}, 'cmd': 'parse_file -E m.h   vs   gcc -E -P -x c++ -std=c++23 m.h', 'conforming': g, 'parse_file': i, 'model': mt}
        if g is None:
            continue
        if g != mt:
            print('INTERNAL: the Coq hide-set semantics disagrees with gcc -E on\n%s\ncoq: %s\ngcc: %s' % (src, mt, g))
            sys.exit(3)
        if i != g:
            small = shrink(prog)
            ck.spec_failure('object-like', 'object-like macros: %s' % first_diff(g, i), dict(rp, shrunk=M.render(small)))
        elif i != mt:
            ck.violation('corr_C08_objlike', 'parse_file -E and the model differ: %s' % first_diff(mt, i), dict(rp, kind='correspondence'), nofail=True)
        else:
            ck.nontrivial(src)
    ck.sample({'program': M.render(progs[0]), 'tokens': mi[0]})

    # ---------------- streams 2/3: function-like fragments on which the implementation conforms: parse_file = gcc ------------------------
    for name, feats, n in [('plain-fn (nested calls in arguments)', {'fn', 'nested-args'}, ck.scale(250, 4000)),
                           ('# ## variadic __VA_OPT__ literals empty/parenthesised arguments #undef push/pop', EXT, ck.scale(500, 8000))]:
        for k in range(n):
            prog = M.gen_program(rng, feats)
            defs = []
            # command-line definition of the first macro when it is object-like
            if k % 5 == 0 and prog and prog[0][0] == 'define' and prog[0][2] is None and prog[0][4]:
                defs = ['%s=%s' % (prog[0][1], ' '.join(prog[0][4]))]
                prog = prog[1:]
            src = M.render(prog, multiline_rng=rng if k % 3 == 0 else None)
            g = run_gcc(wd, 'f.h', src, defs)
            ck.count()
            ck.dist(name.split()[0] + (':-D' if defs else '') + (':multi-line' if k % 3 == 0 else ''))
            if g is None:
                ck.dist('rejected-by-gcc')
                continue
            i = run_impl(b, wd, 'f.h', src, defs)
            if i != g:
                small = shrink(prog, defs)
                key = 'fn:' + ','.join(sorted(M.features(small)))
                ck.spec_failure(key, '%s: %s' % (name, first_diff(g, i)),
                                {'kind': 'spec', 'files': {'m.h': src}, 'defines': defs, 'cmd': 'parse_file -E [-D...] m.h   vs   gcc -E -P -x c++ -std=c++23 [-D...] m.h',
                                 'conforming': g, 'parse_file': i, 'shrunk': M.render(small)})
            else:
                ck.nontrivial(src)

    # ---------------- stream 3a: every variadic body shape x every argument shape (empty arguments in every position), exhaustively --------------------
    VDEFS = ['#define F(x, ...) f(x __VA_OPT__(,) __VA_ARGS__)', '#define F(...) g(__VA_OPT__(y))', '#define F(x, ...) h(x __VA_OPT__(+ x) | __VA_ARGS__ |)',
             '#define F(x, y, ...) k(x ## y __VA_OPT__(: __VA_ARGS__))', '#define F(...) [__VA_ARGS__]', '#define F(x, ...) __VA_OPT__(x x) __VA_OPT__() end',
             '#define F(x, ...) x ## __VA_ARGS__', '#define F(x...) <x>', '#define F(a, x...) <a __VA_OPT__(;) x>']
    VCALLS = ['F()', 'F(1)', 'F(1,)', 'F(1, 2)', 'F(1, , 2)', 'F(, 3)', 'F(,)', 'F(,,)', 'F(1, 2, 3)', 'F(1, 2, )', 'F((a, b), c)', 'F(1, (,))', 'F( , )', 'F(1,2,,)', 'F(, , 3)', 'F(1, , )', 'F(1,\n , 2)']
    for d_ in VDEFS:
        for c_ in VCALLS:
            src = '%s\nint u = %s ;\n' % (d_, c_)
            g = run_gcc(wd, 'v.h', src)
            ck.count()
            ck.dist('variadic-shapes')
            if g is None:
                ck.dist('rejected-by-gcc')
                continue
            i = run_impl(b, wd, 'v.h', src)
            if i != g:
                ck.spec_failure('variadic-shape:' + ('va_opt' if '__VA_OPT__' in d_ else 'va_args'), 'variadic macro %r called as %r: %s' % (d_, c_, first_diff(g, i)),
                                {'kind': 'spec', 'files': {'m.h': src}, 'cmd': 'parse_file -E m.h   vs   gcc -E -P -x c++ -std=c++23 m.h', 'conforming': g, 'parse_file': i})
            else:
                ck.nontrivial(src)

    # invocations nested inside the argument of another macro (their arguments are collected by the string-level scanner): empty arguments in every position
    NDEFS = '#define ID(x) x\n#define LIST(...) < __VA_ARGS__ >\n#define PAIR(a, b) [a|b]\n#define CNT(a, ...) { a : __VA_OPT__(more) }\n'
    for c_ in ['ID(LIST(p, ))', 'ID(LIST(, p))', 'ID(LIST(,))', 'ID(LIST())', 'ID(LIST( ))', 'ID(ID(LIST(p,)))', 'ID(PAIR(a, ))', 'ID(PAIR(, b))', 'ID(PAIR(,))', 'PAIR(LIST(p, ), LIST(, q))',
               'ID(CNT(1, ))', 'ID(CNT(1))', 'ID(CNT(1, , ))', 'ID(CNT(, 2))', 'LIST(ID(), )', 'LIST(PAIR(a, ), )', 'ID(LIST(p, (q, )))', 'ID(LIST((p, ), ))', 'ID(LIST(p,\n ))', 'ID(\nPAIR(a,\n))']:
        src = '%sint u = %s ;\n' % (NDEFS, c_)
        g = run_gcc(wd, 'n.h', src)
        ck.count()
        ck.dist('nested-invocation-shapes')
        if g is None:
            ck.dist('rejected-by-gcc')
            continue
        i = run_impl(b, wd, 'n.h', src)
        if i != g:
            ck.spec_failure('nested-same-macro:inner-arguments-expanded-before-inner-call' if 'ID(ID(' in c_ else 'nested-invocation-shape', 'invocation nested in an argument, %r: %s' % (c_, first_diff(g, i)),
                            {'kind': 'spec', 'files': {'m.h': src}, 'cmd': 'parse_file -E m.h   vs   gcc -E -P -x c++ -std=c++23 m.h', 'conforming': g, 'parse_file': i})
        else:
            ck.nontrivial(src)

    # ---------------- stream 3b: CPPManifest::stringify itself against the extracted state machine (proved = 6.10.3.2 on well-formed tokens) -----------
    L = b['lib']
    stool = vlib.harness(b, 'scan_tool', ['scan_tool.cxx'], libs=(), extra=[os.path.join(L, 'libcppParser.a'), os.path.join(L, 'libdtoolutil.a'), os.path.join(L, 'libdtoolbase.a')])
    texts = []
    pieces = ['a', '1', ' ', '+', '"s"', '"it\'s"', "'c'", "'\\''", "'\\\\'", '"q\\"r"', "'\"'", '"a\\\\b"', '"\\n"', '"', "'", '\\', '""', "''", ',', '(', ')']
    for _ in range(ck.scale(1500, 30000)):
        texts.append(''.join(rng.choice(pieces) for _ in range(rng.randrange(0, 6))).encode('latin-1'))
    texts.insert(0, b'')
    pr = subprocess.run([stool, os.path.join(wd, 'line.txt')], input=''.join('q %s\n' % t.hex() for t in texts if t) , text=True, stdout=subprocess.PIPE, stderr=subprocess.PIPE)
    impl_s = pr.stdout.splitlines()
    model_s = vlib.run_model('C08', 'stringify', [t.hex() for t in texts if t])
    for t, a, m_ in zip([t for t in texts if t], impl_s, model_s):
        ck.count()
        ck.dist('stringify')
        if a != m_:
            ck.violation('corr_C08_stringify', 'CPPManifest::stringify(%r) = %r, model %r' % (t, bytes.fromhex(a), bytes.fromhex(m_)),
                         {'kind': 'correspondence', 'cmd': 'scan_tool: q <hex>', 'input_hex': t.hex(), 'implementation': a, 'model': m_}, nofail=True)
        else:
            ck.nontrivial(('q', t))

    # ---------------- stream 3c: the substitution step r_expand (parameters, #, ##, __VA_ARGS__, __VA_OPT__, the comma rule) against the extracted model ------
    #                  (proved total and proved to honour __VA_OPT__ exactly when the variable arguments have text)
    def gen_define():
        names = rng.sample(['a', 'b', 'c'], rng.randrange(0, 4))
        variadic = rng.random() < 0.45
        plist = names + ([rng.choice(['...', '...', 'rest...'])] if variadic else [])
        refs = names + (['__VA_ARGS__' if 'rest...' not in plist else 'rest'] if variadic else []) + ['zz']
        plain = ['x', '1', '+', ',', '(', ')', '"s"', "'c'", '1.5e+3', 'x_y', '[', ']', 'a1', '0x1f']

        def body(depth):
            out = []
            for _ in range(rng.randrange(0, 6)):
                r = rng.random()
                if r < 0.35:
                    out.append((rng.choice(['#', '# ', '']) if rng.random() < 0.3 else '') + rng.choice(refs))
                elif r < 0.45:
                    out.append('##')
                elif r < 0.6 and depth < 2:
                    out.append('__VA_OPT__' + rng.choice(['(', ' (']) + body(depth + 1) + ')')
                else:
                    out.append(rng.choice(plain))
            return rng.choice([' ', ' ', '  ', '']).join(out) if rng.random() < 0.3 else ' '.join(out)
        return 'F(%s) %s' % (rng.choice([', ', ',', ' , ']).join(plist), body(0))
    ARGS = ['1', 'x y', '', '"s,t"', '(p, q)', 'p q r', ' lead', 'trail ', 'm##n', '#', 'F', 'zz', "'\\''", '"a\\"b"', ',', '()', '2 + 3']
    scases = []
    for _ in range(ck.scale(2500, 60000)):
        d_ = gen_define()
        args_ = [rng.choice(ARGS) for _ in range(rng.choice([0, 1, 1, 2, 2, 3, 3, 4, 5]))]
        if any(',' in a and not (a.startswith('(') or a.startswith('"')) for a in args_) and rng.random() < 0.5:
            args_ = [a for a in args_ if a != ',']
        scases.append((d_, args_))
    slines = ['%s %s' % (d_.encode('latin-1').hex(), ','.join(a.encode('latin-1').hex() for a in args_) if args_ else '-') for d_, args_ in scases]
    pr = subprocess.run([stool, os.path.join(wd, 'line.txt')], input=''.join('s %s\n' % l for l in slines), text=True, stdout=subprocess.PIPE, stderr=subprocess.PIPE)
    impl_x = pr.stdout.splitlines()
    model_x = vlib.run_model('C08', 'subst', slines)
    if len(impl_x) != len(slines):
        ck.count()
        ck.violation('corr_C08_subst', 'the harness answered %d of %d substitution cases (rc=%s): %s' % (len(impl_x), len(slines), pr.returncode, pr.stderr[-300:]),
                     {'kind': 'correspondence', 'cmd': 'scan_tool: s <hex define> <hex args>', 'first_unanswered': slines[len(impl_x)] if len(impl_x) < len(slines) else None}, nofail=True)
    for (d_, args_), a, m_ in zip(scases, impl_x, model_x):
        ck.count()
        ck.dist('substitution:%s' % ('va_opt' if '__VA_OPT__' in d_ else 'variadic' if '...' in d_ else 'plain'))
        if a != m_:
            ck.violation('corr_C08_subst', '#define %s invoked with arguments %r: CPPManifest::expand gives %r, the model %r' %
                         (d_, args_, bytes.fromhex(a) if re.fullmatch('[0-9a-f]*', a) else a, bytes.fromhex(m_) if re.fullmatch('[0-9a-f]*', m_) else m_),
                         {'kind': 'correspondence', 'cmd': 'scan_tool: s <hex define> <hex arg>,...', 'define': d_, 'arguments': args_, 'implementation': a, 'model': m_,
                          'theorems': ['c08_va_opt_iff', 'c08_parameter_replacement', 'c15_r_expand_total']}, nofail=True)
        else:
            ck.nontrivial(('s', d_, tuple(args_)))

    # ---------------- stream 4: recorded departures from the standard (witness programs) -------------------------------------------------
    for key, src in WITNESSES:
        ck.count()
        ck.dist('witness')
        g = run_gcc(wd, 'w.h', src)
        i = run_impl(b, wd, 'w.h', src)
        if g is not None and i != g:
            ck.spec_failure(key, 'witness %r: %s' % (src, first_diff(g, i)), {'kind': 'spec', 'files': {'m.h': src}, 'cmd': 'parse_file -E m.h', 'conforming': g, 'parse_file': i})

    # ---------------- stream 5: the whole feature grammar: how often the outputs differ (no verdict: the known departures dominate) --------
    n_full = ck.scale(150, 3000)
    diff = 0
    for k in range(n_full):
        prog = M.gen_program(rng, 'full')
        src = M.render(prog)
        g = run_gcc(wd, 'x.h', src)
        if g is None:
            continue
        ck.count()
        if run_impl(b, wd, 'x.h', src, timeout=4) != g:
            diff += 1
    ck.cov['streams'] = {'object_like': n_obj, 'full_grammar_programs': n_full, 'full_grammar_divergent': diff, 'witnesses': len(WITNESSES)}
    ck.cov['rule'] = ('programs of up to 5 macros with interleaved #define / text (+ #undef, redefinition, push_macro/pop_macro, -D, invocations split over lines): '
                      'object-like with self/mutual/forward reference (three-way with the extracted model); function-like with nested calls in arguments; function-like with #, ##, '
                      '__VA_ARGS__, __VA_OPT__, string/char literals containing macro and parameter names and commas, empty and parenthesised-comma arguments (arguments hold plain '
                      'tokens and leaf object-like macros). On these fragments parse_file -E must equal gcc -E token for token. Known departures are witness programs. '
                      'Non-trivial = distinct program that agreed')
    ck.assumptions += ['gcc -E -P -std=c++23 is the conforming reference (it also validates the Coq hide-set semantics on every object-like program)',
                       'the theorem covers object-like macros; function-like replacement (argument collection, #, ##, variadics) is compared with gcc by testing on the fragments above',
                       'outside those fragments (a function-like macro reached again inside its own arguments or rescan) the implementation departs from the standard: recorded findings; '
                       'the full-grammar stream only reports how often']
    ck.finish()


if __name__ == '__main__':
    main()
