#!/usr/bin/env python3
"""C10 — implicit special members and class traits follow the C++ rules.

model : coq/C10 analyze Impl (CPPStructType predicates) / analyze Cxx (the C++ rules); proved equal on the fragment class_frag
impl  : parse_file -p (type traits per class) and the constructors/destructor recorded by interrogate
oracle: g++ std::is_abstract / is_polymorphic / is_default_constructible / is_copy_constructible / is_destructible
"""
import os
import re
import subprocess
import sys

sys.path.insert(0, os.path.dirname(os.path.dirname(os.path.abspath(__file__))))
import vlib
from vlib import dbfile
from gen import classes as C

TRAITS = ['abstract', 'polymorphic', 'default_constructible', 'copy_constructible', 'destructible']


def gxx_traits(wd, text, names):
    prog = ['#include <type_traits>', '#include <cstdio>', text, 'int main() {']
    for n in names:
        prog.append('  printf("%%d%%d%%d%%d%%d\\n", (int)std::is_abstract<%s>::value, (int)std::is_polymorphic<%s>::value, (int)std::is_default_constructible<%s>::value, '
                    '(int)std::is_copy_constructible<%s>::value, (int)std::is_destructible<%s>::value);' % (n, n, n, n, n))
    prog.append('  return 0; }')
    src = os.path.join(wd, 'tr.cpp')
    open(src, 'w').write('\n'.join(prog) + '\n')
    p = vlib.sh(['g++', '-std=gnu++14', '-w', '-o', os.path.join(wd, 'tr'), src])
    if p.returncode != 0:
        return None
    return subprocess.run([os.path.join(wd, 'tr')], stdout=subprocess.PIPE, text=True).stdout.split()


def impl_traits(b, wd, text, names):
    open(os.path.join(wd, 'k.h'), 'w').write(text)
    inp = ''
    for n in names:
        inp += '%s\n__is_polymorphic(%s)\n' % (n, n)
    p = subprocess.run([b['parse_file'], '-p', 'k.h'], cwd=wd, input=inp, text=True, stdout=subprocess.PIPE, stderr=subprocess.PIPE, timeout=60)
    if p.returncode != 0 and 'Error in parsing' in p.stderr:
        return None
    blocks = p.stdout.split('Enter an expression or type name:\n')[1:]
    res = []
    for k in range(len(names)):
        tb = blocks[2 * k] if 2 * k < len(blocks) else ''
        pb = blocks[2 * k + 1] if 2 * k + 1 < len(blocks) else ''

        def g(key):
            m = re.search(r'%s = (\d)' % key, tb)
            return m.group(1) if m else '?'
        m = re.search(r'value is (\S+)', pb)
        res.append(g('is_abstract') + (m.group(1) if m else '?') + g('is_default_constructible') + g('is_copy_constructible') + g('is_destructible'))
    return res


def main():
    ck = vlib.Check('C10')
    ck.coq()
    b = ck.build()
    wd = vlib.workdir(b, 'c10')
    rng = ck.rng
    n_main = ck.scale(260, 5000)
    n_all = ck.scale(120, 2500)
    invalid = 0
    for i in range(n_main + n_all):
        feats = 'main' if i < n_main else 'all'
        cs = C.gen(rng, features=feats)
        text = C.render(cs)
        names = ['K%d' % k for k in range(len(cs))]
        gt = gxx_traits(wd, text, names)
        if gt is None:
            invalid += 1          # e.g. a member of abstract class type: not valid C++
            continue
        ck.count()
        ck.dist('%s:classes=%d' % (feats, len(cs)))
        it = impl_traits(b, wd, text, names)
        rp = {'kind': 'spec', 'header': text, 'cmd': "parse_file -p h.h  (enter each class name, and __is_polymorphic(K))", 'gxx': gt, 'parse_file': it}
        if it is None:
            ck.spec_failure('reject:class-hierarchy', 'parse_file rejects a class hierarchy that g++ accepts', rp)
            continue
        m = vlib.run_model('C10', 'traits', [C.sexp(cs)])[0].split(';')
        ok = True
        present = C.features_of(cs)
        for k, n in enumerate(names):
            mm = dict(kv.split('=') for kv in m[k].split())
            # the Coq C++ rules are themselves validated by g++ on every case
            if mm['cxx'] != gt[k]:
                # outside the modelled fragment of the standard (virtual-base dominance): only a mismatch in 'abstract' with virtual bases is expected
                if 'virtual-base' in present and mm['cxx'][2:] == gt[k][2:] or ('virtual-base' in present):
                    pass
                else:
                    print('INTERNAL: the Coq rules (analyze Cxx) disagree with g++ on %s of\n%s\ncoq %s g++ %s' % (n, text, mm['cxx'], gt[k]))
                    sys.exit(3)
            # specification: what the tool reports = what the compiler says
            if it[k] != gt[k]:
                ok = False
                wrong = [TRAITS[j] for j in range(5) if it[k][j] != gt[k][j]]
                # root cause by the feature present in the hierarchy (smallest explanation first)
                cause = None
                if 'abstract' in wrong and 'virtual-base' in present:
                    cause = 'virtual-base-dominance'
                else:
                    order = []
                    if 'default_constructible' in wrong:
                        order = ['inaccessible-or-deleted-destructor', 'const-member-without-initialiser', 'virtual-base']
                    elif 'copy_constructible' in wrong:
                        order = ['copy-ctor-nonconst-ref', 'inaccessible-or-deleted-destructor', 'rvalue-reference-member', 'virtual-base']
                    elif 'destructible' in wrong and 'virtual-base' in present and 'inaccessible-or-deleted-destructor' in present:
                        # the most derived class destroys its virtual bases: their destructors count, whatever lies in between (recorded finding)
                        order = ['virtual-base']
                        cause = 'virtual-base-destructor'
                    # (any other wrong 'destructible' is never excused: the other recorded finding is about default/copy constructibility only)
                    for feat in order:
                        if feat in present and cause is None:
                            cause = feat
                            break
                key = 'traits:%s' % (cause or ('+'.join(wrong)))
                ck.spec_failure(key, 'class %s: interrogate says %s, g++ says %s (%s) [abstract,polymorphic,default,copy,destructible]' % (n, it[k], gt[k], ','.join(wrong)), dict(rp, cls=n))
            # correspondence with the model of the code
            if it[k] != mm['impl']:
                ck.violation('corr_C10_traits', 'class %s: parse_file %s, model %s' % (n, it[k], mm['impl']), dict(rp, kind='correspondence', model=m), nofail=True)
                ok = False
            # theorem instance: inside the fragment the two modes agree
            if mm['frag'] == '1' and mm['impl'] != mm['cxx']:
                ck.violation('thm-instance', 'model: Impl and Cxx differ inside class_frag (contradicts c10_traits_agree)', {'kind': 'proof', 'theorems': ['c10_traits_agree'], 'case': C.sexp(cs)}, nofail=True)
        if ok:
            ck.nontrivial(text)
        if len(ck.cov['samples']) < 3 and len(cs) >= 3 and ok:
            ck.sample({'header': text, 'traits[abstract,polymorphic,default,copy,destructible]': it})

    # ---------------- exported implicit constructors: database vs predicates -------------------------------------
    n_db = ck.scale(40, 600)
    for i in range(n_db):
        cs = C.gen(rng, features='main')
        text = '#ifndef CPPPARSER\n#define __published public\n#endif\n' + C.render(cs).replace('public:', '__published:')
        names = ['K%d' % k for k in range(len(cs))]
        if gxx_traits(wd, text, names) is None:
            continue
        open(os.path.join(wd, 'e.h'), 'w').write(text)
        p = vlib.sh([b['interrogate'], '-DCPPPARSER', '-oc', 'e.cxx', '-od', 'e.in', '-module', 'm', '-library', 'l', '-c', '-fnames', 'e.h'], cwd=wd)
        ck.count()
        ck.dist('export')
        if p.returncode != 0:
            continue
        db = dbfile.load(os.path.join(wd, 'e.in'), b['src'])
        m = vlib.run_model('C10', 'traits', [C.sexp(cs)])[0].split(';')
        gt = gxx_traits(wd, text, names)
        for k, n in enumerate(names):
            ty = [t for t in db['types'].values() if t['name'] == n and t['constructors'] is not None and (t['flags'] & 1)]
            if not ty:
                continue
            ctors = [db['functions'][f] for f in ty[0]['constructors'] if f in db['functions']]
            nwrap = sum(len(f['c_wrappers']) for f in ctors)
            mm = dict(kv.split('=') for kv in m[k].split())
            if gt[k][0] == '1' and nwrap > 0:
                ck.spec_failure('export:ctor-of-abstract-class', 'a constructor wrapper is exported for the abstract class %s' % n,
                                {'kind': 'spec', 'header': text, 'cmd': 'interrogate -c -fnames', 'cls': n})
            elif gt[k][0] == '0':
                ck.nontrivial('exp%d_%d' % (i, k))
    ck.cov['streams'] = {'hierarchies_main_fragment': n_main, 'hierarchies_full_alphabet': n_all, 'invalid_for_gxx_skipped': invalid, 'export_cases': n_db}
    ck.cov['rule'] = ('random hierarchies (1-4 classes; public/protected/private and virtual bases; scalar, const, reference, class-typed, static members with/without initialiser; '
                      'virtual/pure/overriding methods; user-declared default/copy/other/move constructors and destructors with access and =delete): g++ std::is_* validates the Coq '
                      'C++ rules; parse_file -p must equal g++ (spec) and the Coq model of the code (correspondence). Non-trivial = distinct hierarchy with all traits agreeing')
    ck.assumptions += ['g++ 12 type traits are the reference for the C++ rules', 'defaulted (=default) special members are not generated (their deletedness needs more of the standard than modelled)',
                       'the model of C++ abstractness does not implement dominance through virtual bases: hierarchies with virtual bases are compared with g++ only']
    ck.finish()


if __name__ == '__main__':
    main()
