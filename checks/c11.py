#!/usr/bin/env python3
"""C11 — database and generated code agree; the database is referentially closed.

model : coq/C11 closed / closedb (verified checker), remap (InterrogateDatabase::remap_indices), linksb
impl  : interrogate -od/-oc on generated libraries; libinterrogatedb's remap through dbtool; g++ on synthesised externs
"""
import os
import re
import subprocess
import sys

sys.path.insert(0, os.path.dirname(os.path.dirname(os.path.abspath(__file__))))
import vlib
from vlib import dbfile
from gen import dbgen, headers, collide

OPTSETS = [['-c', '-fnames'], ['-c', '-fnames', '-promiscuous'], ['-c', '-fnames', '-string'], ['-python', '-fnames'],
           ['-c', '-python', '-fnames'], ['-c', '-fnames', '-unique-names', '-string', '-promiscuous'],
           ['-python-native'], ['-c', '-fptrs', '-fnames'], ['-c', '-fptrs', '-fnames', '-unique-names'], ['-python', '-fptrs', '-fnames']]


def shuffle_indices(rng, db):
    """renumber a canonical synthetic db with arbitrary distinct positive indices (still closed)"""
    import copy
    allk = []
    for sec in ('wrappers', 'functions', 'types', 'manifests', 'elements', 'makeseqs'):
        allk += sorted(db[sec])
    new = rng.sample(range(1, 4 * len(allk) + 10), len(allk))
    m = dict(zip(allk, new))
    m[0] = 0
    d = copy.deepcopy(db)

    def r(i):
        return m[i]
    out = {'lib': d['lib'], 'libhash': d['libhash'], 'module': d['module']}
    out['functions'] = {r(i): dict(f, cls=r(f['cls']), cw=[r(x) for x in f['cw']], pw=[r(x) for x in f['pw']]) for i, f in d['functions'].items()}
    out['wrappers'] = {r(i): dict(w, function=r(w['function']), rettype=r(w['rettype']), retdtor=r(w['retdtor']),
                                  params=[dict(p, type=r(p['type'])) for p in w['params']]) for i, w in d['wrappers'].items()}
    out['types'] = {r(i): dict(t, outer=r(t['outer']), wrapped=r(t['wrapped']), ctors=[r(x) for x in t['ctors']], dtor=r(t['dtor']),
                               elements=[r(x) for x in t['elements']], methods=[r(x) for x in t['methods']], makeseqs=[r(x) for x in t['makeseqs']],
                               casts=[r(x) for x in t['casts']], nested=[r(x) for x in t['nested']],
                               derivs=[dict(x, base=r(x['base']), upcast=r(x['upcast']), downcast=r(x['downcast'])) for x in t['derivs']])
                    for i, t in d['types'].items()}
    out['manifests'] = {r(i): dict(x, type=r(x['type']), getter=r(x['getter'])) for i, x in d['manifests'].items()}
    out['elements'] = {r(i): dict(e, **{k: r(e[k]) for k in ('type', 'getter', 'setter', 'has', 'clear', 'del', 'length', 'insert', 'getkey')}) for i, e in d['elements'].items()}
    out['makeseqs'] = {r(i): dict(s, lenget=r(s['lenget']), elemget=r(s['elemget'])) for i, s in d['makeseqs'].items()}
    return out


def main():
    ck = vlib.Check('C11')
    ck.coq()
    b = ck.build()
    tool = vlib.harness(b, 'dbtool', ['dbtool.cxx'])
    wd = vlib.workdir(b, 'c11')
    rng = ck.rng
    fl = dbfile.flags(b['src'])
    inc = vlib.gen_includes(b)

    # ---------- stream A: real databases: closure, numbering, links, unique names, signatures ----------
    nA = ck.scale(40, 500)
    n_sig = 0
    for i in range(nA):
        lib = headers.Lib(rng, nclasses=rng.randrange(1, 5))
        hp = os.path.join(wd, 'a%d.h' % i)
        open(hp, 'w').write(lib.render())
        opts = OPTSETS[i % len(OPTSETS)]
        dbp = os.path.join(wd, 'a%d.in' % i)
        ocp = os.path.join(wd, 'a%d.cxx' % i)
        p = vlib.sh([b['interrogate'], '-DCPPPARSER', '-oc', ocp, '-od', dbp, '-module', 'm', '-library', 'lib%d' % i] + opts + ['a%d.h' % i], cwd=wd)
        ck.count()
        ck.dist('real:' + ' '.join(opts))
        if p.returncode != 0:
            ck.violation('corr_C11_run', 'interrogate failed on a generated header', {'kind': 'correspondence', 'header': lib.render(), 'opts': opts, 'output': p.stdout[-600:]}, nofail=True)
            continue
        data = open(dbp, 'rb').read()
        ident = int(data.split()[0])
        m = vlib.run_model('C11', 'load', ['(%d %s)' % (ident, data.hex())])[0]
        flag, dbs = m.split(' ', 1)
        if flag != '0' or dbs == 'none':
            ck.violation('corr_C11_read', 'model cannot read the database', {'kind': 'correspondence', 'header': lib.render(), 'opts': opts}, nofail=True)
            continue
        res = dict(kv.split('=') for kv in vlib.run_model('C11', 'check', [dbs])[0].split())
        replay = {'kind': 'spec', 'header': lib.render(), 'opts': opts, 'cmd': 'interrogate -od h.in -oc h.cxx -module m -library l %s h.h' % ' '.join(opts), 'result': res}
        if res['closed'] != '1':
            ck.spec_failure('closed', 'database has a dangling index (verified checker closedb = false): ' + ' '.join(opts), replay)
        if res['keysdistinct'] != '1' or res['consecutive_from1'] != '1':
            ck.spec_failure('numbering', 'indices are not the consecutive integers from 1: ' + str(res), replay)
        if res['wrappers_first'] != '1':
            ck.spec_failure('wrappers-first', 'wrapper indices are not 1..n', replay)
        if res['links'] != '1':
            ck.spec_failure('links', 'function->wrapper link without matching wrapper->function link', replay)
        if res.get('flags') != '1':
            ck.spec_failure('links:flag-without-reference', 'an element flag announces a function the element does not name, or the reverse (verified checker flagsb = false)', replay)
        d = dbfile.parse(data, fl['Type.F_array'])
        # a flag that announces a cross reference and the reference itself go together: "has a return value" <-> a return type,
        # "has a setter / getter / ..." <-> a function index (a flag without its index is a reference to nothing)
        for wi_, w_ in d['wrappers'].items():
            rt_ = d['types'].get(w_['return_type'])
            returns_ = bool(w_['return_type']) and not (rt_ is not None and rt_['true_name'] == 'void')
            if bool(w_['flags'] & fl['FunctionWrapper.F_has_return']) != returns_:
                ck.spec_failure('links:flag-without-reference', 'wrapper %s (%s): has-return flag %d, return type index %d' %
                                (wi_, w_['name'] or w_['unique_name'], bool(w_['flags'] & fl['FunctionWrapper.F_has_return']), w_['return_type']), replay)
        for ei_, e_ in d['elements'].items():
            for fk_, idx_ in (('F_has_getter', 'getter'), ('F_has_setter', 'setter'), ('F_has_has_function', 'has'), ('F_has_clear_function', 'clear'), ('F_has_del_function', 'del'),
                              ('F_has_insert_function', 'insert'), ('F_has_getkey_function', 'getkey')):
                if idx_ in e_ and bool(e_['flags'] & fl['Element.' + fk_]) != bool(e_[idx_]):
                    ck.spec_failure('links:flag-without-reference', 'element %s: flag %s is %d, %s index %d' % (e_['scoped_name'], fk_, bool(e_['flags'] & fl['Element.' + fk_]), idx_, e_[idx_]), replay)
        un = [w['unique_name'] for w in d['wrappers'].values() if w['unique_name']]
        if len(un) != len(set(un)):
            ck.spec_failure('unique-names', 'two wrappers share a unique name', replay)
        names = [w['name'] for w in d['wrappers'].values() if w['name']]
        if len(names) != len(set(names)):
            ck.spec_failure('wrapper-names', 'two wrappers share a name', replay)
        # function-pointer and unique-name tables of the code: slot i-1 must hold the wrapper the database numbers i
        if '-fptrs' in opts:
            code = open(ocp).read()
            mt = re.search(r'_in_fptrs\[(\d+)\] = \{\n(.*?)\n\};', code, re.S)
            if mt:
                slots = re.findall(r'\(void \*\)(?:&(\w+)|0),', mt.group(2))
                byidx = [d['wrappers'][k]['name'] for k in sorted(d['wrappers'])]
                if int(mt.group(1)) != len(d['wrappers']) or len(slots) != len(byidx) or any(sl and sl != nm for sl, nm in zip(slots, byidx) if nm):
                    ck.spec_failure('fptrs-table', '_in_fptrs does not list the wrappers in database index order: code %s, database %s' % (slots[:6], byidx[:6]), replay)
                else:
                    ck.nontrivial('fptrs%d' % i)
            mt = re.search(r'_in_unique_names\[(\d+)\] = \{\n(.*?)\n\};', code, re.S)
            if mt:
                ents = re.findall(r'\{ "([^"]*)", (-?\d+) \}', mt.group(2))
                bad = [(u, k) for u, k in ents if int(k) + 1 not in d['wrappers'] or d['wrappers'][int(k) + 1]['unique_name'] != u]
                if bad or len(ents) != int(mt.group(1)):
                    ck.spec_failure('unique-names-table', '_in_unique_names has entries that do not match the database: %s' % bad[:4], replay)
        # signatures: every named C wrapper must be defined in the code with the recorded types
        if '-c' in opts and '-fnames' in opts:
            decls = []
            cbn = fl['FunctionWrapper.F_callable_by_name']
            hasret = fl['FunctionWrapper.F_has_return']
            code = open(ocp).read()
            cw = set()
            for f in d['functions'].values():
                cw.update(f['c_wrappers'])
            for wi in sorted(cw):
                w = d['wrappers'][wi]
                if not (w['flags'] & cbn) or not w['name']:
                    continue
                def ctype(ti):
                    t = d['types'][ti]
                    # the database spells the -string pseudo type "atomic string"; in the C signature it is a C string
                    return 'char const *' if t['true_name'] == 'atomic string' else t['true_name']
                ret = ctype(w['return_type']) if (w['flags'] & hasret) and w['return_type'] else 'void'
                if ret == 'char const *' and w['function'] in d['functions'] and re.match(r'\s*(?:static |virtual |inline )*char \*', d['functions'][w['function']]['prototype']):
                    ret = 'char *'          # declared 'char *' / 'char *const': a string for the database, a mutable char pointer in the C signature
                # "atomic string" covers every character pointer: a parameter declared 'char *' / 'char *const' in the header is a string for the
                # scripting side and a (mutable) char pointer in the C signature: take the constness from the recorded prototype
                proto = d['functions'][w['function']]['prototype'] if w['function'] in d['functions'] else ''
                mutable = set(re.findall(r'(?<!const )\bchar \*(?:const )?(\w+)', proto))
                ps = ', '.join(('char *' if (d['types'][q['type']]['true_name'] == 'atomic string' and q['name'] in mutable) else ctype(q['type'])) for q in w['parameters'])
                decls.append('extern "C" %s %s(%s);' % (ret, w['name'], ps))
                if not re.search(r'\b%s\s*\(' % re.escape(w['name']), code):
                    ck.spec_failure('undefined-wrapper', 'wrapper %s is listed in the database but not defined in the code' % w['name'], replay)
            tu = os.path.join(wd, 'tu%d.cxx' % i)
            open(tu, 'w').write('#include "a%d.cxx"\n' % i + '\n'.join(decls) + '\n')
            q = vlib.sh(['g++', '-std=gnu++11', '-fsyntax-only', '-w'] + inc + ['-I', wd, tu])
            n_sig += len(decls)
            if q.returncode != 0:
                errs = [l for l in q.stdout.splitlines() if 'error' in l][:3]
                if any('conflict' in e or 'ambiguat' in e for e in errs):
                    ck.spec_failure('signature', 'recorded wrapper signature conflicts with the generated definition: ' + '; '.join(errs)[:300], dict(replay, decls=decls[:20]))
                else:
                    # the generated file itself does not compile: that is C03's subject, not C11's
                    ck.dist('tu-does-not-compile(C03)')
            else:
                ck.nontrivial('sig%d' % i)
        if i < 2:
            ck.sample({'opts': opts, 'wrappers': len(d['wrappers']), 'types': len(d['types']), 'check': res})

    # ---------- stream A3: properties and sequences with names shared between classes: every link must stay inside its class -------
    from gen import truth
    for i in range(ck.scale(12, 150)):
        w = truth.World(rng)
        text = w.render()
        open(os.path.join(wd, 't%d.h' % i), 'w').write(text)
        p = vlib.sh([b['interrogate'], '-DCPPPARSER', '-oc', 't%d.cxx' % i, '-od', 't%d.in' % i, '-module', 'm', '-library', 'tl%d' % i, '-c', '-fnames', 't%d.h' % i], cwd=wd)
        ck.count()
        ck.dist('real:properties-and-sequences')
        if p.returncode != 0:
            continue
        data = open(os.path.join(wd, 't%d.in' % i), 'rb').read()
        d = dbfile.parse(data, fl['Type.F_array'])
        replay = {'kind': 'spec', 'header': text, 'cmd': 'interrogate -DCPPPARSER -od h.in -oc h.cxx -module m -library l -c -fnames h.h'}
        res = dict(kv.split('=') for kv in vlib.run_model('C11', 'check', [vlib.run_model('C11', 'load', ['(%d %s)' % (int(data.split()[0]), data.hex())])[0].split(' ', 1)[1]])[0].split())
        if res['closed'] != '1' or res['links'] != '1':
            ck.spec_failure('closed', 'database with properties/sequences is not closed or linked: %s' % res, replay)
        okl = True
        for ti, t in d['types'].items():
            for si in t['make_seqs']:
                sq = d['make_seqs'].get(si)
                if sq is None or sq['scoped_name'] != t['scoped_name'] + '::' + sq['name'] or sq['length_getter'] not in t['methods'] or sq['element_getter'] not in t['methods']:
                    okl = False
                    ck.spec_failure('links:make_seq', 'type %s lists sequence %s whose getters are not its own methods' % (t['scoped_name'], sq and sq['scoped_name']), replay)
            for ei in t['elements']:
                e = d['elements'].get(ei)
                if e is None or e['scoped_name'] != t['scoped_name'] + '::' + e['name']:
                    okl = False
                    ck.spec_failure('links:element', 'type %s lists element %s' % (t['scoped_name'], e and e['scoped_name']), replay)
                elif e['getter'] and d['functions'][e['getter']]['cls'] != ti:
                    okl = False
                    ck.spec_failure('links:element', 'element %s has a getter of another class' % e['scoped_name'], replay)
        if okl:
            ck.nontrivial('t%d' % i)

    # ---------- stream A2: libraries whose signature hashes collide (names must stay distinct) -------
    groups = collide.birthday(rng, budget=ck.scale(20000, 60000), want=ck.scale(3, 12))
    for gi in range(ck.scale(4, 20)):
        methods = []
        for g in groups[gi % max(1, len(groups)):][:2]:
            methods += g
        k = rng.choice([1, 2, 3, 4])
        methods += [(n_, ['int'], False) for n_ in collide.swap_variants(rng, 'Node', k)]
        rng.shuffle(methods)
        src = collide.header('Node', methods)
        hp = os.path.join(wd, 'col%d.h' % gi)
        open(hp, 'w').write(src)
        for opts in (['-c', '-fnames', '-unique-names'], ['-python', '-fnames'], ['-c', '-python', '-fnames']):
            dbp = os.path.join(wd, 'col%d.in' % gi)
            ocp = os.path.join(wd, 'col%d.cxx' % gi)
            p = vlib.sh([b['interrogate'], '-DCPPPARSER', '-oc', ocp, '-od', dbp, '-module', 'm', '-library', 'l'] + opts + ['col%d.h' % gi], cwd=wd)
            ck.count()
            ck.dist('collisions:' + ' '.join(opts))
            replay = {'kind': 'spec', 'header': src, 'opts': opts, 'cmd': 'interrogate -DCPPPARSER -od h.in -oc h.cxx -module m -library l %s h.h' % ' '.join(opts)}
            if p.returncode != 0:
                ck.violation('corr_C11_run', 'interrogate failed on a collision header', dict(replay, kind='correspondence', output=p.stdout[-600:]), nofail=True)
                continue
            d = dbfile.load(dbp, b['src'])
            names = [w['name'] for w in d['wrappers'].values() if w['name']]
            un = [w['unique_name'] for w in d['wrappers'].values() if w['unique_name']]
            dn = sorted(set(x for x in names if names.count(x) > 1))
            du = sorted(set(x for x in un if un.count(x) > 1))
            if dn:
                ck.spec_failure('wrapper-names', 'wrappers share a name when signature hashes collide: %s' % dn[:3], replay)
            elif du:
                ck.spec_failure('unique-names', 'wrappers share a unique name when signature hashes collide: %s' % du[:3], replay)
            else:
                code = open(ocp).read()
                missing = [x for x in names if not re.search(r'\b%s\s*\(' % re.escape(x), code)]
                if missing:
                    ck.spec_failure('undefined-wrapper', 'wrapper %s listed in the database but not defined in the code' % missing[0], replay)
                else:
                    ck.nontrivial('col%d%s' % (gi, opts))

    # ---------- stream B: remap of arbitrary numberings vs libinterrogatedb -------------------------
    nB = ck.scale(120, 2500)
    for i in range(nB):
        g = dbgen.DbGen(rng, fl, adversarial=False)
        db = shuffle_indices(rng, g.make())
        sx = dbgen.sexp(db)
        ident = 5
        hexfile = vlib.run_model('C11', 'write', ['(%d 3 %s)' % (ident, sx)])[0]
        path = os.path.join(wd, 'b%d.in' % i)
        open(path, 'wb').write(bytes.fromhex(hexfile))
        nxt, remapped = vlib.run_model('C11', 'remap', ['(1 %s)' % sx])[0].split(' ', 1)
        res = dict(kv.split('=') for kv in vlib.run_model('C11', 'check', [remapped])[0].split())
        ck.count()
        ck.dist('remap')
        if res['closed'] != '1' or res['consecutive_from1'] != '1' or res['wrappers_first'] != '1':
            ck.violation('thm-instance', 'model remap broke closure/numbering (contradicts c11_remap_preserves_closed / c11_wrappers_first)',
                         {'kind': 'proof', 'theorems': ['c11_remap_preserves_closed', 'c11_wrappers_first'], 'db': sx[:3000]}, nofail=True)
            continue
        expect = bytes.fromhex(vlib.run_model('C11', 'write', ['(%d 3 %s)' % (ident, remapped)])[0])
        env = dict(os.environ, DBTOOL_LIB=db['lib'].decode('latin-1'), DBTOOL_HASH=db['libhash'].decode('latin-1'), DBTOOL_MOD=db['module'].decode('latin-1'))
        p = subprocess.run([tool, 'rewrite', str(ident), path], stdout=subprocess.PIPE, stderr=subprocess.PIPE, env=env, timeout=30)
        if p.returncode != 0 or p.stdout != expect:
            # is the library's result still closed and consecutive?  (decides violation vs correspondence break)
            verdict = None
            if p.returncode == 0:
                mm = vlib.run_model('C11', 'load', ['(%d %s)' % (ident, p.stdout.hex())])[0]
                if mm.startswith('0 ') and not mm.startswith('0 none'):
                    verdict = dict(kv.split('=') for kv in vlib.run_model('C11', 'check', [mm.split(' ', 1)[1]])[0].split())
            k = next((j for j, (x, y) in enumerate(zip(p.stdout, expect)) if x != y), 0)
            rp = {'kind': 'spec', 'file_hex': hexfile, 'cmd': 'dbtool rewrite 5 file', 'diff_at': k, 'got': p.stdout[max(0, k - 40):k + 40].decode('latin-1'),
                  'expected': expect[max(0, k - 40):k + 40].decode('latin-1'), 'library_result_check': verdict}
            if verdict is None or verdict.get('closed') != '1' or verdict.get('consecutive_from1') != '1' or verdict.get('wrappers_first') != '1':
                ck.spec_failure('remap', 'after loading (remap_indices) the database is not closed/consecutive: %s' % verdict, rp)
            else:
                ck.violation('corr_C11_remap', 'library remap differs from the model but stays closed and consecutive', dict(rp, kind='correspondence'), nofail=True)
        else:
            ck.nontrivial('remap%d' % i)
    ck.cov['streams'] = {'real_databases': nA, 'signatures_checked_by_gxx': n_sig, 'synthetic_remaps': nB}
    ck.cov['rule'] = ('(A) databases + code from interrogate on random class libraries under 8 option sets: verified closedb/linksb, numbering, unique names, '
                      'and g++ on extern "C" redeclarations synthesised from the database; (B) closed synthetic databases with arbitrary distinct indices: '
                      'libinterrogatedb load (remap_indices) must give the bytes of the model remap. Non-trivial = distinct database passing the full comparison')
    ck.assumptions += ['g++ redeclaration conflict is the oracle for signature agreement (translation validation)',
                       'that the builder only ever produces closed databases is observed through the verified checker, not proved']
    ck.finish()


if __name__ == '__main__':
    main()
