#!/usr/bin/env python3
"""C14 — output is a pure function of the inputs (reproducible builds).

model : coq/C14 file identifier (SOURCE_DATE_EPOCH / time) and the order-independence criterion of the overload sort
impl  : repeated runs of interrogate / interrogate_module under differing ASLR, environment size, locale variables, TZ,
        wall-clock second and malloc layout (GLIBC_TUNABLES); sha256 of every output
"""
import hashlib
import os
import re
import shutil
import subprocess
import sys
import time
from concurrent.futures import ThreadPoolExecutor

sys.path.insert(0, os.path.dirname(os.path.dirname(os.path.abspath(__file__))))
import vlib
from gen import headers

BACKENDS = [['-c', '-fnames'], ['-python', '-fnames'], ['-python-native'], ['-c', '-python', '-fnames', '-string'],
            ['-c', '-fnames', '-unique-names', '-string'], ['-python', '-fnames', '-unique-names', '-string', '-promiscuous']]

PERTURB = [
    ('baseline', {}, []),
    ('no-aslr', {}, ['setarch', 'x86_64', '-R']),
    ('big-env', {'PADDING_A': 'x' * 5000, 'PADDING_B': 'y' * 3000}, []),
    ('locale', {'LC_ALL': 'C.UTF-8', 'LC_NUMERIC': 'de_DE.UTF-8', 'LANG': 'fr_FR.UTF-8'}, []),
    ('tz', {'TZ': 'Pacific/Kiritimati'}, []),
    ('malloc-perturb', {'MALLOC_PERTURB_': '165', 'MALLOC_ARENA_MAX': '1'}, []),
    # the output files already exist and are longer than what this run writes: nothing of the old content may survive
    ('stale-outputs', {'__STALE__': '1'}, []),
    # PWD spells the working directory through a symbolic link (the 'logical cwd'): paths in the outputs must not follow it
    ('pwd-symlink', {'__PWD_LINK__': '1'}, []),
]
# legitimate environment settings that reverse the relative order of heap blocks: the recorded pointer-order finding
POINTER = [('mmap-threshold', {'GLIBC_TUNABLES': 'glibc.malloc.mmap_threshold=32'}, []),
           ('top-pad', {'GLIBC_TUNABLES': 'glibc.malloc.top_pad=1:glibc.malloc.mmap_threshold=64'}, [])]


def sha(p):
    return hashlib.sha256(open(p, 'rb').read()).hexdigest() if os.path.exists(p) else None


def main():
    ck = vlib.Check('C14')
    ck.coq()
    b = ck.build()
    wd = vlib.workdir(b, 'c14')
    rng = ck.rng
    have_setarch = shutil.which('setarch') is not None

    cases = []
    for i in range(ck.scale(8, 60)):
        lib = headers.Lib(rng, nclasses=rng.randrange(2, 6))
        text = lib.render()
        # overload sets whose parameters fall into one sort class (int-like): ties for RemapCompareLess
        text += '\nclass Ov%d {\n__published:\n  void f(int a);\n  void f(short a);\n  void f(unsigned char a);\n  void g(const Ov%d &a);\n  void g(double a);\n  void g(float a);\n};\n' % (i, i)
        # strings in every role (value, reference, pointer; parameter and result): remaps that are rejected or forced to void
        text = '#include <string>\n' + text + '\nclass Sx%d {\n__published:\n  std::string *gs();\n  std::string &gr();\n  const std::string &gc() const;\n  std::string gv(const std::string &a, std::string b, const std::string *c);\n  void sv(std::string *out);\n};\n' % i
        # typedefs that name wrapped classes (global and nested): the back-ends describe them in comments and tables
        text += '\nBEGIN_PUBLISH\ntypedef Ov%d OvAlias%d;\ntypedef Sx%d *SxPtr%d;\nEND_PUBLISH\nclass Td%d {\n__published:\n  typedef Ov%d Inner;\n  Inner *get();\n};\n' % (i, i, i, i, i, i)
        # the clock macros in exported default arguments: whatever the tool makes of them may not depend on the time of the run or on TZ
        text += '\nclass Clk%d {\n__published:\n  void stamp(const char *d = __DATE__, const char *t = __TIME__);\n  int line(int l = __LINE__, const char *f = __FILE__);\n};\n' % i
        d = os.path.join(wd, 'c%d' % i)
        os.makedirs(d)
        open(os.path.join(d, 'h.h'), 'w').write(text)
        cases.append((d, BACKENDS[i % len(BACKENDS)]))

    def run(job):
        d, opts, label, env_extra, prefix, epoch, tag = job
        env = dict(os.environ)
        for k in ('SOURCE_DATE_EPOCH', 'GLIBC_TUNABLES', 'TZ', 'LC_ALL', 'LC_NUMERIC'):
            env.pop(k, None)
        env.update(env_extra)
        if env.pop('__PWD_LINK__', None):
            lnk = os.path.join(d, tag + '_lnk')
            if not os.path.islink(lnk):
                os.symlink(os.path.join(d, tag), lnk)
            env['PWD'] = lnk
        else:
            env['PWD'] = os.path.join(d, tag)
        if env.pop('__STALE__', None):
            for f in ('o.cxx', 'o.in', 'o.txt', 'mod.cxx'):
                open(os.path.join(d, tag, f), 'w').write('/* left over from an earlier, larger run */\n' * 20000)
        if epoch is not None:
            env['SOURCE_DATE_EPOCH'] = epoch
        pre = prefix if (prefix and have_setarch) else []
        out = {c: os.path.join(d, '%s.%s' % (tag, c)) for c in ('cxx', 'in', 'txt', 'mod')}
        p = subprocess.run(pre + [b['interrogate'], '-DCPPPARSER', '-S' + os.path.join(b['src'], 'parser-inc'), '-oc', 'o.cxx', '-od', 'o.in', '-oh', 'o.txt', '-module', 'm', '-library', 'l'] + opts + ['h.h'],
                           cwd=d + '/' + tag, env=env, stdout=subprocess.PIPE, stderr=subprocess.STDOUT)
        res = {'rc': p.returncode}
        for c, f in (('cxx', 'o.cxx'), ('in', 'o.in'), ('txt', 'o.txt')):
            res[c] = sha(os.path.join(d, tag, f))
        if '-python-native' in opts and p.returncode == 0:
            q = subprocess.run(pre + [b['interrogate_module'], '-python-native', '-module', 'm', '-library', 'm', '-oc', 'mod.cxx', 'o.in'], cwd=d + '/' + tag, env=env,
                               stdout=subprocess.PIPE, stderr=subprocess.STDOUT)
            res['mod'] = sha(os.path.join(d, tag, 'mod.cxx'))
        return res

    jobs = []
    for d, opts in cases:
        for (label, env_extra, prefix) in PERTURB + POINTER:
            tag = label
            os.makedirs(os.path.join(d, tag))
            shutil.copy(os.path.join(d, 'h.h'), os.path.join(d, tag, 'h.h'))
            jobs.append((d, opts, label, env_extra, prefix, '1700000000', tag))
    # the same directory name must be used for byte-identity (the command line / #line paths are part of the output):
    # so every variant runs in <case>/<label>/ and paths inside outputs are masked before hashing -> instead we mask here
    with ThreadPoolExecutor(vlib.NCPU) as ex:
        results = list(ex.map(run, jobs))

    def masked(path, tag):
        data = open(path, 'rb').read()
        return hashlib.sha256(data.replace(('/' + tag + '/').encode(), b'/<RUN>/').replace(('/' + tag + '\n').encode(), b'/<RUN>\n')).hexdigest()

    idx = 0
    for d, opts in cases:
        base = None
        for (label, env_extra, prefix) in PERTURB + POINTER:
            res = results[idx]
            idx += 1
            ck.count()
            ck.dist('%s:%s' % (opts[0] if len(opts) == 1 else '+'.join(o for o in opts if o in ('-c', '-python', '-python-native')), label))
            tag = label
            files = {c: os.path.join(d, tag, f) for c, f in (('cxx', 'o.cxx'), ('in', 'o.in'), ('txt', 'o.txt'), ('mod', 'mod.cxx')) if os.path.exists(os.path.join(d, tag, f))}
            h = {c: masked(p_, tag) for c, p_ in files.items()}
            if label == 'baseline':
                base = (h, files)
                continue
            diff = [c for c in base[0] if h.get(c) != base[0][c]]
            if not diff:
                ck.nontrivial('%s|%s' % (d, label))
                continue
            rp = {'kind': 'spec', 'header': open(os.path.join(d, 'h.h')).read(), 'opts': opts, 'perturbation': label, 'env': env_extra, 'prefix': prefix,
                  'differing_outputs': diff, 'cmd': 'SOURCE_DATE_EPOCH=1700000000 interrogate -DCPPPARSER -oc o.cxx -od o.in -oh o.txt -module m -library l %s h.h (twice, second time under the perturbation)' % ' '.join(opts)}
            # classify: only the python-native code differs, and only by the order of lines -> the recorded pointer-order finding
            only_native_code = diff == ['cxx'] and '-python-native' in opts
            reorder = False
            if only_native_code:
                def lines_of(data):
                    # a docstring is a run of "..." lines closed by ");" on whichever line comes last: the terminator is not part of the line's identity
                    return sorted(re.sub(rb'^(\s*".*")\);$', rb'\1', ln) for ln in data.splitlines())
                a = lines_of(open(base[1]['cxx'], 'rb').read().replace(b'/baseline/', b'/<RUN>/'))
                bb = lines_of(open(files['cxx'], 'rb').read().replace(('/' + tag + '/').encode(), b'/<RUN>/'))
                reorder = (a == bb)
            if only_native_code and reorder:
                ck.spec_failure('pointer-order:python-native', '-python-native code differs between two runs (%s): overloads the comparator does not separate are emitted in heap-address order' % label, rp)
            else:
                ck.spec_failure('nondeterministic:%s:%s' % (label, '+'.join(diff)), 'outputs %s differ between two runs with identical inputs (%s)' % (diff, label), rp)

    # ---------------- identifier: SOURCE_DATE_EPOCH vs clock ------------------------------------------
    d = cases[0][0]
    os.makedirs(os.path.join(d, 'id'))
    shutil.copy(os.path.join(d, 'h.h'), os.path.join(d, 'id', 'h.h'))
    epochs = ['1', '1700000000', '  12ab', '-7', '+5', '0', '2147483647', '', None, '12 34']
    for e in epochs:
        env = dict(os.environ)
        env.pop('SOURCE_DATE_EPOCH', None)
        if e is not None:
            env['SOURCE_DATE_EPOCH'] = e
        t0 = int(time.time())
        p = subprocess.run([b['interrogate'], '-DCPPPARSER', '-S' + os.path.join(b['src'], 'parser-inc'), '-oc', 'o.cxx', '-od', 'o.in', '-module', 'm', '-library', 'l', '-python-native', 'h.h'], cwd=os.path.join(d, 'id'), env=env,
                           stdout=subprocess.PIPE, stderr=subprocess.STDOUT)
        t1 = int(time.time())
        ck.count()
        ck.dist('identifier')
        ident_db = int(open(os.path.join(d, 'id', 'o.in')).readline())
        m = re.search(r'^\s*(-?\d+),\s*/\* file_identifier \*/', open(os.path.join(d, 'id', 'o.cxx')).read(), re.M)
        ident_code = int(m.group(1)) if m else None
        mod = int(vlib.run_model('C14', 'ident', ['(%s %d)' % ('unset' if e is None else 's:' + e.encode().hex(), t0)])[0])
        rp = {'kind': 'spec', 'SOURCE_DATE_EPOCH': e, 'identifier_in_database': ident_db, 'identifier_in_code': ident_code, 'cmd': 'interrogate -python-native ...'}
        if ident_code is not None and ident_code != ident_db:
            ck.spec_failure('identifier:code-vs-database', 'code and database of one run carry different identifiers (%s vs %s)' % (ident_code, ident_db), rp)
        elif e:   # set and non-empty: must not depend on the clock
            if e == '1700000000':
                first = open(os.path.join(d, 'id', 'o.in'), 'rb').read()
                time.sleep(1.2)
                subprocess.run([b['interrogate'], '-DCPPPARSER', '-S' + os.path.join(b['src'], 'parser-inc'), '-oc', 'o.cxx', '-od', 'o.in', '-module', 'm', '-library', 'l', '-python-native', 'h.h'], cwd=os.path.join(d, 'id'), env=env,
                               stdout=subprocess.PIPE, stderr=subprocess.STDOUT)
                if open(os.path.join(d, 'id', 'o.in'), 'rb').read() != first:
                    ck.spec_failure('identifier:clock-dependent', 'two runs 1.2 s apart with the same SOURCE_DATE_EPOCH produce different databases', rp)
                    continue
            if ident_db != mod:
                ck.violation('corr_C14_ident', 'identifier %d, model %d for SOURCE_DATE_EPOCH=%r' % (ident_db, mod, e), dict(rp, kind='correspondence'), nofail=True)
            else:
                ck.nontrivial('id%r' % e)
        else:
            if not (t0 <= ident_db <= t1):
                ck.spec_failure('identifier:not-time', 'without SOURCE_DATE_EPOCH the identifier %d is not the current time [%d,%d]' % (ident_db, t0, t1), rp)
            else:
                ck.nontrivial('id%r' % e)
    ck.cov['streams'] = {'cases': len(cases), 'runs': len(jobs), 'perturbations': [p_[0] for p_ in PERTURB + POINTER], 'identifier_cases': len(epochs), 'setarch_available': have_setarch}
    ck.sample({'perturbations': [p_[0] for p_ in PERTURB + POINTER], 'backends': BACKENDS})
    ck.cov['rule'] = ('each generated library (with overload sets that tie under RemapCompareLess) x back-end is run once per perturbation (ASLR off, 8 kB of extra environment, '
                      'LC_ALL/LC_NUMERIC/LANG, TZ, MALLOC_PERTURB_/arena, GLIBC_TUNABLES that reverse heap order) with SOURCE_DATE_EPOCH fixed; sha256 of -oc/-od/-oh and the '
                      'interrogate_module output must equal the baseline run; identifier cases compare database/code identifier with the model atoi and the clock. '
                      'Non-trivial = distinct (case, perturbation) with identical outputs')
    ck.assumptions += ['only the C/C.utf8/POSIX locales exist in this image and the tools never call setlocale: the locale axis can only show that LC_* variables are ignored',
                       'that no further source of nondeterminism exists in the code base is not a theorem; the perturbation list is what reading the code found']
    ck.finish()


if __name__ == '__main__':
    main()
