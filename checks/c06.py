#!/usr/bin/env python3
"""C06 — valid C++ is accepted and every printed type is the type that was written.

model : coq/C06 pr (output_instance of every CPPType subclass) + [dcl.meaning]; proved: printed declarator denotes the type
impl  : parse_file re-prints every declaration of generated translation units
oracle: g++ std::is_same<decltype(original), decltype(reprinted)>; g++ -fsyntax-only for acceptance
"""
import os
import re
import subprocess
import sys

sys.path.insert(0, os.path.dirname(os.path.dirname(os.path.abspath(__file__))))
import vlib
from gen import types as T
from gen import lookup


def parse_file_decls(b, wd, text, name='d.h'):
    open(os.path.join(wd, name), 'w').write(text)
    p = subprocess.run([b['parse_file'], name], cwd=wd, stdout=subprocess.PIPE, stderr=subprocess.PIPE, text=True, timeout=120)
    return p.returncode, p.stdout, p.stderr


def main():
    ck = vlib.Check('C06')
    ck.coq()
    b = ck.build()
    wd = vlib.workdir(b, 'c06')
    rng = ck.rng

    # ---------------- stream A: declarator trees ----------------------------------------------------
    N = ck.scale(1500, 25000)
    types = []
    seen = set()
    # exhaustive to depth 2 over the constructors first, then random deeper ones
    while len(types) < N:
        t = T.gen(rng, rng.choice([1, 2, 2, 3, 3, 4, 5, 6]))
        s = T.sexp(t)
        if s in seen:
            continue
        seen.add(s)
        types.append(t)
    CH = 300
    for c0 in range(0, len(types), CH):
        chunk = types[c0:c0 + CH]
        names = ['v%d' % (c0 + i) for i in range(len(chunk))]
        src_lines = []
        for t, n in zip(chunk, names):
            src_lines.append(('' if t[0] == 'fn' else 'extern ') + T.source(t, n) + ';')
        text = T.PREAMBLE + '\n'.join(src_lines) + '\n'
        rc, out, err = parse_file_decls(b, wd, text)
        if rc != 0:
            # acceptance: find the offending declaration(s) one by one
            for t, n, ln in zip(chunk, names, src_lines):
                rc1, o1, e1 = parse_file_decls(b, wd, T.PREAMBLE + ln + '\n', 'one.h')
                if rc1 != 0:
                    fam = 'reject:class-type-then-paren-declarator' if re.match(r'^(extern )?(const )?S \(', ln) else 'reject:' + T.shape(t)[:60]
                    ck.spec_failure(fam, 'parse_file rejects the valid declaration: ' + ln,
                                    {'kind': 'spec', 'files': {'d.h': T.PREAMBLE + ln + '\n'}, 'cmd': 'parse_file d.h', 'stderr': e1[-300:]})
            chunk2 = [(t, n, ln) for t, n, ln in zip(chunk, names, src_lines) if parse_file_decls(b, wd, T.PREAMBLE + ln + '\n', 'one.h')[0] == 0]
            if not chunk2:
                continue
            chunk, names, src_lines = [list(x) for x in zip(*chunk2)]
            text = T.PREAMBLE + '\n'.join(src_lines) + '\n'
            rc, out, err = parse_file_decls(b, wd, text)
        printed = {}
        for ln in out.splitlines():
            m = re.search(r'\b(v\d+)\b', ln)
            if m and ln.rstrip().endswith(';'):
                printed[m.group(1)] = re.sub(r'^extern ', '', ln.strip())[:-1]
        model = vlib.run_model('C06', 'print', ['(%s %s)' % (n, T.sexp(t)) for t, n in zip(chunk, names)])
        gxx = [T.PREAMBLE.strip(), '#include <type_traits>']
        checked = []
        for t, n, ln, m in zip(chunk, names, src_lines, model):
            ck.count()
            ck.dist('depth%d' % min(T.size(t), 7))
            mtext, mok, msame = [x.strip() for x in m.split('|')]
            got = printed.get(n)
            rp = {'kind': 'spec', 'files': {'d.h': T.PREAMBLE + ln + '\n'}, 'cmd': 'parse_file d.h', 'source': ln, 'printed': got}
            if got is None:
                ck.violation('corr_C06_missing', 'declaration %s not re-printed by parse_file' % ln, dict(rp, kind='correspondence'), nofail=True)
                continue
            if msame != 'same':
                ck.violation('thm-instance', 'model printer does not denote the type (contradicts c06_print_denotes): ' + T.sexp(t), {'kind': 'proof', 'theorems': ['c06_print_denotes']}, nofail=True)
            checked.append((t, n, ln, got, mtext))
            orig = ln.replace(n, 'a_' + n)
            rep = ('' if t[0] == 'fn' else 'extern ') + got.replace(n, 'b_' + n) + ';'
            gxx.append(orig)
            gxx.append(rep)
            gxx.append('static_assert(std::is_same<decltype(a_%s), decltype(b_%s)>::value, "%s");' % (n, n, n))
        src = os.path.join(wd, 'same.cpp')
        open(src, 'w').write('\n'.join(gxx) + '\n')
        q = vlib.sh(['g++', '-std=gnu++14', '-fsyntax-only', '-w', src])
        badnames = set()
        if q.returncode != 0:
            for el in q.stdout.splitlines():
                if 'error' in el:
                    m = re.search(r'[ab]_(v\d+)\b', el) or re.search(r'failed: (v\d+)\b', el)
                    if m:
                        badnames.add(m.group(1))
                    else:
                        # error without a name: attribute it by line number
                        lm = re.search(r'same\.cpp:(\d+):', el)
                        if lm:
                            lno = int(lm.group(1)) - 1
                            txt = gxx[lno] if lno < len(gxx) else ''
                            mm = re.search(r'[ab]_(v\d+)', txt)
                            if mm:
                                badnames.add(mm.group(1))
        for t, n, ln, got, mtext in checked:
            rp = {'kind': 'spec', 'files': {'d.h': T.PREAMBLE + ln + '\n'}, 'cmd': 'parse_file d.h', 'source': ln, 'printed': got}
            if n in badnames:
                fam = 'print:const-on-class-return' if (re.match(r'^(extern )?const S \(', ln) and not got.startswith('S const')) else 'print:' + T.shape(t)[:60]
                ck.spec_failure(fam, 'declared %s  re-printed as  %s : not the same type for g++' % (ln, got), rp)
                continue
            if got != mtext:
                ck.violation('corr_C06_text', 'parse_file prints %r, model %r' % (got, mtext), dict(rp, kind='correspondence', model=mtext), nofail=True)
            else:
                ck.nontrivial(T.sexp(t))
        if len(ck.cov['samples']) < 5:
            for t, n, ln, got, mtext in checked[:60]:
                if T.size(t) >= 5 and len(ck.cov['samples']) < 5:
                    ck.sample({'source': ln, 'reprinted': got})

    # ---------------- stream B: recorded defects (each must match its finding exactly) -----------------
    known = [
        ('print:data-member-pointer', 'extern int S::* pm;', 'pm'),
        ('print:volatile-dropped', 'extern int *volatile vp;', 'vp'),
        ('print:const-on-class-return', 'const S (*cf)();', 'cf'),
        ('reject:class-type-then-paren-declarator', 'extern S (*pa)[3];', 'pa'),
        ('reject:base-clause-virtual-without-access', 'struct A0 {}; struct B0 : virtual A0 {};', None),
    ]
    for key, decl, nm in known:
        ck.count()
        ck.dist('known-finding-stream')
        text = T.PREAMBLE + decl + '\n'
        rc, out, err = parse_file_decls(b, wd, text, 'k.h')
        rp = {'kind': 'spec', 'files': {'d.h': text}, 'cmd': 'parse_file d.h'}
        if rc != 0:
            if key.startswith('reject:'):
                ck.spec_failure(key, 'parse_file rejects valid C++: ' + decl, rp)
            else:
                ck.spec_failure('reject:' + key, 'parse_file rejects valid C++: ' + decl, rp)
            continue
        if nm is None or key.startswith('reject:'):
            continue   # accepted now: nothing to report
        got = [re.sub(r'^extern ', '', l.strip())[:-1] for l in out.splitlines() if re.search(r'\b%s\b' % nm, l)]
        if not got:
            continue
        g = got[-1]
        pre = '' if decl.startswith('const S') else 'extern '
        tu = T.PREAMBLE + '#include <type_traits>\n' + decl.replace(nm, 'a_' + nm) + '\n' + pre + g.replace(nm, 'b_' + nm) + ';\n' + \
            'static_assert(std::is_same<decltype(a_%s), decltype(b_%s)>::value, "");\n' % (nm, nm)
        open(os.path.join(wd, 'k.cpp'), 'w').write(tu)
        q = vlib.sh(['g++', '-std=gnu++14', '-fsyntax-only', '-w', os.path.join(wd, 'k.cpp')])
        if q.returncode != 0:
            ck.spec_failure(key, 'declared %s  re-printed as  %s : not the same type for g++' % (decl, g), dict(rp, printed=g))

    # ---------------- stream D: name lookup: same-named types in namespaces, base classes, nested scopes ----------
    nD = ck.scale(60, 800)
    for i in range(nD):
        h, structs = lookup.gen(rng, i)
        ck.count()
        ck.dist('lookup')
        rc, out, err = parse_file_decls(b, wd, h, 'lk.h')
        rp = {'kind': 'spec', 'files': {'d.h': h}, 'cmd': 'parse_file d.h'}
        if rc != 0:
            ck.spec_failure('reject:lookup-scenario', 'parse_file rejects a valid header (name lookup scenario): ' + err[-200:], rp)
            continue
        asserts = []
        for qual, mem in structs:
            m = re.search(r'^\s*(.*\S)\s*\b%s;' % mem, out, re.M)
            if m:
                asserts.append('static_assert(std::is_same<decltype(%s::%s), %s>::value, "%s");' % (qual, mem, m.group(1), mem))
        open(os.path.join(wd, 'lk.cpp'), 'w').write('#include <type_traits>\n#include "lk.h"\n' + '\n'.join(asserts) + '\n')
        q = vlib.sh(['g++', '-std=gnu++14', '-fsyntax-only', '-w', '-I', wd, os.path.join(wd, 'lk.cpp')])
        if q.returncode != 0:
            el = [l for l in q.stdout.splitlines() if 'error' in l][:1]
            ck.spec_failure('lookup:wrong-entity', 'a member type is re-printed as a name that denotes another entity (or nothing): ' + (el[0][-200:] if el else ''), dict(rp, asserts=asserts))
        else:
            ck.nontrivial('lk%d' % i)

    # ---------------- stream E: declarations with several declarators ---------------------------------------------
    nE = ck.scale(150, 2000)
    lines = []
    groups = []
    for i in range(nE):
        base = rng.choice(['const int', 'int', 'const char', 'double', 'const S', 'unsigned int'])
        k = rng.randrange(2, 5)
        decls = []
        names = []
        for j in range(k):
            nm = 'w%d_%d' % (i, j)
            names.append(nm)
            decls.append(rng.choice(['%s', '*%s', '*const %s', '**%s', '%s[2]', '*%s[3]']) % nm)
        lines.append('extern %s %s;' % (base, ', '.join(decls)))
        groups.append((base, names, decls))
    text = T.PREAMBLE + '\n'.join(lines) + '\n'
    rc, out, err = parse_file_decls(b, wd, text, 'multi.h')
    if rc != 0:
        ck.spec_failure('reject:multi-declarator', 'parse_file rejects valid multi-declarator declarations: ' + err[-200:], {'kind': 'spec', 'files': {'d.h': text}, 'cmd': 'parse_file d.h'})
    else:
        gxx = [T.PREAMBLE.strip(), '#include <type_traits>', 'namespace orig {'] + lines + ['}', 'namespace rep {']
        printed = {}
        for ln in out.splitlines():
            m = re.search(r'\b(w\d+_\d+)\b', ln)
            if m and ln.rstrip().endswith(';'):
                printed[m.group(1)] = ln.strip()
                gxx.append(('' if ln.strip().startswith('extern') else 'extern ') + ln.strip())
        gxx.append('}')
        allnames = [n for _, names, _ in groups for n in names]
        for n in allnames:
            if n in printed:
                gxx.append('static_assert(std::is_same<decltype(orig::%s), decltype(rep::%s)>::value, "%s");' % (n, n, n))
        open(os.path.join(wd, 'multi.cpp'), 'w').write('\n'.join(gxx) + '\n')
        q = vlib.sh(['g++', '-std=gnu++14', '-fsyntax-only', '-w', os.path.join(wd, 'multi.cpp')])
        badn = set(re.findall(r'failed: (w\d+_\d+)', q.stdout)) if q.returncode != 0 else set()
        if q.returncode != 0 and not badn:
            badn = set(allnames[:1])
        for (base, names, decls), ln in zip(groups, lines):
            ck.count()
            ck.dist('multi-declarator')
            hit = [n for n in names if n in badn]
            if hit:
                ck.spec_failure('print:multi-declarator:' + ('const' if base.startswith('const') else 'plain'),
                                'in "%s" the declarator %s is re-printed as "%s": another type' % (ln, hit[0], printed.get(hit[0])),
                                {'kind': 'spec', 'files': {'d.h': T.PREAMBLE + ln + '\n'}, 'cmd': 'parse_file d.h', 'printed': [printed.get(n) for n in names]})
            else:
                ck.nontrivial(ln)

    # ---------------- stream F: types that differ in one detail only and live in the same file (they must not be identified), and
    #                  instantiations whose member types depend on a non-type template argument ------------------------------------------
    nF = ck.scale(60, 800)
    for i in range(nF):
        ptypes = rng.choice(['const char *fmt', 'int level', 'double a, int b', 'S *s'])
        ret = rng.choice(['int', 'void', 'double'])
        shapes = [('va%d' % i, '%s (*va%d)(%s, ...);' % (ret, i, ptypes)), ('pl%d' % i, '%s (*pl%d)(%s);' % (ret, i, ptypes))]
        rng.shuffle(shapes)
        fnames = [('fva%d' % i, '%s fva%d(%s, ...);' % (ret, i, ptypes)), ('fpl%d' % i, '%s fpl%d(%s);' % (ret, i, ptypes))]
        rng.shuffle(fnames)
        n1, n2 = rng.choice([2, 3, 8]), rng.choice([4, 5, 16])
        text = T.PREAMBLE + ''.join('extern ' + d_ + '\n' for _, d_ in shapes) + ''.join(d_ + '\n' for _, d_ in fnames) + \
            'extern int ar%d_a[%d];\nextern int ar%d_b[%d];\n' % (i, n1, i, n2)
        rc, out, err = parse_file_decls(b, wd, text, 'near.h')
        ck.count()
        ck.dist('near-identical-types')
        rp = {'kind': 'spec', 'files': {'d.h': text}, 'cmd': 'parse_file d.h', 'printed': out[-600:]}
        if rc != 0:
            ck.spec_failure('reject:variadic-function-type', 'parse_file rejects: ' + err[-200:], rp)
            continue
        okF = True
        for nm, d_ in shapes + fnames:
            ln = [l for l in out.splitlines() if re.search(r'\b%s\b' % nm, l)]
            if not ln or (('...' in d_) != ('...' in ln[0])):
                okF = False
                ck.spec_failure('print:ellipsis', '"%s" is re-printed as "%s"' % (d_, ln[0].strip() if ln else None), rp)
        for nm, n_ in (('ar%d_a' % i, n1), ('ar%d_b' % i, n2)):
            ln = [l for l in out.splitlines() if re.search(r'\b%s\b' % nm, l)]
            if not ln or '[%d]' % n_ not in ln[0]:
                okF = False
                ck.spec_failure('print:array-bound', 'array %s[%d] is re-printed as "%s"' % (nm, n_, ln[0].strip() if ln else None), rp)
        if okF:
            ck.nontrivial('near%d' % i)
    from vlib import dbfile
    for i in range(ck.scale(12, 120)):
        n = rng.choice([2, 3, 7, 16])
        m = rng.choice([4, 5, 9])
        tp = rng.choice(['char', 'int', 'double'])
        text = ('template<int N> struct Buf {\n__published:\n  %s data[N];\n  int fill(%s (&out)[N]);\n};\ntemplate<class T, int N> struct Arr {\n__published:\n  T items[N];\n};\n'
                'typedef Buf<%d> BufA;\ntypedef Arr<%s, %d> ArrA;\n' % (tp, tp, n, tp, m))
        open(os.path.join(wd, 'tpl.h'), 'w').write(text)
        p = vlib.sh([b['interrogate'], '-oc', 'tpl.cxx', '-od', 'tpl.in', '-module', 'm', '-library', 'l', '-c', '-fnames', 'tpl.h'], cwd=wd)
        ck.count()
        ck.dist('template-instantiation')
        rp = {'kind': 'spec', 'files': {'d.h': text}, 'cmd': 'interrogate -c -fnames -od d.in d.h; read the element types'}
        if p.returncode != 0:
            ck.spec_failure('reject:template-instantiation', 'interrogate fails: ' + p.stdout[-200:], rp)
            continue
        db = dbfile.load(os.path.join(wd, 'tpl.in'), b['src'])
        et = {e['scoped_name']: db['types'][e['type']]['true_name'] for e in db['elements'].values()}
        want = {'Buf< %d >::data' % n: '%s [%d]' % (tp, n), 'Arr< %s, %d >::items' % (tp, m): '%s [%d]' % (tp, m)}
        got = {k: v for k, v in et.items() if k in want}
        if got != want:
            ck.spec_failure('print:array-bound-from-template-argument', 'member types of the instantiations: %s, expected %s' % (et, want), rp)
        else:
            ck.nontrivial('tpl%d' % i)

    # ---------------- stream G: template arguments: defaults that depend on earlier parameters; function types whose parameter lists hold
    #                  template-ids and commas.  The member types interrogate records for the instantiation must be the types g++ computes. -----------
    nG = ck.scale(40, 600)
    for i in range(nG):
        targ = lambda: rng.choice(['int', 'double', 'char', 'Vec<int>', 'Vec<Vec<char> >', 'unsigned int', 'const char *'])
        dflt_u = rng.choice(['T *', 'const T *', 'Vec<T>', 'T', 'T[2]', 'T **'])
        dflt_v = rng.choice(['const U *', 'U *', 'Vec<U>', 'T', 'U'])
        ftype = lambda: rng.choice(['%s(%s, %s)', '%s (*)(%s, %s)', '%s(%s, %s)']) % (rng.choice(['void', 'int', 'Vec<int>']), targ(), targ())
        given = rng.choice([1, 1, 2, 3])
        ch_args = ', '.join([targ()] + [rng.choice(['long', 'Vec<double>', 'short *'])] * (given > 1) + [rng.choice(['bool', 'Vec<int> *'])] * (given > 2))
        pa, pb = (ftype() if rng.random() < 0.7 else targ()), (ftype() if rng.random() < 0.4 else targ())
        vec_param = rng.choice(['T', 'E'])          # the same name as Ch's first parameter, or another one
        text = ('template<class ' + vec_param + '> struct Vec {};\n'
                'template<class T, class U = %s, class V = %s> struct Ch {\n__published:\n  T *gt;\n  U *gu;\n  V *gv;\n  U *mu();\n  V *mv();\n};\n'
                'template<class F> struct Holder {\n__published:\n  F *fp;\n};\n'
                'template<class A, class B> struct Pair {\n__published:\n  A *first;\n  B *second;\n};\n'
                'typedef Ch<%s> ChA;\ntypedef Holder<%s> HoA;\ntypedef Pair<%s, %s> PaA;\n') % (dflt_u, dflt_v, ch_args, ftype(), pa, pb)
        open(os.path.join(wd, 'tg.h'), 'w').write(text)
        ck.count()
        ck.dist('template-arguments')
        rp = {'kind': 'spec', 'files': {'d.h': text}, 'cmd': 'interrogate -c -fnames -od d.in d.h; the element types of the instantiations against g++ decltype'}
        if vlib.sh(['g++', '-std=gnu++14', '-fsyntax-only', '-w', '-D__published=public', '-x', 'c++', os.path.join(wd, 'tg.h')]).returncode != 0:
            ck.dist('template-arguments:rejected-by-g++')
            continue
        p = vlib.sh([b['interrogate'], '-oc', 'tg.cxx', '-od', 'tg.in', '-module', 'm', '-library', 'l', '-c', '-fnames', 'tg.h'], cwd=wd)
        diag = [l for l in p.stdout.splitlines() if 'rror' in l or 'Ignoring extra' in l]        # ('Attempt to define invalid type' is a standing notice about function types)
        if p.returncode != 0 or diag:
            ck.spec_failure('reject:template-arguments', 'interrogate complains about a header g++ accepts: ' + (diag[0] if diag else p.stdout[-200:])[:300], rp)
            continue
        db = dbfile.load(os.path.join(wd, 'tg.in'), b['src'])
        asserts = {}
        for e in db['elements'].values():
            owner = e['scoped_name'].rsplit('::', 1)[0]
            alias = {'Ch': 'ChA', 'Holder': 'HoA', 'Pair': 'PaA'}.get(owner.split('<')[0].strip())
            if alias:
                asserts[e['name']] = 'static_assert(std::is_same<decltype(%s::%s), %s>::value, "%s");' % (alias, e['name'], db['types'][e['type']]['true_name'], e['scoped_name'])
        if sorted(asserts) != ['first', 'fp', 'gt', 'gu', 'gv', 'second']:
            ck.spec_failure('print:template-member-missing', 'the data members recorded for the instantiations are %s' % sorted(asserts), dict(rp, asserts=sorted(asserts.values())))
            continue

        def gxx_ok(names_):
            open(os.path.join(wd, 'tg.cpp'), 'w').write('#include <type_traits>\n#define __published public\n#include "tg.h"\n' + '\n'.join(asserts[n_] for n_ in names_) + '\n')
            q = vlib.sh(['g++', '-std=gnu++14', '-fsyntax-only', '-w', '-I', wd, os.path.join(wd, 'tg.cpp')])
            return q.returncode == 0, ([l for l in q.stdout.splitlines() if 'error' in l] + [''])[0][-220:]
        # Vec<T> as a default argument where Vec's own parameter is also called T is a recorded finding (parameters are canonicalised by name): judged apart
        dep = ['gu'] if (given < 2 and 'Vec<T>' in dflt_u and vec_param == 'T') else []
        if 'gu' in dep and given < 3 and 'U' in dflt_v:
            dep.append('gv')                 # V's default mentions the unsubstituted U
        # const applied to an array type through an alias (const U with U = T[2]) is printed as '(const **)[2]': a recorded finding, judged apart
        carr = ['gv'] if (given == 1 and dflt_u == 'T[2]' and 'const U' in dflt_v) else []
        okG = True
        if carr and 'gv' not in dep:
            ok_, el = gxx_ok(carr)
            if not ok_:
                okG = False
                ck.spec_failure('print:const-array-through-alias', 'const applied to an array type through an alias is printed with a leading const inside the parentheses: ' + asserts['gv'][:160],
                                dict(rp, asserts=[asserts['gv']]))
            dep = dep + carr
        ok_, el = gxx_ok([n_ for n_ in asserts if n_ not in dep])
        if not ok_:
            okG = False
            ck.spec_failure('print:template-argument-substitution', 'a member of a template instantiation is recorded with a type that is not the type g++ computes: ' + el,
                            dict(rp, asserts=sorted(asserts.values())))
        for m_ in sorted(set(dep)):
            ok_, el = gxx_ok([m_])
            if not ok_:
                okG = False
                ck.spec_failure('print:dependent-template-id-default', 'a default template argument that is a template-id naming an earlier parameter is not substituted: ' + el,
                                dict(rp, asserts=[asserts[m_]]))
        if okG:
            ck.nontrivial('tg%d' % i)

    # ---------------- stream C: the shipped stub headers that g++ accepts must parse ---------------------
    pinc = os.path.join(b['src'], 'parser-inc')
    n_inc = 0
    for f in sorted(os.listdir(pinc)):
        fp = os.path.join(pinc, f)
        if not os.path.isfile(fp):
            continue
        q = vlib.sh(['g++', '-fsyntax-only', '-x', 'c++', '-std=gnu++17', '-w', '-I', pinc, fp])
        if q.returncode != 0:
            continue
        n_inc += 1
        ck.count()
        ck.dist('parser-inc')
        p = subprocess.run([b['parse_file'], '-S' + pinc, fp], stdout=subprocess.PIPE, stderr=subprocess.PIPE, text=True, timeout=120)
        if p.returncode != 0:
            ck.spec_failure('reject:parser-inc:' + f, 'parse_file rejects the shipped stub header %s, which g++ accepts' % f,
                            {'kind': 'spec', 'cmd': 'parse_file -Sparser-inc parser-inc/' + f, 'stderr': p.stderr[-400:]})
        else:
            ck.nontrivial('inc' + f)
    ck.cov['streams'] = {'declarator_trees': len(types), 'known_finding_cases': len(known), 'parser_inc_headers_accepted_by_gxx': n_inc, 'lookup_scenarios': nD, 'multi_declarator_declarations': nE, 'template_argument_headers': nG}
    ck.cov['rule'] = ('random well-formed types (pointers, lvalue/rvalue references, const, arrays, functions, method pointers; depth <= 6), written by an independent west-const '
                      'reference printer, re-printed by parse_file: text must equal the model printer, and g++ must find decltype(original) and decltype(reprinted) the same type; '
                      'every parser-inc stub header that g++ -fsyntax-only accepts must parse. Non-trivial = distinct type tree that passed both comparisons')
    ck.assumptions += ['g++ 12 decides type identity (std::is_same) and validity', 'name lookup, using-declarations and template substitution are not modelled (only exercised through g++ where generated)']
    ck.finish()


if __name__ == '__main__':
    main()
