#!/usr/bin/env python3
"""C01 — handle-style wrappers (-c) behave exactly like the C++ they wrap.

model : coq/C01 run_wrapper (variants, conversion, static string holder) = run_direct for every history (proved); pinned holder refuted
impl  : the -oc file interrogate generates for an instrumented library, compiled and EXECUTED: every exported wrapper is called with boundary values
spec  : the same calls made directly on the C++ library in the same process: return value, trace log, object states
"""
import os
import re
import subprocess
import sys

sys.path.insert(0, os.path.dirname(os.path.dirname(os.path.abspath(__file__))))
import vlib
from vlib import dbfile
from gen import wraplib as W

OPTSETS = [['-c', '-fnames'], ['-c', '-fnames', '-string'], ['-c', '-fnames', '-promiscuous'], ['-c', '-fnames', '-string', '-promiscuous']]

PRELUDE = r'''
#include <string>
#include <vector>
#include <cstdio>
#include <cstring>
#include <sstream>
#include <algorithm>
extern std::vector<std::string> LOG;
static long nchecks = 0, nbad = 0;
static std::string show(long long v) { return "i" + std::to_string(v); }
static std::string show(unsigned long long v) { return "u" + std::to_string(v); }
static std::string show(long v) { return "i" + std::to_string(v); }
static std::string show(unsigned long v) { return "u" + std::to_string(v); }
static std::string show(int v) { return "i" + std::to_string(v); }
static std::string show(unsigned int v) { return "u" + std::to_string(v); }
static std::string show(short v) { return "i" + std::to_string(v); }
static std::string show(unsigned short v) { return "u" + std::to_string(v); }
static std::string show(signed char v) { return "i" + std::to_string((int)v); }
static std::string show(unsigned char v) { return "u" + std::to_string((int)v); }
static std::string show(bool v) { return v ? "true" : "false"; }
static std::string show(double v) { char b[64]; snprintf(b, sizeof(b), "%a", v); return b; }
static std::string show(float v) { char b[64]; snprintf(b, sizeof(b), "%a", (double)v); return b; }
static std::string show(Mode v) { return "e" + std::to_string((int)v); }
static std::string show(const char *v) { return v ? std::string("\"") + v + "\"" : std::string("NULL"); }
static std::string show(const std::string &v) { return "\"" + v + "\""; }
static std::string joinlog(size_t from) { std::string s; for (size_t i = from; i < LOG.size(); ++i) { s += LOG[i]; s += ";"; } return s; }
static void check(const char *wrapper, const char *what, const std::string &rw, const std::string &rd, const std::string &lw, const std::string &ld,
                  const std::string &sw, const std::string &sd) {
  ++nchecks;
  if (rw != rd || lw != ld || sw != sd) {
    ++nbad;
    printf("MISMATCH wrapper=%s call=%s | wrapper returned %s direct %s | log %s vs %s | states %s vs %s\n", wrapper, what, rw.c_str(), rd.c_str(), lw.c_str(), ld.c_str(), sw.c_str(), sd.c_str());
  }
}
'''


def lit_for(p, j, side):
    """argument expression for parameter p, value index j; side 'w' (as the wrapper takes it) or 'd' (as the C++ function takes it).  Objects are prepared beforehand."""
    k = p['kind']
    if k in W.SCALAR:
        vals = W.SCALAR[k][2]
        return vals[j % len(vals)]
    if k in ('cstr', 'string', 'stringcref', 'stringcptr'):
        s = W.STRINGS[j % len(W.STRINGS)]
        if side == 'w' or k == 'cstr':
            return s
        if k == 'stringcptr':
            return '&STR_%s' % p['name']
        return 'std::string(%s)' % s
    return None


PY_KINDS = [   # (C++ type, the spelling interrogate prints, name, boundary values as Python ints / floats)
    ('unsigned long long', 'unsigned long long int', 'u64', [0, 1, 2 ** 63 - 1, 2 ** 63, 2 ** 63 + 1, 2 ** 64 - 1]),
    ('long long', 'long long int', 'i64', [0, -1, -2 ** 63, 2 ** 63 - 1, 2 ** 40]),
    ('unsigned int', 'unsigned int', 'u32', [0, 2 ** 31, 2 ** 32 - 1]),
    ('int', 'int', 'i32', [0, -2 ** 31, 2 ** 31 - 1, -7]),
    ('short', 'short int', 'i16', [-32768, 32767]),
    ('unsigned short', 'unsigned short int', 'u16', [0, 65535, 40000]),
    ('signed char', 'signed char', 'i8', [-128, 127]),
    ('unsigned char', 'unsigned char', 'u8', [0, 255, 200]),
    ('long', 'long int', 'long', [-2 ** 63, 2 ** 63 - 1, -2 ** 31 - 1]),
    ('unsigned long', 'unsigned long int', 'ulong', [0, 2 ** 64 - 1, 2 ** 63]),
    ('float', 'float', 'f32', [1.5, -0.25, 16777216.0]),
    ('double', 'double', 'f64', [2.5, -1e-300, 9007199254740993.0, 1e300]),
    ('bool', 'bool', 'bool', [True, False]),
]


def python_simple_stream(ck, b, wd, rng, n):
    """the -python (simple) back-end EXECUTED: every scalar kind crosses an echo function, a method, a static method and a data member of a class, through a typedef too"""
    import sysconfig
    pyinc = sysconfig.get_paths()['include']
    for li in range(n):
        d = os.path.join(wd, 'py%d' % (li % 2))
        vlib.shutil.rmtree(d, ignore_errors=True)
        os.makedirs(d)
        kinds = rng.sample(PY_KINDS, rng.randrange(6, len(PY_KINDS) + 1))
        if li == 0:
            kinds = list(PY_KINDS)
        v0 = rng.randrange(0, 50)
        H = ['#ifndef CPPPARSER', '#define __published public', '#define __begin_publish', '#define __end_publish', '#endif']
        C = ['#include "lib.h"']
        for ct, pt, nm, vals in kinds:
            H.append('typedef %s T_%s;' % (ct, nm))
        H += ['class K0 {', '__published:', '  K0(int v);']
        C.append('K0::K0(int v) : state(v) {%s}' % ' '.join('f_%s = (%s)0;' % (nm, ct) for ct, pt, nm, vals in kinds))
        for ct, pt, nm, vals in kinds:
            use = rng.choice([ct, 'T_' + nm])
            H += ['  %s m_%s(%s x) const;' % (use, nm, ct), '  static %s s_%s(%s x);' % (ct, nm, use), '  %s f_%s;' % (use, nm)]
            C += ['%s K0::m_%s(%s x) const { return x; }' % (use, nm, ct), '%s K0::s_%s(%s x) { return x; }' % (ct, nm, use)]
        H += ['public:', '  long long state;', '};', '__begin_publish']
        for ct, pt, nm, vals in kinds:
            use = rng.choice([ct, 'T_' + nm])
            H.append('%s echo_%s(%s x);' % (use, nm, ct))
            C.append('%s echo_%s(%s x) { return x; }' % (use, nm, ct))
        H.append('__end_publish')
        hdr, impl = '\n'.join(H) + '\n', '\n'.join(C) + '\n'
        open(os.path.join(d, 'lib.h'), 'w').write(hdr)
        open(os.path.join(d, 'lib.cxx'), 'w').write(impl)
        rp = {'kind': 'spec', 'files': {'lib.h': hdr, 'lib.cxx': impl},
              'cmd': 'interrogate -DCPPPARSER -python -fnames -do-module -nodb -oc w.cxx -od w.in -module pm -library pm lib.h; g++ -shared; python3 drive.py'}
        ck.dist('python-simple-libraries')
        p = vlib.sh([b['interrogate'], '-DCPPPARSER', '-S', os.path.join(b['src'], 'parser-inc'), '-python', '-fnames', '-do-module', '-nodb', '-oc', 'w.cxx', '-od', 'w.in',
                     '-module', 'pm', '-library', 'pm', 'lib.h'], cwd=d)
        if p.returncode != 0:
            ck.count()
            ck.violation('corr_C01_run', 'interrogate -python failed: ' + p.stdout[-300:], dict(rp, kind='correspondence'), nofail=True)
            continue
        q = vlib.sh(['g++', '-shared', '-fPIC', '-std=gnu++14', '-O0', '-w', '-I', d, '-I', pyinc, 'w.cxx', 'lib.cxx', '-o', 'pm.so'], cwd=d)
        if q.returncode != 0:
            errs = [l for l in q.stdout.splitlines() if 'error' in l][:3]
            ck.count()
            ck.spec_failure('compile:python-simple', 'the -python wrappers do not compile: %s' % '; '.join(errs)[:400], rp)
            continue
        T = ['import re, sys, struct', 'sys.path.insert(0, %r)' % d, 'src = open(%r).read()' % os.path.join(d, 'w.cxx'), 'names = {}',
             'for m in re.finditer(r"/\\*\\n \\* Python simple wrapper for\\n \\* (.*?)\\n \\*/\\n(?:static )?PyObject \\*\\n(\\w+)\\(", src): names[m.group(1)] = m.group(2)',
             'import pm', 'bad = []', 'n = [0]',
             'def W(suffix):',
             '    c = [v for k, v in names.items() if k.endswith(suffix)]',
             '    if len(c) != 1: bad.append("no unique wrapper for ..." + suffix); return None',
             '    return getattr(pm, c[0])',
             'def check(what, fn, want):',
             '    n[0] += 1',
             '    try: got = fn()',
             '    except BaseException as e: got = ("EXC", type(e).__name__)',
             '    if got != want or type(got) != type(want): bad.append("%s: wrapper returned %r, C++ returns %r" % (what, got, want))',
             'ctor = W("K0::K0(int v)")', 'a = ctor(%d)' % v0, 'b2 = ctor(%d)' % (v0 + 1)]
        for ct, pt, nm, vals in kinds:
            T.append('e, m, g = W(" echo_%s(%s x)"), W("K0::m_%s(%s x) const"), W("K0::get_f_%s(void) const")' % (nm, pt, nm, pt, nm))
            T.append('st = [getattr(pm, v) for k, v in names.items() if "K0::s_%s(" in k]' % nm)
            T.append('se = [getattr(pm, v) for k, v in names.items() if "K0::set_f_%s(" in k]' % nm)
            for v in vals:
                want = repr(v) if nm != 'f32' else 'struct.unpack("f", struct.pack("f", %r))[0]' % v
                T.append('if e: check("echo_%s(%r)", lambda: e(%r), %s)' % (nm, v, v, want))
                T.append('if m: check("a.m_%s(%r)", lambda: m(a, %r), %s)' % (nm, v, v, want))
                T.append('if len(st) == 1: check("K0::s_%s(%r)", lambda: st[0](%r), %s)' % (nm, v, v, want))
                T.append('if len(se) == 1 and g: check("a.set_f_%s(%r)", lambda: se[0](a, %r), None); check("a.f_%s after set to %r", lambda: g(a), %s); check("b.f_%s untouched", lambda: g(b2), type(%s)(0))'
                         % (nm, v, v, nm, v, want, nm, want))
                T.append('if len(se) == 1: check("a.set_f_%s(0)", lambda: se[0](a, type(%s)(0)), None)' % (nm, want))
            T.append('if len(st) != 1 or len(se) != 1: bad.append("static/setter wrapper of %s not found")' % nm)
        T += ['print("DONE", n[0], len(bad))', 'for x in bad: print("BAD", x)']
        open(os.path.join(d, 'drive.py'), 'w').write('\n'.join(T) + '\n')
        r = subprocess.run([sys.executable, 'drive.py'], cwd=d, stdout=subprocess.PIPE, stderr=subprocess.PIPE, text=True, timeout=120)
        out = r.stdout.splitlines()
        done = [l for l in out if l.startswith('DONE')]
        if r.returncode != 0 or not done:
            ck.count()
            ck.spec_failure('crash:python-simple', 'calling the -python wrappers crashed: %s' % r.stderr[-400:], dict(rp, driver='\n'.join(T)[-2500:]))
            continue
        ck.count(int(done[0].split()[1]))
        ck.dist('python-simple-calls', int(done[0].split()[1]))
        bads = [l[4:] for l in out if l.startswith('BAD')]
        for x in bads[:3]:
            ck.spec_failure('mismatch:python-simple:' + ('value' if 'wrapper returned' in x else 'wrapper-missing'), x[:400], dict(rp, driver_output=bads[:10]))
        if not bads:
            ck.nontrivial(('py', li))


def main():
    ck = vlib.Check('C01')
    ck.coq()
    b = ck.build()
    wd = vlib.workdir(b, 'c01')
    rng = ck.rng
    fl = dbfile.flags(b['src'])
    inc = vlib.gen_includes(b)
    n_libs = ck.scale(28, 400)

    # theorem instances through the extracted model: the repaired holder returns each call's value; the pinned one does not
    ck.count()
    m = vlib.run_model('C01', 'x', ['(1 1 (41 42 - 430044))', '(0 1 (41 42))'])
    if m != ['41 42 - 43', '41 41']:
        ck.violation('thm-instance', 'extracted run_wrapper gives %s' % m, {'kind': 'proof', 'theorems': ['c01_wrapper_equals_direct', 'c01_pinned_string_holder_refuted']}, nofail=True)

    for li in range(n_libs):
        opts = OPTSETS[li % len(OPTSETS)]
        lib = W.Lib(rng, '-string' in opts)
        d = os.path.join(wd, 'l%d' % (li % 4))
        vlib.shutil.rmtree(d, ignore_errors=True)
        os.makedirs(d)
        hdr, impl = lib.header(), lib.impl()
        open(os.path.join(d, 'lib.h'), 'w').write(hdr)
        open(os.path.join(d, 'lib.cxx'), 'w').write(impl)
        rp0 = {'files': {'lib.h': hdr, 'lib.cxx': impl}, 'opts': opts, 'cmd': 'interrogate -DCPPPARSER -S parser-inc -oc w.cxx -od w.in -module m -library l %s lib.h; compile w.cxx with lib.cxx and the driver; run' % ' '.join(opts)}
        p = vlib.sh([b['interrogate'], '-DCPPPARSER', '-S', os.path.join(b['src'], 'parser-inc'), '-oc', 'w.cxx', '-od', 'w.in', '-module', 'm', '-library', 'l'] + opts + ['lib.h'], cwd=d)
        ck.dist('libraries:' + ' '.join(opts))
        if p.returncode != 0:
            ck.count()
            ck.violation('corr_C01_run', 'interrogate failed: ' + p.stdout[-300:], dict(rp0, kind='correspondence'), nofail=True)
            continue
        db = dbfile.load(os.path.join(d, 'w.in'), b['src'])
        TY, FN, WR = db['types'], db['functions'], db['wrappers']
        tyname = lambda i: (TY[i]['true_name'] if TY[i]['true_name'] != 'atomic string' else 'char const *') if i in TY else None     # -string spells the C string type 'atomic string'
        byname = {c['name']: c for c in lib.classes}
        tests = []
        ncalls = 0
        unmapped = []

        def obj_setup(p, idx, tag):
            return '%s *%s_%s = new %s(%d);' % (p['cls'], tag, p['name'], p['cls'], 20 + idx)

        def gen_call(wname, scoped, owner, m, nargs, kind='method', dyn=None):
            """C++ block that calls wrapper wname and the direct C++ for values j = 0..2"""
            nonlocal ncalls
            out = []
            ps = m['params'][:nargs]
            nvals = 3
            for j in range(nvals):
                L = ['{']
                if owner and not m.get('static'):
                    L.append('  %s *A = new %s(7); %s *B = new %s(7);' % (owner, dyn or owner, owner, dyn or owner))
                for i, q in enumerate(ps):
                    if q['kind'].startswith('obj'):
                        L.append('  ' + obj_setup(q, i, 'WA'))
                        L.append('  ' + obj_setup(q, i, 'DA'))
                    if q['kind'] == 'stringcptr':
                        L.append('  std::string STR_%s(%s);' % (q['name'], W.STRINGS[(j + i) % len(W.STRINGS)]))
                wargs, dargs = [], []
                for i, q in enumerate(ps):
                    if q['kind'].startswith('obj'):
                        wargs.append('WA_%s' % q['name'])
                        dargs.append(('DA_%s' if q['kind'] in ('objptr', 'objcptr') else '*DA_%s') % q['name'])
                    else:
                        wargs.append(lit_for(q, j + i, 'w'))
                        dargs.append(lit_for(q, j + i, 'd'))
                this_w = ['A'] if (owner and not m.get('static')) else []
                wcall = '%s(%s)' % (wname, ', '.join(this_w + wargs))
                if owner and not m.get('static'):
                    if m['name'].startswith('operator '):
                        dcall = '((*B) %s (%s))' % (m['name'][9:], dargs[0])
                    else:
                        dcall = 'B->%s(%s)' % (m['name'], ', '.join(dargs))
                elif owner:
                    dcall = '%s::%s(%s)' % (owner, m['name'], ', '.join(dargs))
                else:
                    dcall = '%s(%s)' % (scoped, ', '.join(dargs))
                rk = m['ret']['kind']
                L.append('  size_t l0 = LOG.size();')
                if rk == 'void':
                    L.append('  %s; std::string rw = "void";' % wcall)
                elif rk == 'objval':
                    L.append('  %s *rwp = %s; std::string rw = show(rwp->state_%s);' % (m['ret']['cls'], wcall, m['ret']['cls']))
                elif rk in ('objself', 'objselfptr'):
                    L.append('  %s *rwp = %s; std::string rw = (rwp == A) ? "self" : "other";' % (m['ret']['cls'], wcall))
                else:
                    L.append('  std::string rw = show(%s);' % wcall)
                L.append('  std::string lw = joinlog(l0); l0 = LOG.size();')
                if rk == 'void':
                    L.append('  %s; std::string rd = "void";' % dcall)
                elif rk == 'objval':
                    L.append('  std::string rd = show(%s.state_%s);' % (dcall, m['ret']['cls']))
                elif rk == 'objself':
                    L.append('  std::string rd = (&(%s) == B) ? "self" : "other";' % dcall)
                elif rk == 'objselfptr':
                    L.append('  std::string rd = (%s == B) ? "self" : "other";' % dcall)
                else:
                    L.append('  std::string rd = show(%s);' % dcall)
                L.append('  std::string ld = joinlog(l0);')
                sw = ['show(A->state_%s)' % owner] if (owner and not m.get('static')) else []
                sd = ['show(B->state_%s)' % owner] if (owner and not m.get('static')) else []
                for q in ps:
                    if q['kind'].startswith('obj'):
                        sw.append('show(WA_%s->state_%s)' % (q['name'], q['cls']))
                        sd.append('show(DA_%s->state_%s)' % (q['name'], q['cls']))
                L.append('  check("%s", "%s/%d #%d", rw, rd, lw, ld, %s, %s);' % (wname, scoped, nargs, j, ' + "," + '.join(sw) if sw else 'std::string()', ' + "," + '.join(sd) if sd else 'std::string()'))
                L.append('}')
                out.append('\n'.join(L))
                ncalls += 1
            return out

        for f in FN.values():
            cls = TY[f['cls']]['name'] if f['cls'] in TY else None
            for wi in f['c_wrappers']:
                w = WR[wi]
                if not w['name']:
                    continue
                prm = w['parameters']
                has_this = bool(prm) and bool(prm[0]['flags'] & fl['FunctionWrapper.PF_is_this'])
                rest = prm[1:] if has_this else prm
                dbt = [tyname(q['type']) for q in rest]
                simple = f['name']
                if cls in byname:
                    c = byname[cls]
                    if f['flags'] & fl['Function.F_constructor']:
                        if dbt == ['int']:
                            tests.append('{ size_t l0 = LOG.size(); %s *o = %s(41); %s d(41); check("%s", "%s::%s(int)", show(o->state_%s), show(d.state_%s), joinlog(l0), "", "", ""); }'
                                         % (cls, w['name'], cls, w['name'], cls, cls, cls, cls))
                            ncalls += 1
                        elif dbt == ['%s const *' % cls]:
                            tests.append('{ %s s(33); %s *o = %s(&s); %s d(s); check("%s", "copy constructor", show(o->state_%s), show(d.state_%s), "", "", "", ""); }'
                                         % (cls, cls, w['name'], cls, w['name'], cls, cls))
                            ncalls += 1
                        else:
                            unmapped.append(f['scoped_name'])
                        continue
                    if f['flags'] & fl['Function.F_getter'] or f['flags'] & fl['Function.F_setter']:
                        fld = [x for x in c['fields'] + [{'name': 'state_' + cls, 'kind': 'i64', 'src': 'long long'}] if simple in ('get_' + x['name'], 'set_' + x['name'])]
                        if not fld and re.match(r'[gs]et_(s?buf|cell)_', simple):
                            continue              # the scratch buffers of the instrumentation (public, so exported under -promiscuous)
                        if not fld:
                            unmapped.append(f['scoped_name'])
                            continue
                        x = fld[0]
                        if x['kind'] == 'iarr':
                            # an array member: the setter copies the argument into the member and leaves the argument alone
                            if f['flags'] & fl['Function.F_setter']:
                                tests.append('{ %s A(7); %s B(7); int src[3] = {50, -60, 70}; %s(&A, src); std::copy(src, src + 3, B.%s); '
                                             'check("%s", "array setter %s", show(A.%s[0]) + show(A.%s[1]) + show(A.%s[2]), show(B.%s[0]) + show(B.%s[1]) + show(B.%s[2]), "", "", '
                                             'show(src[0]) + show(src[1]) + show(src[2]), std::string("i50i-60i70")); }'
                                             % (cls, cls, w['name'], x['name'], w['name'], x['name'], x['name'], x['name'], x['name'], x['name'], x['name'], x['name']))
                                ncalls += 1
                            continue
                        vals = W.SCALAR[x['kind']][2] if x['kind'] in W.SCALAR else W.STRINGS
                        for j, v in enumerate(vals[:3]):
                            if f['flags'] & fl['Function.F_getter']:
                                tests.append('{ %s A(7); A.%s = %s; check("%s", "getter %s #%d", show(%s(&A)), show(A.%s), "", "", "", ""); }' % (cls, x['name'], v, w['name'], x['name'], j, w['name'], x['name']))
                            else:
                                tests.append('{ %s A(7); %s B(7); %s(&A, %s); B.%s = %s; check("%s", "setter %s #%d", show(A.%s), show(B.%s), "", "", "", ""); }'
                                             % (cls, cls, w['name'], v, x['name'], v, w['name'], x['name'], j, x['name'], x['name']))
                            ncalls += 1
                        continue
                    mu = re.match(r'upcast_to_(\w+)$', simple)
                    if mu:
                        base = mu.group(1)
                        tests.append('{ %s A(7); %s *rw = %s(&A); %s *rd = &A; check("%s", "upcast to %s", show((long long)((char *)rw - (char *)&A)), show((long long)((char *)rd - (char *)&A)), "", "", show(rw->state_%s), show(rd->state_%s)); }'
                                     % (cls, base, w['name'], base, w['name'], base, base, base))
                        ncalls += 1
                        continue
                    md = re.match(r'downcast_to_(\w+)$', simple)
                    if md:
                        der = md.group(1)
                        tests.append('{ %s D(7); %s *bp = &D; %s *rw = %s(bp); %s *rd = static_cast<%s *>(bp); check("%s", "downcast to %s", show((long long)((char *)rw - (char *)bp)), show((long long)((char *)rd - (char *)bp)), "", "", "", ""); }'
                                     % (der, cls, der, w['name'], der, der, w['name'], der))
                        ncalls += 1
                        continue
                    if c['index'] and simple in ('operator []', 'operator []=') and has_this:
                        cells = lambda o: ' + '.join('show(%s.cell_%s[%d])' % (o, cls, i) for i in range(4))
                        this_const = 'const' in (tyname(prm[0]['type']) or '')
                        for j, (ix, v) in enumerate([(0, '11'), (3, '-2'), (2, '2147483647')]):
                            if simple == 'operator []=' and dbt == ['int', 'int']:
                                # the synthesized item assignment: exactly  obj[index] = value
                                wc, dc, what = '%s(&A, %d, %s); std::string rw = "void";' % (w['name'], ix, v), 'B[%d] = %s; std::string rd = "void";' % (ix, v), 'item assignment'
                            elif simple == 'operator []' and dbt == ['int'] and this_const:
                                wc, dc, what = 'std::string rw = show(%s(&A, %d));' % (w['name'], ix), 'std::string rd = show(((const %s &)B)[%d]);' % (cls, ix), 'index (const)'
                            elif simple == 'operator []' and dbt == ['int']:
                                wc, dc, what = '%s(&A, %d); std::string rw = "void";' % (w['name'], ix), 'B[%d]; std::string rd = "void";' % ix, 'index (non-const)'
                            else:
                                unmapped.append('%s(%s)' % (f['scoped_name'], ', '.join(dbt)))
                                break
                            tests.append('{ %s A(7); %s B(7); size_t l0 = LOG.size(); %s std::string lw = joinlog(l0); l0 = LOG.size(); %s std::string ld = joinlog(l0); '
                                         'check("%s", "%s #%d", rw, rd, lw, ld, %s, %s); }' % (cls, cls, wc, dc, w['name'], what, j, cells('A'), cells('B')))
                            ncalls += 1
                        continue
                    cands = [m for m in c['methods'] if m['name'] == simple and len(m['params']) >= len(rest) and [q['db'] for q in m['params'][:len(rest)]] == dbt
                             and all(q['default'] for q in m['params'][len(rest):]) and bool(m.get('static')) != has_this]
                    if len(cands) != 1:
                        unmapped.append('%s(%s)' % (f['scoped_name'], ', '.join(dbt)))
                        continue
                    tests += gen_call(w['name'], f['scoped_name'], cls, cands[0], len(rest))
                    if cands[0].get('virtual'):
                        # the wrapper of a virtual method called on objects of derived classes that override it: the override must run
                        for dc in lib.classes:
                            if any(q.get('overrides') == cls and q['name'] == simple for q in dc['methods']) and not any(x['virtual'] for x in dc['bases']):
                                tests += gen_call(w['name'], f['scoped_name'] + ' on a ' + dc['name'], cls, cands[0], len(rest), dyn=dc['name'])
                elif cls is None:
                    cands = [g for g in lib.funcs if ((g['ns'] + '::') if g['ns'] else '') + g['name'] == f['scoped_name'] and len(g['params']) >= len(rest)
                             and [q['db'] for q in g['params'][:len(rest)]] == dbt and all(q['default'] for q in g['params'][len(rest):])]
                    if len(cands) != 1:
                        unmapped.append('%s(%s)' % (f['scoped_name'], ', '.join(dbt)))
                        continue
                    tests += gen_call(w['name'], f['scoped_name'], None, dict(cands[0], static=True), len(rest))
                else:
                    # the template instantiation
                    if simple == 'get' and has_this:
                        tests.append('{ IntBox A(5); check("%s", "IntBox::get", show(%s(&A)), show(A.get()), "", "", "", ""); }' % (w['name'], w['name']))
                        ncalls += 1
                    elif simple == 'add' and has_this:
                        tests.append('{ IntBox A(5); IntBox B(5); check("%s", "IntBox::add", show(%s(&A, 2147483000)), show(B.add(2147483000)), "", "", show(A.val), show(B.val)); }' % (w['name'], w['name']))
                        ncalls += 1
        # every published method of the generator must have been reached through some wrapper
        ck.count()
        if unmapped:
            ck.violation('corr_C01_map', 'database entries that do not correspond to a declared function/variant: %s' % unmapped[:4], dict(rp0, kind='correspondence'), nofail=True)
        drv = '#include "w.cxx"\n' + PRELUDE + 'int main() {\n' + '\n'.join(tests) + '\n  printf("DONE %ld %ld\\n", nchecks, nbad);\n  return 0;\n}\n'
        open(os.path.join(d, 'driver.cxx'), 'w').write(drv)
        q = vlib.sh(['g++', '-std=gnu++14', '-w', '-O0', '-g', '-fsanitize=address,undefined', '-fno-sanitize-recover=undefined'] + inc + ['-I', d, 'driver.cxx', 'lib.cxx', '-o', 'drv'], cwd=d)
        if q.returncode != 0:
            errs = [l for l in q.stdout.splitlines() if 'error' in l][:4]
            ck.count()
            ck.spec_failure('compile:' + re.sub(r'[^a-z ]', '', (errs[0].split('error:')[-1] if errs else 'unknown').lower())[:50].strip(), 'the generated wrappers do not compile: %s' % '; '.join(errs)[:400],
                            dict(rp0, kind='spec', driver=drv[-3000:]))
            continue
        r = subprocess.run([os.path.join(d, 'drv')], stdout=subprocess.PIPE, stderr=subprocess.PIPE, text=True, timeout=120, env=dict(os.environ, ASAN_OPTIONS='detect_leaks=0'))
        out = r.stdout.splitlines()
        done = [l for l in out if l.startswith('DONE')]
        ck.count(ncalls)
        ck.dist('wrapper-calls', ncalls)
        if r.returncode != 0 or not done:
            ck.spec_failure('crash', 'calling the wrappers crashed: %s' % (r.stderr[-400:]), dict(rp0, kind='spec', driver=drv[-3000:]))
            continue
        mism = [l for l in out if l.startswith('MISMATCH')]
        for l in mism[:3]:
            kind = 'return-value' if 'wrapper returned' in l and l.split('wrapper returned ')[1].split(' | ')[0].split(' direct ')[0] != l.split(' direct ')[1].split(' | ')[0] else 'side-effect'
            ck.spec_failure('mismatch:' + kind, l[:500], dict(rp0, kind='spec', driver_output=mism[:10]))
        if not mism:
            ck.nontrivial(li)
        if li == 0:
            ck.sample({'opts': opts, 'wrappers_called': ncalls, 'result': done[0]})
    n_py = ck.scale(6, 80)
    python_simple_stream(ck, b, wd, rng, n_py)
    ck.cov['streams'] = {'libraries': n_libs, 'python_simple_libraries': n_py}
    ck.cov['rule'] = ('instrumented libraries of 1-3 classes (single/multiple/virtual public inheritance, static/const/virtual methods, overload sets, trailing defaults, operators, data members of '
                      'every scalar kind, a namespace function, a typedef\'d template instantiation) x option sets {-c -fnames} x {-string} x {-promiscuous}: the generated file is compiled '
                      '(ASan+UBSan) with the library and a driver; every wrapper of every default-argument variant is called three times with boundary values of every integer width, floats, bool, '
                      'enum, C strings / std::string, object pointers/references/values (classes with their own copy and move constructors, the move marking its source) and compared with the direct C++ call: return value, trace log, states of this and of argument objects; '
                      'constructors, copy constructors, getters/setters, operator [] (const, non-const) and the synthesized item assignment, upcasts/downcasts by pointer offset. Non-trivial = library whose every call agreed')
    ck.assumptions += ['the -python back-end is executed for scalar kinds only (echo functions, methods, static methods, data members, typedefs; built as an extension module); -true-names is compiled by C03; only wrappers reachable by name (-fnames) are called',
                       'values crossing as char const * contain no embedded NUL (c01_embedded_nul_refuted shows why this is needed)',
                       'the driver maps a database wrapper to the declared function by scoped name and parameter types; an entry it cannot map is reported as a correspondence break']
    ck.finish()


if __name__ == '__main__':
    main()
