#!/usr/bin/env python3
"""C04 — only the published API of the files named on the command line is exported.

model : coq/C04 gates (scan_function, define_method, scan_struct_type, scan_simple) — proved equivalent to the statement of the property on the stated fragment
impl  : interrogate -od on generated worlds (files reached as command-line file / cwd include / -I / -S, sections, publish regions, .N file, -promiscuous)
spec  : the property's iff evaluated by the generator from the facts it wrote
"""
import os
import re
import sys

sys.path.insert(0, os.path.dirname(os.path.dirname(os.path.abspath(__file__))))
import vlib
from vlib import dbfile
from gen import exports as G

RANK = {'published': 0, 'public': 1, 'protected': 2, 'private': 3}
SRC = {'cmdline': 'local', 'cmdline2': 'local', 'cwd': 'local', 'alt': 'alternate', 'sys': 'system', 'cmdline3': 'local', 'sibling': 'alternate'}


def bit(x):
    return '1' if x else '0'


def mentions(sx, pred):
    """walk a type s-expression string: does any (c N) satisfy pred / any (r 1 ..) exist"""
    return any(pred(int(n)) for n in re.findall(r'\(c (\d+)\)', sx))


def main():
    ck = vlib.Check('C04')
    ck.coq()
    b = ck.build()
    wd0 = vlib.workdir(b, 'c04')
    rng = ck.rng
    fl = dbfile.flags(b['src'])
    n_worlds = ck.scale(500, 8000)
    for wi in range(n_worlds):
        w = G.gen_world(rng)
        wd = os.path.join(wd0, 'w%d' % (wi % 8))
        vlib.shutil.rmtree(wd, ignore_errors=True)
        os.makedirs(os.path.join(wd, 'alt'))
        os.makedirs(os.path.join(wd, 'sys'))
        os.makedirs(os.path.join(wd, 'pkg'))
        texts = {}
        for f in w['files']:
            sub = {'alt': 'alt', 'sys': 'sys', 'cmdline3': 'pkg', 'sibling': 'pkg'}.get(f['how'], '')
            texts[os.path.join(sub, f['name'])] = G.render_file(w, f)
            open(os.path.join(wd, sub, f['name']), 'w').write(texts[os.path.join(sub, f['name'])])
        nf = G.nfile(w)
        if nf:
            open(os.path.join(wd, 'main.N'), 'w').write(nf)
            texts['main.N'] = nf
        cmdfiles = [f['name'] for f in w['files'] if f['how'] in ('cmdline', 'cmdline2')] + ['pkg/' + f['name'] for f in w['files'] if f['how'] == 'cmdline3']
        opts = ['-promiscuous'] if w['promiscuous'] else []
        cmd = [b['interrogate'], '-oc', 'w.cxx', '-od', 'w.in', '-module', 'm', '-library', 'l', '-c', '-fnames', '-I', 'alt', '-S', 'sys'] + opts + cmdfiles
        p = vlib.sh(cmd, cwd=wd)
        ck.dist('worlds:%s' % ('promiscuous' if w['promiscuous'] else 'default'))
        rp0 = {'files': texts, 'cmd': 'interrogate -oc w.cxx -od w.in -module m -library l -c -fnames -I alt -S sys %s %s' % (' '.join(opts), ' '.join(cmdfiles))}
        if p.returncode != 0 or not os.path.exists(os.path.join(wd, 'w.in')):
            ck.count()
            ck.violation('corr_C04_run', 'interrogate failed on a generated world: %s' % p.stdout[-300:], dict(rp0, kind='correspondence'), nofail=True)
            continue
        db = dbfile.load(os.path.join(wd, 'w.in'), b['src'])
        fnames = {f['scoped_name'] for f in db['functions'].values()}
        tglobal = {t['name'] for t in db['types'].values() if t['flags'] & fl['Type.F_global']}
        mnames = {m['name'] for m in db['manifests'].values()}
        enames = {e['scoped_name'] for e in db['elements'].values()}

        min_vis = 'public' if w['promiscuous'] else 'published'
        ncls = len(w['classes'])
        cvis = ['public'] * (101 + ncls)
        for k in w['classes']:
            cvis[k['id']] = 'published' if k['region'] else 'public'
            if k['prot_nested']:
                cvis[100 + k['id']] = k['prot_vis']
        ign_ids = [k['id'] for k in w['classes'] if k['name'] in w['n']['ignoreinvolved']]
        head = '%s 1 (%s) (%s)' % (min_vis, ' '.join(cvis), ' '.join(str(i) for i in ign_ids))

        def ffacts(f):
            return '(%s 0 %s)' % (SRC[f['how']], bit(f['name'] in w['n']['ignorefile']))

        def fn_type(fn):
            return '(f %s (%s))' % (fn['ret'][1] if fn['ret'] else 's', ' '.join(t[1] for t in fn['params']))

        lines = []     # (model line, kind, entity key, observed, spec_expected, description)
        okvis = lambda v: RANK[v] <= RANK[min_vis]
        for f in w['files']:
            f_ok = SRC[f['how']] == 'local' and f['name'] not in w['n']['ignorefile']
            for it in f['items']:
                if it['kind'] == 'class':
                    k = it
                    # inside a __begin_publish region the label 'public:' means published (cppBison.yxx, KW_PUBLIC ':')
                    for m in k['members']:
                        m['evis'] = 'published' if ((k['region'] and m['vis'] == 'public') or m.get('pubregion')) else m['vis']
                    mv = ([k['prot_vis']] if k['prot_nested'] else []) + [m['evis'] for m in k['members']]
                    kvis = 'published' if k['region'] else 'public'
                    cl = '(class %s %s %s %s (%s))' % (head, ffacts(f), kvis, bit(k['template']), ' '.join(mv))
                    recorded_spec = f_ok and not k['template'] and (okvis(kvis) or any(okvis(v) for v in mv))
                    lines.append((cl, 'class', k['name'], k['name'] in tglobal, recorded_spec, 'class %s' % k['name']))
                    rec = recorded_spec and k['name'] not in w['n']['ignoretype']
                    for m in k['members']:
                        if m['kind'] == 'element':
                            sl = '(simple %s (local 0 0) %s 0 0)' % (head, m['evis'])
                            lines.append((sl, 'member-element', '%s::%s' % (k['name'], m['name']), '%s::%s' % (k['name'], m['name']) in enames, rec and okvis(m['evis']),
                                          'data member %s::%s (%s)' % (k['name'], m['name'], m['vis']), rec))
                            continue
                        t = fn_type(m)
                        ml = '(method %s (local 0 0) %s %s %s %s %s %s %s %s 0 0)' % (head, m['evis'], bit(m['static']), bit(m['deleted']), bit(m['template']), t,
                                                                                   bit(m['dtor']), bit(m['gct']), bit(m['name'] in w['n']['ignoremember']))
                        sig_ok = not mentions(t, lambda c: RANK[cvis[c]] > 1) and '(r 1' not in t and not mentions(t, lambda c: c in ign_ids)
                        spec = rec and okvis(m['evis']) and not m['deleted'] and not m['template'] and m['name'] not in w['n']['ignoremember'] and sig_ok
                        sc = '%s::%s' % (k['name'], m['name'])
                        lines.append((ml, 'method', sc, sc in fnames, spec, 'method %s (%s%s%s%s)' % (sc, m['vis'], ' static' if m['static'] else '', ' deleted' if m['deleted'] else '',
                                                                                                    ' template' if m['template'] else ''), rec, m))
                elif it['kind'] == 'function':
                    t = fn_type(it)
                    vis = 'published' if it['region'] else 'public'
                    ln = '(function %s %s %s %s %s %s %s 0 0 0 0 0)' % (head, ffacts(f), vis, bit(it['static']), bit(it['deleted']), bit(it['template']), t)
                    sig_ok = not mentions(t, lambda c: RANK[cvis[c]] > 1) and '(r 1' not in t and not mentions(t, lambda c: c in ign_ids)
                    spec = f_ok and okvis(vis) and not it['static'] and not it['deleted'] and not it['template'] and sig_ok
                    lines.append((ln, 'function', it['name'], it['name'] in fnames, spec, 'function %s (%s) in %s' % (it['name'], vis, f['name'])))
                else:
                    vis = 'published' if it['region'] else 'public'
                    sl = '(simple %s %s %s 0 %s)' % (head, ffacts(f), vis, bit(it.get('fn_like', False)))
                    obs = {'enum': it['name'] in tglobal, 'manifest': it['name'] in mnames, 'gelement': it['name'] in enames}[it['kind']]
                    spec = f_ok and okvis(vis) and not it.get('fn_like', False)
                    lines.append((sl, it['kind'], it['name'], obs, spec, '%s %s (%s) in %s' % (it['kind'], it['name'], vis, f['name'])))
        model = vlib.run_model('C04', 'x', [ln[0] for ln in lines])
        world_ok = True
        for ln, mres in zip(lines, model):
            kind, key, obs, spec, desc = ln[1:6]
            mexp = mres == '1'
            if kind in ('method', 'member-element'):
                mexp = mexp and ln[6]          # the gate applies to members of a class whose definition is recorded
            ck.count()
            ck.dist('entity:' + kind)
            rp = dict(rp0, kind='spec', entity=desc, in_database=obs, statement_says=spec, model_says=mexp)
            if obs != spec:
                world_ok = False
                if kind == 'method' and ln[7]['dtor'] and obs and ln[7]['evis'] == 'public':
                    rk = 'leak:public-unpublished-destructor'
                elif kind == 'method' and ln[7]['gct'] and obs and ln[7]['evis'] == 'public':
                    rk = 'leak:public-unpublished-get_class_type'
                else:
                    rk = ('leak:' if obs else 'missing:') + kind
                ck.spec_failure(rk, '%s: %s, the property says %s' % (desc, 'exported' if obs else 'not exported', 'exported' if spec else 'not exported'), rp)
            if obs != mexp:
                world_ok = False
                ck.violation('corr_C04_' + kind, '%s: database %s, model %s' % (desc, obs, mexp), dict(rp, kind='correspondence', model_line=ln[0]), nofail=True)
        if world_ok:
            ck.nontrivial(wi)
        if wi == 0:
            ck.sample({'files': list(texts), 'entities': len(lines), 'exported': sum(1 for ln in lines if ln[3])})
    ck.cov['streams'] = {'worlds': n_worlds}
    ck.cov['rule'] = ('worlds of 2-4 files (command-line files, a quote include found in the working directory, an -I directory, an -S directory), 1-2 classes per file with members in '
                      'shuffled __published/public/protected/private sections, protected or private nested classes used in signatures (by pointer, reference, reference to array, typedef, '
                      'pointer to pointer), rvalue references, static/deleted/template members, destructors, get_class_type, global functions/enums/#defines/variables inside and '
                      'outside __begin_publish regions, a .N file with ignoremember/ignoreinvolved/ignoretype/ignorefile, with and without -promiscuous. For every entity the generator wrote: '
                      'in the database iff the property says so (spec) and iff the Coq gate says so (correspondence). Non-trivial = world in which every entity agreed')
    ck.assumptions += ['the facts of each entity are those the generator wrote (a parser defect that mis-stamps visibility or file origin shows up as a correspondence break)',
                       'inherited virtual methods, forcetype, renametype, namespaces and typedef/template-instantiation exports are not generated',
                       'member functions/elements are judged for classes whose definition is recorded (the class gate and no ignoretype)']
    ck.finish()


if __name__ == '__main__':
    main()
