#!/usr/bin/env python3
"""C12 — database files round-trip exactly; older 3.x minors stay readable; bad files raise the error flag.

model : coq/C12 byte-level codec (extracted): write_file / load_file
impl  : libinterrogatedb through harness/dbtool (rewrite = load + InterrogateDatabase::write; query = C interface)
"""
import os
import random
import subprocess
import sys
from concurrent.futures import ThreadPoolExecutor

sys.path.insert(0, os.path.dirname(os.path.dirname(os.path.abspath(__file__))))
import vlib
from vlib import dbfile
from gen import dbgen, headers


STALE_FLAG = []       # runs in which the error flag asked as the first query differed from the flag after the load


def dbtool_rewrite(tool, ident, path, env=None, timeout=20):
    e = dict(os.environ)
    e.update(env or {})
    try:
        p = subprocess.run([tool, 'rewrite', str(ident), path], stdout=subprocess.PIPE, stderr=subprocess.PIPE, env=e, timeout=timeout)
    except subprocess.TimeoutExpired:
        return 'timeout', None, b''
    err = first = None
    for ln in p.stderr.decode('latin-1').splitlines():
        if ln.startswith('ERR '):
            err = int(ln[4:])
        if ln.startswith('ERRFIRST '):
            first = int(ln[9:])
    if err is not None and first is not None and first != err:
        STALE_FLAG.append((path, first, err))
    return p.returncode, err, p.stdout


def dbtool_query(tool, path, timeout=20):
    p = subprocess.run([tool, 'query', path], stdout=subprocess.PIPE, stderr=subprocess.PIPE, timeout=timeout)
    return p.returncode, p.stdout.decode('latin-1')


def main():
    ck = vlib.Check('C12')
    ck.coq()
    b = ck.build()
    tool = vlib.harness(b, 'dbtool', ['dbtool.cxx'])
    wd = vlib.workdir(b, 'c12')
    rng = ck.rng
    fl = dbfile.flags(b['src'])

    # ------------- stream A: databases interrogate itself produces ----------------------
    nA = ck.scale(25, 300)
    real_files = []
    for i in range(nA):
        lib = headers.Lib(rng, nclasses=rng.randrange(1, 5))
        hp = os.path.join(wd, 'a%d.h' % i)
        open(hp, 'w').write(lib.render())
        opts = rng.choice([['-c', '-fnames'], ['-python', '-fnames'], ['-c', '-fnames', '-promiscuous'], ['-c', '-python', '-fnames', '-string'], ['-c', '-fptrs', '-unique-names']])
        dbp = os.path.join(wd, 'a%d.in' % i)
        p = vlib.sh([b['interrogate'], '-DCPPPARSER', '-oc', os.path.join(wd, 'a.cxx'), '-od', dbp, '-module', 'mod%d' % i, '-library', 'lib%d' % i] + opts + [hp], cwd=wd)
        ck.count()
        ck.dist('real-db')
        if p.returncode != 0:
            continue
        data = open(dbp, 'rb').read()
        real_files.append((dbp, data))
        ident = int(data.split()[0])
        # model reads the real file and re-writes it: byte identical (model codec = real writer)
        m = vlib.run_model('C12', 'load', ['(%d %s)' % (ident, data.hex())])[0]
        flag, dbs = m.split(' ', 1)
        if flag != '0' or dbs == 'none':
            ck.violation('corr_C12_read_real', 'model cannot read a database written by interrogate', {'kind': 'correspondence', 'file_hex': data.hex()[:4000], 'model': m[:200]}, nofail=True)
            continue
        back = bytes.fromhex(vlib.run_model('C12', 'write', ['(%d 3 %s)' % (ident, dbs)])[0])
        if back != data:
            ck.violation('corr_C12_write_real', 'model re-serialisation differs from the bytes interrogate wrote', {'kind': 'correspondence', 'header': lib.render(), 'opts': opts}, nofail=True)
            continue
        # library reads and re-writes: identical bytes, error flag clear
        d0 = dbfile.parse(data, fl['Type.F_array'])
        rc, err, out = dbtool_rewrite(tool, ident, dbp, {'DBTOOL_LIB': d0['library_name'], 'DBTOOL_HASH': d0['library_hash_name'], 'DBTOOL_MOD': d0['module_name']})
        if rc != 0 or err != 0 or out != data:
            ck.spec_failure('roundtrip:real', 'library read+write of an interrogate database is not the identity (rc=%s err=%s)' % (rc, err),
                            {'kind': 'spec', 'header': lib.render(), 'opts': opts, 'cmd': 'interrogate ...; dbtool rewrite'})
        else:
            ck.nontrivial('real%d' % i)

    # ------------- stream B: synthetic databases, every minor format -------------------
    nB = ck.scale(120, 2500)
    n_minor = {0: 0, 1: 0, 2: 0, 3: 0}
    for i in range(nB):
        g = dbgen.DbGen(rng, fl, adversarial=True)
        db = g.make()
        minor = rng.choice([3, 3, 0, 1, 2])
        ident = rng.choice([1, 7, 1790896052, 2147483647])
        sx = dbgen.sexp(db)
        hexfile = vlib.run_model('C12', 'write', ['(%d %d %s)' % (ident, minor, sx)])[0]
        data = bytes.fromhex(hexfile)
        path = os.path.join(wd, 'b%d.in' % i)
        open(path, 'wb').write(data)
        ck.count()
        ck.dist('synthetic-minor%d' % minor)
        n_minor[minor] += 1
        # what the model says loading gives, re-written in the current format
        m = vlib.run_model('C12', 'load', ['(%d %s)' % (ident, hexfile)])[0]
        flag, dbs = m.split(' ', 1)
        if flag != '0' or dbs == 'none':
            ck.violation('thm-instance', 'model load of model-written file fails (contradicts c12_roundtrip/c12_old_minor)', {'kind': 'proof', 'theorems': ['c12_roundtrip', 'c12_old_minor'], 'db': sx[:3000]}, nofail=True)
            continue
        expect = bytes.fromhex(vlib.run_model('C12', 'write', ['(%d 3 %s)' % (ident, dbs)])[0])
        env = {'DBTOOL_LIB': db['lib'].decode('latin-1'), 'DBTOOL_HASH': db['libhash'].decode('latin-1'), 'DBTOOL_MOD': db['module'].decode('latin-1')}
        rc, err, out = dbtool_rewrite(tool, ident, path, env)
        if rc != 0 or err != 0:
            ck.spec_failure('load:minor%d' % minor, 'library fails to load a valid 3.%d file (rc=%s errflag=%s)' % (minor, rc, err),
                            {'kind': 'spec', 'file_hex': hexfile, 'cmd': 'dbtool rewrite %d file' % ident})
            continue
        if out != expect:
            # locate first differing byte for the report
            k = next((j for j, (x, y) in enumerate(zip(out, expect)) if x != y), min(len(out), len(expect)))
            ck.spec_failure('roundtrip:minor%d' % minor, 'library re-serialisation of a 3.%d file differs from the database written (first difference at byte %d: %r vs %r)'
                            % (minor, k, out[max(0, k - 30):k + 20], expect[max(0, k - 30):k + 20]),
                            {'kind': 'spec', 'file_hex': hexfile, 'cmd': 'dbtool rewrite %d file' % ident, 'expected_hex': expect.hex()[:6000]})
            continue
        # answers every query identically: query dump of the original and of the re-written file
        p2 = os.path.join(wd, 'b%d.out.in' % i)
        open(p2, 'wb').write(out)
        q1 = dbtool_query(tool, path)
        q2 = dbtool_query(tool, p2)
        if q1 != q2:
            ck.spec_failure('query:minor%d' % minor, 'queries differ between a file and its re-serialisation', {'kind': 'spec', 'file_hex': hexfile})
            continue
        ck.nontrivial('syn%d' % i)
        if len(ck.cov['samples']) < 2:
            ck.sample({'minor': minor, 'entities': dbgen.size(db), 'file_prefix': data[:160].decode('latin-1')})

    # ------------- stream C: version gate / identifier -----------------------------------
    gate = []
    for major, minor in [(2, 3), (4, 0), (3, 4), (3, 99), (0, 0), (-3, 3)]:
        gate.append((major, minor))
    base = real_files[0][1] if real_files else data
    parts = base.split(b'\n', 2)
    for major, minor in gate:
        f = parts[0] + b'\n' + ('%d %d' % (major, minor)).encode() + b'\n' + parts[2]
        path = os.path.join(wd, 'gate.in')
        open(path, 'wb').write(f)
        ident = int(parts[0])
        m = vlib.run_model('C12', 'load', ['(%d %s)' % (ident, f.hex())])[0]
        rc, err, out = dbtool_rewrite(tool, ident, path)
        ck.count()
        ck.dist('version-gate')
        empty = out.count(b'\n') <= 12 and b'\n0\n0\n0\n0\n0\n0\n' in out
        if err != 1 or not empty:
            ck.spec_failure('gate:%d.%d' % (major, minor), 'file of version %d.%d: error flag %s, merged=%s' % (major, minor, err, not empty),
                            {'kind': 'spec', 'file_hex': f.hex()[:3000], 'cmd': 'dbtool rewrite'})
        elif not m.startswith('1 none'):
            ck.violation('corr_C12_gate', 'model accepts version %d.%d' % (major, minor), {'kind': 'correspondence', 'model': m[:100]}, nofail=True)
        else:
            ck.nontrivial('gate%d.%d' % (major, minor))
    # identifier mismatch
    ident = int(parts[0])
    path = os.path.join(wd, 'id.in')
    open(path, 'wb').write(base)
    rc, err, out = dbtool_rewrite(tool, ident + 1, path)
    ck.count()
    if err != 1:
        ck.spec_failure('ident-mismatch', 'file identifier mismatch not reported through the error flag', {'kind': 'spec', 'cmd': 'dbtool rewrite <ident+1> file'})

    # ------------- stream D: every prefix of valid files ---------------------------------
    pref_files = [d for _, d in real_files[:ck.scale(2, 12)]]
    pref_files += [open(os.path.join(wd, 'b%d.in' % i), 'rb').read() for i in range(min(ck.scale(3, 30), nB))]
    jobs = []
    for fi, d in enumerate(pref_files):
        cuts = range(len(d)) if len(d) <= ck.scale(1500, 8000) else sorted(set(rng.sample(range(len(d)), ck.scale(1500, 8000))))
        for c in cuts:
            jobs.append((fi, c))
    full_out = {}

    def run_prefix(job):
        fi, c = job
        d = pref_files[fi]
        path = os.path.join(wd, 'p_%d_%d.in' % (fi, c))
        open(path, 'wb').write(d[:c])
        try:
            ident = int(d.split()[0])
            r = dbtool_rewrite(tool, 0, path, timeout=10)
        finally:
            os.unlink(path)
        return r

    with ThreadPoolExecutor(vlib.NCPU) as ex:
        results = list(ex.map(run_prefix, jobs))
    # model on the same prefixes (one batch)
    mres = vlib.run_model('C12', 'load', ['(0 %s)' % pref_files[fi][:c].hex() for fi, c in jobs], timeout=3000)
    nbad = 0
    for (fi, c), (rc, err, out), m in zip(jobs, results, mres):
        ck.count()
        ck.dist('prefix')
        d = pref_files[fi]
        if rc != 0:
            ck.spec_failure('truncated:crash', 'library crashed/hung (rc=%s) on a %d-byte prefix of a valid %d-byte file' % (rc, c, len(d)),
                            {'kind': 'spec', 'file_hex': d[:c].hex(), 'cmd': 'dbtool rewrite 0 file'})
            nbad += 1
            continue
        merged_empty = b'\n0\n0\n0\n0\n0\n0\n' in out
        complete = (not merged_empty) and err == 0
        # a strict prefix either raises the error flag and merges nothing, or (only trailing whitespace lost) loads completely
        if err == 1 and not merged_empty:
            ck.spec_failure('truncated:half-merged', 'error flag set but part of the truncated file was merged (cut at %d of %d)' % (c, len(d)),
                            {'kind': 'spec', 'file_hex': d[:c].hex(), 'cmd': 'dbtool rewrite 0 file'})
        elif err == 0 and len(d[c:].strip()) > 0:
            ck.spec_failure('truncated:accepted', 'truncated file (cut at %d of %d) loaded without error flag' % (c, len(d)),
                            {'kind': 'spec', 'file_hex': d[:c].hex(), 'cmd': 'dbtool rewrite 0 file'})
        else:
            model_ok = m.startswith('0 ') and not m.startswith('0 none')
            if model_ok != (err == 0):
                ck.violation('corr_C12_prefix', 'model and library disagree on a prefix (cut %d of %d): model %s, library errflag %s' % (c, len(d), m[:20], err),
                             {'kind': 'correspondence', 'file_hex': d[:c].hex()}, nofail=True)
            elif c % 7 == 0:
                ck.nontrivial('prefix%d_%d' % (fi, c))
    ck.cov['streams'] = {'real_databases': len(real_files), 'synthetic': nB, 'synthetic_by_minor': n_minor, 'prefixes': len(jobs), 'version_gate_cases': len(gate) + 1}
    ck.cov['rule'] = ('(A) databases written by interrogate for random class libraries and option sets; (B) synthetic closed databases with adversarial strings '
                      '(spaces, newlines, quotes, empty, bytes >= 0x80, digit strings) and random flag/field combinations written by the extracted model in minor 0..3; '
                      '(C) version/identifier gate; (D) every prefix of valid files. Non-trivial = distinct database/prefix that exercised the full comparison')
    ck.assumptions += ['dbtool (harness) drives libinterrogatedb through interrogate_request_module + InterrogateDatabase::write and the C query interface']
    # the error flag is part of the query interface: asked as the very first query after a request it must already report a bad file
    ck.count()
    if STALE_FLAG:
        pth, first, after = STALE_FLAG[0]
        ck.spec_failure('error-flag:stale-as-first-query', 'interrogate_error_flag() as the first query after requesting %s answers %d, after another query %d (%d such runs)' %
                        (os.path.basename(pth), first, after, len(STALE_FLAG)), {'kind': 'spec', 'cmd': 'dbtool rewrite <ident> <file>: ERRFIRST vs ERR', 'file_hex': open(pth, 'rb').read().hex()[:2000] if os.path.exists(pth) else None})
    ck.finish()


if __name__ == '__main__':
    main()
