#!/usr/bin/env python3
"""C16 — module initialisation registers every library once, base classes first.

model : coq/C16 run_order (pass loop, DFS cycle search, edge removal) — proved: each library once, every unbroken
        dependency respected, no edge broken in an acyclic graph
impl  : interrogate -python-native per library + interrogate_module -python-native on the .in files
"""
import itertools
import os
import re
import shutil
import subprocess
import sys
from concurrent.futures import ThreadPoolExecutor

sys.path.insert(0, os.path.dirname(os.path.dirname(os.path.abspath(__file__))))
import vlib
from vlib import dbfile

NAMES = ['liba', 'libb', 'libc', 'libd', 'libe', 'libf']


def make_module(b, root, k, edges, typedef_edges=()):
    """k libraries, one class each; (i, j) in edges: class of lib i derives from class of lib j.
    typedef_edges: lib i has a typedef of lib j's class.  Each library in its own directory."""
    shutil.rmtree(root, ignore_errors=True)
    os.makedirs(root)
    ins = []
    for i in range(k):
        d = os.path.join(root, NAMES[i])
        os.makedirs(d)
        bases = [j for (a, j) in edges if a == i]
        tds = [j for (a, j) in typedef_edges if a == i]
        # a header may not include a header that (transitively) includes it: cycles use forward declared
        # bases in a second class, so every library still DEFINES its own class C<i>
        lines = ['#ifndef H%d' % i, '#define H%d' % i]
        for j in sorted(set(bases + tds)):
            lines.append('#include "h%d.h"' % j)
        lines.append('class C%d%s {' % (i, (' : ' + ', '.join('public C%d' % j for j in bases)) if bases else ''))
        lines += ['PUBLISHED:', '  C%d();' % i, '  int get_%d() const;' % i, '};']
        for j in tds:
            lines.append('BEGIN_PUBLISH')
            lines.append('typedef C%d T%d_%d;' % (j, i, j))
            lines.append('END_PUBLISH')
        lines.append('#endif')
        open(os.path.join(d, 'h%d.h' % i), 'w').write('\n'.join(lines) + '\n')
    return root


def main():
    ck = vlib.Check('C16')
    ck.coq()
    b = ck.build()
    wd = vlib.workdir(b, 'c16')
    rng = ck.rng

    # graphs: all digraphs on <= 3 libraries (exhaustive) + random ones on up to 6
    graphs = []
    for k in (1, 2, 3):
        pairs = [(i, j) for i in range(k) for j in range(k) if i != j]
        for r in range(len(pairs) + 1):
            for es in itertools.combinations(pairs, r):
                graphs.append((k, list(es), 'exhaustive'))
    if ck.tier != 'thorough':
        rng.shuffle(graphs)
        # every graph on three libraries with at most two edges (all labelings of chains, fans and single edges: the order in which the map iterates
        # depends on the names) plus a sample of the denser ones
        keep = [g for g in graphs if g[0] < 3] + [g for g in graphs if g[0] == 3 and len(g[1]) <= 2] + [g for g in graphs if g[0] == 3 and len(g[1]) > 2][:12]
        graphs = keep
    for _ in range(ck.scale(25, 400)):
        k = rng.choice([4, 5, 6])
        pairs = [(i, j) for i in range(k) for j in range(k) if i != j]
        es = [p for p in pairs if rng.random() < rng.choice([0.1, 0.2, 0.35])]
        graphs.append((k, es, 'random'))

    def run(idx):
        k, edges, kind = graphs[idx]
        root = os.path.join(wd, 'g%d' % idx)
        # Every library i defines a base class B<i> (base<i>.h); for each dependency edge i->j it also defines, in its own
        # header d<i>_<j>.h, a class that derives from B<j> (inheritance edge) or a typedef of B<j> (typedef edge).
        # File-level includes are acyclic whatever the library graph is.
        # A typedef edge cannot be produced with interrogate alone (a typedef of a class of another package is exported only under `forcetype`,
        # which also exports the class): library i then merely USES the class (a parameter type, so that its database holds a stub of it) and a
        # global typedef record wrapping that stub is appended to the database text afterwards, exactly as interrogate writes such records.
        inherit, tdef = [], []
        for n_e, (i, j) in enumerate(edges):
            (tdef if (idx + n_e) % 3 == 2 else inherit).append((i, j))
        # in an acyclic graph every second module uses chains of derived classes: the class of library i that realises the edge i->j derives
        # from the class of library j that realises j's first edge (Leaf : Mid : Top), so that a library holds only a stub of the class
        # that carries the next edge
        def is_acyclic():
            state = {}

            def visit(u):
                if state.get(u) == 1:
                    return False
                if state.get(u) == 2:
                    return True
                state[u] = 1
                for (a, c) in edges:
                    if a == u and not visit(c):
                        return False
                state[u] = 2
                return True
            return all(visit(u) for u in range(k))
        deep = idx % 2 == 0 and is_acyclic() and not tdef

        def base_of(j):
            nxt = [c for (a, c) in edges if a == j]
            if deep and nxt:
                return 'D%d_%d' % (j, nxt[0]), 'd%d_%d.h' % (j, nxt[0])
            return 'B%d' % j, 'base%d.h' % j
        PRE = ['#ifndef CPPPARSER', '#define PUBLISHED public', '#define BEGIN_PUBLISH', '#define END_PUBLISH', '#else',
               '#define PUBLISHED __published', '#define BEGIN_PUBLISH __begin_publish', '#define END_PUBLISH __end_publish', '#endif']
        os.makedirs(root, exist_ok=True)
        ins = []
        files = {}
        for i in range(k):
            d = os.path.join(root, NAMES[i])
            os.makedirs(d, exist_ok=True)
            files[i] = ['base%d.h' % i]
            open(os.path.join(d, 'base%d.h' % i), 'w').write('\n'.join(['#ifndef GUARD_BASE%d' % i, '#define GUARD_BASE%d' % i] + PRE + [
                'class B%d {' % i, 'PUBLISHED:', '  B%d();' % i, '  virtual ~B%d();' % i, '  int get_%d() const;' % i, '};', '#endif']) + '\n')
            for (a, j) in edges:
                if a != i:
                    continue
                fn = 'd%d_%d.h' % (i, j)
                files[i].append(fn)
                bcls, bhdr = base_of(j)
                body = ['#ifndef GUARD_D%d_%d' % (i, j), '#define GUARD_D%d_%d' % (i, j)] + PRE + ['#include "%s"' % bhdr]
                if (i, j) in inherit:
                    body += ['class D%d_%d : public %s {' % (i, j, bcls), 'PUBLISHED:', '  D%d_%d();' % (i, j), '  int extra_%d_%d();' % (i, j), '};']
                else:
                    body += ['class U%d_%d {' % (i, j), 'PUBLISHED:', '  U%d_%d();' % (i, j), '  int use_%d_%d(const %s &t) const;' % (i, j, bcls), '};']
                body.append('#endif')
                open(os.path.join(d, fn), 'w').write('\n'.join(body) + '\n')
        for i in range(k):
            d = os.path.join(root, NAMES[i])
            incs = []
            for j in range(k):
                if j != i:
                    incs += ['-I', os.path.join(root, NAMES[j])]
            p = vlib.sh([b['interrogate'], '-DCPPPARSER', '-oc', 'l.cxx', '-od', NAMES[i] + '.in', '-module', 'mod', '-library', NAMES[i], '-python-native'] + incs + files[i], cwd=d)
            if p.returncode != 0:
                return ('interrogate-failed', p.stdout[-400:], inherit, tdef)
            ins.append(os.path.join(d, NAMES[i] + '.in'))
            # append the typedef records of this library
            for (a, j) in tdef:
                if a != i:
                    continue
                txt = open(ins[-1]).read()
                db_ = dbfile.load(ins[-1], b['src'])
                stub = [ti for ti, t in db_['types'].items() if t['name'] == 'B%d' % j]
                nt = len(db_['types'])
                mx = max(list(db_['types']) + list(db_['functions']) + list(db_['wrappers']))
                first = min(db_['types'])
                lines_ = txt.split('\n')
                at = [n_ for n_, l_ in enumerate(lines_) if l_.startswith('%d ' % first) and n_ > 0 and lines_[n_ - 1] == str(nt)]
                if len(stub) != 1 or len(at) != 1 or not txt.endswith('0\n0\n0\n'):
                    return ('interrogate-failed', 'cannot append a typedef record to %s (stub %s, count line %s)' % (ins[-1], stub, at), inherit, tdef)
                lines_[at[0] - 1] = str(nt + 1)
                nm = 'T%d_%d' % (i, j)
                rec = '%d %d %s 0 %d %d %s %d %s 0 0 %d 0 0 0 0 0 0 0 0 0 0\n' % (mx + 1, len(nm), nm, 0x202001, len(nm), nm, len(nm), nm, stub[0])
                txt = '\n'.join(lines_)
                txt = txt[:-len('0\n0\n0\n')] + rec + '\n' + '0\n0\n0\n'
                open(ins[-1], 'w').write(txt)
        outs = []
        perms = list(itertools.permutations(range(k))) if k <= 3 else [tuple(range(k)), tuple(reversed(range(k))), tuple(rng.sample(range(k), k))]
        for perm in perms:
            oc = os.path.join(root, 'mod_%s.cxx' % ''.join(map(str, perm)))
            try:
                p = subprocess.run([b['interrogate_module'], '-python-native', '-module', 'mod', '-library', 'mod', '-oc', oc] + [ins[i] for i in perm],
                                   stdout=subprocess.PIPE, stderr=subprocess.PIPE, text=True, timeout=20, cwd=root)
            except subprocess.TimeoutExpired:
                outs.append((perm, 'timeout', [], [], [], False))
                continue
            libs = re.findall(r'Referencing Library (\w+)', p.stdout)
            text = open(oc).read() if os.path.exists(oc) else ''
            reg = re.findall(r'  Dtool_(\w+)_RegisterTypes\(\);', text.split('#else  // Python 2 case')[0])
            defs = re.findall(r'&(\w+)_moddef', text.split('#else  // Python 2 case')[0])
            outs.append((perm, p.returncode, libs, reg, defs, 'Circular dependency' in p.stderr))
        return ('ok', outs, inherit, tdef)

    with ThreadPoolExecutor(vlib.NCPU) as ex:
        results = list(ex.map(run, range(len(graphs))))

    def evaluate(graph_list, result_list):
        for (k, edges, kind), res in zip(graph_list, result_list):
            ck.count()
            ck.dist('%s:k=%d' % (kind, k))
            if res[0] != 'ok':
                ck.violation('corr_C16_run', 'interrogate failed while building a module: ' + res[1][:200], {'kind': 'correspondence', 'edges': edges}, nofail=True)
                continue
            _, outs, inherit, tdef = res
            # dependency graph as interrogate_module sees it: library i depends on j for inheritance and typedef edges
            g = {i: sorted(set(j for (a, j) in edges if a == i)) for i in range(k)}
            sx = '(' + ' '.join('(%d (%s))' % (i, ' '.join(map(str, g[i]))) for i in range(k)) + ')'
            m = vlib.run_model('C16', 'order', [sx])[0]
            mlibs = [NAMES[int(x)] for x in m.split('|')[0].replace('libs:', '').split()]
            removed = m.split('removed:')[1].split()
            cyclic = bool(removed)
            replay = {'kind': 'spec', 'k': k, 'edges(derived->base)': edges, 'inheritance_edges': inherit, 'typedef_edges': tdef,
                      'cmd': 'interrogate -python-native per library; interrogate_module -python-native -oc mod.cxx <.in files>'}
            for perm, rc, libs, reg, defs, circ in outs:
                rp = dict(replay, command_line_order=[NAMES[i] for i in perm], referencing=libs, register_calls=reg)
                if rc == 'timeout':
                    # the model of the loop terminates on every graph (c16_terminates): the tool does not
                    ck.spec_failure('hang', 'interrogate_module does not terminate (20 s) on a module whose ordering loop terminates in the model', rp)
                    continue
                if rc != 0:
                    ck.spec_failure('exit', 'interrogate_module failed (status %d) on loadable databases' % rc, rp)
                    continue
                # --- specification ---
                if sorted(libs) != sorted(NAMES[:k]) or sorted(reg) != sorted(NAMES[:k]) or sorted(defs) != sorted(NAMES[:k]):
                    ck.spec_failure('each-once', 'libraries referenced %s / registered %s: not each of %s exactly once' % (libs, reg, NAMES[:k]), rp)
                    continue
                if reg != libs or defs != libs:
                    ck.spec_failure('order-consistent', 'RegisterTypes order %s differs from the library order %s' % (reg, libs), rp)
                    continue
                if not cyclic:
                    bad = [(i, j) for (i, j) in edges if libs.index(NAMES[j]) > libs.index(NAMES[i])]
                    if bad:
                        ck.spec_failure('topological', 'library %s is initialised before %s although its class derives from / is a typedef of it' % (NAMES[bad[0][0]], NAMES[bad[0][1]]), rp)
                        continue
                    if circ:
                        ck.spec_failure('false-cycle', 'a circular dependency was reported for an acyclic module', rp)
                        continue
                else:
                    if not circ:
                        ck.spec_failure('cycle-not-reported', 'a dependency cycle was not reported', rp)
                        continue
                    # only dependencies that lie on a cycle may be broken: a violated edge i->j needs a path j ->* i
                    reach = {x: {x} for x in range(k)}
                    changed = True
                    while changed:
                        changed = False
                        for (x, y) in edges:
                            new = reach[y] - reach[x]
                            if new:
                                reach[x] |= new
                                changed = True
                    bad = [(i, j) for (i, j) in edges if libs.index(NAMES[j]) > libs.index(NAMES[i]) and i not in reach[j]]
                    if bad:
                        ck.spec_failure('topological', 'library %s is initialised before %s, which it depends on, although that dependency is on no cycle' % (NAMES[bad[0][0]], NAMES[bad[0][1]]), rp)
                        continue
                # --- correspondence: exact order ---
                if libs != mlibs:
                    ck.violation('corr_C16_order', 'order %s, model %s' % (libs, mlibs), dict(rp, kind='correspondence', model=mlibs), nofail=True)
                else:
                    ck.nontrivial('%s|%s|%s' % (k, edges, perm))
            if len(ck.cov['samples']) < 3 and k >= 3 and edges:
                ck.sample({'libraries': NAMES[:k], 'edges(derived->base)': edges, 'order': outs[0][2], 'cyclic': cyclic})

    evaluate(graphs, results)
    if any(v[0].startswith('corr_C16') for v in ck.violations) and not any(not v[3] for v in ck.violations):
        # the model no longer describes the code: search for an input on which the PROPERTY fails (denser cyclic graphs on 4-5 libraries)
        base = len(graphs)
        pairs3 = [(i, j) for i in range(3) for j in range(3) if i != j]
        for r_ in range(len(pairs3) + 1):
            for es in itertools.combinations(pairs3, r_):
                graphs.append((3, list(es), 'search'))
        for _ in range(ck.scale(240, 1500)):
            k = rng.choice([4, 4, 5])
            pairs = [(i, j) for i in range(k) for j in range(k) if i != j]
            graphs.append((k, [p for p in pairs if rng.random() < rng.choice([0.25, 0.35, 0.45])], 'search'))
        with ThreadPoolExecutor(vlib.NCPU) as ex:
            more = list(ex.map(run, range(base, len(graphs))))
        evaluate(graphs[base:], more)
        ck.cov['streams'] = dict(ck.cov.get('streams', {}), search_after_correspondence_break=len(more))

    # ---------------- a database that fails to load: non-zero exit, no output file ------------------
    k, edges, _ = 2, [(0, 1)], None
    graphs.append((k, edges, 'fault'))
    res = None
    root = os.path.join(wd, 'g0')
    ins = [os.path.join(root, NAMES[i], NAMES[i] + '.in') for i in range(graphs[0][0])]
    if ins and os.path.exists(ins[0]):
        good = open(ins[0], 'rb').read()
        for label, data, position in [(l_, d_, pos_) for (l_, d_) in (('missing', None), ('truncated', good[:len(good) // 2]), ('newer-major', good.replace(b'\n3 3\n', b'\n4 0\n', 1)), ('garbage', b'not a database\n'))
                                      for pos_ in ('alone', 'before-good', 'after-good')]:
            bad = os.path.join(root, 'bad.in')
            if data is None:
                if os.path.exists(bad):
                    os.unlink(bad)
            else:
                open(bad, 'wb').write(data)
            oc = os.path.join(root, 'bad.cxx')
            if os.path.exists(oc):
                os.unlink(oc)
            files_ = {'alone': [bad], 'before-good': [bad, ins[0]], 'after-good': [ins[0], bad]}[position]
            label = label + ':' + position
            p = subprocess.run([b['interrogate_module'], '-python-native', '-module', 'mod', '-library', 'mod', '-oc', oc] + files_,
                               stdout=subprocess.PIPE, stderr=subprocess.PIPE, text=True, timeout=60, cwd=root)
            ck.count()
            ck.dist('load-failure')
            if p.returncode == 0 or os.path.exists(oc):
                ck.spec_failure('load-failure:' + label, 'database %s: exit status %d, output file %s' % (label, p.returncode, 'left behind' if os.path.exists(oc) else 'absent'),
                                {'kind': 'spec', 'cmd': 'interrogate_module -python-native -oc bad.cxx bad.in', 'case': label})
            else:
                ck.nontrivial('fault' + label)
    ck.cov['rule'] = ('every digraph of cross-library inheritance/typedef dependencies on <= 3 libraries (quick: all on <= 2, a sample of 3) and random digraphs on 4..6 libraries, each built by '
                      'real interrogate runs (one directory per library) and linked by interrogate_module with the .in files in every command-line order (k<=3) or 3 orders; '
                      'non-trivial = distinct (graph, order) whose output equals the model order')
    ck.assumptions += ['library names are chosen so that name order = numeric order of the model keys (std::map iteration order)']
    ck.finish()


if __name__ == '__main__':
    main()
