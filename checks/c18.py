#!/usr/bin/env python3
"""C18 — floating-point literals keep their value from header to generated code.

model : coq/C18 pdtoa (Grisu2 with explicit 64-bit arithmetic, extracted) — proved: Prettify exact, table accurate, index window
impl  : pdtoa / pstrtod of libdtoolbase through harness/dtoa_tool; interrogate end to end (default arguments)
oracle: CPython float() / repr() (correctly rounded conversions) and glibc strtod
"""
import os
import re
import struct
import subprocess
import sys

sys.path.insert(0, os.path.dirname(os.path.dirname(os.path.abspath(__file__))))
import vlib


def bits_of(d):
    return struct.unpack('<Q', struct.pack('<d', d))[0]


def dbl(bits):
    return struct.unpack('<d', struct.pack('<Q', bits))[0]


def gen_doubles(rng, n):
    out = []
    specials = [0.1, 0.2, 0.3, 0.5, 1.0, 2.0, 1e21, 1e22, 1e23, 9.999999999999999e22, 5e-324, 2.2250738585072014e-308, 2.225073858507201e-308,
                1.7976931348623157e308, 123456.789, 1e-7, 1e-6, 0.001, 9.5, 4.35, 0.000001, 1e-5, 299792458.0, 6.02214076e23, 1e15, 1e16, 1e17, 123456789012345680.0,
                9007199254740993.0, 9007199254740992.0, 4.9406564584124654e-324, 1.0000000000000002, 0.9999999999999999]
    for s in specials:
        out.append(bits_of(s))
        out.append(bits_of(-s))
    while len(out) < n:
        r = rng.random()
        if r < 0.25:
            b = rng.getrandbits(64)
        elif r < 0.35:
            b = rng.getrandbits(52)                        # subnormals
        elif r < 0.45:
            b = bits_of(float(2 ** rng.randrange(-1070, 1023))) + rng.choice([-1, 0, 1])      # neighbours of powers of two
        elif r < 0.6:
            b = bits_of(float(10 ** rng.randrange(0, 22)) * rng.choice([1, 3, 7]))
        elif r < 0.8:
            b = bits_of(float(rng.randrange(1, 10 ** rng.randrange(1, 18))) / 10 ** rng.randrange(0, 15))
        else:
            # float32 values (every float is a double)
            b = bits_of(struct.unpack('<f', struct.pack('<I', rng.getrandbits(32) & 0x7f7fffff))[0])
        e = (b >> 52) & 0x7ff
        if e == 0x7ff:
            continue
        out.append(b)
    return out[:n]


def literal_family(s):
    m = re.match(r'^(\d*)\.?(\d*)(?:[eE]([+-]?\d+))?$', s)
    if not m:
        return 'other'
    ip, fp, ex = m.groups()
    if fp and ex:
        return 'fraction+exponent'
    if fp:
        return 'fraction'
    if ex:
        return 'exponent'
    return 'integer'


def main():
    ck = vlib.Check('C18')
    ck.coq()
    b = ck.build()
    wd = vlib.workdir(b, 'c18')
    rng = ck.rng
    tool = vlib.harness(b, 'dtoa_tool', ['dtoa_tool.cxx'], libs=(), extra=[os.path.join(b['lib'], 'libdtoolbase.a')])

    # ---------------- stream A: the formatter: exact text = model, and round trip through a correctly rounded parser ----
    n_model = ck.scale(4000, 60000)
    n_rt = ck.scale(300000, 6000000)
    vals = gen_doubles(rng, n_rt)
    hx = ['%016x' % v for v in vals]
    p = subprocess.run([tool], input=''.join('d %s\n' % h for h in hx), text=True, stdout=subprocess.PIPE, timeout=3000)
    impl = p.stdout.splitlines()
    model = vlib.run_model('C18', 'dtoa', hx[:n_model], timeout=3000)
    for i, (h, a) in enumerate(zip(hx, impl)):
        ck.count()
        d = dbl(int(h, 16))
        rp = {'kind': 'spec', 'stdin': 'd ' + h, 'cmd': 'dtoa_tool', 'double': repr(d), 'pdtoa': a}
        try:
            back = float(a)
        except ValueError:
            back = None
        if back is None or bits_of(back) != (int(h, 16) if d != 0 else bits_of(back)):
            ck.spec_failure('pdtoa:roundtrip', 'pdtoa(%r) = %r, which a correctly rounded parser reads as %r' % (d, a, back), rp)
            continue
        if i < n_model:
            if model[i] != a:
                ck.violation('corr_C18_pdtoa', 'pdtoa(%s) = %r, model %r' % (h, a, model[i]), dict(rp, kind='correspondence', model=model[i]), nofail=True)
                continue
            ck.nontrivial('d' + h)
        # shortest? (Grisu2 is not always shortest; no claim)
    ck.dist('pdtoa:model-compared', n_model)
    ck.dist('pdtoa:roundtrip-only', n_rt - n_model)
    for h, a in list(zip(hx, impl))[60:64]:
        ck.sample({'bits': h, 'pdtoa': a})

    # ---------------- stream B: the locale independent parser vs correctly rounded conversion -------------------
    lits = []
    for _ in range(ck.scale(4000, 80000)):
        r = rng.random()
        if r < 0.3:     # the fragment on which the naive algorithm is exact: up to 15 digits, no fraction, |exp| <= 22
            s = str(rng.randrange(0, 10 ** rng.randrange(1, 16)))
            if rng.random() < 0.5:
                s += 'e%d' % rng.randrange(0, 23 - 0)
            lits.append(('exact-fragment', s))
        elif r < 0.6:
            s = '%d.%s' % (rng.randrange(0, 1000), ''.join(rng.choice('0123456789') for _ in range(rng.randrange(1, 18))))
            lits.append(('fraction', s))
        elif r < 0.8:
            s = '%d.%se%d' % (rng.randrange(0, 10), ''.join(rng.choice('0123456789') for _ in range(rng.randrange(1, 17))), rng.randrange(-320, 309))
            lits.append(('fraction+exponent', s))
        else:
            lits.append(('pdtoa-output', impl[rng.randrange(len(impl))].lstrip('-')))
    p = subprocess.run([tool], input=''.join('s %s\n' % s for _, s in lits), text=True, stdout=subprocess.PIPE, timeout=3000)
    got = p.stdout.splitlines()
    n_exact_ok = 0
    for (fam, s), g in zip(lits, got):
        ck.count()
        ck.dist('pstrtod:' + fam)
        try:
            want = bits_of(float(s))
        except (ValueError, OverflowError):
            continue
        rp = {'kind': 'spec', 'stdin': 's ' + s, 'cmd': 'dtoa_tool', 'literal': s, 'pstrtod_bits': g, 'correctly_rounded_bits': '%016x' % want}
        if int(g, 16) != want:
            if fam == 'exact-fragment':
                # inside the fragment the algorithm is exact (one rounding): a failure here is new
                mexp = re.search(r'e(\d+)$', s)
                nd = len(s.split('e')[0])
                if nd <= 15 and (not mexp or int(mexp.group(1)) <= 22):
                    ck.spec_failure('pstrtod:exact-fragment', 'pstrtod(%r) differs from the correctly rounded value although mantissa and power of ten are exact doubles' % s, rp)
                    continue
            ck.spec_failure('pstrtod:not-correctly-rounded', 'pstrtod(%r) = %r, correctly rounded value %r' % (s, dbl(int(g, 16)), float(s)), rp)
        else:
            if fam == 'exact-fragment':
                n_exact_ok += 1
                ck.nontrivial('s' + s)

    # ---------------- stream C: end to end: default arguments in generated code ------------------------------------
    consts = ['0.5', '0.25', '2.0', '1e10', '1.5e3', '100.0', '0.125', '3.0', '65536.0', '1e-2', '0.1', '0.3', '1e23', '123.456', '1.0', '4.0', '6e0', '5e3', '1e4', '625.0', '1e100', '25e103']
    # which of them the literal parser itself gets right (then a wrong value in the generated code has another cause)
    pp = subprocess.run([tool], input=''.join('s %s\n' % c for c in consts), text=True, stdout=subprocess.PIPE, timeout=300).stdout.splitlines()
    parser_right = {c: (int(g, 16) == bits_of(float(c))) for c, g in zip(consts, pp)}
    src = '#ifndef CPPPARSER\n#define __published public\n#endif\nclass Lit {\n__published:\n' + \
        ''.join('  double f%d(double x = %s);\n' % (i, c) for i, c in enumerate(consts)) + '};\n'
    open(os.path.join(wd, 'lit.h'), 'w').write(src)
    p = vlib.sh([b['interrogate'], '-DCPPPARSER', '-oc', 'lit.cxx', '-od', 'lit.in', '-module', 'm', '-library', 'l', '-c', '-fnames', 'lit.h'], cwd=wd)
    code = open(os.path.join(wd, 'lit.cxx')).read() if p.returncode == 0 else ''
    for i, c in enumerate(consts):
        ck.count()
        ck.dist('end-to-end')
        # the wrapper with the default omitted mentions the default in its comment: "double Lit::f3(double x = 10000000000.0)"
        m = re.search(r'Lit::f%d\(double x = ([^)]*)\)' % i, code)
        if not m:
            continue
        printed = m.group(1)
        try:
            same = bits_of(float(printed)) == bits_of(float(c))
        except ValueError:
            same = False
        rp = {'kind': 'spec', 'header': src, 'cmd': 'interrogate -DCPPPARSER -c -fnames -oc h.cxx -od h.in -module m -library l h.h', 'literal': c, 'printed_in_generated_code': printed}
        if not same and parser_right.get(c):
            ck.spec_failure('end-to-end:default-value-changed', 'literal %s (parsed exactly by pstrtod) appears as %s in the generated code: another double' % (c, printed), rp)
        elif not same:
            ck.spec_failure('pstrtod:not-correctly-rounded', 'literal %s appears as %s in the generated code: another double' % (c, printed), rp)
        else:
            ck.nontrivial('lit' + c)
    ck.cov['streams'] = {'pdtoa_roundtrip': n_rt, 'pdtoa_model_compared': n_model, 'pstrtod_literals': len(lits), 'pstrtod_exact_fragment_ok': n_exact_ok, 'end_to_end_literals': len(consts)}
    ck.cov['rule'] = ('doubles: uniform bit patterns, subnormals, neighbours of powers of two, powers of ten, short decimals, float32 values: pdtoa text must equal the extracted Grisu2 '
                      'model (first %d) and read back bit-identically through a correctly rounded parser (all); literals: integers with exact powers of ten (the fragment where the '
                      'naive parser is exact), fractions, fraction+exponent, pdtoa outputs: pstrtod vs float(); default arguments through interrogate. '
                      'Non-trivial = distinct double/literal that passed') % n_model
    ck.assumptions += ['CPython float()/repr() are correctly rounded (David Gay dtoa) and serve as the reference conversion',
                       'only C/POSIX locales exist in the image: the comma-decimal-point locale axis cannot be exercised; pstrtod never consults the locale (by reading)',
                       'the Grisu2 round-trip theorem itself is not proved (tested on the stated number of doubles); proved parts: Prettify, table, index window, index margin']
    ck.finish()


if __name__ == '__main__':
    main()
