#!/usr/bin/env python3
"""C13 — loading several libraries yields one consistent, order-independent database.

model : coq/C13 load_all = fold (remap to fresh range ; merge_from) over the decoded files — proved: merge keeps closure,
        contiguous ranges, flag algebra of merge_with
impl  : libinterrogatedb via harness/dbtool: rewrite (exact bytes of the merged database), query (name keyed dump),
        interleave (by-name lookups between load requests)
"""
import itertools
import os
import re
import shutil
import subprocess
import sys
from concurrent.futures import ThreadPoolExecutor

sys.path.insert(0, os.path.dirname(os.path.dirname(os.path.abspath(__file__))))
import vlib
from vlib import dbfile

NAMES = ['liba', 'libb', 'libc', 'libd']
PRE = ['#ifndef CPPPARSER', '#define PUBLISHED public', '#else', '#define PUBLISHED __published', '#endif']


def gen_module(rng, root, k, conflict=False):
    """k libraries; library i has class B<i>; classes may derive from / take pointers to / return classes of earlier
    or later libraries (forward declared when the header cannot be included)."""
    shutil.rmtree(root, ignore_errors=True)
    files = {}
    closure = {}      # headers reached through #include, transitively
    for i in range(k):
        d = os.path.join(root, NAMES[i])
        os.makedirs(d)
        base = [] if conflict else [j for j in range(i) if rng.random() < 0.4][:1]   # a conflicting definition must not be visible while parsing
        uses = [j for j in range(k) if j != i and rng.random() < 0.5]
        body = ['#ifndef GUARD_%d' % i, '#define GUARD_%d' % i] + PRE
        for j in base:
            body.append('#include "h%d.h"' % j)
        for j in uses:
            if j not in base:
                body.append('class B%d;' % j)
        body.append('class B%d%s {' % (i, (' : public B%d' % base[0]) if base else ''))
        body.append('PUBLISHED:')
        body.append('  B%d();' % i)
        body.append('  int get_%d() const;' % i)
        body.append('  int field_%d;' % i)
        for j in uses:
            body.append('  void take_%d_%d(B%d *p, const B%d &r);' % (i, j, j, j))
            body.append('  B%d *give_%d_%d() const;' % (j, i, j))
        body.append('  enum E%d { E%d_A, E%d_B = %d };' % (i, i, i, i + 5))
        if rng.random() < 0.6:
            # a sequence: make_seq records are numbered after everything else
            body.append('  int get_num_things_%d() const;' % i)
            body.append('  int get_thing_%d(int n) const;' % i)
            body.append('  __make_seq(get_things_%d, get_num_things_%d, get_thing_%d);' % (i, i, i))
        body.append('};')
        seen_defs = set(base)
        for j in base:
            seen_defs |= closure.get(j, set())
        closure[i] = seen_defs
        forced = [j for j in uses if j not in seen_defs and rng.random() < 0.35]
        if forced and not conflict:
            # a class that this library only forward-declares, but forces into its database: global, not fully defined
            open(os.path.join(d, 'h%d.N' % i), 'w').write(''.join('forcetype B%d\n' % j for j in forced))
        if conflict:
            # every library defines its own, different, global type of the same name
            body += ['class Shared {', 'PUBLISHED:', '  int from_%d();' % i, '};']
        body.append('#define LIBCONST_%d %d' % (i, 100 + i))
        body.append('#endif')
        open(os.path.join(d, 'h%d.h' % i), 'w').write('\n'.join(body) + '\n')
        files[i] = 'h%d.h' % i
    return files


def canon_dump(text, strip_owner=True):
    """name keyed dump with the owner of non-global (incidental) types removed; lines sorted"""
    out = []
    for ln in text.splitlines():
        if ln.startswith('ntypes') or ln.startswith('errflag'):
            out.append(ln)
            continue
        if ln.startswith('type ') and ' global 0 ' in ln and strip_owner:
            ln = re.sub(r' lib "[^"]*" mod "[^"]*"', '', ln)
        out.append(ln)
    return sorted(out)


def main():
    ck = vlib.Check('C13')
    # the accessor table of the lazy-loading theorem is regenerated from the source under test (translator)
    subprocess.run([sys.executable, os.path.join(vlib.VERIF, 'translate', 'accessors.py'), vlib.REPO], check=True, stdout=subprocess.DEVNULL)
    ck.coq()
    b = ck.build()
    tool = vlib.harness(b, 'dbtool', ['dbtool.cxx'])
    wd = vlib.workdir(b, 'c13')
    rng = ck.rng
    nmod = ck.scale(14, 150)
    mods = []
    for i in range(nmod):
        k = rng.choice([2, 3, 3, 4]) if ck.tier == 'thorough' else rng.choice([2, 3, 3])
        conflict = (i % 5 == 4)
        root = os.path.join(wd, 'm%d' % i)
        files = gen_module(rng, root, k, conflict)
        mods.append((root, k, files, conflict))

    def build(mod):
        root, k, files, conflict = mod
        ins = []
        for i in range(k):
            d = os.path.join(root, NAMES[i])
            incs = []
            for j in range(k):
                if j != i:
                    incs += ['-I', os.path.join(root, NAMES[j])]
            p = vlib.sh([b['interrogate'], '-DCPPPARSER', '-oc', 'l.cxx', '-od', NAMES[i] + '.in', '-module', 'mod', '-library', NAMES[i], '-python-native'] + incs + [files[i]], cwd=d)
            if p.returncode != 0:
                return None, p.stdout[-300:]
            ins.append(os.path.join(d, NAMES[i] + '.in'))
        return ins, ''

    with ThreadPoolExecutor(vlib.NCPU) as ex:
        built = list(ex.map(build, mods))

    for (root, k, files, conflict), (ins, err) in zip(mods, built):
        if ins is None:
            ck.violation('corr_C13_run', 'interrogate failed: ' + err, {'kind': 'correspondence'}, nofail=True)
            continue
        perms = list(itertools.permutations(range(k)))
        dumps = {}
        for perm in perms:
            ck.count()
            ck.dist('%s:k=%d' % ('conflict' if conflict else 'consistent', k))
            order = [ins[i] for i in perm]
            hexes = [open(f, 'rb').read().hex() for f in order]
            rp = {'kind': 'spec', 'libraries': [NAMES[i] for i in perm], 'headers': {NAMES[i] + '/' + files[i]: open(os.path.join(root, NAMES[i], files[i])).read() for i in range(k)},
                  'cmd': 'interrogate -python-native per library; dbtool rewrite/query <.in files in this order>'}
            p = subprocess.run([tool, 'rewrite', '0'] + order, stdout=subprocess.PIPE, stderr=subprocess.PIPE, timeout=60)
            if p.returncode != 0 or b'ERR 0' not in p.stderr:
                ck.spec_failure('load-error', 'loading %s fails (status %d, %s)' % ([NAMES[i] for i in perm], p.returncode, p.stderr[-100:]), rp)
                continue
            m = vlib.run_model('C13', 'loadall', ['(' + ' '.join(hexes) + ')'])[0].split()
            errs, nxt, closed, distinct, mhex = m
            # specification: the merged database is referentially closed and its keys are pairwise distinct
            lib_bytes = p.stdout
            mm = vlib.run_model('C11', 'load', ['(0 %s)' % lib_bytes.hex()])[0]
            res = dict(kv.split('=') for kv in vlib.run_model('C11', 'check', [mm.split(' ', 1)[1]])[0].split()) if mm.startswith('0 (') else {}
            if res.get('closed') != '1' or res.get('keysdistinct') != '1':
                ck.spec_failure('merged-not-closed', 'merged database is not referentially closed: %s' % res, rp)
                continue
            # correspondence: exact bytes of the merged database
            if bytes.fromhex(mhex) != lib_bytes:
                ck.violation('corr_C13_merge', 'merged database differs from the model load_all for order %s' % [NAMES[i] for i in perm], dict(rp, kind='correspondence'), nofail=True)
                continue
            q = subprocess.run([tool, 'query'] + order, stdout=subprocess.PIPE, stderr=subprocess.PIPE, timeout=60)
            dumps[perm] = q.stdout.decode('latin-1')
            # interleaving load requests with by-name lookups must give the same final database and exact lookups
            it = subprocess.run([tool, 'interleave'] + order, stdout=subprocess.PIPE, stderr=subprocess.PIPE, timeout=60).stdout.decode('latin-1')
            if 'LOOKUP-MISMATCH' in it:
                ck.spec_failure('stale-lookup', 'a by-name lookup answered between two load requests does not see all loaded files: ' + [l for l in it.splitlines() if 'LOOKUP' in l][0], rp)
            else:
                tail = it[it.index('errflag'):] if 'errflag' in it else ''
                if canon_dump(tail) != canon_dump(dumps[perm]):
                    ck.spec_failure('interleave-differs', 'database differs when queries are interleaved with load requests', rp)
        # the by-name lookup as the VERY FIRST query after a load request, one lookup kind per process; and the public request entry point
        # with one reused file-name buffer (first permutation of every case)
        order0 = [ins[i] for i in perms[0]]
        if len(order0) > 1 and perms[0] in dumps:
            def names_of(text):
                ty = re.findall(r'^type "((?:[^"\\]|\\.)*)" name "((?:[^"\\]|\\.)*)" scoped "((?:[^"\\]|\\.)*)"', text, re.M)
                els = set()
                for seg in re.findall(r' elements((?: "(?:[^"\\]|\\.)*")*) makeseqs', text):
                    els.update(re.findall(r'"((?:[^"\\]|\\.)*)"', seg))
                return {'type_by_true_name': {t[0] for t in ty}, 'type_by_name': {t[1] for t in ty}, 'type_by_scoped_name': {t[2] for t in ty},
                        'element_by_scoped_name': els, 'element_by_name': {e.rsplit('::', 1)[-1] for e in els}}
            last = names_of(subprocess.run([tool, 'query', order0[-1]], stdout=subprocess.PIPE, stderr=subprocess.PIPE, timeout=60).stdout.decode('latin-1'))
            rest = names_of(subprocess.run([tool, 'query'] + order0[:-1], stdout=subprocess.PIPE, stderr=subprocess.PIPE, timeout=60).stdout.decode('latin-1'))
            for kind in sorted(last):
                cand = sorted(n_ for n_ in last[kind] - rest[kind] if n_ and '\\' not in n_ and '"' not in n_)
                if not cand:
                    continue
                ck.count()
                ck.dist('first-query-after-request:' + kind)
                fl = subprocess.run([tool, 'firstlookup', kind, cand[0]] + order0, stdout=subprocess.PIPE, stderr=subprocess.PIPE, timeout=60).stdout.decode('latin-1')
                if 'FIRST %s 1' % kind not in fl:
                    ck.spec_failure('stale-lookup', '%s(%r) as the first query after the request of the file that defines it answers: %s' % (kind, cand[0], fl.strip()[:120]),
                                    dict(rp, cmd='dbtool firstlookup %s %s <files in this order>' % (kind, cand[0])))
            ck.count()
            ck.dist('reused-file-name-buffer')
            rb = subprocess.run([tool, 'query-reused-buffer'] + order0, stdout=subprocess.PIPE, stderr=subprocess.PIPE, timeout=60).stdout.decode('latin-1')
            if canon_dump(rb) != canon_dump(dumps[perms[0]]):
                ck.spec_failure('request:file-name-not-copied', 'interrogate_request_database called with one reused file-name buffer gives another database than separate strings '
                                '(first differing line: %s)' % ([l for l in canon_dump(dumps[perms[0]]) if l not in canon_dump(rb)] + [''])[0][:160], dict(rp, cmd='dbtool query-reused-buffer <files>'))
        # order independence
        if len(dumps) == len(perms):
            ref = canon_dump(dumps[perms[0]])
            for perm in perms[1:]:
                cd = canon_dump(dumps[perm])
                if cd != ref:
                    diff = [l for l in cd if l not in ref][:1] + [l for l in ref if l not in cd][:1]
                    shared_owner = all(l.startswith('type "Shared"') or 'Shared::' in l or '"Shared' in l for l in diff)
                    key = 'order:owner-of-doubly-defined-type' if (conflict and shared_owner) else 'order:dependent'
                    ck.spec_failure(key, 'load order %s vs %s gives different databases: %s' % ([NAMES[i] for i in perms[0]], [NAMES[i] for i in perm], diff[0][:200] if diff else ''),
                                    {'kind': 'spec', 'headers': {NAMES[i] + '/' + files[i]: open(os.path.join(root, NAMES[i], files[i])).read() for i in range(k)},
                                     'orders': [[NAMES[i] for i in perms[0]], [NAMES[i] for i in perm]], 'diff': diff})
                    break
            else:
                ck.nontrivial(root)
        if len(ck.cov['samples']) < 2 and not conflict:
            ck.sample({'libraries': k, 'header_liba': open(os.path.join(root, NAMES[0], files[0])).read()[:600], 'orders_compared': len(perms)})
    ck.cov['streams'] = {'modules': nmod, 'load_orders_per_module': 'all permutations (k<=4)'}
    ck.cov['rule'] = ('modules of 2-4 libraries whose classes derive from, take and return classes of each other (forward declared or included), built by real interrogate runs; '
                      'every load order: merged database bytes = extracted model load_all, merged database closed (verified checker), name-keyed query dump equal across orders '
                      '(owner of non-global incidental types ignored), and equal when by-name lookups are interleaved with the load requests; every 5th module has a type fully '
                      'defined by all libraries (recorded finding stream). Non-trivial = distinct module whose every order passed')
    ck.assumptions += ['owner (library/module name) of non-global incidental types (int, T *, T const) is excluded from the order-independence comparison: every file fully defines them']
    ck.finish()


if __name__ == '__main__':
    main()
