// querytool — total-ness and exactness sweep of the C query interface (C20).
//
//   querytool sweep <file.in>...    every interface function x every index in [-2, next+2] + extremes x positions;
//                                    prints one "BAD ..." line per deviation from the neutral-value rule, then "DONE <calls>"
//   querytool names <file.in>...    every stored name looked up through every by-name function + mutated/absent names
//   querytool unique                reads a module table + queries from stdin, prints one result per query
#include <iostream>
#include <sstream>
#include <map>
#include <vector>
#include <string>
#define private public          // the valid index sets are read from the database maps themselves
#include "interrogateDatabase.h"
#undef private
#include "interrogate_interface.h"
#include "interrogate_request.h"
#include <sstream>
#include <set>
#include <map>
#include <vector>
#include <string>
#include <cstring>
#include <climits>
#include <cstdlib>
#include <unistd.h>

using namespace std;

static void request(const char *file) {
  InterrogateModuleDef *def = new InterrogateModuleDef;
  memset(def, 0, sizeof(*def));
  def->library_name = "";
  def->library_hash_name = "";
  def->module_name = "";
  def->database_filename = strdup(file);
  interrogate_request_module(def);
}

static set<int> valid[256];   // by kind letter
static long calls = 0, bad = 0;

static void collect() {
  interrogate_number_of_types();   // forces pending files to be loaded
  InterrogateDatabase *db = InterrogateDatabase::get_ptr();
  for (auto &e : db->_type_map) valid['T'].insert(e.first);
  for (auto &e : db->_function_map) valid['F'].insert(e.first);
  for (auto &e : db->_wrapper_map) valid['W'].insert(e.first);
  for (auto &e : db->_manifest_map) valid['M'].insert(e.first);
  for (auto &e : db->_element_map) valid['E'].insert(e.first);
  for (auto &e : db->_make_seq_map) valid['S'].insert(e.first);
}

static int max_index() {
  int m = 0;
  for (int k = 0; k < 256; ++k) if (!valid[k].empty()) m = max(m, *valid[k].rbegin());
  return m;
}

enum RK { STR, BOOL, INT, PTR };
static bool neutral(const char *s) { return s != nullptr && s[0] == '\0'; }
static bool neutral(bool b) { return !b; }
static bool neutral(int i) { return i == 0; }
static bool neutral(AtomicToken t) { return (int)t == 0; }
static bool neutral(void *p) { return p == nullptr; }
static string show(const char *s) { return s ? string("\"") + s + "\"" : string("<null>"); }
static string show(bool b) { return b ? "true" : "false"; }
static string show(int i) { ostringstream o; o << i; return o.str(); }
static string show(AtomicToken t) { return show((int)t); }
static string show(void *p) { return p ? "ptr" : "null"; }

static vector<int> indices;

#define SWEEP1(fn, rk, kind) \
  for (size_t ii = 0; ii < indices.size(); ++ii) { int idx = indices[ii]; ++calls; \
    cout << "" ; auto r = fn(idx); \
    if (!valid[(int)kind].count(idx) && !neutral(r)) { ++bad; cout << "BAD " #fn "(" << idx << ") = " << show(r) << " for an index that is no " << kind << "\n"; } }

static const int positions[] = { -1, INT_MIN, 1000000, INT_MAX };
#define SWEEP2(fn, rk, kind) \
  for (size_t ii = 0; ii < indices.size(); ++ii) { int idx = indices[ii]; \
    for (int n = -2; n <= 9; ++n) { ++calls; auto r = fn(idx, n); \
      if ((!valid[(int)kind].count(idx) || n < 0) && !neutral(r)) { ++bad; cout << "BAD " #fn "(" << idx << "," << n << ") = " << show(r) << "\n"; } } \
    for (int pi = 0; pi < 4; ++pi) { ++calls; auto r = fn(idx, positions[pi]); \
      if (!neutral(r)) { ++bad; cout << "BAD " #fn "(" << idx << "," << positions[pi] << ") = " << show(r) << "\n"; } } }

#define SWEEPN(fn) \
  for (int n = -2; n <= 2; ++n) { ++calls; int r = fn(n < 0 ? n : INT_MAX - n); if (r != 0) { ++bad; cout << "BAD " #fn "(" << n << ") = " << r << "\n"; } }

// count == number of positions that answer (index-valued accessors return a non-zero index for every position below the count)
#define COUNT1(cnt, get, kind) \
  for (set<int>::iterator it = valid[(int)kind].begin(); it != valid[(int)kind].end(); ++it) { int c = cnt(*it); \
    if (c < 0) { ++bad; cout << "BAD " #cnt "(" << *it << ") = " << c << "\n"; } \
    for (int n = 0; n < c; ++n) { ++calls; if (get(*it, n) == 0) { ++bad; cout << "BAD " #get "(" << *it << "," << n << ") = 0 below the count " << c << "\n"; } } \
    ++calls; if (get(*it, c) != 0) { ++bad; cout << "BAD " #get "(" << *it << "," << c << ") != 0 at the count\n"; } }
#define COUNT0(cnt, get) \
  { int c = cnt(); if (c < 0) { ++bad; cout << "BAD " #cnt "() < 0\n"; } \
    for (int n = 0; n < c; ++n) { ++calls; if (get(n) == 0) { ++bad; cout << "BAD " #get "(" << n << ") = 0 below the count " << c << "\n"; } } \
    ++calls; if (get(c) != 0) { ++bad; cout << "BAD " #get "(" << c << ") != 0 at the count\n"; } }

static void sweep() {
  collect();
  int mx = max_index();
  for (int i = -2; i <= mx + 2; ++i) indices.push_back(i);
  indices.push_back(INT_MIN); indices.push_back(INT_MAX); indices.push_back(INT_MAX - 1); indices.push_back(1 << 20);
#include "querytool_gen.inc"
  COUNT0(interrogate_number_of_manifests, interrogate_get_manifest)
  COUNT0(interrogate_number_of_globals, interrogate_get_global)
  COUNT0(interrogate_number_of_global_functions, interrogate_get_global_function)
  COUNT0(interrogate_number_of_functions, interrogate_get_function)
  COUNT0(interrogate_number_of_global_types, interrogate_get_global_type)
  COUNT0(interrogate_number_of_types, interrogate_get_type)
  COUNT1(interrogate_type_number_of_constructors, interrogate_type_get_constructor, 'T')
  COUNT1(interrogate_type_number_of_elements, interrogate_type_get_element, 'T')
  COUNT1(interrogate_type_number_of_methods, interrogate_type_get_method, 'T')
  COUNT1(interrogate_type_number_of_make_seqs, interrogate_type_get_make_seq, 'T')
  COUNT1(interrogate_type_number_of_casts, interrogate_type_get_cast, 'T')
  COUNT1(interrogate_type_number_of_derivations, interrogate_type_get_derivation, 'T')
  COUNT1(interrogate_type_number_of_nested_types, interrogate_type_get_nested_type, 'T')
  COUNT1(interrogate_function_number_of_c_wrappers, interrogate_function_c_wrapper, 'F')
  COUNT1(interrogate_function_number_of_python_wrappers, interrogate_function_python_wrapper, 'F')
  cout << "DONE " << calls << " bad " << bad << "\n";
}

typedef int (*ByName)(const char *);
static void check_name(const char *what, ByName fn, const char *(*namefn)(int), int idx, const char *name, bool unique) {
  ++calls;
  int r = fn(name);
  if (name[0] == '\0') return;    // entities without this kind of name are not findable by it
  if (r == 0) { ++bad; cout << "BAD " << what << "(\"" << name << "\") = 0 but entity " << idx << " bears that name\n"; return; }
  if (strcmp(namefn(r), name) != 0) { ++bad; cout << "BAD " << what << "(\"" << name << "\") = " << r << " which is named \"" << namefn(r) << "\"\n"; }
  if (unique && r != idx) { ++bad; cout << "BAD " << what << "(\"" << name << "\") = " << r << ", the only bearer is " << idx << "\n"; }
}

static void names() {
  collect();
  struct { const char *what; ByName fn; const char *(*namefn)(int); char kind; } tabs[] = {
    {"interrogate_get_type_by_name", interrogate_get_type_by_name, interrogate_type_name, 'T'},
    {"interrogate_get_type_by_scoped_name", interrogate_get_type_by_scoped_name, interrogate_type_scoped_name, 'T'},
    {"interrogate_get_type_by_true_name", interrogate_get_type_by_true_name, interrogate_type_true_name, 'T'},
    {"interrogate_get_manifest_by_name", interrogate_get_manifest_by_name, interrogate_manifest_name, 'M'},
    {"interrogate_get_element_by_name", interrogate_get_element_by_name, interrogate_element_name, 'E'},
    {"interrogate_get_element_by_scoped_name", interrogate_get_element_by_scoped_name, interrogate_element_scoped_name, 'E'},
  };
  for (size_t t = 0; t < sizeof(tabs) / sizeof(tabs[0]); ++t) {
    map<string, int> count;
    set<int> &v = valid[(int)tabs[t].kind];
    for (set<int>::iterator it = v.begin(); it != v.end(); ++it) count[tabs[t].namefn(*it)]++;
    for (set<int>::iterator it = v.begin(); it != v.end(); ++it) {
      string nm = tabs[t].namefn(*it);
      check_name(tabs[t].what, tabs[t].fn, tabs[t].namefn, *it, nm.c_str(), count[nm] == 1);
      // mutated names: must return 0 unless some entity really bears the mutated name
      string muts[] = { nm + "_", nm + " ", "_" + nm, nm.substr(0, nm.size() / 2), nm + nm, string("\x01") + nm };
      for (size_t m = 0; m < 6; ++m) {
        if (count.count(muts[m])) continue;
        ++calls;
        int r = tabs[t].fn(muts[m].c_str());
        if (r != 0) { ++bad; cout << "BAD " << tabs[t].what << "(\"" << muts[m] << "\") = " << r << " for an absent name\n"; }
      }
    }
    ++calls; if (tabs[t].fn("") != 0 && !count.count("")) { ++bad; cout << "BAD " << tabs[t].what << "(\"\") != 0\n"; }
    ++calls; if (tabs[t].fn("no such name anywhere") != 0) { ++bad; cout << "BAD " << tabs[t].what << " absent name != 0\n"; }
  }
  cout << "DONE " << calls << " bad " << bad << "\n";
}

// stdin:  "module <hash4> <num_indices> <n>" followed by n lines "<name> <offset>", repeated; then "query <string>" lines
// ("<empty>" stands for the empty string).  Output: one line "<first_index + offset | 0>" per query.
static void unique() {
  string line;
  vector<InterrogateModuleDef *> defs;
  while (getline(cin, line)) {
    istringstream is(line);
    string cmd;
    is >> cmd;
    if (cmd == "module") {
      string hash; int nidx, n;
      is >> hash >> nidx >> n;
      InterrogateModuleDef *def = new InterrogateModuleDef;
      memset(def, 0, sizeof(*def));
      def->library_name = strdup(("lib" + hash).c_str());
      def->library_hash_name = strdup(hash.c_str());
      def->module_name = "m";
      def->unique_names = new InterrogateUniqueNameDef[n + 1];
      def->num_unique_names = n;
      for (int i = 0; i < n; ++i) {
        getline(cin, line);
        istringstream ls(line);
        string nm; int off;
        ls >> nm >> off;
        if (nm == "<empty>") nm = "";
        def->unique_names[i].name = strdup(nm.c_str());
        def->unique_names[i].index_offset = off;
      }
      def->first_index = 0;
      def->next_index = nidx;
      interrogate_request_module(def);
      defs.push_back(def);
      cout << "first " << def->first_index << " next " << def->next_index << endl;
    } else if (cmd == "query") {
      string q = line.size() > 6 ? line.substr(6) : string("");
      if (q == "<empty>") q = "";
      cout << "q " << flush;
      alarm(5);
      int r = interrogate_get_wrapper_by_unique_name(q.c_str());
      alarm(0);
      cout << r << endl;
    } else if (cmd == "fptr") {
      int w; is >> w;
      cout << "fptr " << (interrogate_wrapper_has_pointer(w) ? 1 : 0) << endl;
    }
  }
}

// fptrs <plain.in> <module.in> <nptr>: a plain database is requested first, then a module with a table of nptr function pointers;
// interrogate_wrapper_pointer / has_pointer are swept over every index incl. the extremes: inside the module's range the table entry,
// everywhere else the neutral value
static void dummy0() {}
static void dummy1() {}
static void dummy2() {}
static int fptrs_mode(int argc, char **argv) {
  if (argc < 5) return 2;
  int n = atoi(argv[4]);
  // the table sits in the middle of a poisoned arena: a read in front of or behind it yields a recognisable non-null value
  static void *arena[4096];
  for (int i = 0; i < 4096; ++i) arena[i] = (void *)&dummy2;
  void **table = arena + 2048;
  for (int i = 0; i < n; ++i) table[i] = (i % 2) ? (void *)&dummy1 : (void *)&dummy0;
  if (strcmp(argv[2], "-") != 0) interrogate_request_database(argv[2]);
  static InterrogateModuleDef def;
  memset(&def, 0, sizeof(def));
  def.library_name = "";
  def.library_hash_name = "";
  def.module_name = "";
  def.database_filename = strdup(argv[3]);
  def.fptrs = table;
  def.num_fptrs = n;
  def.first_index = 1;
  def.next_index = n + 1;
  interrogate_request_module(&def);
  interrogate_number_of_functions();     // forces the load, which assigns the module its index range
  int first = def.first_index, next = def.next_index;
  cout << "range " << first << " " << next << "\n";
  vector<int> idx;
  for (int i = -6; i <= next + 6; ++i) idx.push_back(i);
  int ext[] = {INT_MIN, INT_MIN / 2, INT_MIN + 1, -100000, INT_MAX, INT_MAX / 2, 100000};
  for (int e : ext) idx.push_back(e);
  int badn = 0;
  for (int i : idx) {
    void *want = nullptr;
    if (i >= first && i < first + n) want = table[i - first];
    bool has = interrogate_wrapper_has_pointer(i);
    void *got = interrogate_wrapper_pointer(i);
    if (got != want || has != (want != nullptr)) {
      cout << "BAD fptr index " << i << " has_pointer " << has << " pointer " << (got == nullptr ? "null" : (got == want ? "right" : "stray")) << " expected " << (want ? "entry" : "null") << "\n";
      ++badn;
    }
    ++calls;
  }
  cout << "DONE " << calls << "\n";
  return badn ? 1 : 0;
}

// firstcount <k> <files>: the k-th counting function is the FIRST query after the request; its answer must equal the answer after everything is loaded
typedef int (*count_fn)();
static int firstcount_mode(int argc, char **argv) {
  static count_fn fns[] = { interrogate_number_of_manifests, interrogate_number_of_globals, interrogate_number_of_global_types, interrogate_number_of_types,
                            interrogate_number_of_global_functions, interrogate_number_of_functions };
  static const char *names[] = { "interrogate_number_of_manifests", "interrogate_number_of_globals", "interrogate_number_of_global_types", "interrogate_number_of_types",
                                 "interrogate_number_of_global_functions", "interrogate_number_of_functions" };
  int k = atoi(argv[2]);
  if (k < 0 || k >= 6) return 2;
  for (int i = 3; i < argc; ++i) request(argv[i]);
  int first = fns[k]();
  for (int j = 0; j < 6; ++j) fns[j]();
  interrogate_get_type(0);
  int later = fns[k]();
  cout << names[k] << " first " << first << " later " << later << "\n";
  return first == later ? 0 : 1;
}

int main(int argc, char **argv) {
  if (argc < 2) return 2;
  string mode = argv[1];
  if (mode == "unique") { unique(); return 0; }
  if (mode == "fptrs") return fptrs_mode(argc, argv);
  if (mode == "firstcount") return firstcount_mode(argc, argv);
  for (int i = 2; i < argc; ++i) request(argv[i]);
  if (mode == "sweep") sweep();
  else if (mode == "names") names();
  else return 2;
  return bad ? 1 : 0;
}
