#!/usr/bin/env python3
"""Generates querytool_gen.inc from the interface header of the tree under test:
one sweep entry per function of the C query interface, grouped by signature."""
import re
import sys

hdr = open(sys.argv[1]).read()
out = open(sys.argv[2], 'w')
IDX = {'ManifestIndex': 'M', 'ElementIndex': 'E', 'FunctionIndex': 'F', 'FunctionWrapperIndex': 'W', 'MakeSeqIndex': 'S', 'TypeIndex': 'T'}
protos = re.findall(r'^EXPCL_INTERROGATEDB\s+(.*?)\s*\b(interrogate_\w+)\s*\(([^)]*)\)\s*;', hdr, flags=re.M)
n1 = n2 = n0 = 0
skipped = []
for ret, name, params in protos:
    ret = ret.strip()
    ps = [p.strip() for p in params.split(',') if p.strip() and p.strip() != 'void']
    ptypes = [' '.join(p.split()[:-1]) if len(p.split()) > 1 else p for p in ps]
    if ret in ('const char *', 'const char*'):
        rk = 'STR'
    elif ret == 'bool':
        rk = 'BOOL'
    elif ret == 'void *':
        rk = 'PTR'
    elif ret == 'void':
        rk = 'VOID'
    else:
        rk = 'INT'
    if 'interrogate_make_seq_' in name and ptypes and ptypes[0] in IDX:
        ptypes[0] = 'MakeSeqIndex'    # two prototypes spell the parameter ElementIndex; they take a make_seq
    if len(ptypes) == 1 and ptypes[0] in IDX and rk != 'VOID':
        out.write('SWEEP1(%s, %s, \'%s\')\n' % (name, rk, IDX[ptypes[0]]))
        n1 += 1
    elif len(ptypes) == 2 and ptypes[0] in IDX and ptypes[1] == 'int' and rk != 'VOID':
        out.write('SWEEP2(%s, %s, \'%s\')\n' % (name, rk, IDX[ptypes[0]]))
        n2 += 1
    elif len(ptypes) == 1 and ptypes[0] == 'int' and rk == 'INT':
        out.write('SWEEPN(%s)\n' % name)
        n0 += 1
    else:
        skipped.append(name)
out.write('// generated: %d index functions, %d (index,n) functions, %d positional getters; not swept: %s\n' % (n1, n2, n0, ' '.join(skipped)))
print(n1, n2, n0, len(skipped))
