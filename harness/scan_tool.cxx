// scan_tool — the hand-written scanners of the front-end, called directly (C15 correspondence).
// stdin: one case per line, bytes in hex.  stdout: one line per case in the format of ocaml/c15/driver.ml.
//   m <hex args>        CPPManifest(parser, args, loc)         -> name=<hex> has=<0|1> n=<k> var=<-1|k>
//   e <hex args>        the same constructor                    -> the expansion node list (parm flags text [nested]) ...
//   x <p> <hex expr>    extract_args(args, expr, p); expr.substr(p) (what expand_manifests does next)
//                                                               -> p=<p'> args=<hex>,<hex>,... tail=<hex>
//   r <hex input>       scan_raw('"') on the input stream       -> str=<hex> rest=<hex> closed=<0|1>
//   l <hex line>        show_line on a file holding the line    -> <hex of the echoed line>
//   q <hex text>        CPPManifest::stringify(text)            -> <hex of the string literal>
//   s <hex define> <hex arg>,<hex arg>,...|-   CPPManifest(define).expand(args) in a parser without other macros -> <hex of the text>
// A std::out_of_range escaping from the code under test prints THROW.
#include <iostream>
#include <sstream>
#include <fstream>
#include <string>
#include <vector>
#include <stdexcept>
#include <cstdio>
#include <unistd.h>
#define private public
#define protected public
#include "cppParser.h"
#include "cppPreprocessor.h"
#include "cppManifest.h"
#undef private
#undef protected

using namespace std;

static string unhex(const string &h) {
  string out;
  for (size_t i = 0; i + 1 < h.size(); i += 2) {
    out += (char)strtol(h.substr(i, 2).c_str(), nullptr, 16);
  }
  return out;
}
static string hex(const string &s) {
  static const char *d = "0123456789abcdef";
  string out;
  for (unsigned char c : s) {
    out += d[c >> 4];
    out += d[c & 15];
  }
  return out;
}

static void dump(const CPPManifest::Expansion &e, ostream &out) {
  for (const CPPManifest::ExpansionNode &n : e) {
    out << "(";
    if (n._parm_number >= 0) {
      out << n._parm_number;
    } else {
      out << "-";
    }
    out << " " << (n._expand ? 1 : 0) << (n._stringify ? 1 : 0) << (n._paste ? 1 : 0) << (n._optional ? 1 : 0) << " " << hex(n._str) << " [";
    dump(n._nested, out);
    out << "])";
  }
}

int main(int argc, char **argv) {
  // diagnostics of the code under test go to a string, not to the terminal
  ostringstream sink;
  streambuf *old_cerr = cerr.rdbuf(sink.rdbuf());
  string tmp = argc > 1 ? argv[1] : "scan_tool_line.txt";

  string line;
  while (getline(cin, line)) {
    if (line.size() < 2) {
      continue;
    }
    char mode = line[0];
    string rest = line.substr(2);
    sink.str("");
    try {
      if (mode == 'm') {
        CPPParser parser;
        cppyyltype loc;
        loc.first_line = loc.first_column = loc.last_line = loc.last_column = 0;
        CPPManifest m(parser, unhex(rest), loc);
        cout << "name=" << hex(m._name) << " has=" << (m._has_parameters ? 1 : 0) << " n=" << m._num_parameters
             << " var=" << m._variadic_param << "\n";

      } else if (mode == 'e') {
        CPPParser parser;
        cppyyltype loc;
        loc.first_line = loc.first_column = loc.last_line = loc.last_column = 0;
        CPPManifest m(parser, unhex(rest), loc);
        dump(m._expansion, cout);
        cout << "\n";

      } else if (mode == 'q') {
        cout << hex(CPPManifest::stringify(unhex(rest))) << "\n";

      } else if (mode == 's') {
        size_t sp = rest.find(' ');
        string def = unhex(rest.substr(0, sp));
        string al = rest.substr(sp + 1);
        vector_string args;
        if (al != "-") {
          size_t from = 0;
          while (true) {
            size_t comma = al.find(',', from);
            args.push_back(unhex(al.substr(from, comma == string::npos ? string::npos : comma - from)));
            if (comma == string::npos) {
              break;
            }
            from = comma + 1;
          }
        }
        CPPParser parser;
        cppyyltype loc;
        loc.first_line = loc.first_column = loc.last_line = loc.last_column = 0;
        CPPManifest m(parser, def, loc);
        cout << hex(m.expand(args)) << "\n";

      } else if (mode == 'x') {
        size_t sp = rest.find(' ');
        size_t p = (size_t)atol(rest.substr(0, sp).c_str());
        string expr = unhex(rest.substr(sp + 1));
        CPPParser parser;
        cppyyltype loc;
        loc.first_line = loc.first_column = loc.last_line = loc.last_column = 0;
        CPPManifest m(parser, string("F(...)"), loc);
        vector_string args;
        m.extract_args(args, expr, p);
        string tail = expr.substr(p);
        cout << "p=" << p << " args=";
        for (size_t i = 0; i < args.size(); ++i) {
          cout << (i ? "," : "") << hex(args[i]);
        }
        cout << " tail=" << hex(tail) << "\n";

      } else if (mode == 'r') {
        CPPParser parser;
        parser.set_verbose(2);          // warnings are only counted at this level
        parser.push_string(unhex(rest));
        int w0 = parser.get_warning_count();
        string str = parser.scan_raw('"');
        int closed = parser.get_warning_count() == w0;
        string left;
        int c = parser.get();
        while (c != EOF) {
          left += (char)c;
          c = parser.get();
        }
        cout << "str=" << hex(str) << " rest=" << hex(left) << " closed=" << closed << "\n";

      } else if (mode == 'l') {
        {
          ofstream f(tmp.c_str(), ios::binary);
          f << unhex(rest) << "\n";
        }
        CPPParser parser;
        cppyyltype loc;
        loc.first_line = 1;
        loc.first_column = 0;
        loc.last_line = 1;
        loc.last_column = 0;
        loc.file = CPPFile(Filename(tmp));
        sink.str("");
        parser.show_line(loc);
        string out = sink.str();
        if (!out.empty() && out[out.size() - 1] == '\n') {
          out.resize(out.size() - 1);
        }
        cout << hex(out) << "\n";
      } else {
        cout << "?\n";
      }
    } catch (const std::out_of_range &e) {
      cout << "THROW\n";
    }
    cout.flush();
  }
  unlink(tmp.c_str());
  cerr.rdbuf(old_cerr);
  return 0;
}
