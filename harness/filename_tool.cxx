// filename_tool — Filename::standardize on every path read from stdin (C17).
// Output per line: "<standardized>" (brackets make the empty name visible).
#include "filename.h"
#include <iostream>
#include <string>
int main(int argc, char **argv) {
  std::string line;
  while (std::getline(std::cin, line)) {
    if (line.empty()) { std::cout << "[]\n"; continue; }
    Filename f(line);
    f.standardize();
    std::cout << "[" << f.get_fullpath() << "]\n";
  }
  return 0;
}
