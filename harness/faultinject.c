/* faultinject.so — LD_PRELOAD interposer for C19.
 *   FI_PATH     absolute path of the output file under test
 *   FI_FAIL_AT  index (0-based) of the system-call-level event on that file that must fail (unset: none)
 *   FI_ERRNO    errno to report (default ENOSPC)
 *   FI_LOG      file to which one line per event is appended: "write <bytes>", "writev <bytes>", "fclose"
 * Events are write(2)/writev(2) on a descriptor that refers to FI_PATH and fclose(3) of a stream on it
 * (glibc's fclose calls close(2) internally, which cannot be interposed; failing fclose models a failing close).
 */
#define _GNU_SOURCE
#include <dlfcn.h>
#include <errno.h>
#include <stdio.h>
#include <stdlib.h>
#include <string.h>
#include <unistd.h>
#include <sys/uio.h>

static int counter = 0;

static int is_target(int fd) {
  const char *want = getenv("FI_PATH");
  if (!want || fd < 0) return 0;
  char link[64], buf[4096];
  snprintf(link, sizeof link, "/proc/self/fd/%d", fd);
  ssize_t n = readlink(link, buf, sizeof buf - 1);
  if (n <= 0) return 0;
  buf[n] = 0;
  return strcmp(buf, want) == 0;
}

static void logev(const char *what, long n) {
  const char *lf = getenv("FI_LOG");
  if (!lf) return;
  static ssize_t (*real_write)(int, const void *, size_t);
  if (!real_write) real_write = dlsym(RTLD_NEXT, "write");
  FILE *f = fopen(lf, "a");
  if (f) { fprintf(f, "%s %ld\n", what, n); fclose(f); }
}

static int should_fail(void) {
  const char *k = getenv("FI_FAIL_AT");
  int idx = counter++;
  if (!k) return 0;
  return atoi(k) == idx;
}

static int the_errno(void) {
  const char *e = getenv("FI_ERRNO");
  return e ? atoi(e) : ENOSPC;
}

ssize_t write(int fd, const void *buf, size_t count) {
  static ssize_t (*real)(int, const void *, size_t);
  if (!real) real = dlsym(RTLD_NEXT, "write");
  if (is_target(fd)) {
    logev("write", (long)count);
    if (should_fail()) { errno = the_errno(); return -1; }
  }
  return real(fd, buf, count);
}

ssize_t writev(int fd, const struct iovec *iov, int iovcnt) {
  static ssize_t (*real)(int, const struct iovec *, int);
  if (!real) real = dlsym(RTLD_NEXT, "writev");
  if (is_target(fd)) {
    long total = 0;
    for (int i = 0; i < iovcnt; ++i) total += iov[i].iov_len;
    logev("writev", total);
    if (should_fail()) { errno = the_errno(); return -1; }
  }
  return real(fd, iov, iovcnt);
}

int fclose(FILE *fp) {
  static int (*real)(FILE *);
  if (!real) real = dlsym(RTLD_NEXT, "fclose");
  int fd = fp ? fileno(fp) : -1;
  if (getenv("FI_PATH") && is_target(fd)) {
    /* the log file itself is never the target */
    logev("fclose", 0);
    if (should_fail()) { real(fp); errno = EIO; return EOF; }
  }
  return real(fp);
}
