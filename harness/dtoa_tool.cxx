// dtoa_tool — pdtoa / pstrtod from libdtoolbase (C18).
//   lines "d <16 hex digits>"  -> pdtoa text of the double with that bit pattern
//   lines "s <literal>"        -> 16 hex digits of pstrtod(literal), and of strtod(literal) in the C locale
#include "pdtoa.h"
#include "pstrtod.h"
#include <cstdio>
#include <cstdlib>
#include <cstring>
#include <cstdint>
#include <iostream>
#include <string>
#include <clocale>
int main(int argc, char **argv) {
  if (argc > 1) setlocale(LC_ALL, argv[1]);
  std::string line;
  char buf[64];
  while (std::getline(std::cin, line)) {
    if (line.size() < 2) continue;
    if (line[0] == 'd') {
      uint64_t bits = strtoull(line.c_str() + 2, nullptr, 16);
      double d; memcpy(&d, &bits, 8);
      pdtoa(d, buf);
      puts(buf);
    } else if (line[0] == 's') {
      double d = pstrtod(line.c_str() + 2, nullptr);
      uint64_t bits; memcpy(&bits, &d, 8);
      printf("%016llx\n", (unsigned long long)bits);
    }
  }
  return 0;
}
