#ifndef REGISTER_TYPE_H
#define REGISTER_TYPE_H
#include "dtoolbase.h"
#include <string>
class TypeHandle {
public:
  TypeHandle() : _index(0) {}
  int get_index() const { return _index; }
  bool operator==(const TypeHandle &o) const { return _index == o._index; }
  bool operator!=(const TypeHandle &o) const { return _index != o._index; }
  bool operator<(const TypeHandle &o) const { return _index < o._index; }
  static TypeHandle none() { return TypeHandle(); }
  static TypeHandle from_index(int) { return TypeHandle(); }
  std::string get_name() const { return "?"; }
  void *get_python_type() const { return nullptr; }
  void *wrap_python(void *, void *) const { return nullptr; }
  int _index;
};
class TypeRegistry {
public:
  typedef void *PythonWrapFunc(void *, void *);
  static TypeRegistry *ptr() { static TypeRegistry r; return &r; }
  void record_python_type(TypeHandle, void *, void *(*)(void *, void *) = nullptr) {}
  TypeHandle find_type(const std::string &) { return TypeHandle(); }
  TypeHandle register_dynamic_type(const std::string &) { return TypeHandle(); }
  void record_derivation(TypeHandle, TypeHandle) {}
};
inline void register_type(TypeHandle &, const std::string &) {}
class TypedObject { public: virtual ~TypedObject() {} virtual TypeHandle get_type() const { return TypeHandle(); } static TypeHandle get_class_type() { return TypeHandle(); } };
class ReferenceCount { public: void ref() const {} bool unref() const { return true; } int get_ref_count() const { return 1; } };
class Notify { public: static Notify *ptr() { static Notify n; return &n; } bool has_assert_failed() const { return false; } std::string get_assert_error_message() const { return ""; } void clear_assert_failed() {} };
#define get_type_handle(type) TypeHandle::none()
#endif
