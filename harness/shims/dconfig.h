/* empty shim: the code that used dconfig.h is under #if 0 in the generated files */
