// dbtool — drives libinterrogatedb for the C11/C12/C13/C20 correspondence checks.
//
//   dbtool rewrite <expected_ident> <file.in>...      load the files in order (request_module with the
//        given file identifier, 0 = do not check), print "ERR <flag>" on stderr, then write the merged
//        database with InterrogateDatabase::write() on stdout.
//   dbtool query <file.in>...                          load, then dump every entity through the C query
//        interface, one line per fact (name keyed; see dump()).
//   dbtool interleave <file.in>...                     like query, but performs by-name lookups between loads.
//   dbtool firstlookup <kind> <name> <file.in>...      the lookup is the first query after the last load request
//   dbtool query-reused-buffer <file.in>...            interrogate_request_database through one reused file-name buffer
#include "interrogate_interface.h"
#include "interrogate_request.h"
#include "interrogateDatabase.h"
#include <iostream>
#include <sstream>
#include <string>
#include <vector>
#include <cstdlib>
#include <cstring>

using namespace std;

static string esc(const char *s) {
  if (s == nullptr) return "<null>";
  string out = "\"";
  for (const unsigned char *p = (const unsigned char *)s; *p; ++p) {
    if (*p == '\\' || *p == '"') { out += '\\'; out += (char)*p; }
    else if (*p < 32 || *p >= 127) { char b[8]; snprintf(b, sizeof b, "\\x%02x", *p); out += b; }
    else out += (char)*p;
  }
  return out + "\"";
}

static vector<InterrogateModuleDef *> defs;

static void request(const char *file, int ident) {
  InterrogateModuleDef *def = new InterrogateModuleDef;
  memset(def, 0, sizeof(*def));
  def->file_identifier = ident;
  def->library_name = "";
  def->library_hash_name = "";
  def->module_name = "";
  def->database_filename = strdup(file);
  defs.push_back(def);
  interrogate_request_module(def);
}

static string tname(TypeIndex t) { return t == 0 ? string("0") : esc(interrogate_type_true_name(t)); }
static string fname(FunctionIndex f) { return f == 0 ? string("0") : esc(interrogate_function_scoped_name(f)); }

static void dump() {
  cout << "errflag " << interrogate_error_flag() << "\n";
  int nt = interrogate_number_of_types();
  cout << "ntypes " << nt << " nglobaltypes " << interrogate_number_of_global_types()
       << " nfunctions " << interrogate_number_of_functions() << " nglobalfunctions " << interrogate_number_of_global_functions()
       << " nmanifests " << interrogate_number_of_manifests() << " nglobals " << interrogate_number_of_globals() << "\n";
  for (int i = 0; i < nt; ++i) {
    TypeIndex t = interrogate_get_type(i);
    cout << "type " << tname(t) << " name " << esc(interrogate_type_name(t)) << " scoped " << esc(interrogate_type_scoped_name(t))
         << " global " << interrogate_type_is_global(t) << " fully " << interrogate_type_is_fully_defined(t)
         << " lib " << esc(interrogate_type_has_library_name(t) ? interrogate_type_library_name(t) : "")
         << " mod " << esc(interrogate_type_has_module_name(t) ? interrogate_type_module_name(t) : "")
         << " outer " << tname(interrogate_type_outer_class(t))
         << " atomic " << (int)interrogate_type_atomic_token(t)
         << " wrapped " << (interrogate_type_is_wrapped(t) ? tname(interrogate_type_wrapped_type(t)) : string("-"))
         << " array " << (interrogate_type_is_array(t) ? interrogate_type_array_size(t) : -1)
         << " comment " << esc(interrogate_type_has_comment(t) ? interrogate_type_comment(t) : "")
         << " flags";
    cout << " " << interrogate_type_is_enum(t) << interrogate_type_is_struct(t) << interrogate_type_is_class(t)
         << interrogate_type_is_union(t) << interrogate_type_is_pointer(t) << interrogate_type_is_const(t)
         << interrogate_type_is_typedef(t) << interrogate_type_is_nested(t) << interrogate_type_is_unpublished(t)
         << interrogate_type_is_final(t) << interrogate_type_is_scoped_enum(t);
    cout << " ctors";
    for (int k = 0; k < interrogate_type_number_of_constructors(t); ++k) cout << " " << fname(interrogate_type_get_constructor(t, k));
    cout << " dtor " << (interrogate_type_has_destructor(t) ? fname(interrogate_type_get_destructor(t)) : string("-"));
    cout << " methods";
    for (int k = 0; k < interrogate_type_number_of_methods(t); ++k) cout << " " << fname(interrogate_type_get_method(t, k));
    cout << " casts";
    for (int k = 0; k < interrogate_type_number_of_casts(t); ++k) cout << " " << fname(interrogate_type_get_cast(t, k));
    cout << " elements";
    for (int k = 0; k < interrogate_type_number_of_elements(t); ++k) cout << " " << esc(interrogate_element_scoped_name(interrogate_type_get_element(t, k)));
    cout << " makeseqs";
    for (int k = 0; k < interrogate_type_number_of_make_seqs(t); ++k) cout << " " << esc(interrogate_make_seq_scoped_name(interrogate_type_get_make_seq(t, k)));
    cout << " derivs";
    for (int k = 0; k < interrogate_type_number_of_derivations(t); ++k) {
      cout << " (" << tname(interrogate_type_get_derivation(t, k))
           << " up " << (interrogate_type_derivation_has_upcast(t, k) ? fname(interrogate_type_get_upcast(t, k)) : string("-"))
           << " down " << (interrogate_type_derivation_has_downcast(t, k) ? fname(interrogate_type_get_downcast(t, k)) : string("-"))
           << " imp " << interrogate_type_derivation_downcast_is_impossible(t, k) << ")";
    }
    cout << " enums";
    for (int k = 0; k < interrogate_type_number_of_enum_values(t); ++k) {
      cout << " (" << esc(interrogate_type_enum_value_name(t, k)) << " " << esc(interrogate_type_enum_value_scoped_name(t, k))
           << " " << esc(interrogate_type_enum_value_comment(t, k)) << " " << interrogate_type_enum_value(t, k) << ")";
    }
    cout << " nested";
    for (int k = 0; k < interrogate_type_number_of_nested_types(t); ++k) cout << " " << tname(interrogate_type_get_nested_type(t, k));
    cout << "\n";
  }
  int nf = interrogate_number_of_functions();
  for (int i = 0; i < nf; ++i) {
    FunctionIndex f = interrogate_get_function(i);
    cout << "function " << fname(f) << " name " << esc(interrogate_function_name(f))
         << " class " << tname(interrogate_function_class(f))
         << " lib " << esc(interrogate_function_has_library_name(f) ? interrogate_function_library_name(f) : "")
         << " comment " << esc(interrogate_function_has_comment(f) ? interrogate_function_comment(f) : "")
         << " proto " << esc(interrogate_function_prototype(f))
         << " flags " << interrogate_function_is_method(f) << interrogate_function_is_virtual(f) << interrogate_function_is_unary_op(f)
         << interrogate_function_is_operator_typecast(f) << interrogate_function_is_constructor(f) << interrogate_function_is_destructor(f);
    for (int pass = 0; pass < 2; ++pass) {
      int nw = pass == 0 ? interrogate_function_number_of_c_wrappers(f) : interrogate_function_number_of_python_wrappers(f);
      cout << (pass == 0 ? " cw" : " pw");
      for (int k = 0; k < nw; ++k) {
        FunctionWrapperIndex w = pass == 0 ? interrogate_function_c_wrapper(f, k) : interrogate_function_python_wrapper(f, k);
        cout << " {" << esc(interrogate_wrapper_name(w)) << " uniq " << esc(interrogate_wrapper_unique_name(w))
             << " fn " << fname(interrogate_wrapper_function(w))
             << " ret " << (interrogate_wrapper_has_return_value(w) ? tname(interrogate_wrapper_return_type(w)) : string("-"))
             << " mgr " << interrogate_wrapper_caller_manages_return_value(w)
             << " rdtor " << fname(interrogate_wrapper_return_value_destructor(w))
             << " flags " << interrogate_wrapper_is_callable_by_name(w) << interrogate_wrapper_is_copy_constructor(w)
             << interrogate_wrapper_is_coerce_constructor(w) << interrogate_wrapper_is_extension(w) << interrogate_wrapper_is_deprecated(w)
             << " comment " << esc(interrogate_wrapper_has_comment(w) ? interrogate_wrapper_comment(w) : "")
             << " params";
        for (int q = 0; q < interrogate_wrapper_number_of_parameters(w); ++q) {
          cout << " (" << tname(interrogate_wrapper_parameter_type(w, q)) << " "
               << (interrogate_wrapper_parameter_has_name(w, q) ? esc(interrogate_wrapper_parameter_name(w, q)) : string("-"))
               << " this " << interrogate_wrapper_parameter_is_this(w, q) << " opt " << interrogate_wrapper_parameter_is_optional(w, q) << ")";
        }
        cout << "}";
      }
    }
    cout << "\n";
  }
  for (int i = 0; i < interrogate_number_of_manifests(); ++i) {
    ManifestIndex m = interrogate_get_manifest(i);
    cout << "manifest " << esc(interrogate_manifest_name(m)) << " def " << esc(interrogate_manifest_definition(m))
         << " type " << (interrogate_manifest_has_type(m) ? tname(interrogate_manifest_get_type(m)) : string("-"))
         << " int " << (interrogate_manifest_has_int_value(m) ? interrogate_manifest_get_int_value(m) : -999999)
         << " getter " << (interrogate_manifest_has_getter(m) ? fname(interrogate_manifest_getter(m)) : string("-")) << "\n";
  }
  for (int i = 0; i < interrogate_number_of_globals(); ++i) {
    ElementIndex e = interrogate_get_global(i);
    cout << "global " << esc(interrogate_element_scoped_name(e)) << " type " << tname(interrogate_element_type(e))
         << " getter " << (interrogate_element_has_getter(e) ? fname(interrogate_element_getter(e)) : string("-"))
         << " setter " << (interrogate_element_has_setter(e) ? fname(interrogate_element_setter(e)) : string("-")) << "\n";
  }
  for (int i = 0; i < interrogate_number_of_global_types(); ++i) cout << "globaltype " << tname(interrogate_get_global_type(i)) << "\n";
  for (int i = 0; i < interrogate_number_of_global_functions(); ++i) cout << "globalfunction " << fname(interrogate_get_global_function(i)) << "\n";
}

int main(int argc, char **argv) {
  if (argc < 2) { cerr << "usage\n"; return 2; }
  string mode = argv[1];
  if (mode == "rewrite") {
    int ident = atoi(argv[2]);
    for (int i = 3; i < argc; ++i) request(argv[i], ident);
    bool err = interrogate_error_flag();   // the error flag as the very first query after the requests: it must already know
    cerr << "ERRFIRST " << err << "\n";
    interrogate_number_of_types();
    err = interrogate_error_flag();
    cerr << "ERR " << err << "\n";
    InterrogateModuleDef def;
    memset(&def, 0, sizeof(def));
    def.file_identifier = ident;
    def.library_name = getenv("DBTOOL_LIB") ? getenv("DBTOOL_LIB") : "";
    def.library_hash_name = getenv("DBTOOL_HASH") ? getenv("DBTOOL_HASH") : "";
    def.module_name = getenv("DBTOOL_MOD") ? getenv("DBTOOL_MOD") : "";
    InterrogateDatabase::get_ptr()->write(cout, &def);
    return 0;
  }
  if (mode == "query") {
    for (int i = 2; i < argc; ++i) request(argv[i], 0);
    dump();
    return 0;
  }
  if (mode == "interleave") {
    // a by-name lookup is answered between any two load requests (lookup tables must be refreshed)
    for (int i = 2; i < argc; ++i) {
      request(argv[i], 0);
      cout << "after " << (i - 1) << " ntypes " << interrogate_number_of_types()
           << " lookup_int " << (interrogate_get_type_by_true_name("int") != 0) << "\n";
      // every one of the six by-name tables must see everything loaded so far
      for (int k = 0; k < interrogate_number_of_types(); ++k) {
        TypeIndex t = interrogate_get_type(k);
        struct { const char *what; const char *name; TypeIndex r; } q[3] = {
          {"type_by_name", interrogate_type_name(t), 0}, {"type_by_scoped_name", interrogate_type_scoped_name(t), 0}, {"type_by_true_name", interrogate_type_true_name(t), 0}};
        q[0].r = interrogate_get_type_by_name(q[0].name);
        q[1].r = interrogate_get_type_by_scoped_name(q[1].name);
        q[2].r = interrogate_get_type_by_true_name(q[2].name);
        for (int j = 0; j < 3; ++j) {
          if (strlen(q[j].name) > 0 && q[j].r == 0)
            cout << "LOOKUP-MISMATCH " << q[j].what << " " << esc(q[j].name) << " -> 0 although type " << t << " bears that name\n";
        }
        for (int e = 0; e < interrogate_type_number_of_elements(t); ++e) {
          ElementIndex el = interrogate_type_get_element(t, e);
          if (strlen(interrogate_element_name(el)) > 0 && interrogate_get_element_by_name(interrogate_element_name(el)) == 0)
            cout << "LOOKUP-MISMATCH element_by_name " << esc(interrogate_element_name(el)) << " -> 0\n";
          if (strlen(interrogate_element_scoped_name(el)) > 0 && interrogate_get_element_by_scoped_name(interrogate_element_scoped_name(el)) == 0)
            cout << "LOOKUP-MISMATCH element_by_scoped_name " << esc(interrogate_element_scoped_name(el)) << " -> 0\n";
        }
      }
      for (int k = 0; k < interrogate_number_of_manifests(); ++k) {
        ManifestIndex m = interrogate_get_manifest(k);
        if (interrogate_get_manifest_by_name(interrogate_manifest_name(m)) == 0)
          cout << "LOOKUP-MISMATCH manifest_by_name " << esc(interrogate_manifest_name(m)) << " -> 0\n";
      }
    }
    dump();
    return 0;
  }
  if (mode == "firstlookup") {
    // dbtool firstlookup <kind> <name> <file>...: every file but the last is requested and loaded; then the last file is requested and the
    // VERY FIRST query afterwards is the by-name lookup (a name that only the last file defines): it must see the new file
    string kind = argv[2];
    const char *name = argv[3];
    for (int i = 4; i < argc - 1; ++i) request(argv[i], 0);
    int before = interrogate_number_of_types();
    request(argv[argc - 1], 0);
    int r = 0;
    if (kind == "type_by_name") r = interrogate_get_type_by_name(name);
    else if (kind == "type_by_scoped_name") r = interrogate_get_type_by_scoped_name(name);
    else if (kind == "type_by_true_name") r = interrogate_get_type_by_true_name(name);
    else if (kind == "element_by_name") r = interrogate_get_element_by_name(name);
    else if (kind == "element_by_scoped_name") r = interrogate_get_element_by_scoped_name(name);
    else if (kind == "manifest_by_name") r = interrogate_get_manifest_by_name(name);
    cout << "FIRST " << kind << " " << (r != 0) << " types-before " << before << "\n";
    return 0;
  }
  if (mode == "query-reused-buffer") {
    // the public entry point interrogate_request_database with ONE buffer reused for every file name (the library must keep its own copy)
    static char buf[4096];
    for (int i = 2; i < argc; ++i) {
      strncpy(buf, argv[i], sizeof(buf) - 1);
      interrogate_request_database(buf);
      memset(buf, 'x', 16);
    }
    buf[0] = 0;
    dump();
    return 0;
  }
  cerr << "unknown mode\n";
  return 2;
}
