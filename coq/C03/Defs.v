(* C03 — wrapper naming: InterrogateBuilder::hash_string and the collision
   protocol of InterfaceMaker::hash_function_signature.  No proofs. *)
From Coq Require Import NArith List Bool Ascii.
Import ListNotations.
Local Open Scope N_scope.

Definition bytes := list ascii.

(* ---- hash_string(name, shift_offset) on unsigned 24-bit arithmetic ---- *)
Definition mask24 : N := 16777215.
Definition hash_step (off : N) (st : N * N) (c : N) : N * N :=
  let '(hash, shift) := st in
  let shifted := N.land (N.shiftl c shift) mask24 in
  let shifted := if 16 <? shift then N.lor shifted (N.land (N.shiftr c (24 - shift)) 255) else shifted in
  (N.land (hash + shifted) mask24, (shift + off) mod 24).
Definition hash_acc (name : bytes) (off : N) : N :=
  fst (fold_left (hash_step off) (map N_of_ascii name) (0, 0)).
Definition scramble (h : N) : N :=
  let product := h * 4999 in N.land (N.lxor product (N.shiftr product 24)) mask24.
Definition sym (v : N) : ascii :=
  if v <? 26 then ascii_of_N (65 + v)
  else if v <? 52 then ascii_of_N (97 + v - 26)
  else if v <? 62 then ascii_of_N (48 + v - 52)
  else ascii_of_N 95.
Definition chars4 (h : N) : bytes :=
  [sym (N.land h 63); sym (N.land (N.shiftr h 6) 63); sym (N.land (N.shiftr h 12) 63); sym (N.land (N.shiftr h 18) 63)].
Definition hash_string (name : bytes) (off : N) : bytes := chars4 (scramble (hash_acc name off)).

Definition ident_char (c : ascii) : bool :=
  let n := N_of_ascii c in
  ((65 <=? n) && (n <=? 90)) || ((97 <=? n) && (n <=? 122)) || ((48 <=? n) && (n <=? 57)) || (n =? 95).

(* ---- the collision protocol, for ARBITRARY hash functions ---- *)
Section Protocol.
Variable key : Type.                       (* name strings *)
Variable key_eqb : key -> key -> bool.
Variable app_key : key -> key -> key.      (* string concatenation *)
Variable letter : nat -> key.              (* "a" .. "z" for 0..25 *)
Variable sig : Type.                       (* function signatures *)
Variables h5 h11 : sig -> key.

(* _wrappers_by_hash: name -> remap (Some id) or nullptr tombstone (None) *)
Definition table := list (key * option nat).
Fixpoint tfind (t : table) (k : key) : option (option nat) :=
  match t with [] => None | (k', v) :: r => if key_eqb k' k then Some v else tfind r k end.
Fixpoint tset (t : table) (k : key) (v : option nat) : table :=
  match t with
  | [] => [(k, v)]
  | (k', v') :: r => if key_eqb k' k then (k', v) :: r else (k', v') :: tset r k v
  end.
(* std::map::insert: no effect when the key exists; tells whether it inserted *)
Definition tinsert (t : table) (k : key) (v : option nat) : table * bool :=
  match tfind t k with Some _ => (t, false) | None => (tset t k v, true) end.

(* remap->_hash of every remap processed so far, by id *)
Definition names := list (nat * key).
Fixpoint nget (n : names) (id : nat) : option key :=
  match n with [] => None | (i, k) :: r => if Nat.eqb i id then Some k else nget r id end.
Fixpoint nset (n : names) (id : nat) (k : key) : names :=
  match n with
  | [] => [(id, k)]
  | (i, k') :: r => if Nat.eqb i id then (i, k) :: r else (i, k') :: nset r id k
  end.

(* nms = the _hash field of every remap (mutated later by demote); emitted = the wrapper/unique name hash part,
   which make_function_remap copies out of _hash right after hash_function_signature returns and never updates *)
Record state := { tbl : table; nms : names; sigs : list (nat * sig); errors : nat; emitted : list (nat * key) }.

Fixpoint sig_of (l : list (nat * sig)) (id : nat) : option sig :=
  match l with [] => None | (i, s) :: r => if Nat.eqb i id then Some s else sig_of r id end.

(* the a..z loop: first letter whose extended name can be inserted *)
Fixpoint try_letters (t : table) (base : key) (id : nat) (n : nat) (fuel : nat) : table * key * bool :=
  match fuel with
  | O => (t, app_key base (letter 25), false)               (* hash keeps the last name tried *)
  | S f =>
      let k := app_key base (letter n) in
      match tinsert t k (Some id) with
      | (t', true) => (t', k, true)
      | (_, false) => try_letters t base id (S n) f
      end
  end.

(* conflict on the short name h: the earlier holder (if it still holds h) gives it up and is re-registered
   under its extended name; h stays in the table as a nullptr tombstone *)
Definition demote (t : table) (n : names) (sg : list (nat * sig)) (e : nat) (h : key) (holder : option nat)
  : table * names * nat :=
  match holder with
  | None => (t, n, e)
  | Some other =>
      match nget n other, sig_of sg other with
      | Some oh, Some os =>
          let t0 := tset t h None in
          let oh' := app_key oh (h11 os) in
          match tfind t0 oh' with
          | Some _ => (t0, nset n other oh', S e)              (* "Internal error!  Hash ... already appears!" *)
          | None => (tset t0 oh' (Some other), nset n other oh', e)
          end
      | _, _ => (t, n, S e)
      end
  end.

(* register id under hash, or under hash+letter *)
Definition claim (t : table) (n : names) (e : nat) (id : nat) (hash : key) : table * names * nat :=
  match tfind t hash with
  | None => (tset t hash (Some id), nset n id hash, e)
  | Some _ =>
      let '(t3, k, ok) := try_letters t hash id 0 26 in
      (t3, nset n id k, if ok then e else S e)                 (* "Internal error!  Too many conflicts" *)
  end.

Definition step (st : state) (x : nat * sig) : state :=
  let '(id, s) := x in
  let h := h5 s in
  let sg := (id, s) :: sigs st in
  match tfind (tbl st) h with
  | None => {| tbl := tset (tbl st) h (Some id); nms := nset (nms st) id h; sigs := sg; errors := errors st;
               emitted := (id, h) :: emitted st |}
  | Some holder =>
      let '(t1, n1, e1) := demote (tbl st) (nms st) (sigs st) (errors st) h holder in
      let '(t2, n2, e2) := claim t1 n1 e1 id (app_key h (h11 s)) in
      {| tbl := t2; nms := n2; sigs := sg; errors := e2;
         emitted := (id, match nget n2 id with Some k => k | None => h end) :: emitted st |}
  end.

Definition init : state := {| tbl := []; nms := []; sigs := []; errors := 0; emitted := [] |}.
Definition run (l : list (nat * sig)) : state := fold_left step l init.

End Protocol.

(* ---- the concrete instance: real hash functions, real string operations ---- *)
Fixpoint bytes_eqb (a b : bytes) : bool :=
  match a, b with
  | [], [] => true
  | x :: a', y :: b' => (N_of_ascii x =? N_of_ascii y) && bytes_eqb a' b'
  | _, _ => false
  end.
(* only 0..25 are ever requested (the a..z loop); the clamp makes the function total on identifiers *)
Definition letter_key (n : nat) : bytes := [ascii_of_N (97 + N.of_nat (Nat.min n 25))].
Definition h5c (s : bytes) : bytes := hash_string s 5.
Definition h11c (s : bytes) : bytes := hash_string s 11.
Definition run_c (l : list (nat * bytes)) : state bytes bytes :=
  run bytes bytes_eqb (@app ascii) letter_key bytes h5c h11c l.
Definition number {A} (l : list A) : list (nat * A) := combine (seq 0 (length l)) l.
(* wrapper name / unique name of remap id: prefix ++ library hash ++ hash *)
Definition full_name (prefix libhash : bytes) (st : state bytes bytes) (id : nat) : option bytes :=
  match nget bytes (emitted bytes bytes st) id with Some h => Some (prefix ++ libhash ++ h) | None => None end.
Definition ident_ok (s : bytes) : bool := forallb ident_char s.
