From Coq Require Import NArith List Bool Ascii Arith Lia.
From IV Require Import C03.Defs.
Import ListNotations.

(* ---- characters of hash names ---- *)
Lemma sym_valid_all : forallb (fun v => ident_char (sym (N.of_nat v))) (seq 0 64) = true.
Proof. vm_compute. reflexivity. Qed.

Lemma sym_valid v : (v < 64)%N -> ident_char (sym v) = true.
Proof.
  intros H. pose proof sym_valid_all as A. rewrite forallb_forall in A.
  specialize (A (N.to_nat v)). rewrite N2Nat.id in A. apply A. apply in_seq. lia.
Qed.

Lemma land63 x : (N.land x 63 < 64)%N.
Proof. change 63%N with (N.ones 6). rewrite N.land_ones. apply N.mod_lt. discriminate. Qed.

Theorem hash_chars_valid name off :
  Forall (fun c => ident_char c = true) (hash_string name off) /\ length (hash_string name off) = 4%nat.
Proof.
  unfold hash_string, chars4. split; [|reflexivity].
  repeat constructor; apply sym_valid; apply land63.
Qed.

(* ---- the protocol ---- *)
Section Protocol.
Variable key : Type.
Variable key_eqb : key -> key -> bool.
Hypothesis key_eqb_spec : forall a b, key_eqb a b = true <-> a = b.
Variable app_key : key -> key -> key.
Variable letter : nat -> key.
Variable sig : Type.
Variables h5 h11 : sig -> key.

Notation tfind := (tfind key key_eqb).
Notation tset := (tset key key_eqb).
Notation nget := (nget key).
Notation nset := (nset key).
Notation demote := (demote key key_eqb app_key sig h11).
Notation claim := (claim key key_eqb app_key letter).
Notation step := (step key key_eqb app_key letter sig h5 h11).
Notation run := (run key key_eqb app_key letter sig h5 h11).
Notation try_letters := (try_letters key key_eqb app_key letter).
Notation errors := (errors key sig).
Notation tbl := (tbl key sig).
Notation nms := (nms key sig).
Notation sigs := (sigs key sig).
Notation emitted := (emitted key sig).

Lemma keqb_refl a : key_eqb a a = true. Proof. now apply key_eqb_spec. Qed.
Lemma keqb_neq a b : a <> b -> key_eqb a b = false.
Proof. intros H. destruct (key_eqb a b) eqn:E; [apply key_eqb_spec in E; contradiction | reflexivity]. Qed.

Lemma tfind_tset_same t k v : tfind (tset t k v) k = Some v.
Proof.
  induction t as [|[k' v'] r IH]; cbn; [now rewrite keqb_refl|].
  destruct (key_eqb k' k) eqn:E; cbn; rewrite E; [reflexivity | exact IH].
Qed.
Lemma tfind_tset_other t k v k' : k <> k' -> tfind (tset t k v) k' = tfind t k'.
Proof.
  intros Hne. induction t as [|[k0 v0] r IH]; cbn; [now rewrite (keqb_neq k k' Hne)|].
  destruct (key_eqb k0 k) eqn:E; cbn.
  - apply key_eqb_spec in E. subst k0. now rewrite (keqb_neq k k' Hne).
  - destruct (key_eqb k0 k'); [reflexivity | exact IH].
Qed.
(* keys are never removed from the table *)
Lemma tset_keeps t k v q : tfind t q <> None -> tfind (tset t k v) q <> None.
Proof.
  intros H. destruct (key_eqb k q) eqn:E.
  - apply key_eqb_spec in E. subst. rewrite tfind_tset_same. discriminate.
  - rewrite tfind_tset_other; [exact H|]. intros ->. rewrite keqb_refl in E. discriminate.
Qed.

Lemma nget_nset_same n id k : nget (nset n id k) id = Some k.
Proof.
  induction n as [|[i k'] r IH]; cbn; [now rewrite Nat.eqb_refl|].
  destruct (Nat.eqb i id) eqn:E; cbn; rewrite E; [reflexivity | exact IH].
Qed.

Lemma try_letters_ok t base id : forall fuel n t' k,
  try_letters t base id n fuel = (t', k, true) -> tfind t k = None /\ t' = tset t k (Some id).
Proof.
  induction fuel as [|f IH]; intros n t' k H; cbn in H; [inversion H|].
  unfold Defs.tinsert in H. destruct (tfind t (app_key base (letter n))) eqn:E.
  - now apply IH in H.
  - inversion H; subst. auto.
Qed.
Lemma try_letters_keeps t base id q : tfind t q <> None -> forall fuel n t' k ok,
  try_letters t base id n fuel = (t', k, ok) -> tfind t' q <> None.
Proof.
  intros Hq. induction fuel as [|f IH]; intros n t' k ok H; cbn in H; [inversion H; now subst|].
  unfold Defs.tinsert in H. destruct (tfind t (app_key base (letter n))) eqn:E.
  - now apply IH in H.
  - inversion H; subst. now apply tset_keeps.
Qed.

Lemma demote_keeps t n sg e h holder t1 n1 e1 q :
  demote t n sg e h holder = (t1, n1, e1) -> tfind t q <> None -> tfind t1 q <> None /\ (e <= e1)%nat.
Proof.
  intros H Hq. unfold Defs.demote in H. destruct holder as [other|]; [|inversion H; subst; split; [assumption | lia]].
  destruct (nget n other); [|inversion H; subst; split; [assumption | lia]].
  destruct (sig_of sig sg other); [|inversion H; subst; split; [assumption | lia]].
  destruct (tfind (tset t h None) _); inversion H; subst; (split; [repeat apply tset_keeps; assumption | lia]).
Qed.
Lemma demote_mono t n sg e h holder t1 n1 e1 : demote t n sg e h holder = (t1, n1, e1) -> (e <= e1)%nat.
Proof.
  intros H. unfold Defs.demote in H. destruct holder as [other|]; [|inversion H; lia].
  destruct (nget n other); [|inversion H; lia]. destruct (sig_of sig sg other); [|inversion H; lia].
  destruct (tfind _ _); inversion H; lia.
Qed.

(* claim: the name given to id; without error it was a free key and is now present *)
Lemma claim_spec t n e id hash t2 n2 e2 :
  claim t n e id hash = (t2, n2, e2) ->
  (e <= e2)%nat /\ (forall q, tfind t q <> None -> tfind t2 q <> None) /\
  exists k, nget n2 id = Some k /\ (e2 = e -> tfind t k = None /\ tfind t2 k <> None).
Proof.
  intros H. unfold Defs.claim in H. destruct (tfind t hash) eqn:Ef.
  - destruct (try_letters t hash id 0 26) as [[t3 k] ok] eqn:Et. inversion H; subst.
    split; [destruct ok; lia|]. split; [intros q Hq; now apply (try_letters_keeps _ _ _ _ Hq _ _ _ _ _ Et)|].
    exists k. split; [apply nget_nset_same|]. intros E. destruct ok; [|lia].
    apply try_letters_ok in Et as [Hk ->]. split; [exact Hk | rewrite tfind_tset_same; discriminate].
  - inversion H; subst. split; [lia|]. split; [intros q Hq; now apply tset_keeps|].
    exists hash. split; [apply nget_nset_same|]. intros _. split; [exact Ef | rewrite tfind_tset_same; discriminate].
Qed.

Definition einv (st : state key sig) : Prop :=
  (forall id k, In (id, k) (emitted st) -> tfind (tbl st) k <> None) /\ NoDup (map snd (emitted st)).

Lemma step_spec st id s :
  einv st -> (errors st <= errors (step st (id, s)))%nat /\
  (errors (step st (id, s)) = errors st -> einv (step st (id, s))) /\
  map fst (emitted (step st (id, s))) = id :: map fst (emitted st).
Proof.
  intros [K Hnd]. cbn [Defs.step].
  destruct (tfind (tbl st) (h5 s)) as [holder|] eqn:Eh.
  2:{ unfold einv. cbn [Defs.tbl Defs.nms Defs.sigs Defs.errors Defs.emitted]. split; [lia|]. split; [|reflexivity]. intros _. split.
      - intros i k [Hin|Hin]; [inversion Hin; subst; rewrite tfind_tset_same; discriminate | apply tset_keeps; now apply (K i k)].
      - cbn. constructor; [|exact Hnd]. intros Hin. apply in_map_iff in Hin as ([i k] & Ek & Hin). cbn in Ek. subst k.
        apply (K i (h5 s) Hin). exact Eh. }
  destruct (demote (tbl st) (nms st) (sigs st) (errors st) (h5 s) holder) as [[t1 n1] e1] eqn:Ed.
  pose proof (demote_mono _ _ _ _ _ _ _ _ _ Ed) as Le1.
  destruct (claim t1 n1 e1 id (app_key (h5 s) (h11 s))) as [[t2 n2] e2] eqn:Ec.
  destruct (claim_spec _ _ _ _ _ _ _ _ Ec) as (Le2 & Keep2 & k & Hk & Hfree).
  unfold einv. cbn [Defs.tbl Defs.nms Defs.sigs Defs.errors Defs.emitted]. rewrite Hk.
  split; [lia|]. split; [|reflexivity]. intros E. destruct (Hfree ltac:(lia)) as [Hk1 Hk2]. split.
  - intros i q [Hin|Hin]; [inversion Hin; subst; exact Hk2|].
    apply Keep2. apply (demote_keeps _ _ _ _ _ _ _ _ _ q Ed). now apply (K i q).
  - cbn. constructor; [|exact Hnd]. intros Hin. apply in_map_iff in Hin as ([i q] & Eq & Hin). cbn in Eq. subst q.
    destruct (demote_keeps _ _ _ _ _ _ _ _ _ k Ed (K i k Hin)) as [Hpres _]. contradiction.
Qed.

Lemma run_app l1 x : run (l1 ++ [x]) = step (run l1) x.
Proof. unfold Defs.run. now rewrite fold_left_app. Qed.

Lemma step_mono st x : (errors st <= errors (step st x))%nat.
Proof.
  destruct x as [i sg]. cbn [Defs.step]. destruct (tfind (tbl st) (h5 sg)) as [holder|]; [|cbn; lia].
  destruct (demote (tbl st) (nms st) (sigs st) (errors st) (h5 sg) holder) as [[t1 n1] e1] eqn:Ed.
  destruct (claim t1 n1 e1 i (app_key (h5 sg) (h11 sg))) as [[t2 n2] e2] eqn:Ec. cbn [Defs.errors].
  pose proof (demote_mono _ _ _ _ _ _ _ _ _ Ed). destruct (claim_spec _ _ _ _ _ _ _ _ Ec) as [? _]. lia.
Qed.

Theorem run_inv : forall l, errors (run l) = 0%nat -> einv (run l) /\ map fst (emitted (run l)) = rev (map fst l).
Proof.
  induction l as [|[id s] l IH] using rev_ind; intros Herr.
  - cbn. split; [split; [intros i k [] | constructor] | reflexivity].
  - rewrite run_app in *. pose proof (step_mono (run l) (id, s)) as Hm.
    destruct (IH ltac:(lia)) as [Iv Hdom].
    destruct (step_spec (run l) id s Iv) as (_ & Hst & Hf). split; [apply Hst; lia|].
    rewrite Hf, Hdom, map_app, rev_app_distr. reflexivity.
Qed.

(* All emitted names (the hash part of wrapper name and unique name) are pairwise
   distinct whenever no internal error was reported: for ANY hash functions, any
   number and pattern of collisions, any processing order. *)
Theorem names_distinct l : NoDup (map fst l) -> errors (run l) = 0%nat ->
  forall i j k, nget (emitted (run l)) i = Some k -> nget (emitted (run l)) j = Some k -> i = j.
Proof.
  intros Hids Herr. destruct (run_inv l Herr) as [[_ Hnd] Hdom].
  assert (Hfst : NoDup (map fst (emitted (run l)))) by (rewrite Hdom; now apply NoDup_rev).
  revert Hnd Hfst. generalize (emitted (run l)) as em. clear.
  induction em as [|[a b] r IH]; intros Hs Hf i j k Hi Hj; [discriminate|].
  cbn in *. inversion Hs as [|? ? Hs1 Hs2]; inversion Hf as [|? ? Hf1 Hf2]; subst.
  assert (Hin : forall x q, nget r x = Some q -> In q (map snd r) /\ In x (map fst r)).
  { clear. induction r as [|[c d] r IH]; intros x q H; [discriminate|]. cbn in *.
    destruct (Nat.eqb_spec c x); [inversion H; subst; auto | destruct (IH x q H); auto]. }
  destruct (Nat.eqb_spec a i), (Nat.eqb_spec a j); subst; auto.
  - inversion Hi; subst. destruct (Hin j k Hj). contradiction.
  - inversion Hj; subst. destruct (Hin i k Hi). contradiction.
  - now apply (IH Hs2 Hf2 i j k).
Qed.

(* every processed signature received a name *)
Theorem names_total l : errors (run l) = 0%nat -> forall id s, In (id, s) l -> nget (emitted (run l)) id <> None.
Proof.
  intros Herr id s Hin. destruct (run_inv l Herr) as [_ Hdom].
  assert (Hi : In id (map fst (emitted (run l)))).
  { rewrite Hdom. apply -> in_rev. apply in_map_iff. now exists (id, s). }
  revert Hi. generalize (emitted (run l)) as em. induction em as [|[a b] r IH]; intros H; [contradiction|].
  cbn in *. destruct (Nat.eqb_spec a id); [discriminate|]. destruct H as [H|H]; [contradiction | now apply IH].
Qed.

(* ---- every emitted name is built from h5, h11 and the letters by concatenation ---- *)
Section Shape.
Variable V : key -> Prop.
Hypothesis V_h5 : forall s, V (h5 s).
Hypothesis V_h11 : forall s, V (h11 s).
Hypothesis V_app : forall a b, V a -> V b -> V (app_key a b).
Hypothesis V_letter : forall n, V (letter n).

Lemma try_letters_V t base id : V base -> forall fuel n t' k ok, try_letters t base id n fuel = (t', k, ok) -> V k.
Proof.
  intros Hb. induction fuel as [|f IH]; intros n t' k ok H; cbn in H.
  - inversion H; subst. now apply V_app.
  - unfold Defs.tinsert in H. destruct (tfind t (app_key base (letter n))).
    + now apply IH in H.
    + inversion H; subst. now apply V_app.
Qed.

Lemma step_V st x : (forall i k, In (i, k) (emitted st) -> V k) -> forall i k, In (i, k) (emitted (step st x)) -> V k.
Proof.
  intros H. destruct x as [id s]. cbn [Defs.step].
  destruct (tfind (tbl st) (h5 s)) as [holder|]; cbn [Defs.emitted].
  2:{ intros i k [Hin|Hin]; [inversion Hin; subst; apply V_h5 | now apply (H i k)]. }
  destruct (demote (tbl st) (nms st) (sigs st) (errors st) (h5 s) holder) as [[t1 n1] e1].
  destruct (claim t1 n1 e1 id (app_key (h5 s) (h11 s))) as [[t2 n2] e2] eqn:Ec. cbn [Defs.emitted].
  intros i k [Hin|Hin]; [|now apply (H i k)]. inversion Hin; subst. clear Hin.
  unfold Defs.claim in Ec. destruct (tfind t1 _).
  - destruct (try_letters _ _ _ _ _) as [[t3 q] ok] eqn:Et. inversion Ec; subst. rewrite nget_nset_same.
    apply (try_letters_V _ _ _ (V_app _ _ (V_h5 s) (V_h11 s)) _ _ _ _ _ Et).
  - inversion Ec; subst. rewrite nget_nset_same. apply V_app; auto.
Qed.

Theorem names_shape l : forall i k, In (i, k) (emitted (run l)) -> V k.
Proof.
  induction l as [|x l IH] using rev_ind; [intros i k []|].
  rewrite run_app. now apply step_V.
Qed.
End Shape.
End Protocol.

(* ---- concrete instance ---- *)
Lemma bytes_eqb_spec : forall a b, bytes_eqb a b = true <-> a = b.
Proof.
  induction a as [|x a IH]; intros [|y b]; cbn; try (split; [discriminate | congruence]); [tauto|].
  rewrite andb_true_iff, N.eqb_eq, IH. split.
  - intros [E ->]. f_equal. rewrite <- (ascii_N_embedding x), <- (ascii_N_embedding y). now rewrite E.
  - intros H. inversion H. auto.
Qed.

Lemma combine_fst_seq {A} (l : list A) : map fst (number l) = seq 0 (length l).
Proof.
  unfold number. generalize 0%nat. induction l as [|a t IH]; intros n; cbn; [reflexivity|]. now rewrite IH.
Qed.

Theorem wrapper_symbols_distinct : forall prefix libhash (sigs : list bytes),
  errors bytes bytes (run_c (number sigs)) = 0%nat ->
  forall i j n, full_name prefix libhash (run_c (number sigs)) i = Some n ->
                full_name prefix libhash (run_c (number sigs)) j = Some n -> i = j.
Proof.
  intros prefix libhash sigs Herr i j n Hi Hj. unfold full_name in *.
  destruct (nget _ _ i) as [hi|] eqn:Ei; [|discriminate]. destruct (nget _ _ j) as [hj|] eqn:Ej; [|discriminate].
  inversion Hi; inversion Hj; subst. apply app_inv_head in H1. apply app_inv_head in H1. subst hj.
  unfold run_c in *.
  apply (names_distinct bytes bytes_eqb bytes_eqb_spec (@app ascii) letter_key bytes h5c h11c (number sigs)) with (k := hi); auto.
  rewrite combine_fst_seq. apply seq_NoDup.
Qed.

Lemma nget_In {K} (l : list (nat * K)) i k : nget K l i = Some k -> In (i, k) l.
Proof.
  induction l as [|[a b] r IH]; cbn; [discriminate|]. destruct (Nat.eqb_spec a i); [intros H; inversion H; subst; now left | intros H; right; now apply IH].
Qed.

Theorem hash_part_is_identifier : forall (sigs : list bytes) i h,
  nget bytes (emitted bytes bytes (run_c (number sigs))) i = Some h -> Forall (fun c => ident_char c = true) h.
Proof.
  intros sigs i h H. apply nget_In in H. unfold run_c in H.
  apply (names_shape bytes bytes_eqb (@app ascii) letter_key bytes h5c h11c (fun k => Forall (fun c => ident_char c = true) k)) with (l := number sigs) (i := i); auto.
  - intros s. apply hash_chars_valid.
  - intros s. apply hash_chars_valid.
  - intros a b Ha Hb. apply Forall_app. auto.
  - intros n. unfold letter_key. constructor; [|constructor].
    assert (A : forallb (fun k => ident_char (ascii_of_N (97 + N.of_nat k))) (seq 0 26) = true) by (vm_compute; reflexivity).
    rewrite forallb_forall in A. apply A. apply in_seq. pose proof (Nat.le_min_r n 25). lia.
Qed.

(* 28 signatures that collide in both hashes exhaust the a..z suffixes: an internal error is reported and
   two wrappers share a name (witness built from constant hash functions) *)
Example too_many_conflicts :
  let l := number (repeat tt 28) in
  let st := run (list nat) (fun a b => if list_eq_dec Nat.eq_dec a b then true else false) (@app nat) (fun n => [n]) unit (fun _ => [100]) (fun _ => [200]) l in
  errors (list nat) unit st = 1%nat /\ nget (list nat) (emitted (list nat) unit st) 27 = nget (list nat) (emitted (list nat) unit st) 26.
Proof. vm_compute. split; reflexivity. Qed.
