From Coq Require Import ExtrOcamlBasic ExtrOcamlString.
From IV Require Import C03.Defs.
Extraction Language OCaml.
Extraction "ext.ml" hash_string run_c number ident_ok nget.
