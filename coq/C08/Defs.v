(* C08 — macro replacement, object-like fragment.
   impl : the lexer-level loop  get_identifier -> expand_manifest -> push_expansion  as a stack machine: a frame is the
          unread text of an expansion (or of the file) with the macro it came from; an identifier is replaced iff it names
          a macro that is not the macro of any frame on the stack (should_ignore_manifest walks the InputFile chain;
          _ignore_manifest is set for object-like macros); exhausted frames are popped when the lexer needs the next character.
   spec : C11 6.10.3.4 / Prosser's algorithm: every token carries a hide set; the replacement of a macro token T with hide
          set HS is rescanned with hide set HS + {T} together with the rest of the source.
   No proofs in this file. *)
From Coq Require Import List Bool Arith.
Import ListNotations.

Inductive tok := Id (n : nat) | Other (n : nat).
Definition table := nat -> option (list tok).          (* object-like macros: name -> replacement list *)

Definition emit (t : tok) (r : list tok * bool) : list tok * bool := (t :: fst r, snd r).
Fixpoint mem (n : nat) (l : list nat) : bool := match l with [] => false | x :: r => Nat.eqb n x || mem n r end.

(* ---------------- implementation: stack of input frames *)
Definition frame := (list tok * option nat)%type.
Fixpoint norm (st : list frame) : list frame :=
  match st with ([], _) :: r => norm r | _ => st end.
Fixpoint active (st : list frame) : list nat :=
  match st with [] => [] | (_, Some m) :: r => m :: active r | (_, None) :: r => active r end.

Fixpoint run (defs : table) (fuel : nat) (st : list frame) : list tok * bool :=
  match fuel with
  | 0 => ([], false)
  | S f =>
      match norm st with
      | [] => ([], true)
      | ([], _) :: _ => ([], true)
      | (Other k :: ts, m) :: rest => emit (Other k) (run defs f ((ts, m) :: rest))
      | (Id n :: ts, m) :: rest =>
          if mem n (active ((ts, m) :: rest)) then emit (Id n) (run defs f ((ts, m) :: rest))
          else match defs n with
               | None => emit (Id n) (run defs f ((ts, m) :: rest))
               | Some body => run defs f ((body, Some n) :: (ts, m) :: rest)
               end
      end
  end.
Definition impl_expand (defs : table) (fuel : nat) (ts : list tok) := run defs fuel [(ts, None)].

(* ---------------- specification: hide sets *)
Fixpoint expand (defs : table) (fuel : nat) (ts : list (tok * list nat)) : list tok * bool :=
  match fuel with
  | 0 => ([], false)
  | S f =>
      match ts with
      | [] => ([], true)
      | (Other k, _) :: r => emit (Other k) (expand defs f r)
      | (Id n, hs) :: r =>
          if mem n hs then emit (Id n) (expand defs f r)
          else match defs n with
               | None => emit (Id n) (expand defs f r)
               | Some body => expand defs f (map (fun t => (t, n :: hs)) body ++ r)
               end
      end
  end.
Definition cpp_expand (defs : table) (fuel : nat) (ts : list tok) := expand defs fuel (map (fun t => (t, [])) ts).

(* ---------------- programs: #define / #undef interleaved with text lines *)
Inductive line := Define (n : nat) (body : list tok) | Undef (n : nat) | Text (ts : list tok).
Definition upd (d : table) (n : nat) (v : option (list tok)) : table := fun k => if Nat.eqb k n then v else d k.
Fixpoint program (exp : table -> list tok -> list tok * bool) (d : table) (p : list line) : list (list tok * bool) :=
  match p with
  | [] => []
  | Define n b :: r => program exp (upd d n (Some b)) r
  | Undef n :: r => program exp (upd d n None) r
  | Text ts :: r => exp d ts :: program exp d r
  end.
Definition impl_program (fuel : nat) := program (fun d ts => impl_expand d fuel ts) (fun _ => None).
Definition spec_program (fuel : nat) := program (fun d ts => cpp_expand d fuel ts) (fun _ => None).
