(* C08 — macro replacement, object-like fragment.
   impl : the lexer-level loop  get_identifier -> expand_manifest -> push_expansion  as a stack machine: a frame is the
          unread text of an expansion (or of the file) with the macro it came from; an identifier is replaced iff it names
          a macro that is not the macro of any frame on the stack (should_ignore_manifest walks the InputFile chain;
          _ignore_manifest is set for object-like macros); exhausted frames are popped when the lexer needs the next character.
   spec : C11 6.10.3.4 / Prosser's algorithm: every token carries a hide set; the replacement of a macro token T with hide
          set HS is rescanned with hide set HS + {T} together with the rest of the source.
   No proofs in this file. *)
From Coq Require Import List Bool Arith.
Import ListNotations.

Inductive tok := Id (n : nat) | Other (n : nat).
Definition table := nat -> option (list tok).          (* object-like macros: name -> replacement list *)

Definition emit (t : tok) (r : list tok * bool) : list tok * bool := (t :: fst r, snd r).
Fixpoint mem (n : nat) (l : list nat) : bool := match l with [] => false | x :: r => Nat.eqb n x || mem n r end.

(* ---------------- implementation: stack of input frames *)
Definition frame := (list tok * option nat)%type.
Fixpoint norm (st : list frame) : list frame :=
  match st with ([], _) :: r => norm r | _ => st end.
Fixpoint active (st : list frame) : list nat :=
  match st with [] => [] | (_, Some m) :: r => m :: active r | (_, None) :: r => active r end.

Fixpoint run (defs : table) (fuel : nat) (st : list frame) : list tok * bool :=
  match fuel with
  | 0 => ([], false)
  | S f =>
      match norm st with
      | [] => ([], true)
      | ([], _) :: _ => ([], true)
      | (Other k :: ts, m) :: rest => emit (Other k) (run defs f ((ts, m) :: rest))
      | (Id n :: ts, m) :: rest =>
          if mem n (active ((ts, m) :: rest)) then emit (Id n) (run defs f ((ts, m) :: rest))
          else match defs n with
               | None => emit (Id n) (run defs f ((ts, m) :: rest))
               | Some body => run defs f ((body, Some n) :: (ts, m) :: rest)
               end
      end
  end.
Definition impl_expand (defs : table) (fuel : nat) (ts : list tok) := run defs fuel [(ts, None)].

(* ---------------- specification: hide sets *)
Fixpoint expand (defs : table) (fuel : nat) (ts : list (tok * list nat)) : list tok * bool :=
  match fuel with
  | 0 => ([], false)
  | S f =>
      match ts with
      | [] => ([], true)
      | (Other k, _) :: r => emit (Other k) (expand defs f r)
      | (Id n, hs) :: r =>
          if mem n hs then emit (Id n) (expand defs f r)
          else match defs n with
               | None => emit (Id n) (expand defs f r)
               | Some body => expand defs f (map (fun t => (t, n :: hs)) body ++ r)
               end
      end
  end.
Definition cpp_expand (defs : table) (fuel : nat) (ts : list tok) := expand defs fuel (map (fun t => (t, [])) ts).

(* ---------------- programs: #define / #undef interleaved with text lines *)
Inductive line := Define (n : nat) (body : list tok) | Undef (n : nat) | Text (ts : list tok).
Definition upd (d : table) (n : nat) (v : option (list tok)) : table := fun k => if Nat.eqb k n then v else d k.
Fixpoint program (exp : table -> list tok -> list tok * bool) (d : table) (p : list line) : list (list tok * bool) :=
  match p with
  | [] => []
  | Define n b :: r => program exp (upd d n (Some b)) r
  | Undef n :: r => program exp (upd d n None) r
  | Text ts :: r => exp d ts :: program exp d r
  end.
Definition impl_program (fuel : nat) := program (fun d ts => impl_expand d fuel ts) (fun _ => None).
Definition spec_program (fuel : nat) := program (fun d ts => cpp_expand d fuel ts) (fun _ => None).

(* ---------------- # : CPPManifest::stringify as the character-level state machine it is, and C11 6.10.3.2 over tokens *)
Require Import NArith.
Notation chr := N (only parsing).
Definition c_dq : N := 34%N.
Definition c_sq : N := 39%N.
Definition c_bs : N := 92%N.

Record sstate := { escaped : bool; in_sq : bool; in_dq : bool }.
Definition s0 := {| escaped := false; in_sq := false; in_dq := false |}.

(* one character: what is appended, and the next state.  [fixed] = quotes of the other kind do not toggle inside a literal (repaired code) *)
Definition sstep (fixed : bool) (st : sstate) (c : N) : list N * sstate :=
  if escaped st then
    ((if N.eqb c c_bs || N.eqb c c_dq then [c_bs; c] else [c]), {| escaped := false; in_sq := in_sq st; in_dq := in_dq st |})
  else if N.eqb c c_bs then
    (if in_sq st || in_dq st then ([c_bs; c], {| escaped := true; in_sq := in_sq st; in_dq := in_dq st |}) else ([c], st))
  else if N.eqb c c_sq then
    ([c], if fixed && in_dq st then st else {| escaped := false; in_sq := negb (in_sq st); in_dq := in_dq st |})
  else if N.eqb c c_dq then
    ([c_bs; c], if fixed && in_sq st then st else {| escaped := false; in_sq := in_sq st; in_dq := negb (in_dq st) |})
  else ([c], st).

Fixpoint srun (fixed : bool) (st : sstate) (s : list N) : list N * sstate :=
  match s with
  | [] => ([], st)
  | c :: r => let (o, st') := sstep fixed st c in let (o2, st'') := srun fixed st' r in (o ++ o2, st'')
  end.
Definition stringify (fixed : bool) (s : list N) : list N := c_dq :: fst (srun fixed s0 s) ++ [c_dq].

(* the argument as preprocessing tokens: literals (string or character) whose body is made of plain characters and escape pairs,
   and everything else (identifiers, numbers, punctuators, white space) *)
Inductive item := Plain (c : N) | Esc (c : N).
Inductive stok := SLit (dq : bool) (body : list item) | SOther (cs : list N).

Definition quote_of (dq : bool) : N := if dq then c_dq else c_sq.
Definition item_src (i : item) : list N := match i with Plain c => [c] | Esc c => [c_bs; c] end.
Definition stok_src (t : stok) : list N :=
  match t with SLit dq body => quote_of dq :: flat_map item_src body ++ [quote_of dq] | SOther cs => cs end.

(* 6.10.3.2: a backslash is inserted before each double quote and backslash of a character constant or string literal, delimiters included *)
Definition esc_char (c : N) : list N := if N.eqb c c_bs || N.eqb c c_dq then [c_bs; c] else [c].
Definition item_spec (i : item) : list N := match i with Plain c => esc_char c | Esc c => [c_bs; c_bs] ++ esc_char c end.
Definition stok_spec (t : stok) : list N :=
  match t with SLit dq body => esc_char (quote_of dq) ++ flat_map item_spec body ++ esc_char (quote_of dq) | SOther cs => cs end.
Definition stringify_spec (ts : list stok) : list N := c_dq :: flat_map stok_spec ts ++ [c_dq].

(* well-formed: a plain character of a literal is neither its delimiter nor a backslash; other tokens contain no quote and no backslash *)
Definition item_ok (dq : bool) (i : item) : bool :=
  match i with Plain c => negb (N.eqb c (quote_of dq)) && negb (N.eqb c c_bs) | Esc _ => true end.
Definition stok_ok (t : stok) : bool :=
  match t with
  | SLit dq body => forallb (item_ok dq) body
  | SOther cs => forallb (fun c => negb (N.eqb c c_dq) && negb (N.eqb c c_sq) && negb (N.eqb c c_bs)) cs
  end.
