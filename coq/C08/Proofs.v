(* C08 — the stack machine of the lexer and the hide-set algorithm of the standard produce the same tokens, for every
   macro table of object-like macros (self-reference, mutual reference, any nesting), every text and every amount of fuel. *)
From Coq Require Import List Bool Arith Lia.
Import ListNotations.
From IV Require Import C08.Defs.

(* the tokens still to be read, each with the macros active at its frame and below *)
Fixpoint flat (st : list frame) : list (tok * list nat) :=
  match st with
  | [] => []
  | f :: rest => map (fun t => (t, active (f :: rest))) (fst f) ++ flat rest
  end.

Lemma active_cons_fst ts ts' m rest : active ((ts, m) :: rest) = active ((ts', m) :: rest).
Proof. destruct m; reflexivity. Qed.

Lemma flat_norm st : flat (norm st) = flat st.
Proof.
  induction st as [|[ts m] rest IH]; [reflexivity|].
  destruct ts as [|t ts]; [cbn [norm flat fst map app]; exact IH|reflexivity].
Qed.

Lemma norm_shape st : norm st = [] \/ exists t ts m rest, norm st = (t :: ts, m) :: rest.
Proof.
  induction st as [|[ts m] rest IH]; [left; reflexivity|].
  destruct ts as [|t ts]; [exact IH|right; cbn; eauto].
Qed.

Lemma flat_cons t ts m rest :
  flat ((t :: ts, m) :: rest) = (t, active ((ts, m) :: rest)) :: flat ((ts, m) :: rest).
Proof. destruct m; reflexivity. Qed.

Theorem run_expand defs : forall fuel st, run defs fuel st = expand defs fuel (flat st).
Proof.
  induction fuel as [|fuel IH]; intros st; [reflexivity|].
  cbn [run]. rewrite <- (flat_norm st).
  destruct (norm_shape st) as [E|[t [ts [m [rest E]]]]]; rewrite E; [reflexivity|].
  rewrite flat_cons. cbn [expand].
  destruct t as [n|k].
  - destruct (mem n (active ((ts, m) :: rest))) eqn:Em.
    + rewrite IH. reflexivity.
    + destruct (defs n) as [body|] eqn:Ed.
      * rewrite IH. f_equal.
      * rewrite IH. reflexivity.
  - rewrite IH. reflexivity.
Qed.

Theorem objlike_conforming defs fuel ts : impl_expand defs fuel ts = cpp_expand defs fuel ts.
Proof.
  unfold impl_expand, cpp_expand. rewrite run_expand. cbn [flat fst active app]. rewrite app_nil_r. reflexivity.
Qed.

Theorem program_conforming fuel p : impl_program fuel p = spec_program fuel p.
Proof.
  unfold impl_program, spec_program. generalize (fun _ : nat => @None (list tok)) as d.
  induction p as [|l r IH]; intros d; [reflexivity|].
  destruct l; cbn [program]; [apply IH|apply IH|]. rewrite objlike_conforming, IH. reflexivity.
Qed.

(* more fuel never changes a completed result (so the driver's fixed fuel is no restriction when it reports completion) *)
Lemma expand_mono defs : forall fuel ts out, expand defs fuel ts = (out, true) -> forall k, expand defs (fuel + k) ts = (out, true).
Proof.
  induction fuel as [|fuel IH]; intros ts out H k; [discriminate|].
  cbn [expand plus] in *.
  destruct ts as [|[t hs] r]; [exact H|].
  assert (Hemit : forall t0 r0, emit t0 (expand defs fuel r0) = (out, true) -> emit t0 (expand defs (fuel + k) r0) = (out, true)).
  { intros t0 r0 He. unfold emit in *. destruct (expand defs fuel r0) as [o b] eqn:E. cbn in He. injection He as <- ->.
    rewrite (IH r0 o E k). reflexivity. }
  destruct t as [n|j].
  - destruct (mem n hs); [apply Hemit; exact H|].
    destruct (defs n); [apply IH; exact H|apply Hemit; exact H].
  - apply Hemit; exact H.
Qed.

(* self-reference is suppressed: a macro is never replaced inside its own expansion, at any depth *)
Example self_reference :
  cpp_expand (fun k => if Nat.eqb k 0 then Some [Id 0; Other 1] else None) 10 [Id 0] = ([Id 0; Other 1], true).
Proof. reflexivity. Qed.
(* #define A B   #define B A x   :  A -> A x ; B -> B x *)
Example mutual_reference :
  let d := fun k => match k with 0 => Some [Id 1] | 1 => Some [Id 0; Other 7] | _ => None end in
  impl_expand d 10 [Id 0; Id 1] = ([Id 0; Other 7; Id 1; Other 7], true).
Proof. reflexivity. Qed.
