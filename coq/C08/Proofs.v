(* C08 — the stack machine of the lexer and the hide-set algorithm of the standard produce the same tokens, for every
   macro table of object-like macros (self-reference, mutual reference, any nesting), every text and every amount of fuel. *)
From Coq Require Import List Bool Arith Lia.
Import ListNotations.
From IV Require Import C08.Defs.

(* the tokens still to be read, each with the macros active at its frame and below *)
Fixpoint flat (st : list frame) : list (tok * list nat) :=
  match st with
  | [] => []
  | f :: rest => map (fun t => (t, active (f :: rest))) (fst f) ++ flat rest
  end.

Lemma active_cons_fst ts ts' m rest : active ((ts, m) :: rest) = active ((ts', m) :: rest).
Proof. destruct m; reflexivity. Qed.

Lemma flat_norm st : flat (norm st) = flat st.
Proof.
  induction st as [|[ts m] rest IH]; [reflexivity|].
  destruct ts as [|t ts]; [cbn [norm flat fst map app]; exact IH|reflexivity].
Qed.

Lemma norm_shape st : norm st = [] \/ exists t ts m rest, norm st = (t :: ts, m) :: rest.
Proof.
  induction st as [|[ts m] rest IH]; [left; reflexivity|].
  destruct ts as [|t ts]; [exact IH|right; cbn; eauto].
Qed.

Lemma flat_cons t ts m rest :
  flat ((t :: ts, m) :: rest) = (t, active ((ts, m) :: rest)) :: flat ((ts, m) :: rest).
Proof. destruct m; reflexivity. Qed.

Theorem run_expand defs : forall fuel st, run defs fuel st = expand defs fuel (flat st).
Proof.
  induction fuel as [|fuel IH]; intros st; [reflexivity|].
  cbn [run]. rewrite <- (flat_norm st).
  destruct (norm_shape st) as [E|[t [ts [m [rest E]]]]]; rewrite E; [reflexivity|].
  rewrite flat_cons. cbn [expand].
  destruct t as [n|k].
  - destruct (mem n (active ((ts, m) :: rest))) eqn:Em.
    + rewrite IH. reflexivity.
    + destruct (defs n) as [body|] eqn:Ed.
      * rewrite IH. f_equal.
      * rewrite IH. reflexivity.
  - rewrite IH. reflexivity.
Qed.

Theorem objlike_conforming defs fuel ts : impl_expand defs fuel ts = cpp_expand defs fuel ts.
Proof.
  unfold impl_expand, cpp_expand. rewrite run_expand. cbn [flat fst active app]. rewrite app_nil_r. reflexivity.
Qed.

Theorem program_conforming fuel p : impl_program fuel p = spec_program fuel p.
Proof.
  unfold impl_program, spec_program. generalize (fun _ : nat => @None (list tok)) as d.
  induction p as [|l r IH]; intros d; [reflexivity|].
  destruct l; cbn [program]; [apply IH|apply IH|]. rewrite objlike_conforming, IH. reflexivity.
Qed.

(* more fuel never changes a completed result (so the driver's fixed fuel is no restriction when it reports completion) *)
Lemma expand_mono defs : forall fuel ts out, expand defs fuel ts = (out, true) -> forall k, expand defs (fuel + k) ts = (out, true).
Proof.
  induction fuel as [|fuel IH]; intros ts out H k; [discriminate|].
  cbn [expand plus] in *.
  destruct ts as [|[t hs] r]; [exact H|].
  assert (Hemit : forall t0 r0, emit t0 (expand defs fuel r0) = (out, true) -> emit t0 (expand defs (fuel + k) r0) = (out, true)).
  { intros t0 r0 He. unfold emit in *. destruct (expand defs fuel r0) as [o b] eqn:E. cbn in He. injection He as <- ->.
    rewrite (IH r0 o E k). reflexivity. }
  destruct t as [n|j].
  - destruct (mem n hs); [apply Hemit; exact H|].
    destruct (defs n); [apply IH; exact H|apply Hemit; exact H].
  - apply Hemit; exact H.
Qed.

(* self-reference is suppressed: a macro is never replaced inside its own expansion, at any depth *)
Example self_reference :
  cpp_expand (fun k => if Nat.eqb k 0 then Some [Id 0; Other 1] else None) 10 [Id 0] = ([Id 0; Other 1], true).
Proof. reflexivity. Qed.
(* #define A B   #define B A x   :  A -> A x ; B -> B x *)
Example mutual_reference :
  let d := fun k => match k with 0 => Some [Id 1] | 1 => Some [Id 0; Other 7] | _ => None end in
  impl_expand d 10 [Id 0; Id 1] = ([Id 0; Other 7; Id 1; Other 7], true).
Proof. reflexivity. Qed.

(* ---------------- stringification *)
From Coq Require Import NArith.

Lemma srun_app fixed : forall a b st,
  srun fixed st (a ++ b) = (fst (srun fixed st a) ++ fst (srun fixed (snd (srun fixed st a)) b), snd (srun fixed (snd (srun fixed st a)) b)).
Proof.
  induction a as [|c r IH]; intros b st; cbn [app srun fst snd].
  - destruct (srun fixed st b); reflexivity.
  - destruct (sstep fixed st c) as [o st'] eqn:E. rewrite (IH b st').
    destruct (srun fixed st' r) as [o2 st2]. cbn [fst snd].
    destruct (srun fixed st2 b) as [o3 st3]. cbn [fst snd]. rewrite app_assoc. reflexivity.
Qed.

Definition plain_char (c : N) : bool := negb (N.eqb c c_dq) && negb (N.eqb c c_sq) && negb (N.eqb c c_bs).

Lemma other_run st cs : escaped st = false -> forallb plain_char cs = true -> srun true st cs = (cs, st).
Proof.
  intros He. induction cs as [|c r IH]; intros H; [reflexivity|].
  cbn [forallb] in H. apply andb_true_iff in H. destruct H as [Hc Hr].
  unfold plain_char in Hc. apply andb_true_iff in Hc. destruct Hc as [Hc Hb]. apply andb_true_iff in Hc. destruct Hc as [Hd Hs].
  apply negb_true_iff in Hd, Hs, Hb.
  cbn [srun]. unfold sstep. rewrite He, Hb, Hs, Hd. rewrite (IH Hr). reflexivity.
Qed.

Definition lit_state (dq : bool) : sstate := {| escaped := false; in_sq := negb dq; in_dq := dq |}.

Lemma sstep_bs_in_lit dq : sstep true (lit_state dq) c_bs = ([c_bs; c_bs], {| escaped := true; in_sq := negb dq; in_dq := dq |}).
Proof. destruct dq; reflexivity. Qed.
Lemma sstep_escaped a b c : sstep true {| escaped := true; in_sq := a; in_dq := b |} c = (esc_char c, {| escaped := false; in_sq := a; in_dq := b |}).
Proof. reflexivity. Qed.

Lemma item_run dq i : item_ok dq i = true -> srun true (lit_state dq) (item_src i) = (item_spec i, lit_state dq).
Proof.
  destruct i as [c|c]; cbn [item_ok item_src item_spec]; intros H.
  - apply andb_true_iff in H. destruct H as [Hq Hb]. apply negb_true_iff in Hq, Hb.
    cbn [srun]. unfold sstep, lit_state. cbn [escaped in_sq in_dq]. rewrite Hb. unfold esc_char. rewrite Hb. cbn [orb].
    destruct dq; cbn [quote_of negb andb orb] in *.
    + rewrite Hq. destruct (N.eqb c c_sq); reflexivity.
    + rewrite Hq. destruct (N.eqb c c_dq); reflexivity.
  - cbn [srun]. rewrite sstep_bs_in_lit, sstep_escaped. cbn [app]. rewrite app_nil_r. reflexivity.
Qed.

Lemma body_run dq body : forallb (item_ok dq) body = true ->
  srun true (lit_state dq) (flat_map item_src body) = (flat_map item_spec body, lit_state dq).
Proof.
  induction body as [|i r IH]; intros H; [reflexivity|].
  cbn [forallb] in H. apply andb_true_iff in H. destruct H as [Hi Hr].
  cbn [flat_map]. rewrite srun_app, (item_run dq i Hi). cbn [fst snd]. rewrite (IH Hr). reflexivity.
Qed.

Lemma tok_run t : stok_ok t = true -> srun true s0 (stok_src t) = (stok_spec t, s0).
Proof.
  destruct t as [dq body|cs]; cbn [stok_ok stok_src stok_spec]; intros H.
  - (* opening quote, body, closing quote *)
    change (quote_of dq :: flat_map item_src body ++ [quote_of dq]) with ([quote_of dq] ++ flat_map item_src body ++ [quote_of dq]).
    rewrite srun_app.
    assert (Ho : srun true s0 [quote_of dq] = (esc_char (quote_of dq), lit_state dq)) by (destruct dq; reflexivity).
    rewrite Ho. cbn [fst snd]. rewrite srun_app, (body_run dq body H). cbn [fst snd].
    assert (Hc : srun true (lit_state dq) [quote_of dq] = (esc_char (quote_of dq), s0)) by (destruct dq; reflexivity).
    rewrite Hc. reflexivity.
  - apply other_run; [reflexivity|exact H].
Qed.

Lemma toks_run ts : forallb stok_ok ts = true -> srun true s0 (flat_map stok_src ts) = (flat_map stok_spec ts, s0).
Proof.
  induction ts as [|t r IH]; intros H; [reflexivity|].
  cbn [forallb] in H. apply andb_true_iff in H. destruct H as [Ht Hr].
  cbn [flat_map]. rewrite srun_app, (tok_run t Ht). cbn [fst snd]. rewrite (IH Hr). reflexivity.
Qed.

(* the # operator: for EVERY argument made of well-formed tokens the character-level state machine produces the string literal the standard prescribes *)
Theorem stringify_conforming ts : forallb stok_ok ts = true -> stringify true (flat_map stok_src ts) = stringify_spec ts.
Proof. intros H. unfold stringify, stringify_spec. rewrite (toks_run ts H). reflexivity. Qed.

(* the pinned machine let a quote of the other kind toggle its state: "it's" followed by a character literal holding a backslash *)
Theorem stringify_pinned_refuted :
  let ts := [SLit true [Plain 105; Plain 116; Plain 39; Plain 115]; SOther [32]; SLit false [Esc 92]]%N in
  forallb stok_ok ts = true /\ stringify false (flat_map stok_src ts) <> stringify_spec ts.
Proof. split; [reflexivity|]. vm_compute. discriminate. Qed.
