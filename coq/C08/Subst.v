(* C08 — the substitution step of a function-like macro: CPPManifest::r_expand.
   The replacement list has been cut into nodes by save_expansion (C15.Defs); the arguments have been collected by extract_args.
   Every vector / string access that C++ leaves undefined out of range is CHECKED here (BadIndex).
   [exp_arg] is CPPPreprocessor::expand_manifests applied to an argument that is neither an operand of # nor of ##.
   [fixed_opt] selects the current  __VA_OPT__  test; false is the seeded variant that looks at the first variable argument only.
   No proofs in this file. *)
From Coq Require Import List Bool Arith NArith.
From IV Require Import C15.Defs C08.Defs.
Import ListNotations.

Definition is_empty (s : list N) : bool := match s with [] => true | _ => false end.
Definition nth_checked {A} (l : list A) (i : nat) : res A :=
  match nth_error l i with Some a => Ok a | None => BadIndex end.
(* s.back() / *s.rbegin() : undefined on an empty string *)
Definition back (s : list N) : res N := match rev s with c :: _ => Ok c | [] => BadIndex end.
Definition front (s : list N) : res N := match s with c :: _ => Ok c | [] => BadIndex end.
Definition c_space : N := 32%N.
Definition comma_space : list N := [44%N; 32%N].
Definition drop_last (s : list N) : list N := removelast s.

Section Subst.
  Variable exp_arg : list N -> list N.
  Variable fixed_opt : bool.
  Variable args : list (list N).
  Variable variadic : option nat.

  Definition is_variadic (i : nat) : bool := match variadic with Some v => Nat.eqb i v | None => false end.

  (* subst = args[i]; if (i == _variadic_param) for (++i; i < size; ++i) subst += ", " + args[i]; *)
  Fixpoint join_rest (l : list (list N)) : list N := match l with [] => [] | a :: r => comma_space ++ a ++ join_rest r end.
  Definition va_text (v : nat) : list N := match skipn v args with [] => [] | a :: r => a ++ join_rest r end.

  (* bool has_va_args = _variadic_param >= 0 && (size > vp + 1 || (size == vp + 1 && !args[vp].empty())) *)
  Definition has_va_args : res bool :=
    match variadic with
    | None => Ok false
    | Some v =>
        if fixed_opt then
          if S v <? length args then Ok true
          else if Nat.eqb (length args) (S v) then a <- nth_checked args v ;; Ok (negb (is_empty a))
          else Ok false
        else
          (* the seeded variant:  size > vp && !args[vp].empty() *)
          if v <? length args then a <- nth_checked args v ;; Ok (negb (is_empty a)) else Ok false
    end.

  (* result += subst, with a separating space unless result is empty, the node pastes, or result ends in '(' *)
  Definition add_subst (result subst : list N) (paste : bool) : res (list N) :=
    if is_empty subst then Ok result
    else if is_empty result || paste then Ok (result ++ subst)
    else b <- back result ;; if N.eqb b c_lparen then Ok (result ++ subst) else Ok (result ++ [c_space] ++ subst).
  Definition add_text (result text : list N) (paste : bool) : res (list N) :=
    if is_empty text then Ok result
    else if is_empty result || paste then Ok (result ++ text)
    else f <- front text ;; if N.eqb f c_comma || N.eqb f c_rparen then Ok (result ++ text) else Ok (result ++ [c_space] ++ text).

  (* the parameter part of a node: which text is substituted, and what happens to the result so far *)
  Definition parm_step (parm : option nat) (expand strfy paste : bool) (result : list N) : res (list N) :=
    match parm with
    | None => Ok result
    | Some i =>
        sr <- (if i <? length args then
                 a <- nth_checked args i ;;
                 let s := if is_variadic i then va_text i else a in
                 Ok (result, if strfy then stringify true s else s)
               else if is_variadic i && paste then
                 (* GCC: ", ## __VA_ARGS__" with no variable arguments removes the comma *)
                 if is_empty result then Ok (result, [])
                 else b <- back result ;; Ok (if N.eqb b c_comma then drop_last result else result, [])
               else if strfy then Ok (result, stringify true [])
               else Ok (result, [])) ;;
        let s2 := if expand then exp_arg (snd sr) else snd sr in
        add_subst (fst sr) s2 paste
    end.
  Definition add_nested (r2 nr : list N) (strfy paste : bool) : list N :=
    let nr2 := if strfy then stringify true nr else nr in
    if is_empty r2 || paste then r2 ++ nr2 else r2 ++ [c_space] ++ nr2.

  Fixpoint rx_node (n : node) (result : list N) {struct n} : res (list N) :=
    match n with
    | Node parm expand strfy paste optional text nested =>
        r1 <- parm_step parm expand strfy paste result ;;
        r2 <- add_text r1 text paste ;;
        match nested with
        | [] => Ok r2
        | _ =>
            h <- has_va_args ;;
            nr <- (if optional && h
                   then (fix go (l : list node) (acc : list N) {struct l} : res (list N) :=
                           match l with [] => Ok acc | x :: r => a <- rx_node x acc ;; go r a end) nested []
                   else Ok []) ;;
            Ok (add_nested r2 nr strfy paste)
        end
    end.

  Fixpoint rx_nodes (l : list node) (acc : list N) : res (list N) :=
    match l with [] => Ok acc | x :: r => a <- rx_node x acc ;; rx_nodes r a end.

  Definition r_expand (l : list node) : res (list N) := rx_nodes l [].
End Subst.

(* the whole path of one invocation whose arguments are already collected: #define line -> manifest -> nodes -> text *)
Definition subst_define (fixed_opt : bool) (define : list N) (args : list (list N)) : res (list N) :=
  m <- manifest_ctor true define ;;
  nodes <- save_expansion (S (length (m_rest m))) (m_params m) (m_variadic m) (m_rest m) ;;
  r_expand (fun s => s) fixed_opt args (m_variadic m) nodes.
