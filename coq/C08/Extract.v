From Coq Require Import ExtrOcamlBasic ExtrOcamlString.
From IV Require Import C08.Defs.
Extraction Language OCaml.
Extraction "ext.ml" impl_program spec_program stringify.
