From Coq Require Import ExtrOcamlBasic ExtrOcamlString.
From IV Require Import C08.Defs C08.Subst.
Extraction Language OCaml.
Extraction "ext.ml" impl_program spec_program stringify subst_define.
