From Coq Require Import List Bool Arith NArith Lia.
From IV Require Import C15.Defs C08.Defs C08.Subst.
Import ListNotations.

Section NodeInd.
  Variable P : node -> Prop.
  Hypothesis H : forall p e s pa o t l, Forall P l -> P (Node p e s pa o t l).
  Fixpoint node_ind' (n : node) : P n :=
    match n with
    | Node p e s pa o t l =>
        H p e s pa o t l ((fix go (l : list node) : Forall P l :=
                             match l with [] => Forall_nil _ | x :: r => Forall_cons _ (node_ind' x) (go r) end) l)
    end.
End NodeInd.

Lemma nth_checked_ok {A} (l : list A) i : i < length l -> exists a, nth_checked l i = Ok a.
Proof.
  intros H. unfold nth_checked. destruct (nth_error l i) eqn:E; [eauto|]. apply nth_error_None in E. lia.
Qed.
Lemma back_ok s : is_empty s = false -> exists c, back s = Ok c.
Proof.
  intros H. unfold back. destruct (rev s) eqn:E; [|eauto].
  apply (f_equal (@rev N)) in E. rewrite rev_involutive in E. subst. discriminate.
Qed.
Lemma front_ok s : is_empty s = false -> exists c, front s = Ok c.
Proof. destruct s; [discriminate | cbn; eauto]. Qed.

Section Total.
  Variable exp_arg : list N -> list N.
  Variable fixed_opt : bool.
  Variable args : list (list N).
  Variable variadic : option nat.

  Lemma has_va_args_total : exists b, has_va_args fixed_opt args variadic = Ok b.
  Proof.
    unfold has_va_args. destruct variadic as [v|]; [|eauto]. destruct fixed_opt.
    - destruct (S v <? length args) eqn:E1; [eauto|]. destruct (Nat.eqb (length args) (S v)) eqn:E2; [|eauto].
      apply Nat.eqb_eq in E2. destruct (nth_checked_ok args v ltac:(lia)) as [a Ha]. rewrite Ha. cbn. eauto.
    - destruct (v <? length args) eqn:E1; [|eauto]. apply Nat.ltb_lt in E1.
      destruct (nth_checked_ok args v E1) as [a Ha]. rewrite Ha. cbn. eauto.
  Qed.

  Lemma add_subst_total result s paste : exists r, add_subst result s paste = Ok r.
  Proof.
    unfold add_subst. destruct (is_empty s); [eauto|]. destruct (is_empty result) eqn:E; cbn [orb]; [eauto|].
    destruct paste; [eauto|]. destruct (back_ok result E) as [c Hc]. rewrite Hc. cbn. destruct (N.eqb c c_lparen); eauto.
  Qed.
  Lemma add_text_total result t paste : exists r, add_text result t paste = Ok r.
  Proof.
    unfold add_text. destruct (is_empty t) eqn:Et; [eauto|]. destruct (is_empty result); cbn [orb]; [eauto|].
    destruct paste; [eauto|]. destruct (front_ok t Et) as [c Hc]. rewrite Hc. cbn. destruct (N.eqb c c_comma || N.eqb c c_rparen); eauto.
  Qed.

  Lemma parm_step_total parm expand strfy paste result : exists r, parm_step exp_arg args variadic parm expand strfy paste result = Ok r.
  Proof.
    unfold parm_step. destruct parm as [i|]; [|eauto].
    destruct (i <? length args) eqn:E.
    - apply Nat.ltb_lt in E. destruct (nth_checked_ok args i E) as [a Ha]. rewrite Ha. cbn [bind fst snd]. apply add_subst_total.
    - destruct (is_variadic variadic i && paste).
      + destruct (is_empty result) eqn:Er; cbn [bind fst snd]; [apply add_subst_total|].
        destruct (back_ok result Er) as [c Hc]. rewrite Hc. cbn [bind fst snd]. apply add_subst_total.
      + destruct strfy; cbn [bind fst snd]; apply add_subst_total.
  Qed.

  (* r_expand never indexes a vector or a string out of range: for EVERY node list, argument vector (of any length, also shorter
     than the parameter list), variadic position and text so far, it returns a string *)
  Theorem rx_node_total : forall n result, exists r, rx_node exp_arg fixed_opt args variadic n result = Ok r.
  Proof.
    induction n as [p e s pa o t l IH] using node_ind'. intros result. cbn [rx_node].
    destruct (parm_step_total p e s pa result) as [r1 H1]. rewrite H1. cbn [bind].
    destruct (add_text_total r1 t pa) as [r2 H2]. rewrite H2. cbn [bind].
    destruct l as [|x l']; [eauto|].
    destruct has_va_args_total as [h Hh]. rewrite Hh. cbn [bind].
    destruct (o && h); [|cbn [bind]; eauto].
    assert (G : forall (l : list node), Forall (fun n => forall result, exists r, rx_node exp_arg fixed_opt args variadic n result = Ok r) l ->
                forall acc, exists r,
                (fix go (l : list node) (acc : list N) {struct l} : res (list N) :=
                   match l with [] => Ok acc | x :: r => a <- rx_node exp_arg fixed_opt args variadic x acc ;; go r a end) l acc = Ok r).
    { induction 1 as [|y r Hy Hr IHr]; intros acc; [eauto|]. destruct (Hy acc) as [a Ha]. rewrite Ha. cbn [bind]. apply IHr. }
    destruct (G (x :: l') IH []) as [nr Hn]. rewrite Hn. cbn [bind]. eauto.
  Qed.

  Theorem r_expand_total l : exists r, r_expand exp_arg fixed_opt args variadic l = Ok r.
  Proof.
    unfold r_expand. generalize (@nil N). induction l as [|x r IH]; intros acc; cbn [rx_nodes]; [eauto|].
    destruct (rx_node_total x acc) as [a Ha]. rewrite Ha. cbn [bind]. apply IH.
  Qed.
End Total.

(* __VA_OPT__ contributes exactly when what __VA_ARGS__ is replaced by has at least one character *)
Theorem va_opt_iff args v : has_va_args true args (Some v) = Ok (negb (is_empty (va_text args v))).
Proof.
  unfold has_va_args, va_text.
  destruct (S v <? length args) eqn:E1.
  - apply Nat.ltb_lt in E1. f_equal.
    destruct (skipn v args) as [|a r] eqn:Es; [apply (f_equal (@length _)) in Es; rewrite skipn_length in Es; cbn in Es; lia|].
    destruct r as [|b r']; [apply (f_equal (@length _)) in Es; rewrite skipn_length in Es; cbn in Es; lia|].
    cbn. destruct a; reflexivity.
  - apply Nat.ltb_ge in E1. destruct (Nat.eqb (length args) (S v)) eqn:E2.
    + apply Nat.eqb_eq in E2. unfold nth_checked.
      destruct (skipn v args) as [|a r] eqn:Es; [apply (f_equal (@length _)) in Es; rewrite skipn_length in Es; cbn in Es; lia|].
      assert (r = []). { apply (f_equal (@length _)) in Es. rewrite skipn_length in Es. cbn in Es. destruct r; [reflexivity | cbn in Es; lia]. }
      subst r. assert (Hn : nth_error args v = Some a).
      { rewrite <- (firstn_skipn v args) at 1. rewrite nth_error_app2; rewrite firstn_length; [|lia].
        replace (v - Nat.min v (length args)) with 0 by lia. rewrite Es. reflexivity. }
      rewrite Hn. cbn. rewrite app_nil_r. reflexivity.
    + apply Nat.eqb_neq in E2. rewrite skipn_all2; [reflexivity | lia].
Qed.

(* the seeded variant looks at the first variable argument only: F(1, , 2) loses its __VA_OPT__ content *)
Example va_opt_first_only_refuted :
  let args := [[49%N]; []; [50%N]] in
  has_va_args false args (Some 1) = Ok false /\ is_empty (va_text args 1) = false /\ has_va_args true args (Some 1) = Ok true.
Proof. repeat split; reflexivity. Qed.

(* 6.10.3.1: a parameter that is an operand of neither # nor ## is replaced by the EXPANDED argument;
   6.10.3.2 / 6.10.3.3: an operand of # or ## is replaced by the argument as spelled *)
Lemma parm_plain exp_arg fo args i a : nth_error args i = Some a ->
  rx_node exp_arg fo args None (mk_parm i false false) [] = Ok (exp_arg a).
Proof.
  intros H. assert (L : (i <? length args) = true) by (apply Nat.ltb_lt; apply nth_error_Some; congruence).
  unfold mk_parm. cbn [rx_node negb andb]. unfold parm_step. rewrite L. unfold nth_checked. rewrite H.
  cbn [bind fst snd is_variadic]. unfold add_subst. destruct (exp_arg a); reflexivity.
Qed.
Lemma parm_stringified exp_arg fo args i a : nth_error args i = Some a ->
  rx_node exp_arg fo args None (mk_parm i true false) [] = Ok (stringify true a).
Proof.
  intros H. assert (L : (i <? length args) = true) by (apply Nat.ltb_lt; apply nth_error_Some; congruence).
  unfold mk_parm. cbn [rx_node negb andb]. unfold parm_step. rewrite L. unfold nth_checked. rewrite H.
  cbn [bind fst snd is_variadic]. reflexivity.
Qed.
Lemma parm_pasted exp_arg fo args i a : nth_error args i = Some a ->
  rx_node exp_arg fo args None (mk_parm i false true) [] = Ok a.
Proof.
  intros H. assert (L : (i <? length args) = true) by (apply Nat.ltb_lt; apply nth_error_Some; congruence).
  unfold mk_parm. cbn [rx_node negb andb]. unfold parm_step. rewrite L. unfold nth_checked. rewrite H.
  cbn [bind fst snd is_variadic]. unfold add_subst. destruct a; reflexivity.
Qed.

Lemma parameter_replacement exp_arg fo args i a : nth_error args i = Some a ->
  rx_node exp_arg fo args None (mk_parm i false false) [] = Ok (exp_arg a) /\
  rx_node exp_arg fo args None (mk_parm i true false) [] = Ok (stringify true a) /\
  rx_node exp_arg fo args None (mk_parm i false true) [] = Ok a.
Proof. intros. repeat split; [apply parm_plain | apply parm_stringified | apply parm_pasted]; assumption. Qed.
