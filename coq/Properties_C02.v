(* C02 — property theorems only. *)
From Coq Require Import List Bool Sorted.
Import ListNotations.
From IV Require Import C02.Defs C02.Proofs C02.ArityDefs C02.ArityProofs C02.ConstDefs C02.ConstProofs.

(* overload dispatch: in a set that uses one C++ type per Python category and whose members differ in category somewhere, a call whose
   arguments correspond exactly to the parameters of overload o runs o; for every class hierarchy in which a base ranks below its derived classes *)
Theorem c02_dispatch_exact_partial : forall depth is_base, (forall b d, is_base b d = true -> depth b < depth d) ->
  forall l o args,
  tried_in_order depth l -> In o l -> all2 (@exact) o args = true ->
  (forall o', In o' l -> Forall2 (consistent depth) o' o) ->
  (forall o', In o' l -> map cat_of o' = map cat_of o -> o' = o) ->
  dispatch is_base l args = Some o.
Proof. exact dispatch_exact. Qed.
Print Assumptions c02_dispatch_exact_partial.

(* sorting with RemapCompareLess yields an order of the kind the theorem needs *)
Theorem c02_sort_tried_in_order : forall depth n l, Forall (fun x => length x = n) l -> tried_in_order depth (sort depth l).
Proof. exact sort_tried_in_order. Qed.
Print Assumptions c02_sort_tried_in_order.

(* without the one-type-per-category restriction the statement is false *)
Theorem c02_mixed_width_refuted :
  let depth := fun _ : nat => 0 in let is_base := fun _ _ : nat => false in
  let o := [PInt; PInt] in let o' := [PLongLong; PDouble] in
  all2 (@exact) o [AInt; AInt] = true /\ dispatch is_base (sort depth [o; o']) [AInt; AInt] = Some o'.
Proof. exact mixed_width_refuted. Qed.
Print Assumptions c02_mixed_width_refuted.

Theorem c02_bool_argument_refuted :
  let depth := fun _ : nat => 0 in let is_base := fun _ _ : nat => false in
  dispatch is_base (sort depth [[PBool]; [PInt]]) [ABool] = Some [PInt].
Proof. exact bool_argument_refuted. Qed.
Print Assumptions c02_bool_argument_refuted.

(* the arity table (map_sets, collapse_default_remaps, the generated switch): for every set of overloads with any ranges of accepted
   argument counts (trailing defaults) and every argument count, the overloads the generated code can run are exactly those that take that
   count: collapsing the entries loses none and adds none *)
Theorem c02_arity_table_exact : forall rs, NoDup (map r_id rs) -> forall a, candidates (table rs) a = set_at rs a.
Proof. exact table_candidates. Qed.
Print Assumptions c02_arity_table_exact.

(* the assignment of collapse_default_remaps written the other way round loses k(string) next to k(int, int = 1) *)
Theorem c02_arity_table_wrong_refuted :
  let rs := [{| r_id := 0; r_min := 1; r_max := 2 |}; {| r_id := 1; r_min := 1; r_max := 1 |}] in
  NoDup (map r_id rs) /\ candidates (table_wrong rs) 1 <> set_at rs 1 /\ candidates (table rs) 1 = set_at rs 1.
Proof. exact table_wrong_refuted. Qed.
Print Assumptions c02_arity_table_wrong_refuted.

(* const and non-const members in one set, RemapCompareLess in full (non-const first, then more parameters first, then by rank) and the
   emitted const guard: the member whose parameters correspond exactly to the arguments and that can be called on the object runs, provided
   the C++ call is well defined (when that member is const and the object is not, no non-const member accepts the arguments) *)
Theorem c02_const_dispatch_exact_partial : forall depth is_base, (forall b d, is_base b d = true -> depth b < depth d) ->
  forall this_const l o args,
  ctried_in_order depth l -> In o l ->
  all2 (@exact) (o_params o) args = true ->
  (negb this_const || o_const o = true) ->
  (forall o', In o' l -> Forall2 (consistent depth) (o_params o') (o_params o)) ->
  (forall o', In o' l -> o_const o' = o_const o -> map cat_of (o_params o') = map cat_of (o_params o) -> o' = o) ->
  (o_const o = true -> forall o', In o' l -> o_const o' = false -> caccepts is_base this_const o' args = false) ->
  cdispatch is_base this_const l args = Some o.
Proof. exact cdispatch_exact. Qed.
Print Assumptions c02_const_dispatch_exact_partial.

(* sorting any list of overloads (any mix of arities and constness) with the full comparison gives such an order *)
Theorem c02_const_sort_tried_in_order : forall depth l, ctried_in_order depth (csort depth l).
Proof. exact csort_tried_in_order. Qed.
Print Assumptions c02_const_sort_tried_in_order.

(* the pair  f() / f() const : each object runs its own member; with const members sorted first the non-const object runs the const one *)
Theorem c02_const_first_refuted :
  let depth := fun _ : nat => 0 in let is_base := fun _ _ : nat => false in
  let nc := {| o_const := false; o_params := [PInt] |} in let c := {| o_const := true; o_params := [PInt] |} in
  cdispatch is_base false (csort depth [c; nc]) [AInt] = Some nc /\
  cdispatch is_base true (csort depth [c; nc]) [AInt] = Some c /\
  cdispatch is_base false (csort_wrong depth [c; nc]) [AInt] = Some c.
Proof. exact const_pair. Qed.
Print Assumptions c02_const_first_refuted.
