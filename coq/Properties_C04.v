(* C04 — property theorems only. *)
From Coq Require Import List Bool.
Import ListNotations.
From IV Require Import C04.Defs C04.Proofs.

(* a global function is exported iff: named file, not a .C file, not ignorefile, visibility, not static/deleted/template, and the
   signature mentions no protected/private class (anywhere, arrays included), no rvalue reference, nothing listed under ignoreinvolved *)
Theorem c04_function_export_iff : forall min_vis class_vis ignored f, sig_wf (f_type f) = true ->
  scan_function min_vis class_vis ignored true f = true <-> spec_function min_vis class_vis ignored f.
Proof. exact scan_function_iff. Qed.
Print Assumptions c04_function_export_iff.

Theorem c04_method_export_iff_partial : forall min_vis class_vis ignored f, sig_wf (f_type f) = true ->
  f_dtor f = false -> f_get_class_type f = false -> f_inherited_virtual f = false ->
  define_method min_vis class_vis ignored true f = true <-> spec_method min_vis class_vis ignored f.
Proof. exact define_method_iff. Qed.
Print Assumptions c04_method_export_iff_partial.

Theorem c04_nothing_private_function : forall min_vis class_vis ignored f,
  scan_function min_vis class_vis ignored true f = true ->
  vis_le (f_vis f) min_vis = true /\ src (f_file f) = S_local /\ f_deleted f = false /\ ignorefile (f_file f) = false /\
  involves_protected class_vis true (f_type f) = false.
Proof. exact exported_function_safe. Qed.
Print Assumptions c04_nothing_private_function.

Theorem c04_nothing_private_method_partial : forall min_vis class_vis ignored f, f_dtor f = false -> f_get_class_type f = false ->
  define_method min_vis class_vis ignored true f = true ->
  vis_le (f_vis f) min_vis = true /\ f_deleted f = false /\ involves_protected class_vis true (f_type f) = false.
Proof. exact exported_method_safe. Qed.
Print Assumptions c04_nothing_private_method_partial.

(* the full statement is false of the code: two deliberate exceptions *)
Theorem c04_destructor_refuted : forall class_vis ignored,
  define_method Published class_vis ignored true (a_method true false false) = true /\ vis_le Public Published = false.
Proof. exact destructor_exception_refuted. Qed.
Print Assumptions c04_destructor_refuted.
Theorem c04_get_class_type_refuted : forall class_vis ignored,
  define_method Published class_vis ignored true (a_method false true true) = true /\ vis_le Public Published = false.
Proof. exact get_class_type_exception_refuted. Qed.
Print Assumptions c04_get_class_type_refuted.

(* the pinned involves_protected does not look through array types *)
Theorem c04_protected_array_pinned_refuted : forall class_vis, (forall c, class_vis c = Protected) ->
  involves_protected class_vis false (Fn Simple [Ref false (Arr (Class 0))]) = false /\
  mentions (is_protected_class class_vis) (Fn Simple [Ref false (Arr (Class 0))]) = true.
Proof. exact involves_protected_pinned_refuted. Qed.
Print Assumptions c04_protected_array_pinned_refuted.

Theorem c04_class_export_iff : forall min_vis k,
  scan_struct_type min_vis k = true <->
  (k_template k = false /\ c_file (k_file k) = false /\ src (k_file k) = S_local /\ ignorefile (k_file k) = false /\
   (vis_le (k_vis k) min_vis = true \/ exists v, In v (k_member_vis k) /\ vis_le v min_vis = true)).
Proof. exact scan_struct_iff. Qed.
Print Assumptions c04_class_export_iff.

Theorem c04_simple_export_iff : forall min_vis s, scan_simple min_vis s = true <-> spec_simple min_vis s.
Proof. exact scan_simple_iff. Qed.
Print Assumptions c04_simple_export_iff.
