From Coq Require Import ExtrOcamlBasic ExtrOcamlString.
From IV Require Import C20.Defs.
Extraction Language OCaml.
Extraction "ext.ml" wrapper_by_unique_name bsm lookup bytes_eqb at_pos.
