(* C20 — the query interface: bounds-checked positional accessors, by-name
   lookup tables, unique-name binary search, module search.  No proofs. *)
From Coq Require Import ZArith List Bool Ascii Arith.
Import ListNotations.

(* ---- positional accessors: `if (n >= 0 && n < (int)v.size()) return v[n]; return 0;` ---- *)
Definition at_pos {A} (dflt : A) (v : list A) (n : Z) : A :=
  if (0 <=? n)%Z && (n <? Z.of_nat (length v))%Z then nth (Z.to_nat n) v dflt else dflt.

(* ---- index -> record with a bogus default: `find(index) == end() ? bogus : it->second` ---- *)
Fixpoint get_rec {A} (bogus : A) (m : list (Z * A)) (i : Z) : A :=
  match m with [] => bogus | (k, a) :: t => if (k =? i)%Z then a else get_rec bogus t i end.

(* ---- by-name lookup: the table is rebuilt by inserting (name -> index) in index order, later entries overwrite ---- *)
Section Names.
Variable name : Type.
Variable name_eqb : name -> name -> bool.

Fixpoint table_set (t : list (name * Z)) (n : name) (i : Z) : list (name * Z) :=
  match t with
  | [] => [(n, i)]
  | (m, j) :: r => if name_eqb m n then (m, i) :: r else (m, j) :: table_set r n i
  end.
Definition freshen (entries : list (Z * name)) : list (name * Z) :=
  fold_left (fun t e => table_set t (snd e) (fst e)) entries [].
Fixpoint table_find (t : list (name * Z)) (n : name) : Z :=
  match t with [] => 0%Z | (m, j) :: r => if name_eqb m n then j else table_find r n end.
Definition lookup (entries : list (Z * name)) (n : name) : Z := table_find (freshen entries) n.
End Names.

(* ---- unique-name search (binary_search_wrapper_hash, after the mid+1 repair) ---- *)
Inductive sres := Found (off : Z) | NotFound | OutOfFuel.

Section Search.
Variable key : Type.
Variable cmp : key -> key -> comparison.

(* the interval [begin,end) is the list l; mid = begin + (end-begin)/2 *)
Fixpoint bsearch (fuel : nat) (l : list (key * Z)) (k : key) : sres :=
  match fuel with
  | O => OutOfFuel
  | S f =>
      match l with
      | [] => NotFound
      | _ =>
        let mid := Nat.div2 (length l) in
        match nth_error l mid with
        | None => NotFound
        | Some (name, off) =>
            match cmp name k with
            | Lt => bsearch f (skipn (S mid) l) k        (* (mid + 1, end) *)
            | Gt => bsearch f (firstn mid l) k           (* (begin, mid)   *)
            | Eq => Found off
            end
        end
      end
  end.

(* the pinned (unrepaired) code recursed on (mid, end) *)
Fixpoint bsearch_old (fuel : nat) (l : list (key * Z)) (k : key) : sres :=
  match fuel with
  | O => OutOfFuel
  | S f =>
      match l with
      | [] => NotFound
      | _ =>
        let mid := Nat.div2 (length l) in
        match nth_error l mid with
        | None => NotFound
        | Some (name, off) =>
            match cmp name k with
            | Lt => bsearch_old f (skipn mid l) k
            | Gt => bsearch_old f (firstn mid l) k
            | Eq => Found off
            end
        end
      end
  end.
End Search.

(* get_wrapper_by_unique_name: the first four characters select the module, the rest is searched *)
Definition bytes := list ascii.
Fixpoint lexcmp (a b : bytes) : comparison :=
  match a, b with
  | [], [] => Eq
  | [], _ => Lt
  | _, [] => Gt
  | x :: a', y :: b' =>
      match N.compare (N_of_ascii x) (N_of_ascii y) with Eq => lexcmp a' b' | c => c end
  end.
Definition bytes_eqb (a b : bytes) : bool := match lexcmp a b with Eq => true | _ => false end.

Record moduledef := { md_hash : bytes; md_first : Z; md_names : list (bytes * Z) }.

Definition wrapper_by_unique_name (mods : list moduledef) (u : bytes) : option Z :=   (* None = out of fuel *)
  if (length u <? 4)%nat then Some 0%Z else
  let h := firstn 4 u in
  let w := skipn 4 u in
  match List.find (fun m => bytes_eqb (md_hash m) h) (rev mods) with   (* _modules_by_hash[h] = def : last registration wins *)
  | None => Some 0%Z
  | Some m =>
      match bsearch bytes lexcmp (S (length (md_names m))) (md_names m) w with
      | Found off => Some (md_first m + off)%Z
      | NotFound => Some 0%Z
      | OutOfFuel => None
      end
  end.

(* ---- binary_search_module over the sorted first_index values ---- *)
Fixpoint bsm (fuel : nat) (firsts : list Z) (b e : nat) (f : Z) : option nat :=
  match fuel with
  | O => None
  | S fu =>
      let mid := (b + Nat.div2 (e - b))%nat in
      if (mid =? b)%nat then Some mid
      else if (nth mid firsts 0 <=? f)%Z then bsm fu firsts mid e f else bsm fu firsts b mid f
  end.
