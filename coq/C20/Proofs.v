From Coq Require Import ZArith List Bool Ascii Arith Lia.
From IV Require Import C20.Defs.
Import ListNotations.

(* ---------------- accessors ---------------- *)
Lemma at_pos_total {A} (d : A) v n : at_pos d v n = d \/ In (at_pos d v n) v.
Proof.
  unfold at_pos. destruct ((0 <=? n)%Z && (n <? Z.of_nat (length v))%Z) eqn:E; [|now left].
  apply andb_true_iff in E as [E1 E2]. apply Z.leb_le in E1. apply Z.ltb_lt in E2.
  right. apply nth_In. lia.
Qed.

Lemma at_pos_in_range {A} (d : A) v n : (0 <= n < Z.of_nat (length v))%Z -> at_pos d v n = nth (Z.to_nat n) v d.
Proof. intros H. unfold at_pos. destruct ((0 <=? n)%Z && (n <? Z.of_nat (length v))%Z) eqn:E; [reflexivity|]. lia. Qed.

Lemma at_pos_out_of_range {A} (d : A) v n : (n < 0 \/ Z.of_nat (length v) <= n)%Z -> at_pos d v n = d.
Proof. intros H. unfold at_pos. destruct ((0 <=? n)%Z && (n <? Z.of_nat (length v))%Z) eqn:E; [lia|reflexivity]. Qed.

(* the count equals the number of positions that answer: positions 0..count-1 give the stored entries, in order *)
Lemma at_pos_enumerates {A} (d : A) v : map (fun i => at_pos d v (Z.of_nat i)) (seq 0 (length v)) = v.
Proof.
  apply nth_ext with (d := d) (d' := d).
  - now rewrite map_length, seq_length.
  - intros n Hn. rewrite map_length, seq_length in Hn.
    rewrite nth_indep with (d' := at_pos d v (Z.of_nat 0)) by (rewrite map_length, seq_length; lia).
    rewrite map_nth with (d := 0%nat). rewrite seq_nth by lia. cbn [Nat.add].
    rewrite at_pos_in_range by lia. now rewrite Nat2Z.id.
Qed.

Lemma get_rec_total {A} (bogus : A) m i : get_rec bogus m i = bogus \/ In (i, get_rec bogus m i) m.
Proof.
  induction m as [|[k a] t IH]; cbn; [now left|].
  destruct (k =? i)%Z eqn:E.
  - apply Z.eqb_eq in E. subst. right. now left.
  - destruct IH as [IH|IH]; [now left | right; now right].
Qed.

(* ---------------- by-name lookup ---------------- *)
Section Names.
Variable name : Type.
Variable name_eqb : name -> name -> bool.
Hypothesis name_eqb_spec : forall a b, name_eqb a b = true <-> a = b.

Notation table_set := (table_set name name_eqb).
Notation table_find := (table_find name name_eqb).
Notation freshen := (freshen name name_eqb).
Notation lookup := (lookup name name_eqb).

Lemma eqb_refl a : name_eqb a a = true. Proof. now apply name_eqb_spec. Qed.
Lemma eqb_neq a b : a <> b -> name_eqb a b = false.
Proof. intros H. destruct (name_eqb a b) eqn:E; [apply name_eqb_spec in E; contradiction | reflexivity]. Qed.

Lemma find_set_same t n i : table_find (table_set t n i) n = i.
Proof.
  induction t as [|[m j] r IH]; cbn.
  - now rewrite eqb_refl.
  - destruct (name_eqb m n) eqn:E; cbn; rewrite E; [reflexivity | exact IH].
Qed.

Lemma find_set_other t n i n' : n <> n' -> table_find (table_set t n i) n' = table_find t n'.
Proof.
  intros Hne. induction t as [|[m j] r IH]; cbn.
  - now rewrite (eqb_neq n n' Hne).
  - destruct (name_eqb m n) eqn:E; cbn.
    + apply name_eqb_spec in E. subst m. now rewrite (eqb_neq n n' Hne).
    + destruct (name_eqb m n'); [reflexivity | exact IH].
Qed.

Lemma find_snoc (l : list (Z * name)) x n :
  List.find (fun e => name_eqb (snd e) n) (l ++ [x]) =
  match List.find (fun e => name_eqb (snd e) n) l with
  | Some e => Some e
  | None => if name_eqb (snd x) n then Some x else None end.
Proof.
  induction l as [|y l IHl]; cbn; [reflexivity|].
  destruct (name_eqb (snd y) n); [reflexivity | exact IHl].
Qed.

(* generalised over the table accumulated so far *)
Lemma fold_find entries : forall t n,
  table_find (fold_left (fun t e => table_set t (snd e) (fst e)) entries t) n =
  match List.find (fun e => name_eqb (snd e) n) (rev entries) with
  | Some e => fst e
  | None => table_find t n
  end.
Proof.
  induction entries as [|[i m] r IH]; intros t n; cbn [fold_left rev].
  - reflexivity.
  - rewrite IH. cbn [snd fst].
    pose proof (find_snoc (rev r) (i, m) n) as Hf. cbn [snd] in Hf.
    rewrite Hf. destruct (List.find _ (rev r)) as [e|]; [reflexivity|].
    destruct (name_eqb m n) eqn:E.
    + apply name_eqb_spec in E. subst. apply find_set_same.
    + apply find_set_other. intros ->. rewrite eqb_refl in E. discriminate.
Qed.

(* A lookup returns the LAST entity (highest index, in index order) bearing the name; 0 for an unknown name. *)
Theorem lookup_spec entries n :
  lookup entries n =
  match List.find (fun e => name_eqb (snd e) n) (rev entries) with Some e => fst e | None => 0%Z end.
Proof. unfold Defs.lookup, Defs.freshen. now rewrite fold_find. Qed.

Theorem lookup_exact entries n :
  (forall i, In (i, n) entries -> exists j, In (j, n) entries /\ lookup entries n = j) /\
  ((forall i, ~ In (i, n) entries) -> lookup entries n = 0%Z) /\
  (forall i, NoDup (map snd entries) -> In (i, n) entries -> lookup entries n = i).
Proof.
  rewrite lookup_spec. repeat split.
  - intros i Hin. destruct (List.find _ (rev entries)) as [e|] eqn:E.
    + apply find_some in E as [Hin' Hn]. apply name_eqb_spec in Hn. apply in_rev in Hin'.
      exists (fst e). split; [destruct e; cbn in *; now subst | reflexivity].
    + exfalso. assert (Hr : In (i, n) (rev entries)) by (apply -> in_rev; exact Hin).
      pose proof (find_none _ _ E (i, n) Hr) as Hf. cbn in Hf. rewrite eqb_refl in Hf. discriminate.
  - intros Hno. destruct (List.find _ (rev entries)) as [e|] eqn:E; [|reflexivity].
    apply find_some in E as [Hin' Hn]. apply name_eqb_spec in Hn. apply in_rev in Hin'.
    exfalso. apply (Hno (fst e)). destruct e; cbn in *; now subst.
  - intros i Hnd Hin. destruct (List.find _ (rev entries)) as [e|] eqn:E.
    + apply find_some in E as [Hin' Hn]. apply name_eqb_spec in Hn. apply in_rev in Hin'.
      destruct e as [j m]. cbn in *. subst m.
      (* same name, NoDup names -> same entry *)
      clear -Hnd Hin Hin'. induction entries as [|[k m] r IH]; [contradiction|].
      cbn in Hnd. inversion Hnd as [|? ? Hn Hd]; subst.
      destruct Hin as [Hin|Hin], Hin' as [Hin'|Hin'].
      * congruence.
      * inversion Hin; subst. exfalso. apply Hn. apply in_map_iff. now exists (j, n).
      * inversion Hin'; subst. exfalso. apply Hn. apply in_map_iff. now exists (i, n).
      * now apply IH.
    + exfalso. assert (Hr : In (i, n) (rev entries)) by (apply -> in_rev; exact Hin).
      pose proof (find_none _ _ E (i, n) Hr) as Hf. cbn in Hf. rewrite eqb_refl in Hf. discriminate.
Qed.
End Names.

(* ---------------- binary search ---------------- *)
Section Search.
Variable key : Type.
Variable cmp : key -> key -> comparison.
Hypothesis cmp_eq : forall a b, cmp a b = Eq <-> a = b.
Hypothesis cmp_antisym : forall a b, cmp a b = CompOpp (cmp b a).
Hypothesis cmp_trans : forall a b c, cmp a b = Lt -> cmp b c = Lt -> cmp a c = Lt.

Notation bsearch := (bsearch key cmp).

Lemma div2_lt n : (0 < n)%nat -> (Nat.div2 n < n)%nat.
Proof. intros H. apply Nat.lt_div2. exact H. Qed.

(* termination: fuel = length + 1 always suffices, whatever the order of the table and the key *)
Theorem bsearch_terminates : forall fuel l k, (length l < fuel)%nat -> bsearch fuel l k <> OutOfFuel.
Proof.
  induction fuel as [|f IH]; intros l k H; [lia|].
  cbn [Defs.bsearch]. destruct l as [|x t]; [discriminate|].
  set (l := x :: t) in *. assert (Hl : (0 < length l)%nat) by (cbn; lia).
  pose proof (div2_lt (length l) Hl) as Hm.
  destruct (nth_error l (Nat.div2 (length l))) as [[name off]|]; [|discriminate].
  destruct (cmp name k); [discriminate | apply IH | apply IH].
  - rewrite skipn_length. lia.
  - rewrite firstn_length. lia.
Qed.

(* strictly increasing names *)
Fixpoint sorted (l : list (key * Z)) : Prop :=
  match l with
  | [] => True
  | x :: t => (forall y, In y t -> cmp (fst x) (fst y) = Lt) /\ sorted t
  end.

Lemma sorted_app l1 l2 : sorted (l1 ++ l2) <->
  sorted l1 /\ sorted l2 /\ (forall x y, In x l1 -> In y l2 -> cmp (fst x) (fst y) = Lt).
Proof.
  induction l1 as [|a t IH]; cbn.
  - intuition.
  - rewrite IH. split.
    + intros [Ha (S1 & S2 & Hx)]. repeat split; auto.
      * intros y Hy. apply Ha. apply in_or_app. now left.
      * intros x y [<-|Hx'] Hy; [apply Ha; apply in_or_app; now right | now apply Hx].
    + intros ((Ha & S1) & S2 & Hx). repeat split; auto.
      intros y Hy. apply in_app_or in Hy as [Hy|Hy]; [now apply Ha | apply Hx; [now left | assumption]].
Qed.

Lemma split_mid (l : list (key * Z)) mid x : nth_error l mid = Some x ->
  l = firstn mid l ++ x :: skipn (S mid) l.
Proof.
  revert mid. induction l as [|a t IH]; intros mid H; [destruct mid; discriminate|].
  destruct mid as [|m]; cbn in *.
  - inversion H. reflexivity.
  - f_equal. now apply IH.
Qed.

Lemma cmp_lt_gt a b : cmp a b = Lt -> cmp b a = Gt.
Proof. intros H. rewrite cmp_antisym, H. reflexivity. Qed.
Lemma cmp_lt_neq a b : cmp a b = Lt -> a <> b.
Proof. intros H E. apply cmp_eq in E. congruence. Qed.

(* exactness on a sorted table: a stored name is found with its offset, an absent one is reported absent *)
Theorem bsearch_exact : forall fuel l k, (length l < fuel)%nat -> sorted l ->
  (forall off, In (k, off) l -> bsearch fuel l k = Found off) /\
  ((forall off, ~ In (k, off) l) -> bsearch fuel l k = NotFound).
Proof.
  induction fuel as [|f IH]; intros l k Hlen Hs; [lia|].
  cbn [Defs.bsearch]. destruct l as [|x0 t0]; [split; [intros off []|reflexivity]|].
  set (l := x0 :: t0) in *. assert (Hl : (0 < length l)%nat) by (cbn; lia).
  pose proof (div2_lt (length l) Hl) as Hm.
  destruct (nth_error l (Nat.div2 (length l))) as [[name off0]|] eqn:En.
  2:{ apply nth_error_None in En. lia. }
  pose proof (split_mid l _ _ En) as Hsplit.
  set (l1 := firstn (Nat.div2 (length l)) l) in *. set (l2 := skipn (S (Nat.div2 (length l))) l) in *.
  assert (Hs' := Hs). rewrite Hsplit in Hs'. apply sorted_app in Hs' as (S1 & S2x & H12).
  cbn in S2x. destruct S2x as [Hx2 S2].
  assert (L1 : (length l1 < f)%nat) by (unfold l1; rewrite firstn_length; lia).
  assert (L2 : (length l2 < f)%nat) by (unfold l2; rewrite skipn_length; lia).
  destruct (cmp name k) eqn:Ec.
  - (* found *) apply cmp_eq in Ec. subst name. split.
    + intros off Hin. rewrite Hsplit in Hin. apply in_app_or in Hin as [Hin|[Hin|Hin]].
      * specialize (H12 (k, off) (k, off0) Hin (or_introl eq_refl)). cbn in H12. exfalso. now apply (cmp_lt_neq k k).
      * now inversion Hin.
      * specialize (Hx2 (k, off) Hin). cbn in Hx2. exfalso. now apply (cmp_lt_neq k k).
    + intros Hno. exfalso. apply (Hno off0). rewrite Hsplit. apply in_or_app. right. now left.
  - (* name < key: everything up to mid is smaller than key *)
    destruct (IH l2 k L2 S2) as [IHf IHn]. split.
    + intros off Hin. apply IHf. rewrite Hsplit in Hin. apply in_app_or in Hin as [Hin|[Hin|Hin]].
      * specialize (H12 (k, off) (name, off0) Hin (or_introl eq_refl)). cbn in H12.
        pose proof (cmp_lt_gt _ _ H12). congruence.
      * inversion Hin; subst. exfalso. now apply (cmp_lt_neq k k).
      * exact Hin.
    + intros Hno. apply IHn. intros off Hin. apply (Hno off). rewrite Hsplit. apply in_or_app. right. now right.
  - (* key < name *)
    destruct (IH l1 k L1 S1) as [IHf IHn]. split.
    + intros off Hin. apply IHf. rewrite Hsplit in Hin. apply in_app_or in Hin as [Hin|[Hin|Hin]].
      * exact Hin.
      * inversion Hin; subst. pose proof (proj2 (cmp_eq k k) eq_refl). congruence.
      * specialize (Hx2 (k, off) Hin). cbn in Hx2. congruence.
    + intros Hno. apply IHn. intros off Hin. apply (Hno off). rewrite Hsplit. apply in_or_app. now left.
Qed.
End Search.

(* ---- the lexicographic byte order is a strict total order ---- *)
Lemma lexcmp_eq a : forall b, lexcmp a b = Eq <-> a = b.
Proof.
  induction a as [|x a IH]; intros [|y b]; cbn; try (split; [discriminate | congruence]).
  - tauto.
  - destruct (N.compare (N_of_ascii x) (N_of_ascii y)) eqn:E.
    + apply N.compare_eq in E. rewrite IH. split.
      * intros ->. f_equal. rewrite <- (ascii_N_embedding x), <- (ascii_N_embedding y). now rewrite E.
      * intros H. now inversion H.
    + split; [discriminate|]. intros H. inversion H; subst. rewrite N.compare_refl in E. discriminate.
    + split; [discriminate|]. intros H. inversion H; subst. rewrite N.compare_refl in E. discriminate.
Qed.

Lemma lexcmp_antisym a : forall b, lexcmp a b = CompOpp (lexcmp b a).
Proof.
  induction a as [|x a IH]; intros [|y b]; cbn; try reflexivity.
  rewrite (N.compare_antisym (N_of_ascii x) (N_of_ascii y)).
  destruct (N.compare (N_of_ascii x) (N_of_ascii y)); cbn; [apply IH | reflexivity | reflexivity].
Qed.

Lemma lexcmp_trans a : forall b c, lexcmp a b = Lt -> lexcmp b c = Lt -> lexcmp a c = Lt.
Proof.
  induction a as [|x a IH]; intros [|y b] [|z c]; cbn; try discriminate; try reflexivity.
  destruct (N.compare (N_of_ascii x) (N_of_ascii y)) eqn:E1; try discriminate;
  destruct (N.compare (N_of_ascii y) (N_of_ascii z)) eqn:E2; try discriminate; intros H1 H2.
  - apply N.compare_eq in E1, E2. rewrite E1, E2, N.compare_refl. now apply (IH b c).
  - apply N.compare_eq in E1. now rewrite E1, E2.
  - apply N.compare_eq in E2. now rewrite <- E2, E1.
  - apply N.compare_lt_iff in E1. apply N.compare_lt_iff in E2.
    assert (E : (N_of_ascii x < N_of_ascii z)%N) by (eapply N.lt_trans; eassumption).
    apply N.compare_lt_iff in E. now rewrite E.
Qed.

Lemma bytes_eqb_spec a b : bytes_eqb a b = true <-> a = b.
Proof.
  unfold bytes_eqb. rewrite <- lexcmp_eq. destruct (lexcmp a b); split; congruence.
Qed.

(* ---- unique-name lookup is total: defined for every string and every module table ---- *)
Theorem unique_name_total mods u : wrapper_by_unique_name mods u <> None.
Proof.
  unfold wrapper_by_unique_name. destruct (length u <? 4)%nat; [discriminate|].
  destruct (List.find _ (rev mods)) as [m|]; [|discriminate].
  pose proof (bsearch_terminates bytes lexcmp (S (length (md_names m))) (md_names m) (skipn 4 u) ltac:(lia)) as H.
  destruct (bsearch _ _ _ _ _); [discriminate | discriminate | congruence].
Qed.

(* the pinned code did not terminate: one entry, a key greater than it *)
Example bsearch_old_diverges : forall fuel,
  bsearch_old bytes lexcmp fuel [([ascii_of_N 98], 0%Z)] [ascii_of_N 103] = OutOfFuel.
Proof. induction fuel as [|f IH]; [reflexivity|]. cbn. exact IH. Qed.

(* ---- module search ---- *)
Lemma bsm_spec : forall fuel firsts b e f, (b < e)%nat -> (e - b <= fuel)%nat ->
  exists i, bsm fuel firsts b e f = Some i /\ (b <= i < e)%nat /\
    ((nth b firsts 0 <= f)%Z ->
     (forall j k, (j < k < length firsts)%nat -> (nth j firsts 0 < nth k firsts 0)%Z) -> (e <= length firsts)%nat ->
     (nth i firsts 0 <= f)%Z /\ ((S i < e)%nat -> (f < nth (S i) firsts 0)%Z)).
Proof.
  induction fuel as [|fu IH]; intros firsts b e f Hbe Hf; [lia|].
  cbn [bsm]. destruct (Nat.eqb_spec (b + Nat.div2 (e - b)) b) as [E|E].
  - exists (b + Nat.div2 (e - b))%nat. split; [reflexivity|]. rewrite E. split; [lia|].
    intros Hb Hs Hlen. split; [assumption|]. intros Hi.
    (* mid = b means e - b = 1 *)
    assert (Nat.div2 (e - b) = 0)%nat by lia.
    destruct (e - b)%nat as [|[|n]] eqn:En; cbn in H; try lia.
  - assert (Hd : (0 < Nat.div2 (e - b))%nat) by lia.
    assert (Hd2 : (Nat.div2 (e - b) < e - b)%nat) by (apply Nat.lt_div2; lia).
    set (mid := (b + Nat.div2 (e - b))%nat) in *.
    destruct (nth mid firsts 0 <=? f)%Z eqn:Ec.
    + destruct (IH firsts mid e f ltac:(lia) ltac:(lia)) as (i & Hr & Hi & Hp).
      exists i. split; [exact Hr|]. split; [lia|]. intros Hb Hs Hlen.
      apply Z.leb_le in Ec. now apply Hp.
    + destruct (IH firsts b mid f ltac:(lia) ltac:(lia)) as (i & Hr & Hi & Hp).
      exists i. split; [exact Hr|]. split; [lia|]. intros Hb Hs Hlen.
      apply Z.leb_gt in Ec. destruct (Hp Hb Hs ltac:(lia)) as [P1 P2]. split; [exact P1|].
      intros Hi'. destruct (Nat.eq_dec (S i) mid) as [Em|Em]; [rewrite Em; exact Ec | apply P2; lia].
Qed.
