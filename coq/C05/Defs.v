(* C05 — two pieces of the builder that decide what the database says about a declaration:
   (1) which comment block is attached to a declaration (CPPPreprocessor::get_comment_before as used by CPPScope::add_declaration),
   (2) which callable variants a function with default arguments gets, with their ordered parameters (InterfaceMaker::record_function
       with separate_overloading, FunctionRemap::make_wrapper_entry).
   No proofs in this file. *)
From Coq Require Import List Bool Arith.
Import ListNotations.

(* ---------------- comments: a block covers lines first..last; blocks are kept in the order in which they were read *)
Record block := { b_id : nat; b_first : nat; b_last : nat }.

(* walk the blocks from the most recent one: the first block that ends on the line or on the line before it is the answer;
   a block that ends earlier stops the search; blocks that end later (read ahead by the parser) are skipped *)
Fixpoint before_rev (rev_blocks : list block) (line : nat) : option block :=
  match rev_blocks with
  | [] => None
  | b :: r =>
      if Nat.eqb (b_last b) line || Nat.eqb (S (b_last b)) line then Some b
      else if Nat.ltb (b_last b) line then None
      else before_rev r line
  end.
Definition comment_before (blocks : list block) (line : nat) : option block := before_rev (rev blocks) line.

(* blocks as the preprocessor produces them: in increasing line order, non-overlapping *)
Fixpoint ordered (blocks : list block) : Prop :=
  match blocks with
  | [] => True
  | b :: r => b_first b <= b_last b /\ (match r with [] => True | c :: _ => b_last b < b_first c end) /\ ordered r
  end.

(* ---------------- callable variants *)
Record param := { p_name : nat; p_type : nat; p_default : bool }.

(* number of trailing parameters with a default value (the first parameter without one ends the count) *)
Fixpoint trailing_defaults_rev (rev_params : list param) : nat :=
  match rev_params with p :: r => if p_default p then S (trailing_defaults_rev r) else 0 | [] => 0 end.
Definition max_default (ps : list param) : nat := trailing_defaults_rev (rev ps).

(* one wrapper per number of omitted trailing defaults, 0 first *)
Definition variants (ps : list param) : list (list param) :=
  map (fun k => firstn (length ps - k) ps) (seq 0 (S (max_default ps))).
