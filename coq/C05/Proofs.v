From Coq Require Import List Bool Arith Lia.
Import ListNotations.
From IV Require Import C05.Defs.

(* ---------------- comments *)
Lemma before_rev_spec rb line b : before_rev rb line = Some b -> In b rb /\ (b_last b = line \/ S (b_last b) = line).
Proof.
  induction rb as [|c r IH]; cbn [before_rev]; [discriminate|].
  destruct (Nat.eqb (b_last c) line || Nat.eqb (S (b_last c)) line) eqn:E.
  - intros H. injection H as <-. split; [left; reflexivity|].
    apply orb_true_iff in E. destruct E as [E|E]; apply Nat.eqb_eq in E; auto.
  - destruct (Nat.ltb (b_last c) line); [discriminate|]. intros H. destruct (IH H) as [H1 H2]. split; [right; exact H1|exact H2].
Qed.

(* the block returned for a declaration ends on its line or on the line before it *)
Theorem comment_adjacent blocks line b : comment_before blocks line = Some b -> In b blocks /\ (b_last b = line \/ S (b_last b) = line).
Proof.
  unfold comment_before. intros H. destruct (before_rev_spec _ _ _ H) as [H1 H2]. split; [apply in_rev; exact H1|exact H2].
Qed.

(* one block is attached to two different declarations only if it ends ON the line where one of them starts (a trailing or
   leading comment on the line of a declaration that is directly followed by another declaration) *)
Theorem comment_shared_only_on_declaration_line blocks l1 l2 b :
  l1 < l2 -> comment_before blocks l1 = Some b -> comment_before blocks l2 = Some b -> b_last b = l1 /\ l2 = S l1.
Proof.
  intros Hlt H1 H2.
  destruct (comment_adjacent _ _ _ H1) as [_ A1]. destruct (comment_adjacent _ _ _ H2) as [_ A2]. lia.
Qed.

(* hence: when no comment ends on a line on which a declaration starts, every block is attached to at most one declaration *)
Theorem comment_unique_partial blocks (decl_lines : list nat) :
  (forall b l, In b blocks -> In l decl_lines -> b_last b <> l) ->
  forall l1 l2 b, In l1 decl_lines -> In l2 decl_lines -> comment_before blocks l1 = Some b -> comment_before blocks l2 = Some b -> l1 = l2.
Proof.
  intros Hno l1 l2 b I1 I2 H1 H2.
  destruct (comment_adjacent _ _ _ H1) as [Hb A1]. destruct (comment_adjacent _ _ _ H2) as [_ A2].
  pose proof (Hno b l1 Hb I1). pose proof (Hno b l2 Hb I2). lia.
Qed.

(* the full statement is false: line 1 "int a(); // c", line 2 "int b();" *)
Theorem comment_unique_refuted :
  exists blocks l1 l2 b, l1 <> l2 /\ comment_before blocks l1 = Some b /\ comment_before blocks l2 = Some b.
Proof. exists [{| b_id := 0; b_first := 1; b_last := 1 |}], 1, 2, {| b_id := 0; b_first := 1; b_last := 1 |}. repeat split. lia. Qed.

(* a comment that ends on the line before a declaration is found even when later comments have already been read *)
Lemma before_rev_skip rb line b later :
  (forall c, In c later -> line < b_last c) -> before_rev (later ++ b :: rb) line = before_rev (b :: rb) line.
Proof.
  induction later as [|c l IH]; intros H; [reflexivity|].
  cbn [app before_rev]. assert (Hc : line < b_last c) by (apply H; left; reflexivity).
  destruct (Nat.eqb (b_last c) line) eqn:E1; [apply Nat.eqb_eq in E1; lia|].
  destruct (Nat.eqb (S (b_last c)) line) eqn:E2; [apply Nat.eqb_eq in E2; lia|].
  destruct (Nat.ltb (b_last c) line) eqn:E3; [apply Nat.ltb_lt in E3; lia|].
  cbn [orb]. apply IH. intros d Hd. apply H. right. exact Hd.
Qed.

Theorem comment_found earlier b later line :
  S (b_last b) = line -> (forall c, In c later -> line < b_last c) ->
  comment_before (earlier ++ b :: later) line = Some b.
Proof.
  intros Hl Hlater. unfold comment_before. rewrite rev_app_distr. cbn [rev]. rewrite <- app_assoc. cbn [app].
  rewrite before_rev_skip; [|intros c Hc; apply Hlater; apply in_rev; exact Hc].
  cbn [before_rev]. apply Nat.eqb_eq in Hl. rewrite Hl, orb_true_r. reflexivity.
Qed.

(* ---------------- variants *)
Lemma trailing_le rp : trailing_defaults_rev rp <= length rp.
Proof. induction rp as [|p r IH]; cbn; [lia|]. destruct (p_default p); cbn; lia. Qed.

Lemma max_default_le ps : max_default ps <= length ps.
Proof. unfold max_default. rewrite <- (rev_length ps). apply trailing_le. Qed.

(* every variant is a prefix of the declared parameter list: order, names and types are those of the declaration *)
Theorem variant_is_prefix ps v : In v (variants ps) -> exists k, k <= max_default ps /\ v = firstn (length ps - k) ps.
Proof.
  unfold variants. intros H. apply in_map_iff in H. destruct H as [k [Hk Hin]]. apply in_seq in Hin. exists k. split; [lia|symmetry; exact Hk].
Qed.

(* the last k parameters all have defaults, for every k up to max_default: what a variant leaves out is optional *)
Lemma trailing_all_default rp : forall k, k <= trailing_defaults_rev rp -> forall p, In p (firstn k rp) -> p_default p = true.
Proof.
  induction rp as [|q r IH]; intros k Hk p Hp; [destruct k; cbn in Hp; contradiction|].
  destruct k as [|k]; [cbn in Hp; contradiction|].
  cbn [trailing_defaults_rev] in Hk. destruct (p_default q) eqn:Eq; [|lia].
  cbn [firstn] in Hp. destruct Hp as [<-|Hp]; [exact Eq|]. apply (IH k); [lia|exact Hp].
Qed.

Theorem omitted_are_optional ps k : k <= max_default ps -> forall p, In p (skipn (length ps - k) ps) -> p_default p = true.
Proof.
  intros Hk p Hp. unfold max_default in Hk.
  apply (trailing_all_default (rev ps) k Hk).
  pose proof (max_default_le ps) as Hm. unfold max_default in Hm.
  (* skipn (n-k) ps = rev (firstn k (rev ps)) *)
  assert (E : skipn (length ps - k) ps = rev (firstn k (rev ps))).
  { rewrite firstn_rev, rev_involutive. reflexivity. }
  rewrite E in Hp. apply in_rev in Hp. exact Hp.
Qed.

(* exactly one variant per arity between n - max_default and n *)
Theorem variant_arities ps : map (@length param) (variants ps) = map (fun k => length ps - k) (seq 0 (S (max_default ps))).
Proof.
  unfold variants. rewrite map_map. apply map_ext_in. intros k Hk. apply in_seq in Hk.
  rewrite firstn_length. lia.
Qed.

(* the parameter just before the optional tail has no default (so no further variant exists) *)
Lemma trailing_stop rp : trailing_defaults_rev rp < length rp -> exists p, nth_error rp (trailing_defaults_rev rp) = Some p /\ p_default p = false.
Proof.
  induction rp as [|q r IH]; cbn; [lia|]. destruct (p_default q) eqn:E; cbn.
  - intros H. apply IH. lia.
  - intros _. exists q. split; [reflexivity|exact E].
Qed.

Example variants_example :
  map (map p_name) (variants [{| p_name := 1; p_type := 0; p_default := false |}; {| p_name := 2; p_type := 0; p_default := true |};
                               {| p_name := 3; p_type := 0; p_default := false |}; {| p_name := 4; p_type := 0; p_default := true |};
                               {| p_name := 5; p_type := 0; p_default := true |}]) = [[1;2;3;4;5]; [1;2;3;4]; [1;2;3]].
Proof. reflexivity. Qed.
