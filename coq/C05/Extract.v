From Coq Require Import ExtrOcamlBasic ExtrOcamlString.
From IV Require Import C05.Defs.
Extraction Language OCaml.
Extraction "ext.ml" comment_before variants.
