From Coq Require Import ExtrOcamlBasic ExtrOcamlString.
From IV Require Import Common.Int32 C07.Defs.
Extraction Language OCaml.
Extraction "ext.ml" impl_eval cxx_eval enum_impl enum_cxx digits_val show_digits prec_impl prec_cxx.
