From Coq Require Import ZArith List Bool Lia.
From IV Require Import Common.Int32 C07.Defs.
Import ListNotations.
Local Open Scope Z_scope.

Lemma chk_some z v : chk z = Some v -> v = z /\ in_int z = true.
Proof. unfold chk. destruct (in_int z) eqn:E; intros H; inversion H; auto. Qed.

Lemma in_int_shiftr z : in_int z = true <-> (Z.shiftr z 31 = 0 \/ Z.shiftr z 31 = -1).
Proof.
  rewrite in_int_spec, Z.shiftr_div_pow2 by lia. unfold int_min, int_max.
  change (2 ^ 31) with 2147483648.
  pose proof (Z.div_mod z 2147483648 ltac:(lia)).
  pose proof (Z.mod_pos_bound z 2147483648 ltac:(lia)). lia.
Qed.

Lemma bitop_in_int (f : Z -> Z -> Z) :
  (forall a b n, Z.shiftr (f a b) n = f (Z.shiftr a n) (Z.shiftr b n)) ->
  (f 0 0 = 0 \/ f 0 0 = -1) -> (f 0 (-1) = 0 \/ f 0 (-1) = -1) ->
  (f (-1) 0 = 0 \/ f (-1) 0 = -1) -> (f (-1) (-1) = 0 \/ f (-1) (-1) = -1) ->
  forall a b, in_int a = true -> in_int b = true -> in_int (f a b) = true.
Proof.
  intros Hs H00 H01 H10 H11 a b Ha Hb.
  apply in_int_shiftr in Ha. apply in_int_shiftr in Hb. apply in_int_shiftr.
  rewrite Hs. destruct Ha as [-> | ->], Hb as [-> | ->]; assumption.
Qed.

Lemma land_in_int a b : in_int a = true -> in_int b = true -> in_int (Z.land a b) = true.
Proof. apply bitop_in_int; try (cbn; auto). intros; apply Z.shiftr_land. Qed.
Lemma lor_in_int a b : in_int a = true -> in_int b = true -> in_int (Z.lor a b) = true.
Proof. apply bitop_in_int; try (cbn; auto). intros; apply Z.shiftr_lor. Qed.
Lemma lxor_in_int a b : in_int a = true -> in_int b = true -> in_int (Z.lxor a b) = true.
Proof. apply bitop_in_int; try (cbn; auto). intros; apply Z.shiftr_lxor. Qed.

Lemma b2z_in_int b : in_int (b2z b) = true.
Proof. destruct b; reflexivity. Qed.

Lemma truthy_eqb v : truthy v = negb (v =? 0).
Proof. reflexivity. Qed.

(* binary operators: the specification's value is what the implementation computes *)
Lemma bin_correct o a b v :
  in_int a = true -> in_int b = true -> is_logic o = false ->
  cxx_bin o a b = Some v -> impl_bin o a b = RInt v /\ in_int v = true.
Proof.
  intros Ha Hb Hl H.
  destruct o; cbn in Hl; try discriminate; cbn in H |- *.
  - apply chk_some in H as [-> H]. now rewrite wrap32_id.
  - destruct (b =? 0) eqn:Eb; [discriminate|]. apply chk_some in H as [-> H].
    destruct ((a =? int_min) && (b =? -1)) eqn:E.
    + apply andb_true_iff in E as [E1 E2]. apply Z.eqb_eq in E1, E2. subst. discriminate.
    + cbn. now rewrite wrap32_id.
  - destruct (b =? 0) eqn:Eb; [discriminate|].
    destruct ((a =? int_min) && (b =? -1)) eqn:E; [discriminate|].
    apply chk_some in H as [-> H]. cbn. now rewrite wrap32_id.
  - apply chk_some in H as [-> H]. now rewrite wrap32_id.
  - apply chk_some in H as [-> H]. now rewrite wrap32_id.
  - destruct ((0 <=? b) && (b <? 32) && (0 <=? a)) eqn:E; [|discriminate].
    apply andb_true_iff in E as [E E3]. apply andb_true_iff in E as [E1 E2].
    apply Z.leb_le in E1, E3. apply Z.ltb_lt in E2.
    apply chk_some in H as [-> H].
    rewrite Z.mod_small by lia. rewrite Z.shiftl_mul_pow2 by lia. now rewrite wrap32_id.
  - destruct ((0 <=? b) && (b <? 32)) eqn:E; [|discriminate].
    apply andb_true_iff in E as [E1 E2]. apply Z.leb_le in E1. apply Z.ltb_lt in E2.
    apply chk_some in H as [-> H]. rewrite Z.mod_small by lia. now rewrite wrap32_id.
  - inversion H; subst. split; [reflexivity | apply b2z_in_int].
  - inversion H; subst. rewrite Z.gtb_ltb. split; [reflexivity | apply b2z_in_int].
  - inversion H; subst. split; [reflexivity | apply b2z_in_int].
  - inversion H; subst. rewrite Z.geb_leb. split; [reflexivity | apply b2z_in_int].
  - inversion H; subst. split; [reflexivity | apply b2z_in_int].
  - inversion H; subst. split; [reflexivity | apply b2z_in_int].
  - inversion H; subst. split; [reflexivity | now apply land_in_int].
  - inversion H; subst. split; [reflexivity | now apply lxor_in_int].
  - inversion H; subst. split; [reflexivity | now apply lor_in_int].
  - inversion H; subst. split; [reflexivity | assumption].
Qed.

Lemma un_correct o a v :
  in_int a = true -> cxx_un o a = Some v -> impl_un o a = RInt v /\ in_int v = true.
Proof.
  intros Ha H. destruct o; cbn in H |- *.
  - inversion H; subst. unfold truthy. rewrite negb_involutive. split; [reflexivity | apply b2z_in_int].
  - inversion H; subst. split.
    + f_equal; try (unfold Z.lnot; lia).
    + apply in_int_spec in Ha. apply in_int_spec. unfold int_min, int_max in *. lia.
  - apply chk_some in H as [-> H]. now rewrite wrap32_id.
  - inversion H; subst. auto.
Qed.

Theorem eval_correct_strong r e : forall v,
  cxx_eval r e = Some v -> impl_eval r e = RInt v /\ in_int v = true.
Proof.
  induction e as [z|x| |o a IHa|o a IHa b IHb|c IHc a IHa b IHb|a IHa|a IHa]; intros v H.
  - cbn in *. apply chk_some in H as [-> H]. now rewrite wrap32_id.
  - cbn in *. destruct (lookup r x) as [w|]; [|discriminate].
    apply chk_some in H as [-> H]. now rewrite wrap32_id.
  - discriminate.
  - cbn in *. destruct (cxx_eval r a) as [va|]; [|discriminate].
    destruct (IHa va eq_refl) as [-> Hin]. now apply un_correct.
  - destruct (is_logic o) eqn:Hl.
    + (* && and || : short circuit *)
      destruct o; try discriminate; cbn [cxx_eval] in H; cbn [impl_eval is_logic];
        destruct (cxx_eval r a) as [va|]; try discriminate;
        destruct (IHa va eq_refl) as [Ea Hina]; rewrite Ea.
      * (* && *)
        destruct (va =? 0) eqn:E0.
        -- inversion H; subst. unfold truthy. rewrite E0. cbn.
           destruct (impl_eval r b); cbn; unfold truthy; rewrite ?E0; cbn; auto.
        -- destruct (cxx_eval r b) as [vb|]; [|discriminate].
           destruct (IHb vb eq_refl) as [Eb Hinb]. rewrite Eb. inversion H; subst.
           cbn. unfold truthy. rewrite E0. cbn. split; [reflexivity | apply b2z_in_int].
      * (* || *)
        destruct (va =? 0) eqn:E0.
        -- destruct (cxx_eval r b) as [vb|]; [|discriminate].
           destruct (IHb vb eq_refl) as [Eb Hinb]. rewrite Eb. inversion H; subst.
           cbn. unfold truthy. rewrite E0. cbn. split; [reflexivity | apply b2z_in_int].
        -- inversion H; subst.
           destruct (impl_eval r b); cbn; unfold truthy; rewrite ?E0; cbn; auto.
    + assert (H' : match cxx_eval r a, cxx_eval r b with
                   | Some v1, Some v2 => cxx_bin o v1 v2 | _, _ => None end = Some v)
        by (destruct o; try discriminate; exact H).
      clear H. destruct (cxx_eval r a) as [va|]; [|discriminate].
      destruct (cxx_eval r b) as [vb|]; [|discriminate].
      destruct (IHa va eq_refl) as [Ea Hina]. destruct (IHb vb eq_refl) as [Eb Hinb].
      destruct (bin_correct o va vb v Hina Hinb Hl H') as [Hb1 Hb2].
      split; [|exact Hb2]. cbn [impl_eval]. rewrite Eb, Ea.
      destruct o; try discriminate; exact Hb1.
  - cbn in *. destruct (cxx_eval r c) as [vc|]; [|discriminate].
    destruct (IHc vc eq_refl) as [-> _]. unfold truthy.
    destruct (vc =? 0); cbn; auto.
  - cbn in *. auto.
  - cbn in *. destruct (cxx_eval r a) as [va|]; [|discriminate].
    destruct (IHa va eq_refl) as [-> _]. inversion H; subst. split; [reflexivity | apply b2z_in_int].
Qed.

Theorem eval_correct r e v : cxx_eval r e = Some v -> impl_eval r e = RInt v.
Proof. intros H. now apply eval_correct_strong. Qed.

(* A value reported under partial knowledge stays the same under more knowledge. *)
Lemma impl_mono r r' e v : env_le r r' -> impl_eval r e = RInt v -> impl_eval r' e = RInt v.
Proof.
  intros Hle. revert v.
  induction e as [z|x| |o a IHa|o a IHa b IHb|c IHc a IHa b IHb|a IHa|a IHa]; intros v H; cbn in *.
  - exact H.
  - destruct (lookup r x) as [w|] eqn:E; [|discriminate]. now rewrite (Hle _ _ E).
  - discriminate.
  - destruct (impl_eval r a) as [va|]; [|discriminate]. now rewrite (IHa va eq_refl).
  - destruct (impl_eval r b) as [vb|] eqn:Eb.
    + rewrite (IHb vb eq_refl).
      assert (Hx : match impl_eval r a with
              | RErr => match o with
                        | BOrOr => if truthy vb then RInt 1 else RErr
                        | BAndAnd => if truthy vb then RErr else RInt 0
                        | _ => RErr end
              | RInt v1 => impl_bin o v1 vb end = RInt v).
      { destruct (is_logic o); destruct (impl_eval r a); destruct o; exact H. }
      clear H.
      assert (Goal' : match impl_eval r' a with
              | RErr => match o with
                        | BOrOr => if truthy vb then RInt 1 else RErr
                        | BAndAnd => if truthy vb then RErr else RInt 0
                        | _ => RErr end
              | RInt v1 => impl_bin o v1 vb end = RInt v).
      { destruct (impl_eval r a) as [va|] eqn:Ea.
        - now rewrite (IHa va eq_refl).
        - destruct (impl_eval r' a) as [va'|]; [|exact Hx].
          destruct o; try discriminate; cbn;
            destruct (truthy vb) eqn:Tb; try discriminate; inversion Hx; subst;
            destruct (truthy va'); reflexivity. }
      destruct (is_logic o); destruct (impl_eval r' a); destruct o; exact Goal'.
    + destruct (is_logic o) eqn:Hl; [|discriminate].
      destruct (impl_eval r a) as [va|] eqn:Ea.
      * rewrite (IHa va eq_refl).
        destruct o; try discriminate; destruct (truthy va) eqn:Ta; try discriminate;
          inversion H; subst; destruct (impl_eval r' b) as [vb'|]; cbn; rewrite ?Ta; cbn; reflexivity.
      * destruct o; discriminate.
  - destruct (impl_eval r c) as [vc|]; [|discriminate]. rewrite (IHc vc eq_refl).
    destruct (truthy vc); auto.
  - auto.
  - destruct (impl_eval r a) as [va|]; [|discriminate]. now rewrite (IHa va eq_refl).
Qed.

Theorem unevaluated_never_wrong r e v :
  impl_eval r e = RInt v ->
  forall r' v', env_le r r' -> cxx_eval r' e = Some v' -> v' = v.
Proof.
  intros H r' v' Hle Hc. apply eval_correct in Hc.
  rewrite (impl_mono r r' e v Hle H) in Hc. now inversion Hc.
Qed.

Lemma prec_table o : prec_impl o = prec_cxx o.
Proof. destruct o; reflexivity. Qed.

(* non-vacuity: an expression using most operators on which the spec is defined *)
Example eval_example :
  cxx_eval [Some 7; None] (EBin BOrOr (EBin BEq (EBin BXor (ELit 5) (ERef 0)) (ELit 2)) (EBin BDiv (ELit 1) (ELit 0))) = Some 1.
Proof. reflexivity. Qed.

(* ---- integer literal digits: reading the digit string of n in base b gives n ---- *)
Lemma digits_val_acc b ds acc :
  digits_val b ds acc = acc * b ^ Z.of_nat (length ds) + digits_val b ds 0.
Proof.
  revert acc. induction ds as [|d t IH]; intros acc.
  - cbn. lia.
  - cbn [digits_val length]. rewrite IH. rewrite (IH (0 * b + d)).
    rewrite Nat2Z.inj_succ, Z.pow_succ_r by lia. ring.
Qed.

Lemma show_digits_val b : 2 <= b -> forall fuel n acc,
  0 <= n < b ^ Z.of_nat fuel ->
  digits_val b (show_digits fuel b n acc) 0 = n * b ^ Z.of_nat (length acc) + digits_val b acc 0.
Proof.
  intros Hb. induction fuel as [|f IH]; intros n acc Hn.
  - cbn in Hn. assert (n = 0) by lia. subst. cbn [show_digits]. lia.
  - cbn [show_digits]. destruct (n <? b) eqn:E.
    + cbn [digits_val]. rewrite digits_val_acc. cbn. lia.
    + apply Z.ltb_ge in E. rewrite IH.
      * cbn [length digits_val]. rewrite (digits_val_acc b acc (0 * b + n mod b)).
        rewrite Nat2Z.inj_succ, Z.pow_succ_r by lia.
        pose proof (Z.div_mod n b ltac:(lia)). 
        set (q := n / b) in *. set (m := n mod b) in *. clearbody q m. subst n. ring.
      * rewrite Nat2Z.inj_succ, Z.pow_succ_r in Hn by lia. split.
        -- apply Z.div_pos; lia.
        -- apply Z.div_lt_upper_bound; lia.
Qed.

Theorem number_roundtrip b n fuel :
  2 <= b -> 0 <= n < b ^ Z.of_nat fuel -> digits_val b (show_digits fuel b n []) 0 = n.
Proof. intros Hb Hn. rewrite show_digits_val by assumption. cbn. lia. Qed.

Lemma show_digits_range b : 2 <= b -> forall fuel n acc,
  0 <= n -> Forall (fun d => 0 <= d < b) acc -> 0 < Z.of_nat fuel \/ n = 0 ->
  (n < b ^ Z.of_nat fuel) -> Forall (fun d => 0 <= d < b) (show_digits fuel b n acc).
Proof.
  intros Hb. induction fuel as [|f IH]; intros n acc Hn Hacc Hf Hlt.
  - cbn. assumption.
  - cbn [show_digits]. destruct (n <? b) eqn:E.
    + apply Z.ltb_lt in E. constructor; [lia|assumption].
    + apply Z.ltb_ge in E. rewrite Nat2Z.inj_succ, Z.pow_succ_r in Hlt by lia.
      assert (Hq : n / b < b ^ Z.of_nat f) by (apply Z.div_lt_upper_bound; lia).
      apply IH.
      * apply Z.div_pos; lia.
      * constructor; [apply Z.mod_pos_bound; lia | assumption].
      * destruct f; [cbn in Hq; right|left; lia].
        assert (0 <= n / b) by (apply Z.div_pos; lia). lia.
      * assumption.
Qed.

(* ---- enumerators ---- *)
Lemma env_le_snoc rc ri (c i : option Z) :
  env_le rc ri -> length rc = length ri -> (forall v, c = Some v -> i = Some v) ->
  env_le (rc ++ [c]) (ri ++ [i]).
Proof.
  intros Hle Hlen Hci x v. unfold lookup.
  destruct (Nat.lt_ge_cases x (length rc)) as [Hx|Hx].
  - rewrite !nth_error_app1 by lia. apply Hle.
  - rewrite !nth_error_app2 by lia. rewrite Hlen.
    destruct (x - length ri)%nat as [|k]; cbn.
    + destruct c as [w|]; [|discriminate]. intros H. now rewrite (Hci w eq_refl).
    + destruct k; discriminate.
Qed.

Definition agrees (c : option Z) (i : res) : Prop := forall v, c = Some v -> i = RInt v.

Theorem enum_correct inits : forall rc ri nc ni,
  env_le rc ri -> length rc = length ri -> agrees nc ni ->
  Forall2 agrees (enum_cxx rc inits nc) (enum_impl ri inits ni).
Proof.
  induction inits as [|[e|] rest IH]; intros rc ri nc ni Hle Hlen Hn; cbn [enum_cxx enum_impl].
  - constructor.
  - assert (Hv : agrees (cxx_eval rc e) (impl_eval ri e)).
    { intros v Hc. apply (impl_mono rc ri e v Hle). now apply eval_correct. }
    constructor; [exact Hv|].
    apply IH.
    + apply env_le_snoc; auto. intros v Hc. now rewrite (Hv v Hc).
    + rewrite !app_length. cbn. lia.
    + intros v Hc. destruct (cxx_eval rc e) as [w|] eqn:Ec; [|discriminate].
      rewrite (Hv w eq_refl). apply chk_some in Hc as [-> Hc]. now rewrite wrap32_id.
  - constructor; [exact Hn|].
    apply IH.
    + apply env_le_snoc; auto. intros v Hc. now rewrite (Hn v Hc).
    + rewrite !app_length. cbn. lia.
    + intros v Hc. destruct nc as [w|]; [|discriminate].
      rewrite (Hn w eq_refl). apply chk_some in Hc as [-> Hc]. now rewrite wrap32_id.
Qed.
