(* C07 — model of CPPExpression::evaluate() on integer constant expressions,
   and the ISO C++ specification it is compared with.  No proofs here. *)
From Coq Require Import ZArith List Bool.
From IV Require Import Common.Int32.
Import ListNotations.
Local Open Scope Z_scope.

Inductive unop := UNot | UCompl | UMinus | UPlus.
Inductive binop :=
| BMul | BDiv | BMod | BAdd | BSub | BShl | BShr
| BLt | BGt | BLe | BGe | BEq | BNe
| BAnd | BXor | BOr | BAndAnd | BOrOr | BComma.

Inductive expr :=
| ELit (z : Z)                 (* T_integer / T_boolean *)
| ERef (x : nat)               (* T_variable (const/constexpr with initialiser) or unknown identifier *)
| EOpaque                      (* anything evaluate() answers RT_error for: calls, strings, ... *)
| EUn (o : unop) (e : expr)
| EBin (o : binop) (a b : expr)
| ECond (c a b : expr)
| ECastInt (e : expr)
| ECastBool (e : expr).

(* environment: value of identifier x if it names a constant whose initialiser is evaluable *)
Definition env := list (option Z).
Definition lookup (r : env) (x : nat) : option Z :=
  match nth_error r x with Some (Some v) => Some v | _ => None end.

(* ---------------------------------------------------------------- *)
(* Implementation model.  RErr = RT_error ("unevaluated").           *)

Inductive res := RInt (z : Z) | RErr.

Definition b2z (b : bool) : Z := if b then 1 else 0.
Definition truthy (z : Z) : bool := negb (z =? 0).

(* C++ `/` and `%` truncate towards zero: Z.quot / Z.rem *)
Definition impl_bin (o : binop) (a b : Z) : res :=
  match o with
  | BMul => RInt (wrap32 (a * b))
  | BDiv => if (b =? 0) || ((a =? int_min) && (b =? -1)) then RErr else RInt (wrap32 (Z.quot a b))
  | BMod => if (b =? 0) || ((a =? int_min) && (b =? -1)) then RErr else RInt (wrap32 (Z.rem a b))
  | BAdd => RInt (wrap32 (a + b))
  | BSub => RInt (wrap32 (a - b))
  (* x86: the shift count is taken modulo 32; outside [0,32) the C++ is undefined anyway *)
  | BShl => RInt (wrap32 (Z.shiftl a (b mod 32)))
  | BShr => RInt (wrap32 (Z.shiftr a (b mod 32)))
  | BLt => RInt (b2z (a <? b))
  | BGt => RInt (b2z (a >? b))
  | BLe => RInt (b2z (a <=? b))
  | BGe => RInt (b2z (a >=? b))
  | BEq => RInt (b2z (a =? b))
  | BNe => RInt (b2z (negb (a =? b)))
  | BAnd => RInt (Z.land a b)
  | BXor => RInt (Z.lxor a b)
  | BOr => RInt (Z.lor a b)
  | BAndAnd => RInt (b2z (truthy a && truthy b))
  | BOrOr => RInt (b2z (truthy a || truthy b))
  | BComma => RInt b
  end.

Definition impl_un (o : unop) (a : Z) : res :=
  match o with
  | UNot => RInt (b2z (negb (truthy a)))
  | UCompl => RInt (Z.lnot a)
  | UMinus => RInt (wrap32 (- a))
  | UPlus => RInt a
  end.

Definition is_logic (o : binop) : bool :=
  match o with BAndAnd | BOrOr => true | _ => false end.

(* evaluate(): the second operand of a binary operation is evaluated FIRST; an
   error there ends the evaluation unless the operator is && or ||. *)
Fixpoint impl_eval (r : env) (e : expr) : res :=
  match e with
  | ELit z => RInt (wrap32 z)
  | ERef x => match lookup r x with Some v => RInt (wrap32 v) | None => RErr end
  | EOpaque => RErr
  | EUn o a =>
      match impl_eval r a with RErr => RErr | RInt v => impl_un o v end
  | EBin o a b =>
      let r2 := impl_eval r b in
      match r2, is_logic o with
      | RErr, false => RErr
      | _, _ =>
        match impl_eval r a with
        | RErr =>
            match o, r2 with
            | BOrOr, RInt v2 => if truthy v2 then RInt 1 else RErr
            | BAndAnd, RInt v2 => if truthy v2 then RErr else RInt 0
            | _, _ => RErr
            end
        | RInt v1 =>
            match o, r2 with
            | BOrOr, RErr => if truthy v1 then RInt 1 else RErr
            | BAndAnd, RErr => if truthy v1 then RErr else RInt 0
            | _, RErr => RErr
            | _, RInt v2 => impl_bin o v1 v2
            end
        end
      end
  | ECond c a b =>
      match impl_eval r c with
      | RErr => RErr
      | RInt v => if truthy v then impl_eval r a else impl_eval r b
      end
  | ECastInt a => impl_eval r a
  | ECastBool a => match impl_eval r a with RErr => RErr | RInt v => RInt (b2z (truthy v)) end
  end.

(* ---------------------------------------------------------------- *)
(* Specification: ISO C++ integer constant expressions over `int`.
   None = not a constant expression of type int whose every evaluated
   intermediate fits in int (overflow, division by zero, bad shift,
   reference to something without a known value). *)

Definition chk (z : Z) : option Z := if in_int z then Some z else None.

Definition cxx_bin (o : binop) (a b : Z) : option Z :=
  match o with
  | BMul => chk (a * b)
  | BDiv => if b =? 0 then None else chk (Z.quot a b)
  | BMod => if b =? 0 then None else if (a =? int_min) && (b =? -1) then None else chk (Z.rem a b)
  | BAdd => chk (a + b)
  | BSub => chk (a - b)
  | BShl => if (0 <=? b) && (b <? 32) && (0 <=? a) then chk (a * 2 ^ b) else None
  | BShr => if (0 <=? b) && (b <? 32) then chk (Z.shiftr a b) else None
  | BLt => Some (b2z (a <? b))
  | BGt => Some (b2z (b <? a))
  | BLe => Some (b2z (a <=? b))
  | BGe => Some (b2z (b <=? a))
  | BEq => Some (b2z (a =? b))
  | BNe => Some (b2z (negb (a =? b)))
  | BAnd => Some (Z.land a b)
  | BXor => Some (Z.lxor a b)
  | BOr => Some (Z.lor a b)
  | BAndAnd | BOrOr => None   (* handled in cxx_eval: short circuit *)
  | BComma => Some b
  end.

Definition cxx_un (o : unop) (a : Z) : option Z :=
  match o with
  | UNot => Some (b2z (a =? 0))
  | UCompl => Some (- a - 1)
  | UMinus => chk (- a)
  | UPlus => Some a
  end.

Fixpoint cxx_eval (r : env) (e : expr) : option Z :=
  match e with
  | ELit z => chk z
  | ERef x => match lookup r x with Some v => chk v | None => None end
  | EOpaque => None
  | EUn o a => match cxx_eval r a with Some v => cxx_un o v | None => None end
  | EBin BAndAnd a b =>
      match cxx_eval r a with
      | None => None
      | Some v1 => if v1 =? 0 then Some 0 else
          match cxx_eval r b with Some v2 => Some (b2z (negb (v2 =? 0))) | None => None end
      end
  | EBin BOrOr a b =>
      match cxx_eval r a with
      | None => None
      | Some v1 => if v1 =? 0 then
          match cxx_eval r b with Some v2 => Some (b2z (negb (v2 =? 0))) | None => None end
          else Some 1
      end
  | EBin o a b =>
      match cxx_eval r a, cxx_eval r b with
      | Some v1, Some v2 => cxx_bin o v1 v2
      | _, _ => None
      end
  | ECond c a b =>
      match cxx_eval r c with
      | None => None
      | Some v => if v =? 0 then cxx_eval r b else cxx_eval r a
      end
  | ECastInt a => cxx_eval r a
  | ECastBool a => match cxx_eval r a with Some v => Some (b2z (negb (v =? 0))) | None => None end
  end.

(* r' knows at least what r knows *)
Definition env_le (r r' : env) : Prop := forall x v, lookup r x = Some v -> lookup r' x = Some v.

(* ---------------------------------------------------------------- *)
(* Enumerators: implicit increment, explicit initialisers may refer to earlier
   enumerators (indices into the values computed so far). *)

Fixpoint enum_impl (r : env) (inits : list (option expr)) (next : res) : list res :=
  match inits with
  | [] => []
  | None :: rest =>
      let v := next in
      let nx := match v with RInt z => RInt (wrap32 (z + 1)) | RErr => RErr end in
      v :: enum_impl (r ++ [match v with RInt z => Some z | RErr => None end]) rest nx
  | Some e :: rest =>
      let v := impl_eval r e in
      let nx := match v with RInt z => RInt (wrap32 (z + 1)) | RErr => RErr end in
      v :: enum_impl (r ++ [match v with RInt z => Some z | RErr => None end]) rest nx
  end.

Fixpoint enum_cxx (r : env) (inits : list (option expr)) (next : option Z) : list (option Z) :=
  match inits with
  | [] => []
  | None :: rest =>
      let v := next in
      let nx := match v with Some z => chk (z + 1) | None => None end in
      v :: enum_cxx (r ++ [v]) rest nx
  | Some e :: rest =>
      let v := cxx_eval r e in
      let nx := match v with Some z => chk (z + 1) | None => None end in
      v :: enum_cxx (r ++ [v]) rest nx
  end.

(* ---------------------------------------------------------------- *)
(* Integer literal lexing: digits in base b, most significant first. *)

Fixpoint digits_val (b : Z) (ds : list Z) (acc : Z) : Z :=
  match ds with [] => acc | d :: t => digits_val b t (acc * b + d) end.

(* show: digits of n in base b (fuel = number of digits bound) *)
Fixpoint show_digits (fuel : nat) (b n : Z) (acc : list Z) : list Z :=
  match fuel with
  | O => acc
  | S f => if n <? b then n :: acc else show_digits f b (n / b) (n mod b :: acc)
  end.

(* ---------------------------------------------------------------- *)
(* Operator precedence: the %left/%right lines of cppBison.yxx, lowest first *)

Definition prec_impl (o : binop) : nat :=
  match o with
  | BComma => 0
  | BOrOr => 3 | BAndAnd => 4 | BOr => 5 | BXor => 6 | BAnd => 7
  | BEq | BNe => 8
  | BLe | BGe | BLt | BGt => 9
  | BShl | BShr => 11
  | BAdd | BSub => 12
  | BMul | BDiv | BMod => 13
  end%nat.

(* [expr] grammar levels of ISO C++ (expr.mul = 13 ... expr.comma = 0) *)
Definition prec_cxx (o : binop) : nat :=
  match o with
  | BMul | BDiv | BMod => 13
  | BAdd | BSub => 12
  | BShl | BShr => 11
  | BLt | BGt | BLe | BGe => 9
  | BEq | BNe => 8
  | BAnd => 7 | BXor => 6 | BOr => 5 | BAndAnd => 4 | BOrOr => 3
  | BComma => 0
  end%nat.
