(* C05 — property theorems only. *)
From Coq Require Import List Arith.
Import ListNotations.
From IV Require Import C05.Defs C05.Proofs.

(* a comment block is attached only to a declaration that starts on the line where the block ends or on the next line *)
Theorem c05_comment_adjacent : forall blocks line b, comment_before blocks line = Some b -> In b blocks /\ (b_last b = line \/ S (b_last b) = line).
Proof. exact comment_adjacent. Qed.
Print Assumptions c05_comment_adjacent.

(* the comment that ends on the line before a declaration is attached to it, whatever was read ahead *)
Theorem c05_comment_found : forall earlier b later line, S (b_last b) = line -> (forall c, In c later -> line < b_last c) ->
  comment_before (earlier ++ b :: later) line = Some b.
Proof. exact comment_found. Qed.
Print Assumptions c05_comment_found.

(* "and to no other": holds when no comment ends on a line on which a declaration starts ... *)
Theorem c05_comment_unique_partial : forall blocks decl_lines,
  (forall b l, In b blocks -> In l decl_lines -> b_last b <> l) ->
  forall l1 l2 b, In l1 decl_lines -> In l2 decl_lines -> comment_before blocks l1 = Some b -> comment_before blocks l2 = Some b -> l1 = l2.
Proof. exact comment_unique_partial. Qed.
Print Assumptions c05_comment_unique_partial.

(* ... and the only way to share a block is that shape *)
Theorem c05_comment_shared_shape : forall blocks l1 l2 b,
  l1 < l2 -> comment_before blocks l1 = Some b -> comment_before blocks l2 = Some b -> b_last b = l1 /\ l2 = S l1.
Proof. exact comment_shared_only_on_declaration_line. Qed.
Print Assumptions c05_comment_shared_shape.

(* the unrestricted statement is false of the code *)
Theorem c05_comment_unique_refuted : exists blocks l1 l2 b, l1 <> l2 /\ comment_before blocks l1 = Some b /\ comment_before blocks l2 = Some b.
Proof. exact comment_unique_refuted. Qed.
Print Assumptions c05_comment_unique_refuted.

(* callable variants: prefixes of the declared parameters, one per arity, and everything a variant omits has a default value *)
Theorem c05_variant_is_prefix : forall ps v, In v (variants ps) -> exists k, k <= max_default ps /\ v = firstn (length ps - k) ps.
Proof. exact variant_is_prefix. Qed.
Print Assumptions c05_variant_is_prefix.
Theorem c05_omitted_are_optional : forall ps k, k <= max_default ps -> forall p, In p (skipn (length ps - k) ps) -> p_default p = true.
Proof. exact omitted_are_optional. Qed.
Print Assumptions c05_omitted_are_optional.
Theorem c05_variant_arities : forall ps, map (@length param) (variants ps) = map (fun k => length ps - k) (seq 0 (S (max_default ps))).
Proof. exact variant_arities. Qed.
Print Assumptions c05_variant_arities.
