(* C14 — property theorems only. *)
From Coq Require Import ZArith List Bool Ascii Permutation.
From IV Require Import C14.Defs C14.Proofs.
Import ListNotations.

(* with SOURCE_DATE_EPOCH set (non-empty) the file identifier does not depend on the clock *)
Theorem c14_epoch : forall c r now1 now2, file_identifier (Some (c :: r)) now1 = file_identifier (Some (c :: r)) now2.
Proof. exact epoch_fixes_identifier. Qed.
Print Assumptions c14_epoch.

(* code and database of one run carry the same identifier; without the variable (or with an empty one) it is the time *)
Theorem c14_same_identifier : forall epoch now, fst (run_identifiers epoch now) = snd (run_identifiers epoch now).
Proof. exact code_and_database_agree. Qed.
Print Assumptions c14_same_identifier.

(* overload order: ANY two outputs a correct (possibly unstable) sort can produce for the same set of overloads coincide,
   whatever order the pointer-keyed set delivered them in, provided the comparator separates every two distinct overloads *)
Theorem c14_sort_order_independent : forall (A : Type) (kf : A -> key) (eq_dec : forall x y : A, {x = y} + {x <> y}) l1 l2,
  Permutation l1 l2 -> sorted_by kf l1 -> sorted_by kf l2 -> NoDup l1 ->
  (forall x y, In x l1 -> In y l1 -> x <> y -> separated kf x y) -> l1 = l2.
Proof. exact sort_unique. Qed.
Print Assumptions c14_sort_order_independent.

(* ... and the hypothesis is needed: with a tie both orders are admissible (the recorded pointer-order finding) *)
Theorem c14_pointer_order_refuted :
  let kf := fun n : nat => (false, (1%nat, [3%nat])) in
  admissible kf [1; 2]%nat [1; 2]%nat /\ admissible kf [1; 2]%nat [2; 1]%nat /\ [1; 2]%nat <> [2; 1]%nat.
Proof. exact tie_two_outputs. Qed.
Print Assumptions c14_pointer_order_refuted.
