(* C09 — conditional inclusion.  Model of process_directive / handle_if* /
   skip_false_if_block (one integer `level`, no stack) and the group-tree
   specification.  No proofs here. *)
From Coq Require Import ZArith List Bool Arith.
From IV Require Import Common.Int32 C07.Defs.
Import ListNotations.

Section Generic.
Variables (st cond action : Type).
Variable evalc : st -> cond -> bool.     (* handle_if/ifdef/ifndef_directive: true = continue *)
Variable act : action -> st -> st.       (* text, #define, #undef, #error, #include ... in normal mode *)

Inductive line := LAct (a : action) | LIf (c : cond) | LElif (c : cond) | LElse | LEndif.

(* norm = get_next_token/process_directive in normal mode;
   skip consider level = skip_false_if_block(consider_elifs) with its local `level`. *)
Fixpoint norm (ls : list line) (s : st) {struct ls} : st :=
  match ls with
  | [] => s
  | LAct a :: r => norm r (act a s)
  | LIf c :: r => if evalc s c then norm r s else skip true 0 r s
  | LElif _ :: r => skip false 0 r s
  | LElse :: r => skip false 0 r s
  | LEndif :: r => norm r s
  end
with skip (consider : bool) (level : nat) (ls : list line) (s : st) {struct ls} : st :=
  match ls with
  | [] => s
  | LAct _ :: r => skip consider level r s
  | LIf _ :: r => skip consider (S level) r s
  | LElse :: r =>
      if (level =? 0) && consider then norm r s else skip consider level r s
  | LElif c :: r =>
      if (level =? 0) && consider
      then (if evalc s c then norm r s else skip true 0 r s)
      else skip consider level r s
  | LEndif :: r =>
      if level =? 0 then norm r s else skip consider (level - 1) r s
  end.

(* Specification: well-nested groups as a tree *)
Inductive group :=
| GNil
| GAct (a : action) (rest : group)
| GCond (b : branches) (rest : group)
with branches :=
| BLast (c : cond) (g : group) (e : ogroup)
| BCons (c : cond) (g : group) (more : branches)
with ogroup := ONone | OSome (g : group).

Fixpoint flat (g : group) : list line :=
  match g with
  | GNil => []
  | GAct a r => LAct a :: flat r
  | GCond b r => flat_br true b ++ LEndif :: flat r
  end
with flat_br (first : bool) (b : branches) : list line :=
  match b with
  | BLast c g e => (if first then LIf c else LElif c) :: flat g ++ flat_o e
  | BCons c g m => (if first then LIf c else LElif c) :: flat g ++ flat_br false m
  end
with flat_o (e : ogroup) : list line :=
  match e with ONone => [] | OSome g => LElse :: flat g end.

(* first true condition wins, else the #else group, else nothing *)
Fixpoint keep (g : group) (s : st) : st :=
  match g with
  | GNil => s
  | GAct a r => keep r (act a s)
  | GCond b r => keep r (keep_br b s)
  end
with keep_br (b : branches) (s : st) : st :=
  match b with
  | BLast c g e => if evalc s c then keep g s else keep_o e s
  | BCons c g m => if evalc s c then keep g s else keep_br m s
  end
with keep_o (e : ogroup) (s : st) : st :=
  match e with ONone => s | OSome g => keep g s end.

End Generic.

Arguments LAct {cond action}. Arguments LIf {cond action}. Arguments LElif {cond action}.
Arguments LElse {cond action}. Arguments LEndif {cond action}.
Arguments GNil {cond action}. Arguments GAct {cond action}. Arguments GCond {cond action}.
Arguments BLast {cond action}. Arguments BCons {cond action}.
Arguments ONone {cond action}. Arguments OSome {cond action}.

(* ------------------------------------------------------------------ *)
(* Concrete instance used by the correspondence check.                 *)

Inductive ccond :=
| CIf (e : expr)        (* #if / #elif : ERef (2m) = value of macro m (0 if undefined),
                                          ERef (2m+1) = defined(m) *)
| CIfdef (m : nat)      (* #ifdef / #elifdef *)
| CIfndef (m : nat).    (* #ifndef / #elifndef *)

Inductive caction :=
| AText (id : nat)
| ADefine (m : nat) (v : Z)
| AUndef (m : nat)
| AError (id : nat).

Record cst := { macros : list (option Z); kept : list nat; errors : list nat }.

Fixpoint set_nth {A} (l : list (option A)) (n : nat) (v : option A) : list (option A) :=
  match n, l with
  | O, [] => [v]
  | O, _ :: t => v :: t
  | S k, [] => None :: set_nth [] k v
  | S k, h :: t => h :: set_nth t k v
  end.

Definition macro_val (ms : list (option Z)) (m : nat) : option Z :=
  match nth_error ms m with Some (Some v) => Some v | _ => None end.

Fixpoint cond_env_aux (ms : list (option Z)) : env :=
  match ms with
  | [] => []
  | Some v :: t => Some v :: Some 1%Z :: cond_env_aux t
  | None :: t => Some 0%Z :: Some 0%Z :: cond_env_aux t
  end.
(* identifiers beyond the table are undefined macros: value 0, defined() = 0 *)
Definition cond_env (ms : list (option Z)) : env :=
  cond_env_aux ms ++ repeat (Some 0%Z) 64.

Definition cevalc (s : cst) (c : ccond) : bool :=
  match c with
  | CIf e => match impl_eval (cond_env (macros s)) e with RInt v => truthy v | RErr => false end
  | CIfdef m => match macro_val (macros s) m with Some _ => true | None => false end
  | CIfndef m => match macro_val (macros s) m with Some _ => false | None => true end
  end.

(* what a conforming preprocessor computes for the same condition (None: ill-formed) *)
Definition cevalc_cxx (s : cst) (c : ccond) : option bool :=
  match c with
  | CIf e => match cxx_eval (cond_env (macros s)) e with Some v => Some (negb (v =? 0)%Z) | None => None end
  | CIfdef m => Some (match macro_val (macros s) m with Some _ => true | None => false end)
  | CIfndef m => Some (match macro_val (macros s) m with Some _ => false | None => true end)
  end.

Definition cact (a : caction) (s : cst) : cst :=
  match a with
  | AText id => {| macros := macros s; kept := id :: kept s; errors := errors s |}
  | ADefine m v => {| macros := set_nth (macros s) m (Some v); kept := kept s; errors := errors s |}
  | AUndef m => {| macros := set_nth (macros s) m None; kept := kept s; errors := errors s |}
  | AError id => {| macros := macros s; kept := kept s; errors := id :: errors s |}
  end.

Definition cinit : cst := {| macros := []; kept := []; errors := [] |}.

Definition run_impl (ls : list (line ccond caction)) : cst := norm cst ccond caction cevalc cact ls cinit.
Definition run_spec (g : group ccond caction) : cst := keep cst ccond caction cevalc cact g cinit.

(* ------------------------------------------------------------------ *)
(* Reference semantics: the same tree semantics with the conforming condition
   evaluator; [defined_*] says every condition that gets evaluated is a
   well-formed int-range constant expression. *)
Definition cevalc_ref (s : cst) (c : ccond) : bool :=
  match cevalc_cxx s c with Some b => b | None => false end.

Notation cgroup := (group ccond caction).
Notation cbranches := (branches ccond caction).
Notation cogroup := (ogroup ccond caction).

Fixpoint defined_g (g : cgroup) (s : cst) : bool :=
  match g with
  | GNil => true
  | GAct a r => defined_g r (cact a s)
  | GCond b r => defined_br b s && defined_g r (keep_br cst ccond caction cevalc_ref cact b s)
  end
with defined_br (b : cbranches) (s : cst) : bool :=
  match b with
  | BLast c g e =>
      match cevalc_cxx s c with
      | None => false | Some true => defined_g g s | Some false => defined_o e s end
  | BCons c g m =>
      match cevalc_cxx s c with
      | None => false | Some true => defined_g g s | Some false => defined_br m s end
  end
with defined_o (e : cogroup) (s : cst) : bool :=
  match e with ONone => true | OSome g => defined_g g s end.

Definition run_ref (g : cgroup) : cst := keep cst ccond caction cevalc_ref cact g cinit.
