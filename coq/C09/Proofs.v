From Coq Require Import ZArith List Bool Arith Lia.
From IV Require Import Common.Int32 C07.Defs C07.Proofs C09.Defs.
Import ListNotations.

Section Generic.
Variables (st cond action : Type).
Variable evalc : st -> cond -> bool.
Variable act : action -> st -> st.

Notation norm := (norm st cond action evalc act).
Notation skip := (skip st cond action evalc act).
Notation keep := (keep st cond action evalc act).
Notation keep_br := (keep_br st cond action evalc act).
Notation keep_o := (keep_o st cond action evalc act).
Notation flat := (flat cond action).
Notation flat_br := (flat_br cond action).
Notation flat_o := (flat_o cond action).
Notation group := (group cond action).
Notation branches := (branches cond action).
Notation ogroup := (ogroup cond action).

Scheme group_mut := Induction for Defs.group Sort Prop
with branches_mut := Induction for Defs.branches Sort Prop
with ogroup_mut := Induction for Defs.ogroup Sort Prop.
Combined Scheme gbo_ind from group_mut, branches_mut, ogroup_mut.

Lemma flat_cond (b : branches) (r : group) : flat (GCond b r) = flat_br true b ++ LEndif :: flat r.
Proof. reflexivity. Qed.
Lemma keep_cond (b : branches) (r : group) s : keep (GCond b r) s = keep r (keep_br b s).
Proof. reflexivity. Qed.

(* Skipping a nested region never looks inside it, at any level. *)
Lemma skip_over :
  (forall (g : group) cons L k s, skip cons L (flat g ++ k) s = skip cons L k s) /\
  (forall (b : branches) cons L k s,
      skip cons (S L) (flat_br false b ++ k) s = skip cons (S L) k s /\
      skip cons L (flat_br true b ++ LEndif :: k) s = skip cons L k s) /\
  (forall (e : ogroup) cons L k s, skip cons (S L) (flat_o e ++ k) s = skip cons (S L) k s).
Proof.
  apply gbo_ind.
  - reflexivity.
  - intros a r IH cons L k s. cbn. apply IH.
  - intros b IHb r IHr cons L k s. rewrite flat_cond. rewrite <- app_assoc. cbn [app].
    destruct (IHb cons L (flat r ++ k) s) as [_ H]. rewrite H. apply IHr.
  - intros c g IHg e IHe cons L k s. split.
    + cbn. rewrite <- app_assoc, IHg. apply IHe.
    + cbn. rewrite <- !app_assoc, IHg, IHe. cbn. now rewrite Nat.sub_0_r.
  - intros c g IHg m IHm cons L k s. split.
    + cbn. rewrite <- app_assoc, IHg. apply IHm.
    + cbn. rewrite <- !app_assoc, IHg.
      destruct (IHm cons L (LEndif :: k) s) as [H _]. rewrite H. cbn. now rewrite Nat.sub_0_r.
  - reflexivity.
  - intros g IH cons L k s. cbn. apply IH.
Qed.

Lemma skip_group (g : group) cons L k s : skip cons L (flat g ++ k) s = skip cons L k s.
Proof. apply skip_over. Qed.

Lemma skip_rest_br (b : branches) k s : skip false 0 (flat_br false b ++ LEndif :: k) s = norm k s.
Proof.
  revert s. induction b as [c g e|c g m IH]; intros s; cbn.
  - rewrite <- app_assoc, skip_group. destruct e as [|g']; cbn; [reflexivity|].
    now rewrite skip_group.
  - rewrite <- app_assoc, skip_group. apply IH.
Qed.

Lemma skip_rest_o_norm (e : ogroup) k s : norm (flat_o e ++ LEndif :: k) s = norm k s.
Proof. destruct e as [|g]; cbn; [reflexivity|]. now rewrite skip_group. Qed.

Lemma skip_rest_br_norm (b : branches) k s : norm (flat_br false b ++ LEndif :: k) s = norm k s.
Proof.
  destruct b as [c g e|c g m]; cbn; rewrite <- app_assoc, skip_group.
  - destruct e as [|g']; cbn; [reflexivity|]. now rewrite skip_group.
  - apply skip_rest_br.
Qed.

Theorem keep_exact_gen :
  (forall (g : group) k s, norm (flat g ++ k) s = norm k (keep g s)) /\
  (forall (b : branches) k s,
      norm (flat_br true b ++ LEndif :: k) s = norm k (keep_br b s) /\
      skip true 0 (flat_br false b ++ LEndif :: k) s = norm k (keep_br b s)) /\
  (forall (e : ogroup) k s, skip true 0 (flat_o e ++ LEndif :: k) s = norm k (keep_o e s)).
Proof.
  apply gbo_ind.
  - reflexivity.
  - intros a r IH k s. cbn. apply IH.
  - intros b IHb r IHr k s. rewrite flat_cond, keep_cond. rewrite <- app_assoc. cbn [app].
    destruct (IHb (flat r ++ k) s) as [H _]. rewrite H. apply IHr.
  - intros c g IHg e IHe k s. split; cbn; rewrite <- app_assoc.
    + destruct (evalc s c).
      * rewrite IHg. apply skip_rest_o_norm.
      * rewrite skip_group. apply IHe.
    + destruct (evalc s c).
      * rewrite IHg. apply skip_rest_o_norm.
      * rewrite skip_group. apply IHe.
  - intros c g IHg m IHm k s. split; cbn; rewrite <- app_assoc.
    + destruct (evalc s c).
      * rewrite IHg. apply skip_rest_br_norm.
      * rewrite skip_group. apply IHm.
    + destruct (evalc s c).
      * rewrite IHg. apply skip_rest_br_norm.
      * rewrite skip_group. apply IHm.
  - intros k s. reflexivity.
  - intros g IH k s. cbn. rewrite IH. reflexivity.
Qed.

Theorem keep_exact (g : group) s : norm (flat g) s = keep g s.
Proof. destruct keep_exact_gen as [H _]. specialize (H g [] s). rewrite app_nil_r in H. exact H. Qed.

(* Skipped groups have no effect at all: whatever a not-taken group contains,
   the result is the same as if it were empty. *)
Theorem skipped_group_irrelevant (c : cond) (g g' : group) (e : ogroup) rest s :
  evalc s c = false ->
  norm (flat (GCond (BLast c g e) rest)) s = norm (flat (GCond (BLast c g' e) rest)) s.
Proof. intros H. rewrite !keep_exact. cbn. now rewrite H. Qed.

End Generic.

(* the concrete condition evaluator agrees with a conforming one whenever the
   condition is a well-formed int-range constant expression *)
Theorem cevalc_conforming s c b : cevalc_cxx s c = Some b -> cevalc s c = b.
Proof.
  destruct c as [e|m|m]; cbn; intros H; try (now inversion H).
  destruct (cxx_eval (cond_env (macros s)) e) as [v|] eqn:E; [|discriminate].
  rewrite (eval_correct _ _ _ E). now inversion H.
Qed.

Scheme cgroup_mut := Induction for Defs.group Sort Prop
with cbranches_mut := Induction for Defs.branches Sort Prop
with cogroup_mut := Induction for Defs.ogroup Sort Prop.
Combined Scheme cgbo_ind from cgroup_mut, cbranches_mut, cogroup_mut.

Lemma cevalc_ref_eq s c : cevalc_cxx s c <> None -> cevalc s c = cevalc_ref s c.
Proof.
  unfold cevalc_ref. destruct (cevalc_cxx s c) as [b|] eqn:E; [|congruence].
  intros _. now apply cevalc_conforming.
Qed.

Theorem keep_ref_gen :
  (forall (g : cgroup) s, defined_g g s = true ->
     keep cst ccond caction cevalc cact g s = keep cst ccond caction cevalc_ref cact g s) /\
  (forall (b : cbranches) s, defined_br b s = true ->
     keep_br cst ccond caction cevalc cact b s = keep_br cst ccond caction cevalc_ref cact b s) /\
  (forall (e : cogroup) s, defined_o e s = true ->
     keep_o cst ccond caction cevalc cact e s = keep_o cst ccond caction cevalc_ref cact e s).
Proof.
  apply (cgbo_ind ccond caction).
  - reflexivity.
  - intros a r IH s H. cbn in *. now apply IH.
  - intros b IHb r IHr s H.
    change (defined_g (GCond b r) s) with
      (defined_br b s && defined_g r (keep_br cst ccond caction cevalc_ref cact b s)) in H.
    apply andb_true_iff in H as [H1 H2].
    rewrite !keep_cond. rewrite (IHb s H1). now apply IHr.
  - intros c g IHg e IHe s H. cbn in *.
    destruct (cevalc_cxx s c) as [bb|] eqn:E; [|discriminate].
    rewrite (cevalc_ref_eq s c) by congruence. unfold cevalc_ref. rewrite E.
    destruct bb; [now apply IHg | now apply IHe].
  - intros c g IHg m IHm s H. cbn in *.
    destruct (cevalc_cxx s c) as [bb|] eqn:E; [|discriminate].
    rewrite (cevalc_ref_eq s c) by congruence. unfold cevalc_ref. rewrite E.
    destruct bb; [now apply IHg | now apply IHm].
  - reflexivity.
  - intros g IH s H. cbn in *. now apply IH.
Qed.

Theorem run_impl_ref g : defined_g g cinit = true -> run_impl (flat ccond caction g) = run_ref g.
Proof.
  intros H. unfold run_impl, run_ref. rewrite keep_exact. now apply keep_ref_gen.
Qed.

Theorem run_impl_spec g : run_impl (flat ccond caction g) = run_spec g.
Proof. apply keep_exact. Qed.

Example run_example :
  kept (run_impl (flat ccond caction
    (GCond (BCons (CIfdef 0) (GAct (AText 1) GNil)
            (BLast (CIf (EBin BEq (ELit 1) (ELit 1))) (GAct (ADefine 0 5) (GAct (AText 2) GNil)) (OSome (GAct (AText 3) GNil))))
      (GCond (BLast (CIf (EBin BEq (ERef 0) (ELit 5))) (GAct (AText 4) GNil) ONone) GNil)))) = [4; 2]%nat.
Proof. reflexivity. Qed.
