From Coq Require Import ExtrOcamlBasic ExtrOcamlString.
From IV Require Import Common.Int32 C07.Defs C09.Defs.
Extraction Language OCaml.
Extraction "ext.ml" run_impl run_spec run_ref defined_g flat cinit.
