From Coq Require Import String ZArith List Bool Lia.
From IV Require Import C18.Table C18.Defs.
Import ListNotations.
Local Open Scope Z_scope.

(* ---------------- Prettify places the decimal point exactly ---------------- *)
Lemma dval_acc ds : forall acc, fold_left (fun a d => a * 10 + d) ds acc = acc * 10 ^ Z.of_nat (length ds) + dval ds.
Proof.
  unfold dval. induction ds as [|d r IH]; intros acc; cbn [fold_left length].
  - cbn. lia.
  - rewrite IH, (IH (0 * 10 + d)). rewrite Nat2Z.inj_succ, Z.pow_succ_r by lia. ring.
Qed.
Lemma dval_app a b : dval (a ++ b) = dval a * 10 ^ Z.of_nat (length b) + dval b.
Proof. unfold dval at 1. rewrite fold_left_app, dval_acc. reflexivity. Qed.

(* the text shape chosen by Prettify denotes digits * 10^k: same mantissa-exponent value *)
Definition same_value (a b : Z * Z) : Prop :=
  let m := Z.min (snd a) (snd b) in fst a * 10 ^ (snd a - m) = fst b * 10 ^ (snd b - m).

Theorem prettify_exact ds k : ds <> [] -> same_value (pretty_value (prettify ds k)) (dval ds, k).
Proof.
  intros Hne. unfold prettify, same_value.
  set (len := Z.of_nat (length ds)). set (kk := len + k).
  destruct ((len <=? kk) && (kk <=? 21)) eqn:E1.
  - apply andb_true_iff in E1 as [E1 _]. apply Z.leb_le in E1. cbn [pretty_value fst snd].
    assert (Hk : 0 <= k) by (unfold kk in E1; lia).
    replace (kk - len) with k by (unfold kk; lia).
    rewrite Z.min_l by lia. rewrite !Z.sub_0_r. cbn. lia.
  - destruct ((0 <? kk) && (kk <=? 21)) eqn:E2.
    + apply andb_true_iff in E2 as [E2 E2b]. apply Z.ltb_lt in E2. apply Z.leb_le in E2b.
      apply andb_false_iff in E1. assert (Hlt : kk < len) by (destruct E1 as [E1|E1]; apply Z.leb_gt in E1; lia).
      cbn [pretty_value fst snd]. rewrite firstn_skipn.
      rewrite skipn_length.
      assert (Hlen : - Z.of_nat (length ds - Z.to_nat kk) = k).
      { unfold len, kk in *. lia. }
      rewrite Hlen. rewrite Z.min_id, Z.sub_diag. reflexivity.
    + destruct ((-6 <? kk) && (kk <=? 0)) eqn:E3.
      * cbn [pretty_value fst snd]. fold len.
        replace (- (- kk + len)) with k by (unfold kk; lia).
        rewrite Z.min_id, Z.sub_diag. reflexivity.
      * cbn [pretty_value fst snd]. destruct ds as [|d r]; [congruence|]. cbn [hd tl].
        replace (kk - 1 - Z.of_nat (length r)) with k by (unfold kk, len; cbn [length]; lia).
        rewrite Z.min_id, Z.sub_diag. reflexivity.
Qed.

(* ---------------- the table of cached powers ---------------- *)
(* entry i approximates 10^(-348+8i): 2 * | F * 2^E - 10^k | <= 2^E, stated on integers *)
Definition entry_ok (i : nat) : bool :=
  let F := nth i cached_F 0 in
  let E := nth i cached_E 0 in
  let k := -348 + 8 * Z.of_nat i in
  let unit_ := 2 ^ Z.max E 0 * 10 ^ Z.max (- k) 0 in
  let A := F * unit_ in
  let B := 10 ^ Z.max k 0 * 2 ^ Z.max (- E) 0 in
  (2 * Z.abs (A - B) <=? unit_) && (2 ^ 63 <=? F) && (F <? 2 ^ 64).

Lemma cached_powers_all : forallb entry_ok (seq 0 87) = true.
Proof. vm_compute. reflexivity. Qed.

Theorem cached_powers_accurate i : (i < 87)%nat -> entry_ok i = true.
Proof.
  intros H. pose proof cached_powers_all as A. rewrite forallb_forall in A. apply A. apply in_seq. lia.
Qed.

Lemma table_lengths : length cached_F = 87%nat /\ length cached_E = 87%nat.
Proof. split; reflexivity. Qed.

(* ---------------- the index computation ---------------- *)
(* for every binary exponent a normalised boundary can have, the selected power brings the product exponent into
   the window [-60, -32] that DigitGen relies on, and the index is inside the table *)
Definition zrange (lo : Z) (n : nat) : list Z := map (fun i => lo + Z.of_nat i) (seq 0 n).
Definition window_ok (e : Z) : bool :=
  let idx := cached_index e in
  let E := nth (Z.to_nat idx) cached_E 0 in
  (0 <=? idx) && (idx <? 87) && (-60 <=? e + E + 64) && (e + E + 64 <=? -32).

Lemma window_all : forallb window_ok (zrange (-1140) 2103) = true.
Proof. vm_compute. reflexivity. Qed.

Theorem k_in_window e : -1140 <= e <= 962 -> window_ok e = true.
Proof.
  intros H. pose proof window_all as A. rewrite forallb_forall in A. apply A.
  unfold zrange. apply in_map_iff. exists (Z.to_nat (e + 1140)). split; [lia|]. apply in_seq. lia.
Qed.

(* the C++ computes dk in double precision and takes its ceiling.  dk is either exactly an integer (e = -61) or at least
   2^-12 away from every integer, so a rounding error below 2^-13 (the double computation is accurate to about 2^-43
   here) cannot change the ceiling: the exact rational ceiling used in the model is what the code computes *)
Definition margin_ok (e : Z) : bool :=
  let num := (-61 - e) * log10_2_num + 347 * 2 ^ 53 in
  let r := num mod 2 ^ 53 in
  (r =? 0) || ((2 ^ 41 <=? r) && (r <=? 2 ^ 53 - 2 ^ 41)).

Lemma margin_all : forallb margin_ok (zrange (-1140) 2103) = true.
Proof. vm_compute. reflexivity. Qed.

Theorem k_margin e : -1140 <= e <= 962 -> margin_ok e = true.
Proof.
  intros H. pose proof margin_all as A. rewrite forallb_forall in A. apply A.
  unfold zrange. apply in_map_iff. exists (Z.to_nat (e + 1140)). split; [lia|]. apply in_seq. lia.
Qed.

(* ---------------- sample round trips checked inside Coq (tests, not the general theorem) ---------------- *)
Example pdtoa_samples :
  pdtoa 4596373779694328218 = "0.2"%string /\                       (* 0x3FC999999999999A *)
  pdtoa 4611686018427387904 = "2.0"%string /\
  pdtoa 1 = "5e-324"%string /\
  pdtoa 9218868437227405311 = "1.7976931348623157e308"%string.
Proof. vm_compute. repeat split. Qed.
