(* C18 — pdtoa (Grisu2, Milo Yip's implementation) on Z with explicit 64-bit wrap-around where the C++ uses uint64_t.
   A double is given by its 64-bit pattern.  No proofs. *)
From Coq Require Import ZArith List Bool Ascii String.
From IV Require Import C18.Table.
Import ListNotations.
Local Open Scope Z_scope.

Definition two64 : Z := 2 ^ 64.
Definition wrap64 (x : Z) : Z := x mod two64.

Record diyfp := { df : Z; de : Z }.
Definition hidden : Z := 2 ^ 52.

(* DiyFp(double): positive finite double given by its bits *)
Definition of_bits (bits : Z) : diyfp :=
  let biased := (bits / 2 ^ 52) mod 2048 in
  let sig := bits mod 2 ^ 52 in
  if biased =? 0 then {| df := sig; de := -1074 |} else {| df := sig + hidden; de := biased - 1075 |}.

(* operator*: high 64 bits of the 128-bit product, rounded *)
Definition mul (a b : diyfp) : diyfp :=
  let p := df a * df b in
  let h := p / two64 in
  let l := p mod two64 in
  {| df := if 2 ^ 63 <=? l then h + 1 else h; de := de a + de b + 64 |}.

(* Normalize / NormalizeBoundary: shift left until bit 63 is set *)
Definition normalize (a : diyfp) : diyfp :=
  let s := 63 - Z.log2 (df a) in {| df := df a * 2 ^ s; de := de a - s |}.

Definition boundaries (v : diyfp) : diyfp * diyfp :=
  let pl := normalize {| df := df v * 2 + 1; de := de v - 1 |} in
  let mi := if df v =? hidden then {| df := df v * 4 - 1; de := de v - 2 |} else {| df := df v * 2 - 1; de := de v - 1 |} in
  ({| df := df mi * 2 ^ (de mi - de pl); de := de pl |}, pl).

(* GetCachedPower: k = ceil((-61 - e) * 0.30102999566398114 + 347) computed in double; the constant is exactly
   2711437152599295 / 2^53.  The exact rational ceiling is used here; that the double computation has the same ceiling
   is a proved finite sweep (margin lemma). *)
Definition log10_2_num : Z := 2711437152599295.
Definition k_of (e : Z) : Z :=
  let num := (-61 - e) * log10_2_num + 347 * 2 ^ 53 in      (* dk * 2^53 *)
  let q := num / 2 ^ 53 in
  if num mod 2 ^ 53 =? 0 then q else q + 1.
Definition cached_index (e : Z) : Z := Z.shiftr (k_of e) 3 + 1.
Definition cached_power (e : Z) : diyfp * Z :=
  let idx := cached_index e in
  ({| df := nth (Z.to_nat idx) cached_F 0; de := nth (Z.to_nat idx) cached_E 0 |}, - (-348 + idx * 8)).

Definition pow10_32 (k : Z) : Z :=      (* kPow10[], 16 entries, zero from index 10 on *)
  if (0 <=? k) && (k <=? 9) then 10 ^ k else 0.

Definition count_digits32 (n : Z) : Z :=
  if n <? 10 then 1 else if n <? 100 then 2 else if n <? 1000 then 3 else if n <? 10000 then 4 else if n <? 100000 then 5
  else if n <? 1000000 then 6 else if n <? 10000000 then 7 else if n <? 100000000 then 8 else if n <? 1000000000 then 9 else 10.

(* GrisuRound: decrements the last digit while that brings the number closer to w *)
Fixpoint grisu_round (fuel : nat) (last : Z) (delta rest ten_kappa wp_w : Z) : Z :=
  match fuel with
  | O => last
  | S f =>
      if (rest <? wp_w) && (ten_kappa <=? wrap64 (delta - rest)) &&
         ((wrap64 (rest + ten_kappa) <? wp_w) || (wrap64 (rest + ten_kappa - wp_w) <? wrap64 (wp_w - rest)))
      then grisu_round f (last - 1) delta (wrap64 (rest + ten_kappa)) ten_kappa wp_w
      else last
  end.

Definition set_last (ds : list Z) (d : Z) : list Z :=
  match rev ds with [] => [] | _ :: r => rev (d :: r) end.
Definition last_digit (ds : list Z) : Z := last ds 0.

(* DigitGen: digits (most significant first) and the updated K; None = fuel exhausted *)
Fixpoint digit_gen1 (fuel : nat) (kappa p1 p2 delta one_f one_e wp_w : Z) (ds : list Z) (K : Z) : option (list Z * Z) + (Z * list Z) :=
  (* inl result, or inr (kappa = 0 reached: continue with the second loop) *)
  match fuel with
  | O => inl None
  | S f =>
      if kappa <=? 0 then inr (p2, ds) else
      let pw := 10 ^ (kappa - 1) in
      let d := p1 / pw in
      let p1' := p1 mod pw in
      let ds' := if negb (d =? 0) || negb (match ds with [] => true | _ => false end) then ds ++ [d] else ds in
      let kappa' := kappa - 1 in
      let tmp := wrap64 (p1' * 2 ^ (- one_e) + p2) in
      if tmp <=? delta then
        let lastd := grisu_round 12 (last_digit ds') delta tmp (wrap64 (pow10_32 kappa' * 2 ^ (- one_e))) wp_w in
        inl (Some (set_last ds' lastd, K + kappa'))
      else digit_gen1 f kappa' p1' p2 delta one_f one_e wp_w ds' K
  end.

Fixpoint digit_gen2 (fuel : nat) (kappa p2 delta one_f one_e wp_w : Z) (ds : list Z) (K : Z) : option (list Z * Z) :=
  match fuel with
  | O => None
  | S f =>
      let p2a := wrap64 (p2 * 10) in
      let delta' := wrap64 (delta * 10) in
      let d := (p2a / 2 ^ (- one_e)) mod 256 in            (* static_cast<char> of a value < 10 *)
      let ds' := if negb (d =? 0) || negb (match ds with [] => true | _ => false end) then ds ++ [d] else ds in
      let p2' := Z.land p2a (one_f - 1) in
      let kappa' := kappa - 1 in
      if p2' <? delta' then
        let lastd := grisu_round 12 (last_digit ds') delta' p2' one_f (wrap64 (wp_w * pow10_32 (- kappa'))) in
        Some (set_last ds' lastd, K + kappa')
      else digit_gen2 f kappa' p2' delta' one_f one_e wp_w ds' K
  end.

Definition digit_gen (W Mp : diyfp) (delta : Z) (K : Z) : option (list Z * Z) :=
  let one_e := de Mp in
  let one_f := 2 ^ (- one_e) in
  let wp_w := df Mp - df W in
  let p1 := (df Mp / one_f) mod 2 ^ 32 in
  let p2 := Z.land (df Mp) (one_f - 1) in
  match digit_gen1 12 (count_digits32 p1) p1 p2 delta one_f one_e wp_w [] K with
  | inl r => r
  | inr (p2', ds) => digit_gen2 40 0 p2' delta one_f one_e wp_w ds K
  end.

Definition grisu2 (bits : Z) : option (list Z * Z) :=
  let v := of_bits bits in
  let '(w_m, w_p) := boundaries v in
  let '(c_mk, K) := cached_power (de w_p) in
  let W := mul (normalize v) c_mk in
  let Wp := mul w_p c_mk in
  let Wm := mul w_m c_mk in
  let Wm' := wrap64 (df Wm + 1) in
  let Wp' := {| df := wrap64 (df Wp - 1); de := de Wp |} in
  digit_gen W Wp' (wrap64 (df Wp' - Wm')) K.

(* ---- Prettify, structurally: the shapes of the decimal text ---- *)
Inductive pretty :=
| PInt (ds : list Z) (zeros : Z)                 (* 1234e7 -> 12340000000.0 *)
| PFix (ip fp : list Z)                          (* 1234e-2 -> 12.34 *)
| PSmall (zeros : Z) (ds : list Z)               (* 1234e-6 -> 0.001234 *)
| PSci (d1 : Z) (rest : list Z) (e10 : Z).       (* 1234e30 -> 1.234e33, 1e30 *)

Definition prettify (ds : list Z) (k : Z) : pretty :=
  let len := Z.of_nat (List.length ds) in
  let kk := len + k in
  if (len <=? kk) && (kk <=? 21) then PInt ds (kk - len)
  else if (0 <? kk) && (kk <=? 21) then PFix (firstn (Z.to_nat kk) ds) (skipn (Z.to_nat kk) ds)
  else if (-6 <? kk) && (kk <=? 0) then PSmall (- kk) ds
  else PSci (hd 0 ds) (tl ds) (kk - 1).

(* value of a digit list and of a pretty form as mantissa * 10^exponent *)
Definition dval (ds : list Z) : Z := fold_left (fun acc d => acc * 10 + d) ds 0.
Definition pretty_value (p : pretty) : Z * Z :=
  match p with
  | PInt ds z => (dval ds * 10 ^ z, 0)
  | PFix ip fp => (dval (ip ++ fp), - Z.of_nat (List.length fp))
  | PSmall z ds => (dval ds, - (z + Z.of_nat (List.length ds)))
  | PSci d1 rest e10 => (dval (d1 :: rest), e10 - Z.of_nat (List.length rest))
  end.

(* ---- text ---- *)
Local Open Scope string_scope.
Definition dchar (d : Z) : ascii := ascii_of_N (Z.to_N (48 + d)).
Fixpoint dstr (ds : list Z) : string := match ds with [] => "" | d :: r => String (dchar d) (dstr r) end.
Fixpoint zeros_str (n : nat) : string := match n with O => "" | S k => String "0" (zeros_str k) end.
Definition exp_str (k : Z) : string :=
  let a := Z.abs k in
  (if (k <? 0)%Z then "-" else "") ++
  (if (100 <=? a)%Z then dstr [a / 100; (a mod 100) / 10; a mod 10]%Z
   else if (10 <=? a)%Z then dstr [a / 10; a mod 10]%Z else dstr [a]).
Definition pretty_text (p : pretty) : string :=
  match p with
  | PInt ds z => dstr ds ++ zeros_str (Z.to_nat z) ++ ".0"
  | PFix ip fp => dstr ip ++ "." ++ dstr fp
  | PSmall z ds => "0." ++ zeros_str (Z.to_nat z) ++ dstr ds
  | PSci d1 [] e10 => dstr [d1] ++ "e" ++ exp_str e10
  | PSci d1 rest e10 => dstr [d1] ++ "." ++ dstr rest ++ "e" ++ exp_str e10
  end.

(* pdtoa for a 64-bit pattern *)
Definition pdtoa (bits0 : Z) : string :=
  let neg := (2 ^ 63 <=? bits0)%Z in
  let bits := (bits0 mod 2 ^ 63)%Z in
  let body :=
    if (bits =? 2047 * 2 ^ 52)%Z then "inf"
    else if (2047 * 2 ^ 52 <? bits)%Z then "nan"
    else if (bits =? 0)%Z then "0.0"
    else if (bits =? 1023 * 2 ^ 52)%Z then "1.0"
    else match grisu2 bits with
         | Some (ds, K) => pretty_text (prettify ds K)
         | None => "?fuel"
         end in
  if neg then "-" ++ body else body.
