From Coq Require Import ExtrOcamlBasic ExtrOcamlString.
From IV Require Import C18.Table C18.Defs.
Extraction Language OCaml.
Extraction "ext.ml" pdtoa grisu2 prettify pretty_value.
