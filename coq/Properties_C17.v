(* C17 — property theorems only. *)
From Coq Require Import List Bool.
From IV Require Import C17.Defs C17.Proofs.
Import ListNotations.

(* path normalisation is idempotent, for every path *)
Theorem c17_std_idempotent : forall p, standardize (standardize p) = standardize p.
Proof. exact standardize_idempotent. Qed.
Print Assumptions c17_std_idempotent.

(* ... and never changes which file a path denotes when no symbolic link is traversed: whenever the kernel resolves
   the original path (from any working directory, in any file system), it resolves the normalised path to the same place *)
Theorem c17_std_denotes : forall fs, (forall q, symlink fs q = None) ->
  forall cwd p pos, resolve fs cwd p = Some pos -> resolve fs cwd (standardize p) = Some pos.
Proof. exact standardize_denotes. Qed.
Print Assumptions c17_std_denotes.

(* with a symbolic link on the way the lexical treatment of ".." denotes another file (replayed on the real tool) *)
Theorem c17_std_symlink_refuted :
  resolve ex_fs [1] (false, [Name 4; DotDot; Name 5]) = Some [5; 2] /\
  resolve ex_fs [1] (standardize (false, [Name 4; DotDot; Name 5])) = Some [5; 1].
Proof. exact symlink_refuted. Qed.
Print Assumptions c17_std_symlink_refuted.

(* "a/.." normalises to the empty name (which denotes nothing) *)
Theorem c17_std_empty_name_refuted : standardize (false, [Name 7; DotDot]) = (false, []).
Proof. exact empty_name_refuted. Qed.
Print Assumptions c17_std_empty_name_refuted.

(* include lookup returns the FIRST existing candidate of: cwd, includer's directory, -I/-S directories in order
   (quotes, or angles under -noangles); only the -S directories for angle includes *)
Theorem c17_search_order : forall noangles f cwd includer dirs hit explicit d s,
  find_include noangles f cwd includer dirs hit explicit = Some (d, s) ->
  exists l1 s0 l2, candidates noangles f cwd includer dirs = l1 ++ (d, s0) :: l2 /\ hit d = true /\
    (forall x, In x l1 -> hit (fst x) = false) /\ s = (if explicit d then S_local else s0).
Proof. exact find_include_first. Qed.
Print Assumptions c17_search_order.

(* a file is skipped exactly when no candidate exists *)
Theorem c17_not_found : forall noangles f cwd includer dirs hit explicit,
  find_include noangles f cwd includer dirs hit explicit = None <->
  forall x, In x (candidates noangles f cwd includer dirs) -> hit (fst x) = false.
Proof. exact find_include_none. Qed.
Print Assumptions c17_not_found.

(* ownership: local only when named on the command line or found by the working-directory rule *)
Theorem c17_owner : forall noangles f cwd includer dirs hit explicit d,
  find_include noangles f cwd includer dirs hit explicit = Some (d, S_local) ->
  Forall (fun e => d_kind e <> S_local) dirs ->
  explicit d = true \/ (d = cwd /\ (f = Quote \/ noangles = true)).
Proof. exact owner_local. Qed.
Print Assumptions c17_owner.
