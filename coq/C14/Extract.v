From Coq Require Import ExtrOcamlBasic ExtrOcamlString.
From IV Require Import C14.Defs.
Extraction Language OCaml.
Extraction "ext.ml" file_identifier compare_less.
