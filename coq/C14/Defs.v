(* C14 — sources of nondeterminism made explicit: the file identifier (time vs SOURCE_DATE_EPOCH) and the order in
   which pointer-keyed sets hand overloads to the (unstable) sort with RemapCompareLess.  No proofs. *)
From Coq Require Import ZArith List Bool Ascii Sorting Permutation.
Import ListNotations.
Local Open Scope Z_scope.

(* atoi: optional sign, leading decimal digits (no overflow handling needed for the statement) *)
Definition digit (c : ascii) : option Z :=
  let n := Z.of_N (N_of_ascii c) in if (48 <=? n) && (n <=? 57) then Some (n - 48) else None.
Fixpoint atoi_digits (s : list ascii) (acc : Z) : Z :=
  match s with [] => acc | c :: r => match digit c with Some d => atoi_digits r (acc * 10 + d) | None => acc end end.
Definition is_space (c : ascii) : bool := let n := Z.of_N (N_of_ascii c) in ((9 <=? n) && (n <=? 13)) || (n =? 32).
Fixpoint skip_space (s : list ascii) : list ascii := match s with c :: r => if is_space c then skip_space r else s | [] => [] end.
Definition atoi (s0 : list ascii) : Z :=
  let s := skip_space s0 in
  match s with
  | c :: r => if Z.of_N (N_of_ascii c) =? 45 then - atoi_digits r 0 else if Z.of_N (N_of_ascii c) =? 43 then atoi_digits r 0 else atoi_digits s 0
  | [] => 0
  end.

(* environment: SOURCE_DATE_EPOCH unset (None), or its value *)
Definition file_identifier (epoch : option (list ascii)) (now : Z) : Z :=
  match epoch with
  | Some (c :: r) => atoi (c :: r)      (* set and non-empty *)
  | _ => now                            (* unset or empty: time(nullptr) *)
  end.

(* one run emits the identifier into the code file and into the database *)
Definition run_identifiers (epoch : option (list ascii)) (now : Z) : Z * Z :=
  let i := file_identifier epoch now in (i, i).

(* ---- overload ordering ---- *)
(* RemapCompareLess looks only at this key: (const method, number of parameters, type-sort of each parameter) *)
Definition key := (bool * (nat * list nat))%type.

Fixpoint lex_gt (a b : list nat) : bool :=       (* first differing position decides, larger sort value first *)
  match a, b with
  | x :: a', y :: b' => if Nat.eqb x y then lex_gt a' b' else Nat.ltb y x
  | _, _ => false
  end.
Definition compare_less (k1 k2 : key) : bool :=
  let '(c1, (n1, t1)) := k1 in let '(c2, (n2, t2)) := k2 in
  if negb (Bool.eqb c1 c2) then c2
  else if negb (Nat.eqb n1 n2) then Nat.ltb n2 n1
  else lex_gt t1 t2.

(* what a correct sort may return for input l: any permutation in which no later element is strictly less than an earlier one *)
Definition sorted_by {A} (kf : A -> key) (l : list A) : Prop :=
  forall i j x y, (i < j)%nat -> nth_error l i = Some x -> nth_error l j = Some y -> compare_less (kf y) (kf x) = false.
Definition admissible {A} (kf : A -> key) (input out : list A) : Prop := Permutation input out /\ sorted_by kf out.
(* two elements are separated when the comparator orders them one way or the other *)
Definition separated {A} (kf : A -> key) (x y : A) : Prop := compare_less (kf x) (kf y) = true \/ compare_less (kf y) (kf x) = true.
