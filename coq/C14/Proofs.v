From Coq Require Import ZArith List Bool Ascii Sorting Permutation Lia Arith.
From IV Require Import C14.Defs.
Import ListNotations.

(* ---- identifier ---- *)
Theorem epoch_fixes_identifier c r now1 now2 :
  file_identifier (Some (c :: r)) now1 = file_identifier (Some (c :: r)) now2.
Proof. reflexivity. Qed.

Theorem code_and_database_agree epoch now : fst (run_identifiers epoch now) = snd (run_identifiers epoch now).
Proof. reflexivity. Qed.

Theorem without_epoch_identifier_is_time now : file_identifier None now = now /\ file_identifier (Some []) now = now.
Proof. split; reflexivity. Qed.

(* ---- comparator facts ---- *)
Lemma lex_gt_irrefl a : lex_gt a a = false.
Proof. induction a as [|x r IH]; cbn; [reflexivity|]. now rewrite Nat.eqb_refl. Qed.

Lemma lex_gt_asym a : forall b, lex_gt a b = true -> lex_gt b a = false.
Proof.
  induction a as [|x r IH]; intros [|y s]; cbn; try discriminate; try reflexivity.
  destruct (Nat.eqb_spec x y) as [->|Hne].
  - rewrite Nat.eqb_refl. apply IH.
  - destruct (Nat.eqb_spec y x); [congruence|]. intros H. apply Nat.ltb_lt in H. apply Nat.ltb_ge. lia.
Qed.

Lemma compare_less_irrefl k : compare_less k k = false.
Proof. destruct k as [c [n t]]. cbn. rewrite Bool.eqb_reflx, Nat.eqb_refl. cbn. apply lex_gt_irrefl. Qed.

Lemma compare_less_asym k1 k2 : compare_less k1 k2 = true -> compare_less k2 k1 = false.
Proof.
  destruct k1 as [c1 [n1 t1]], k2 as [c2 [n2 t2]]. cbn.
  destruct c1, c2; cbn; try discriminate; try reflexivity;
    (destruct (Nat.eqb_spec n1 n2) as [->|Hne]; cbn;
     [rewrite Nat.eqb_refl; cbn; apply lex_gt_asym
     | destruct (Nat.eqb_spec n2 n1); [congruence|]; cbn; intros H; apply Nat.ltb_lt in H; apply Nat.ltb_ge; lia]).
Qed.

(* ---- the output is independent of the input order exactly when the comparator separates all elements ---- *)
Section Sort.
Variable A : Type.
Variable kf : A -> key.
Variable eq_dec : forall x y : A, {x = y} + {x <> y}.

Lemma sorted_tail x l : sorted_by kf (x :: l) -> sorted_by kf l.
Proof. intros H i j a b Hij Ha Hb. apply (H (S i) (S j)); auto with arith. Qed.

Lemma sorted_head x l y : sorted_by kf (x :: l) -> In y l -> compare_less (kf y) (kf x) = false.
Proof.
  intros H Hin. apply In_nth_error in Hin as [j Hj]. apply (H 0%nat (S j) x y); auto with arith.
Qed.

(* Two admissible outputs of the same input coincide when every two distinct elements are separated. *)
Theorem sort_unique : forall l1 l2,
  Permutation l1 l2 -> sorted_by kf l1 -> sorted_by kf l2 -> NoDup l1 ->
  (forall x y, In x l1 -> In y l1 -> x <> y -> separated kf x y) ->
  l1 = l2.
Proof.
  induction l1 as [|x r IH]; intros l2 Hp S1 S2 Hnd Hsep.
  - apply Permutation_nil in Hp. now subst.
  - destruct l2 as [|y s]; [apply Permutation_sym, Permutation_nil in Hp; discriminate|].
    assert (Hxy : x = y).
    { destruct (eq_dec x y) as [E|Hne]; [exact E|]. exfalso.
      (* y occurs in r (strictly after x in l1), x occurs in s (strictly after y in l2) *)
      assert (Hy : In y r).
      { assert (In y (x :: r)) by (apply (Permutation_in _ (Permutation_sym Hp)); now left). destruct H; [congruence | assumption]. }
      assert (Hx : In x s).
      { assert (In x (y :: s)) by (apply (Permutation_in _ Hp); now left). destruct H; [congruence | assumption]. }
      pose proof (sorted_head x r y S1 Hy) as H1. pose proof (sorted_head y s x S2 Hx) as H2.
      destruct (Hsep x y (or_introl eq_refl) (or_intror Hy) Hne) as [H|H]; congruence. }
    subst y. f_equal. inversion Hnd; subst. apply IH.
    + now apply Permutation_cons_inv in Hp.
    + now apply sorted_tail in S1.
    + now apply sorted_tail in S2.
    + assumption.
    + intros a b Ha Hb. apply Hsep; now right.
Qed.
End Sort.

(* with a tie (two overloads the comparator cannot separate) both orders are admissible: the output then follows the
   order in which the pointer-keyed set happened to hand them over *)
Example tie_two_outputs :
  let kf := fun n : nat => (false, (1%nat, [3%nat])) in     (* e.g. f(int) and f(short): same sort class *)
  admissible kf [1; 2]%nat [1; 2]%nat /\ admissible kf [1; 2]%nat [2; 1]%nat /\ [1; 2]%nat <> [2; 1]%nat.
Proof.
  cbn. repeat split; try (intros i j x y _ _ _; reflexivity); try discriminate.
  - apply Permutation_refl.
  - apply perm_swap.
Qed.
