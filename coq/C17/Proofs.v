From Coq Require Import List Bool Arith Lia.
From IV Require Import C17.Defs.
Import ListNotations.

(* ---------------- normal form of standardised paths ---------------- *)
Fixpoint dd_only (s : list comp) : bool := match s with [] => true | DotDot :: r => dd_only r | _ => false end.
(* stack, most recent first; read oldest first it is  ["."] name*  (relative only)  or  ".."* name* *)
Fixpoint clean (rel : bool) (s : list comp) : bool :=
  match s with
  | [] => true
  | Name _ :: r => clean rel r
  | DotDot :: r => dd_only r
  | Dot :: r => rel && match r with [] => true | _ => false end
  end.

Lemma dd_only_clean rel s : dd_only s = true -> clean rel s = true.
Proof. destruct s as [|[| |n] r]; cbn; auto; discriminate. Qed.

Lemma clean_tail rel c s : clean rel (c :: s) = true -> clean rel s = true.
Proof.
  destruct c as [| |n]; cbn.
  - intros H. apply andb_true_iff in H as [_ H]. destruct s; [reflexivity | discriminate].
  - apply dd_only_clean.
  - auto.
Qed.

(* the stack stays clean; [fr] can only be true while the stack is still empty *)
Lemma std_stack_clean rel : forall cs fr stack, clean rel stack = true -> (fr = true -> stack = [] /\ rel = true) ->
  clean rel (std_stack fr cs stack) = true.
Proof.
  induction cs as [|c r IH]; intros fr stack Hc Hf; cbn [std_stack]; [exact Hc|].
  destruct c as [| |n].
  - destruct fr.
    + destruct (Hf eq_refl) as [-> ->]. apply IH; [reflexivity | discriminate].
    + apply IH; [assumption | discriminate].
  - destruct stack as [|[| |m] s'].
    + apply IH; [reflexivity | discriminate].
    + cbn in Hc. apply andb_true_iff in Hc as [_ Hc]. destruct s'; [|discriminate]. apply IH; [reflexivity | discriminate].
    + apply IH; [cbn in *; exact Hc | discriminate].
    + apply IH; [cbn in Hc; exact Hc | discriminate].
  - apply IH; [cbn; exact Hc | discriminate].
Qed.

Lemma std_stack_app : forall l1 l2 fr st,
  std_stack fr (l1 ++ l2) st = std_stack (fr && match l1 with [] => true | _ => false end) l2 (std_stack fr l1 st).
Proof.
  induction l1 as [|c r IH]; intros l2 fr st; cbn [app std_stack].
  - now rewrite andb_true_r.
  - rewrite andb_false_r.
    destruct c as [| |n].
    + destruct fr; rewrite IH; cbn; reflexivity.
    + destruct st as [|[| |m] s']; rewrite IH; cbn; reflexivity.
    + rewrite IH. cbn. reflexivity.
Qed.

(* re-standardising a clean path changes nothing *)
Lemma std_stack_id rel : forall s, clean rel s = true -> std_stack rel (rev s) [] = s.
Proof.
  induction s as [|c r IH]; intros Hc; [reflexivity|].
  cbn [rev]. rewrite std_stack_app, (IH (clean_tail _ _ _ Hc)).
  destruct c as [| |n]; cbn [std_stack].
  - cbn in Hc. apply andb_true_iff in Hc as [-> Hc]. destruct r; [reflexivity | discriminate].
  - cbn in Hc. destruct r as [|[| |m] r']; try discriminate; reflexivity.
  - reflexivity.
Qed.

Theorem standardize_idempotent p : standardize (standardize p) = standardize p.
Proof.
  destruct p as [ab cs]. unfold standardize, std_go. cbn [fst snd]. f_equal. f_equal.
  apply std_stack_id. apply std_stack_clean; [reflexivity|].
  intros H. split; [reflexivity|]. now destruct ab.
Qed.

(* ---------------- denotation ---------------- *)
Lemma walk_app fs : forall l1 l2 pos, walk fs pos (l1 ++ l2) = match walk fs pos l1 with Some q => walk fs q l2 | None => None end.
Proof.
  induction l1 as [|c r IH]; intros l2 pos; cbn [app walk]; [reflexivity|].
  destruct (step fs pos c); [apply IH | reflexivity].
Qed.

Lemma step_dot fs pos q : step fs pos Dot = Some q -> is_dir fs pos = true /\ q = pos.
Proof. unfold step. destruct (is_dir fs pos); cbn; [intros H; inversion H; auto | discriminate]. Qed.
Lemma step_dotdot fs pos q : step fs pos DotDot = Some q -> is_dir fs pos = true /\ q = tl pos.
Proof. unfold step. destruct (is_dir fs pos); cbn; [intros H; inversion H; auto | discriminate]. Qed.
Lemma step_dot_ok fs pos : is_dir fs pos = true -> step fs pos Dot = Some pos.
Proof. unfold step. now intros ->. Qed.
Lemma step_dotdot_ok fs pos : is_dir fs pos = true -> step fs pos DotDot = Some (tl pos).
Proof. unfold step. now intros ->. Qed.

Section NoSymlinks.
Variable fs : fsys.
Hypothesis nosym : forall q, symlink fs q = None.

(* walking the original components and walking the standardised ones reach the same position,
   whenever the original walk succeeds *)
Lemma walk_std : forall cs fr stack start pos0 pos,
  walk fs start (rev stack) = Some pos0 -> walk fs pos0 cs = Some pos ->
  (fr = true -> stack = []) ->
  walk fs start (rev (std_stack fr cs stack)) = Some pos.
Proof.
  induction cs as [|c r IH]; intros fr stack start pos0 pos Hst Hw Hf; cbn [std_stack walk] in *.
  - inversion Hw; subst. exact Hst.
  - destruct (step fs pos0 c) as [pos1|] eqn:Es; [|discriminate].
    destruct c as [| |n].
    + (* "." : the position does not change *)
      apply step_dot in Es as [Ed ->].
      destruct fr.
      * rewrite (Hf eq_refl) in *. cbn in Hst. inversion Hst; subst pos0.
        apply (IH false [Dot] start start pos); [cbn; now rewrite step_dot_ok | exact Hw | discriminate].
      * apply (IH false stack start pos0 pos); [exact Hst | exact Hw | discriminate].
    + apply step_dotdot in Es as [Ed ->].
      destruct stack as [|[| |m] s'].
      * apply (IH false [DotDot] start (tl pos0) pos); [|exact Hw | discriminate].
        cbn in Hst |- *. inversion Hst; subst. now rewrite step_dotdot_ok.
      * (* leading "." replaced by ".." *)
        cbn [rev] in Hst. rewrite walk_app in Hst. destruct (walk fs start (rev s')) as [q|] eqn:Eq; [|discriminate].
        cbn [walk] in Hst. destruct (step fs q Dot) as [q'|] eqn:Esq; [|discriminate]. apply step_dot in Esq as [Edq ->].
        inversion Hst; subst q.
        apply (IH false (DotDot :: s') start (tl pos0) pos); [|exact Hw | discriminate].
        cbn [rev]. rewrite walk_app, Eq. cbn [walk]. now rewrite step_dotdot_ok.
      * apply (IH false (DotDot :: DotDot :: s') start (tl pos0) pos); [|exact Hw | discriminate].
        change (rev (DotDot :: DotDot :: s')) with (rev (DotDot :: s') ++ [DotDot]).
        rewrite walk_app, Hst. cbn [walk]. now rewrite step_dotdot_ok.
      * (* a name followed by "..": back where we were before the name (no symlink was followed) *)
        cbn [rev] in Hst. rewrite walk_app in Hst. destruct (walk fs start (rev s')) as [q|] eqn:Eq; [|discriminate].
        cbn [walk] in Hst. unfold step in Hst. destruct (is_dir fs q); [|discriminate]. cbn in Hst.
        destruct (exists_ fs (m :: q)); [|discriminate]. rewrite nosym in Hst. inversion Hst; subst pos0.
        apply (IH false s' start q pos); [exact Eq | exact Hw | discriminate].
    + apply (IH false (Name n :: stack) start pos1 pos); [|exact Hw | discriminate].
      cbn [rev]. rewrite walk_app, Hst. cbn [walk]. now rewrite Es.
Qed.

(* Normalisation never changes which file a path denotes (when no symbolic link is traversed):
   if the kernel resolves p to a position, it resolves standardize p to the same position. *)
Theorem standardize_denotes cwd p pos : resolve fs cwd p = Some pos -> resolve fs cwd (standardize p) = Some pos.
Proof.
  destruct p as [ab cs]. unfold resolve, standardize, std_go. cbn [fst snd]. intros H.
  apply (walk_std cs (negb ab) [] (if ab then [] else cwd) (if ab then [] else cwd) pos); [reflexivity | exact H | reflexivity].
Qed.
End NoSymlinks.

(* with a symbolic link on the way, the lexical ".." goes elsewhere: l -> /other/inc; "l/../x" *)
Definition ex_fs : fsys :=
  {| is_dir := fun q => match q with [] | [1] | [2] | [3; 2] => true | _ => false end;     (* /, /real(1), /other(2), /other/inc(3) *)
     exists_ := fun q => match q with [] | [1] | [2] | [3; 2] | [4; 1] | [5; 1] | [5; 2] => true | _ => false end;   (* /real/l(4) link, x(5) in /real and /other *)
     symlink := fun q => match q with [4; 1] => Some [3; 2] | _ => None end |}.
Example symlink_refuted :
  resolve ex_fs [1] (false, [Name 4; DotDot; Name 5]) = Some [5; 2] /\
  resolve ex_fs [1] (standardize (false, [Name 4; DotDot; Name 5])) = Some [5; 1].
Proof. vm_compute. split; reflexivity. Qed.

(* "a/.." is normalised to the empty component list, which is rendered as the empty file name *)
Example empty_name_refuted : standardize (false, [Name 7; DotDot]) = (false, []).
Proof. reflexivity. Qed.

(* ---------------- include lookup ---------------- *)
Theorem find_include_first noangles f cwd includer dirs hit explicit d s :
  find_include noangles f cwd includer dirs hit explicit = Some (d, s) ->
  exists l1 s0 l2, candidates noangles f cwd includer dirs = l1 ++ (d, s0) :: l2 /\ hit d = true /\
    (forall x, In x l1 -> hit (fst x) = false) /\ s = (if explicit d then S_local else s0).
Proof.
  unfold find_include. generalize (candidates noangles f cwd includer dirs) as l.
  induction l as [|[d0 s0] r IH]; cbn; [discriminate|].
  destruct (hit d0) eqn:Eh.
  - intros H. inversion H; subst. exists [], s0, r. repeat split; auto. intros x [].
  - intros H. destruct (IH H) as (l1 & s1 & l2 & -> & Hh & Hn & Hs). exists ((d0, s0) :: l1), s1, l2.
    repeat split; auto. intros x [<-|Hx]; [exact Eh | now apply Hn].
Qed.

Theorem find_include_none noangles f cwd includer dirs hit explicit :
  find_include noangles f cwd includer dirs hit explicit = None <->
  forall x, In x (candidates noangles f cwd includer dirs) -> hit (fst x) = false.
Proof.
  unfold find_include. generalize (candidates noangles f cwd includer dirs) as l.
  induction l as [|[d0 s0] r IH]; cbn; [split; [intros _ x [] | reflexivity]|].
  destruct (hit d0) eqn:Eh.
  - split; [discriminate|]. intros H. specialize (H (d0, s0) (or_introl eq_refl)). cbn in H. congruence.
  - rewrite IH. split; [intros H x [<-|Hx]; [exact Eh | now apply H] | intros H x Hx; apply H; now right].
Qed.

(* ownership: a file is the user's own exactly when named explicitly or found by the working-directory rule;
   never when found through a -S directory, or through any directory for an angle include *)
Theorem owner_local noangles f cwd includer dirs hit explicit d :
  find_include noangles f cwd includer dirs hit explicit = Some (d, S_local) ->
  Forall (fun e => d_kind e <> S_local) dirs ->
  explicit d = true \/ (d = cwd /\ (f = Quote \/ noangles = true)).
Proof.
  intros H Hk. destruct (find_include_first _ _ _ _ _ _ _ _ _ H) as (l1 & s0 & l2 & Ec & _ & _ & Hs).
  destruct (explicit d) eqn:Ee; [now left|]. right. subst s0.
  assert (Hin : In (d, S_local) (candidates noangles f cwd includer dirs)) by (rewrite Ec; apply in_or_app; right; now left).
  unfold candidates in Hin. destruct f, noangles; cbn in Hin.
  - destruct Hin as [E|[E|Hin]]; [inversion E; auto | discriminate|].
    apply in_map_iff in Hin as (e & Ee' & Hin). inversion Ee'. rewrite Forall_forall in Hk. exfalso. now apply (Hk e Hin).
  - destruct Hin as [E|[E|Hin]]; [inversion E; auto | discriminate|].
    apply in_map_iff in Hin as (e & Ee' & Hin). inversion Ee'. rewrite Forall_forall in Hk. exfalso. now apply (Hk e Hin).
  - destruct Hin as [E|[E|Hin]]; [inversion E; auto | discriminate|].
    apply in_map_iff in Hin as (e & Ee' & Hin). inversion Ee'. rewrite Forall_forall in Hk. exfalso. now apply (Hk e Hin).
  - destruct (filter _ dirs) as [|e0 r0]; [destruct Hin as [E|[]]; discriminate|].
    apply in_map_iff in Hin as (e & Ee' & Hin). discriminate.
Qed.
