From Coq Require Import ExtrOcamlBasic ExtrOcamlString.
From IV Require Import C17.Defs.
Extraction Language OCaml.
Extraction "ext.ml" standardize find_include resolve.
