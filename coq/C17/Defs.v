(* C17 — path normalisation (Filename::standardize), what a path denotes (kernel walk),
   include search order and file ownership (CPPPreprocessor::find_include).  No proofs. *)
From Coq Require Import List Bool Arith.
Import ListNotations.

Inductive comp := Dot | DotDot | Name (n : nat).
Definition comp_eqb (a b : comp) : bool :=
  match a, b with Dot, Dot | DotDot, DotDot => true | Name x, Name y => Nat.eqb x y | _, _ => false end.

(* a path: absolute?, components between runs of '/' (empty components cannot occur: slashes are skipped in runs) *)
Definition path := (bool * list comp)%type.

(* Filename::standardize.  [stack] is `components`, most recent first.  [first_rel] = this is the component at
   offset 0 of a relative name (the only place where "." is kept). *)
Fixpoint std_stack (first_rel : bool) (cs : list comp) (stack : list comp) : list comp :=
  match cs with
  | [] => stack
  | c :: r =>
      match c with
      | Dot => if first_rel then std_stack false r (Dot :: stack) else std_stack false r stack
      | DotDot =>
          match stack with
          | [] => std_stack false r (DotDot :: stack)
          | DotDot :: _ => std_stack false r (DotDot :: stack)
          | Dot :: s' => std_stack false r (DotDot :: s')        (* back up over a leading "." *)
          | Name _ :: s' => std_stack false r s'                 (* back up normally *)
          end
      | Name _ => std_stack false r (c :: stack)
      end
  end.
Definition std_go (first_rel : bool) (cs : list comp) (stack : list comp) : list comp := rev (std_stack first_rel cs stack).
Definition standardize (p : path) : path := (fst p, std_go (negb (fst p)) (snd p) []).

(* ---- what a path denotes ----
   The file system: which absolute name lists are directories, which exist at all, and symbolic links
   (absolute target).  A position is an absolute list of names, innermost first. *)
Record fsys := { is_dir : list nat -> bool; exists_ : list nat -> bool; symlink : list nat -> option (list nat) }.

Definition step (fs : fsys) (pos : list nat) (c : comp) : option (list nat) :=
  if negb (is_dir fs pos) then None else
  match c with
  | Dot => Some pos
  | DotDot => Some (tl pos)                       (* the root is its own parent *)
  | Name n =>
      let q := n :: pos in
      if exists_ fs q then match symlink fs q with Some target => Some target | None => Some q end else None
  end.
Fixpoint walk (fs : fsys) (pos : list nat) (cs : list comp) : option (list nat) :=
  match cs with
  | [] => Some pos
  | c :: r => match step fs pos c with Some pos' => walk fs pos' r | None => None end
  end.
Definition resolve (fs : fsys) (cwd : list nat) (p : path) : option (list nat) :=
  walk fs (if fst p then [] else cwd) (snd p).

(* ---- include lookup ---- *)
Inductive source := S_local | S_alternate | S_system.
Inductive form := Quote | Angle.
Record dir_entry := { d_name : nat; d_kind : source }.   (* -I: S_alternate, -S: S_system, in command-line order *)

(* candidates tried, in order, with the source each would get; `hit d` = the file exists in directory d
   (cwd and the includer's directory are directories 0 and 1 by convention of the caller) *)
Definition candidates (noangles : bool) (f : form) (cwd includer : nat) (dirs : list dir_entry) : list (nat * source) :=
  match f, noangles with
  | Angle, false =>
      let sdirs := filter (fun d => match d_kind d with S_system => true | _ => false end) dirs in
      (* DSearchPath::find_file: "an empty search path is the same as a search path containing just ." *)
      match sdirs with [] => [(cwd, S_system)] | _ => map (fun d => (d_name d, S_system)) sdirs end
  | _, _ => (cwd, S_local) :: (includer, S_alternate) :: map (fun d => (d_name d, d_kind d)) dirs
  end.
Fixpoint first_hit (hit : nat -> bool) (l : list (nat * source)) : option (nat * source) :=
  match l with [] => None | (d, s) :: r => if hit d then Some (d, s) else first_hit hit r end.
(* find_include + the _explicit_files override of handle_include_directive *)
Definition find_include (noangles : bool) (f : form) (cwd includer : nat) (dirs : list dir_entry)
           (hit : nat -> bool) (explicit : nat -> bool) : option (nat * source) :=
  match first_hit hit (candidates noangles f cwd includer dirs) with
  | Some (d, s) => Some (d, if explicit d then S_local else s)
  | None => None
  end.
