(* C09 — property theorems only. *)
From Coq Require Import List.
From IV Require Import C07.Defs C09.Defs C09.Proofs.
Import ListNotations.

(* For EVERY well-nested arrangement (any depth, any number of #elif-family lines), any
   condition evaluator and any effect of kept lines: the single-counter skipping
   machine keeps exactly the groups the tree semantics keeps. *)
Theorem c09_keep_exact : forall (st cond action : Type) (evalc : st -> cond -> bool) (act : action -> st -> st)
  (g : group cond action) (s : st),
  norm st cond action evalc act (flat cond action g) s = keep st cond action evalc act g s.
Proof. exact keep_exact. Qed.
Print Assumptions c09_keep_exact.

(* Skipped groups have no effect at all. *)
Theorem c09_skipped_no_effect : forall (st cond action : Type) (evalc : st -> cond -> bool) (act : action -> st -> st)
  (c : cond) (g g' : group cond action) (e : ogroup cond action) rest s,
  evalc s c = false ->
  norm st cond action evalc act (flat cond action (GCond (BLast c g e) rest)) s =
  norm st cond action evalc act (flat cond action (GCond (BLast c g' e) rest)) s.
Proof. exact skipped_group_irrelevant. Qed.
Print Assumptions c09_skipped_no_effect.

(* The concrete #if/#ifdef/#ifndef evaluator decides as a conforming one does. *)
Theorem c09_condition_conforming : forall s c b, cevalc_cxx s c = Some b -> cevalc s c = b.
Proof. exact cevalc_conforming. Qed.
Print Assumptions c09_condition_conforming.

Theorem c09_run_impl_spec : forall g, run_impl (flat ccond caction g) = run_spec g.
Proof. exact run_impl_spec. Qed.
Print Assumptions c09_run_impl_spec.

(* End to end on the concrete instance: whenever every condition that gets
   evaluated is a well-formed int-range constant expression, the directive
   machine keeps exactly what the tree semantics with the CONFORMING condition
   evaluator keeps (kept text, macro table, #error diagnostics). *)
Theorem c09_conforming : forall g, defined_g g cinit = true -> run_impl (flat ccond caction g) = run_ref g.
Proof. exact run_impl_ref. Qed.
Print Assumptions c09_conforming.
