(* C08 — property theorems only. *)
From Coq Require Import List NArith.
Import ListNotations.
From IV Require Import C08.Defs C08.Proofs C15.Defs C08.Subst C08.SubstProofs.

(* object-like fragment: the lexer's stack of active expansions computes exactly the hide-set algorithm of the standard:
   every table (self-, mutual and forward reference included), every text, every fuel *)
Theorem c08_conforming_objlike_partial : forall defs fuel ts, impl_expand defs fuel ts = cpp_expand defs fuel ts.
Proof. exact objlike_conforming. Qed.
Print Assumptions c08_conforming_objlike_partial.

(* with #define / #undef / redefinition interleaved with text *)
Theorem c08_program_conforming_partial : forall fuel p, impl_program fuel p = spec_program fuel p.
Proof. exact program_conforming. Qed.
Print Assumptions c08_program_conforming_partial.

(* a completed expansion is independent of the fuel supplied *)
Theorem c08_spec_fuel_monotone : forall defs fuel ts out, expand defs fuel ts = (out, true) -> forall k, expand defs (fuel + k) ts = (out, true).
Proof. exact expand_mono. Qed.
Print Assumptions c08_spec_fuel_monotone.

(* # : for every argument made of well-formed preprocessing tokens the stringification state machine yields the literal that C11 6.10.3.2 prescribes *)
Theorem c08_stringify_conforming : forall ts, forallb stok_ok ts = true -> stringify true (flat_map stok_src ts) = stringify_spec ts.
Proof. exact stringify_conforming. Qed.
Print Assumptions c08_stringify_conforming.

Theorem c08_stringify_pinned_refuted :
  let ts := [SLit true [Plain 105; Plain 116; Plain 39; Plain 115]; SOther [32]; SLit false [Esc 92]]%N in
  forallb stok_ok ts = true /\ stringify false (flat_map stok_src ts) <> stringify_spec ts.
Proof. exact stringify_pinned_refuted. Qed.
Print Assumptions c08_stringify_pinned_refuted.

(* function-like macros, the substitution step (r_expand on the nodes of the replacement list):
   __VA_OPT__ contributes exactly when what __VA_ARGS__ is replaced by has at least one character (any number of arguments) *)
Theorem c08_va_opt_iff : forall args v, has_va_args true args (Some v) = Ok (negb (is_empty (va_text args v))).
Proof. exact va_opt_iff. Qed.
Print Assumptions c08_va_opt_iff.

(* looking at the first variable argument only (the seeded variant) loses the group in F(1, , 2) *)
Theorem c08_va_opt_first_only_refuted :
  let args := [[49%N]; []; [50%N]] in
  has_va_args false args (Some 1) = Ok false /\ is_empty (va_text args 1) = false /\ has_va_args true args (Some 1) = Ok true.
Proof. exact va_opt_first_only_refuted. Qed.
Print Assumptions c08_va_opt_first_only_refuted.

(* 6.10.3.1: a parameter that is an operand of neither # nor ## is replaced by the EXPANDED argument; 6.10.3.2 / 6.10.3.3: an operand of #
   is replaced by the stringified spelling and an operand of ## by the spelling, neither of them expanded *)
Theorem c08_parameter_replacement : forall exp_arg fo args i a, nth_error args i = Some a ->
  rx_node exp_arg fo args None (mk_parm i false false) [] = Ok (exp_arg a) /\
  rx_node exp_arg fo args None (mk_parm i true false) [] = Ok (stringify true a) /\
  rx_node exp_arg fo args None (mk_parm i false true) [] = Ok a.
Proof. exact parameter_replacement. Qed.
Print Assumptions c08_parameter_replacement.
