(* C08 — property theorems only. *)
From Coq Require Import List.
Import ListNotations.
From IV Require Import C08.Defs C08.Proofs.

(* object-like fragment: the lexer's stack of active expansions computes exactly the hide-set algorithm of the standard:
   every table (self-, mutual and forward reference included), every text, every fuel *)
Theorem c08_conforming_objlike_partial : forall defs fuel ts, impl_expand defs fuel ts = cpp_expand defs fuel ts.
Proof. exact objlike_conforming. Qed.
Print Assumptions c08_conforming_objlike_partial.

(* with #define / #undef / redefinition interleaved with text *)
Theorem c08_program_conforming_partial : forall fuel p, impl_program fuel p = spec_program fuel p.
Proof. exact program_conforming. Qed.
Print Assumptions c08_program_conforming_partial.

(* a completed expansion is independent of the fuel supplied *)
Theorem c08_spec_fuel_monotone : forall defs fuel ts out, expand defs fuel ts = (out, true) -> forall k, expand defs (fuel + k) ts = (out, true).
Proof. exact expand_mono. Qed.
Print Assumptions c08_spec_fuel_monotone.
