(* C08 — property theorems only. *)
From Coq Require Import List NArith.
Import ListNotations.
From IV Require Import C08.Defs C08.Proofs.

(* object-like fragment: the lexer's stack of active expansions computes exactly the hide-set algorithm of the standard:
   every table (self-, mutual and forward reference included), every text, every fuel *)
Theorem c08_conforming_objlike_partial : forall defs fuel ts, impl_expand defs fuel ts = cpp_expand defs fuel ts.
Proof. exact objlike_conforming. Qed.
Print Assumptions c08_conforming_objlike_partial.

(* with #define / #undef / redefinition interleaved with text *)
Theorem c08_program_conforming_partial : forall fuel p, impl_program fuel p = spec_program fuel p.
Proof. exact program_conforming. Qed.
Print Assumptions c08_program_conforming_partial.

(* a completed expansion is independent of the fuel supplied *)
Theorem c08_spec_fuel_monotone : forall defs fuel ts out, expand defs fuel ts = (out, true) -> forall k, expand defs (fuel + k) ts = (out, true).
Proof. exact expand_mono. Qed.
Print Assumptions c08_spec_fuel_monotone.

(* # : for every argument made of well-formed preprocessing tokens the stringification state machine yields the literal that C11 6.10.3.2 prescribes *)
Theorem c08_stringify_conforming : forall ts, forallb stok_ok ts = true -> stringify true (flat_map stok_src ts) = stringify_spec ts.
Proof. exact stringify_conforming. Qed.
Print Assumptions c08_stringify_conforming.

Theorem c08_stringify_pinned_refuted :
  let ts := [SLit true [Plain 105; Plain 116; Plain 39; Plain 115]; SOther [32]; SLit false [Esc 92]]%N in
  forallb stok_ok ts = true /\ stringify false (flat_map stok_src ts) <> stringify_spec ts.
Proof. exact stringify_pinned_refuted. Qed.
Print Assumptions c08_stringify_pinned_refuted.
