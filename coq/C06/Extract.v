From Coq Require Import ExtrOcamlBasic ExtrOcamlString.
From IV Require Import C06.Defs.
Extraction Language OCaml.
Extraction "ext.ml" print_decl memptr_ok denotes pr.
