(* C06 — when is the printed declarator C++ syntax?  A cv-qualifier may follow a * or ::* (or lead the whole prefix, where it joins the
   decl-specifiers) but cannot open a parenthesised group.  Types in which const never sits directly on an array or a function type (the
   only ones that can be written in C++ without an alias) are printed without such a group; a const array obtained through an alias is not. *)
From Coq Require Import List Bool Arith.
From IV Require Import C06.Defs.
Import ListNotations.

Definition is_arr_fn (t : ty) : bool := match t with TArr _ _ | TFn _ _ => true | _ => false end.
Fixpoint writable (t : ty) : bool :=
  match t with
  | TBase _ => true
  | TConst t' => negb (is_arr_fn t') && writable t'
  | TPtr t' | TMemPtr _ t' | TRef t' | TRRef t' | TArr t' _ | TFn t' _ => writable t'
  end.

Definition opens_with_const (pre : list pfx) : bool := match pre with PConst :: _ => true | _ => false end.
Fixpoint groups_ok (c : noptr) : bool :=
  match c with
  | NName => true
  | NArr c' _ | NFn c' _ => groups_ok c'
  | NParen pre c' => negb (opens_with_const pre) && groups_ok c'
  end.

Lemma pr_groups_ok t : forall pre core, writable t = true -> groups_ok core = true ->
  (is_arr_fn t = true -> opens_with_const pre = false) ->
  groups_ok (snd (pr t pre core)) = true.
Proof.
  induction t as [b|t' IH|t' IH|cls t' IH|t' IH|t' IH|t' IH n|r IH ps]; intros pre core Hw Hc Hp; cbn [pr].
  - exact Hc.
  - cbn [writable] in Hw. apply andb_true_iff in Hw. destruct Hw as [Hn Hw]. apply negb_true_iff in Hn.
    apply IH; auto. intros Ha. rewrite Ha in Hn. discriminate.
  - apply IH; auto.
  - apply IH; auto. intros _. destruct (is_fn t'); reflexivity.
  - apply IH; auto.
  - apply IH; auto.
  - cbn [writable] in Hw. destruct pre as [|p pre'].
    + apply IH; auto.
    + apply IH; auto. cbn [groups_ok]. rewrite (Hp eq_refl), Hc. reflexivity.
  - cbn [writable] in Hw. destruct pre as [|p pre'].
    + apply IH; auto.
    + apply IH; auto. cbn [groups_ok]. rewrite (Hp eq_refl), Hc. reflexivity.
Qed.

(* every type that can be written without an alias is printed as a syntactically possible declarator *)
Theorem printed_groups_ok t : writable t = true -> groups_ok (snd (pr t [] NName)) = true.
Proof. intros H. apply pr_groups_ok; auto. Qed.

(* const U * with U = T[2] (only reachable through an alias or a template parameter): the group opens with const *)
Example const_array_group_refuted :
  let t := TPtr (TPtr (TConst (TArr (TBase 0) 2))) in
  writable t = false /\ groups_ok (snd (pr t [] NName)) = false /\ denotes (pr t [] NName) = t.
Proof. repeat split; reflexivity. Qed.
