(* C06 — the type printers (output_instance of every CPPType subclass) and what the printed declarator means to a
   C++ compiler ([dcl.meaning]).  No proofs. *)
From Coq Require Import List Bool Arith String Ascii.
Import ListNotations.
Local Open Scope string_scope.

(* types as interrogate builds them; function parameter lists are printed by an independent recursion and stay opaque *)
Inductive ty :=
| TBase (b : nat)
| TConst (t : ty)
| TPtr (t : ty)
| TMemPtr (cls : nat) (t : ty)            (* IIT_scoped_pointer: pointer to member of class cls *)
| TRef (t : ty)
| TRRef (t : ty)
| TArr (t : ty) (n : nat)
| TFn (r : ty) (ps : nat).

(* what the printer emits: base type, the `prename` string as a list of prefix operators (leftmost first),
   and the `name` string as a noptr-declarator with its suffixes and parentheses *)
Inductive pfx := PStar | PConst | PAmp | PAmpAmp | PScopeStar (cls : nat).
Inductive noptr :=
| NName
| NArr (c : noptr) (n : nat)
| NFn (c : noptr) (ps : nat)
| NParen (pre : list pfx) (c : noptr).

(* [dcl.meaning]: the prefix operators apply left to right to the type to their left, then the suffixes of the
   noptr-declarator apply from the inside out *)
Definition app1 (p : pfx) (t : ty) : ty :=
  match p with
  | PStar => TPtr t | PConst => TConst t | PAmp => TRef t | PAmpAmp => TRRef t | PScopeStar c => TMemPtr c t
  end.
Definition apply (pre : list pfx) (t : ty) : ty := fold_left (fun t p => app1 p t) pre t.
Fixpoint meaning (c : noptr) (t : ty) : ty :=
  match c with
  | NName => t
  | NArr c n => meaning c (TArr t n)
  | NFn c ps => meaning c (TFn t ps)
  | NParen pre c => meaning c (apply pre t)
  end.

Definition is_fn (t : ty) : bool := match t with TFn _ _ => true | _ => false end.

(* output_instance, class by class (after the array repair: prefix and name are parenthesised when the prefix is not empty) *)
Fixpoint pr (t : ty) (pre : list pfx) (core : noptr) : nat * list pfx * noptr :=
  match t with
  | TBase b => (b, pre, core)
  | TPtr t' => pr t' (PStar :: pre) core
  | TMemPtr cls t' => pr t' ((if is_fn t' then PScopeStar cls else PStar) :: pre) core    (* the scope is only written for methods *)
  | TConst t' => pr t' (PConst :: pre) core
  | TRef t' => pr t' (PAmp :: pre) core
  | TRRef t' => pr t' (PAmpAmp :: pre) core
  | TArr t' n => match pre with
                 | [] => pr t' [] (NArr core n)
                 | _ => pr t' [] (NArr (NParen pre core) n)
                 end
  | TFn r ps => match pre with
                | [] => pr r [] (NFn core ps)
                | _ => pr r [] (NFn (NParen pre core) ps)
                end
  end.

(* the pinned array printer passed the prefix through *)
Fixpoint pr_old (t : ty) (pre : list pfx) (core : noptr) : nat * list pfx * noptr :=
  match t with
  | TBase b => (b, pre, core)
  | TPtr t' => pr_old t' (PStar :: pre) core
  | TMemPtr cls t' => pr_old t' ((if is_fn t' then PScopeStar cls else PStar) :: pre) core
  | TConst t' => pr_old t' (PConst :: pre) core
  | TRef t' => pr_old t' (PAmp :: pre) core
  | TRRef t' => pr_old t' (PAmpAmp :: pre) core
  | TArr t' n => pr_old t' pre (NArr core n)
  | TFn r ps => match pre with
                | [] => pr_old r [] (NFn core ps)
                | _ => pr_old r [] (NFn (NParen pre core) ps)
                end
  end.

Definition denotes (out : nat * list pfx * noptr) : ty :=
  let '(b, pre, core) := out in meaning core (apply pre (TBase b)).

(* every pointer-to-member points to a function (a method pointer) *)
Fixpoint memptr_ok (t : ty) : bool :=
  match t with
  | TBase _ => true
  | TMemPtr _ t' => is_fn t' && memptr_ok t'
  | TConst t' | TPtr t' | TRef t' | TRRef t' | TArr t' _ | TFn t' _ => memptr_ok t'
  end.

(* ---- the text ---- *)
Section Text.
Variable base_name : nat -> string.
Variable class_name : nat -> string.
Variable params_text : nat -> string.     (* "(void)", "(int)", ... *)
Variable bound_text : nat -> string.

Definition pfx_text (p : pfx) : string :=
  match p with
  | PStar => "*" | PConst => "const " | PAmp => "&" | PAmpAmp => "&&" | PScopeStar c => class_name c ++ "::*"
  end.
Definition pre_text (pre : list pfx) : string := fold_right (fun p acc => pfx_text p ++ acc) "" pre.
Fixpoint noptr_text (name : string) (c : noptr) : string :=
  match c with
  | NName => name
  | NArr c n => noptr_text name c ++ "[" ++ bound_text n ++ "]"
  | NFn c ps => noptr_text name c ++ params_text ps
  | NParen pre c => "(" ++ pre_text pre ++ noptr_text name c ++ ")"
  end.
(* CPPSimpleType / CPPExtensionType::output_instance: the type name, then a blank and prename+name when they are not both empty *)
Definition render (name : string) (out : nat * list pfx * noptr) : string :=
  let '(b, pre, c) := out in
  let rest := pre_text pre ++ noptr_text name c in
  match rest with EmptyString => base_name b | _ => base_name b ++ " " ++ rest end.
End Text.

(* concrete names used by the correspondence harness *)
Definition base_name_c (b : nat) : string :=
  match b with 0 => "int" | 1 => "char" | 2 => "double" | 3 => "S" | 4 => "unsigned int" | _ => "void" end.
Definition class_name_c (c : nat) : string := match c with 0 => "S" | _ => "T" end.
Definition params_text_c (ps : nat) : string :=
  match ps with 0 => "(void)" | 1 => "(int)" | 2 => "(double, char)" | _ => "(S *)" end.
Definition bound_text_c (n : nat) : string := match n with 0 => "" | 1 => "1" | 2 => "2" | 3 => "3" | _ => "8" end.
Definition print_decl (name : string) (t : ty) : string :=
  render base_name_c class_name_c params_text_c bound_text_c name (pr t [] NName).
