From Coq Require Import List Bool Arith.
From IV Require Import C06.Defs.
Import ListNotations.

Lemma apply_cons p pre t : apply (p :: pre) t = apply pre (app1 p t).
Proof. reflexivity. Qed.

Lemma pr_denotes t : forall pre core, memptr_ok t = true ->
  denotes (pr t pre core) = meaning core (apply pre t).
Proof.
  induction t as [b|t IH|t IH|cls t IH|t IH|t IH|t IH n|r IH ps]; intros pre core Hok; cbn [pr].
  - reflexivity.
  - rewrite IH by exact Hok. reflexivity.
  - rewrite IH by exact Hok. reflexivity.
  - cbn [memptr_ok] in Hok. apply andb_true_iff in Hok as [Hf Hok]. rewrite Hf. rewrite IH by exact Hok. reflexivity.
  - rewrite IH by exact Hok. reflexivity.
  - rewrite IH by exact Hok. reflexivity.
  - destruct pre as [|p pre]; rewrite IH by exact Hok; reflexivity.
  - destruct pre as [|p pre]; rewrite IH by exact Hok; reflexivity.
Qed.

(* the printed declarator denotes the type that was built *)
Theorem print_denotes t : memptr_ok t = true -> denotes (pr t [] NName) = t.
Proof. intros H. rewrite pr_denotes by exact H. reflexivity. Qed.

(* a pointer to data member is printed without its class: another type *)
Example data_member_pointer_refuted : denotes (pr (TMemPtr 0 (TBase 0)) [] NName) = TPtr (TBase 0).
Proof. reflexivity. Qed.

(* the pinned array printer: pointer to array of 3 int is printed as array of 3 pointers *)
Example old_array_printer_refuted : denotes (pr_old (TPtr (TArr (TBase 0) 3)) [] NName) = TArr (TPtr (TBase 0)) 3.
Proof. reflexivity. Qed.

(* non-vacuity: function pointer returning pointer to array of const, array of method pointers *)
Example ok_example :
  memptr_ok (TArr (TPtr (TFn (TPtr (TArr (TConst (TBase 1)) 2)) 1)) 3) = true /\
  memptr_ok (TArr (TMemPtr 0 (TFn (TRef (TArr (TBase 0) 2)) 2)) 1) = true.
Proof. split; reflexivity. Qed.
