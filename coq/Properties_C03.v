(* C03 — property theorems only (naming obligations; compilability is translation validation). *)
From Coq Require Import NArith List Bool Ascii Arith.
From IV Require Import C03.Defs C03.Proofs.
Import ListNotations.


(* For ARBITRARY hash functions h5/h11 (hence for any number and pattern of hash
   collisions) and any processing order: if no internal error was reported, the
   names assigned to the function signatures are pairwise distinct. *)
Theorem c03_names_distinct : forall (key : Type) (key_eqb : key -> key -> bool),
  (forall a b, key_eqb a b = true <-> a = b) ->
  forall (app_key : key -> key -> key) (letter : nat -> key) (sig : Type) (h5 h11 : sig -> key) (l : list (nat * sig)),
  NoDup (map fst l) -> errors key sig (run key key_eqb app_key letter sig h5 h11 l) = 0%nat ->
  forall i j k, nget key (emitted key sig (run key key_eqb app_key letter sig h5 h11 l)) i = Some k ->
                nget key (emitted key sig (run key key_eqb app_key letter sig h5 h11 l)) j = Some k -> i = j.
Proof. exact names_distinct. Qed.
Print Assumptions c03_names_distinct.

(* every signature receives a name *)
Theorem c03_names_total : forall (key : Type) (key_eqb : key -> key -> bool),
  (forall a b, key_eqb a b = true <-> a = b) ->
  forall (app_key : key -> key -> key) (letter : nat -> key) (sig : Type) (h5 h11 : sig -> key) (l : list (nat * sig)),
  errors key sig (run key key_eqb app_key letter sig h5 h11 l) = 0%nat -> forall id s, In (id, s) l ->
  nget key (emitted key sig (run key key_eqb app_key letter sig h5 h11 l)) id <> None.
Proof. exact names_total. Qed.
Print Assumptions c03_names_total.

(* hash_string yields four characters of [A-Za-z0-9_], for every input and shift offset *)
Theorem c03_hash_chars_valid : forall name off,
  Forall (fun c => ident_char c = true) (hash_string name off) /\ length (hash_string name off) = 4%nat.
Proof. exact hash_chars_valid. Qed.
Print Assumptions c03_hash_chars_valid.

(* concrete instance: the generated wrapper symbols of one library and back-end are pairwise distinct ... *)
Theorem c03_wrapper_symbols_distinct : forall prefix libhash (sigs : list bytes),
  errors bytes bytes (run_c (number sigs)) = 0%nat ->
  forall i j n, full_name prefix libhash (run_c (number sigs)) i = Some n ->
                full_name prefix libhash (run_c (number sigs)) j = Some n -> i = j.
Proof. exact wrapper_symbols_distinct. Qed.
Print Assumptions c03_wrapper_symbols_distinct.

(* ... and consist of identifier characters only (so prefix + library hash + hash is a valid identifier) *)
Theorem c03_hash_part_is_identifier : forall (sigs : list bytes) i h,
  nget bytes (emitted bytes bytes (run_c (number sigs))) i = Some h -> Forall (fun c => ident_char c = true) h.
Proof. exact hash_part_is_identifier. Qed.
Print Assumptions c03_hash_part_is_identifier.

(* The "no internal error" hypothesis cannot be dropped: 28 signatures colliding in both hashes exhaust
   the a..z suffixes, an error is reported and two wrappers receive the same name. *)
Theorem c03_names_distinct_without_error_hypothesis_refuted :
  let l := number (repeat tt 28) in
  let st := run (list nat) (fun a b => if list_eq_dec Nat.eq_dec a b then true else false) (@app nat) (fun n => [n]) unit (fun _ => [100]) (fun _ => [200]) l in
  errors (list nat) unit st = 1%nat /\ nget (list nat) (emitted (list nat) unit st) 27 = nget (list nat) (emitted (list nat) unit st) 26.
Proof. exact too_many_conflicts. Qed.
Print Assumptions c03_names_distinct_without_error_hypothesis_refuted.
