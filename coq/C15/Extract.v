From Coq Require Import ExtrOcamlBasic ExtrOcamlString.
From IV Require Import C15.Defs.
Extraction Language OCaml.
Extraction "ext.ml" manifest_ctor expand_call scan_raw show_line_strip command_line save_expansion.
