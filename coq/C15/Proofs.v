(* C15 — totality of the checked scanners: for EVERY byte string the repaired functions return Ok (no std::out_of_range,
   no out-of-bounds index, fuel never runs out), positions stay within the string, and the pinned variants are refuted. *)
From Coq Require Import List Bool Arith NArith Lia.
Import ListNotations.
From IV Require Import C15.Defs.

(* ---------------------------------------------------------------- primitives *)
Lemma at_ok s i : i <= length s -> exists c, at_ s i = Ok c.
Proof.
  intros H. unfold at_. destruct (i <? length s) eqn:E; [eauto|].
  apply Nat.ltb_ge in E. assert (i = length s) by lia. subst. rewrite Nat.eqb_refl. eauto.
Qed.
Lemma at_lt s i : i < length s -> at_ s i = Ok (nth i s 0%N).
Proof. intros H. unfold at_. apply Nat.ltb_lt in H. now rewrite H. Qed.
Lemma substr_ok s pos n : pos <= length s -> substr s pos n = Ok (firstn n (skipn pos s)).
Proof. intros H. unfold substr. destruct (length s <? pos) eqn:E; [apply Nat.ltb_lt in E; lia|reflexivity]. Qed.
Lemma substr_from_ok s pos : pos <= length s -> substr_from s pos = Ok (skipn pos s).
Proof. intros H. unfold substr_from. destruct (length s <? pos) eqn:E; [apply Nat.ltb_lt in E; lia|reflexivity]. Qed.

Lemma prefix_len_le f s : prefix_len f s <= length s.
Proof. induction s as [|c r IH]; cbn; [lia|]. destruct (f c); cbn; lia. Qed.
Lemma scan_ge f s p : p <= scan f s p.
Proof. unfold scan. lia. Qed.
Lemma scan_le f s p : p <= length s -> scan f s p <= length s.
Proof. intros H. unfold scan. pose proof (prefix_len_le f (skipn p s)) as L. rewrite skipn_length in L. lia. Qed.
Lemma skipn_nth_cons (s : str) p : p < length s -> skipn p s = nth p s 0%N :: skipn (S p) s.
Proof.
  revert p. induction s as [|c r IH]; intros p H; cbn in H; [lia|].
  destruct p as [|p]; [reflexivity|]. cbn [skipn nth]. rewrite IH by lia. reflexivity.
Qed.
Lemma scan_step f s p : p < length s -> f (nth p s 0%N) = true -> S p <= scan f s p.
Proof. intros H Hf. unfold scan. rewrite (skipn_nth_cons s p H). cbn [prefix_len]. rewrite Hf. lia. Qed.
Lemma scan_stop f s p : p < length s -> f (nth p s 0%N) = false -> scan f s p = p.
Proof. intros H Hf. unfold scan. rewrite (skipn_nth_cons s p H). cbn [prefix_len]. rewrite Hf. lia. Qed.

(* ---------------------------------------------------------------- parse_parameters / the constructor *)
Lemma take_name_ok args q p1 names v :
  q <= p1 -> p1 <= length args -> exists r, take_name args q p1 names v = Ok r.
Proof.
  intros H1 H2. unfold take_name.
  destruct (3 <=? p1 - q) eqn:E.
  - rewrite (substr_ok args (p1 - 3) 3) by lia. cbn [bind].
    destruct (str_eqb _ dots); rewrite substr_ok by lia; cbn [bind]; eauto.
  - rewrite substr_ok by lia. cbn [bind]. eauto.
Qed.

Lemma pp_loop_ok fuel : forall args p names v,
  p <= length args -> length args - p < fuel ->
  exists p' names' v', pp_loop fuel args p names v = Ok (p', names', v') /\ p' <= length args.
Proof.
  induction fuel as [|fuel IH]; intros args p names v Hp Hf; [lia|].
  cbn [pp_loop].
  destruct (p <? length args) eqn:Elt; cbn [negb].
  2:{ eauto 6. }
  apply Nat.ltb_lt in Elt.
  rewrite (at_lt args p Elt). cbn [bind].
  set (c := nth p args 0%N).
  destruct (beq c c_rparen) eqn:Erp; [eauto 6|].
  pose proof (scan_ge is_name_char args p) as G1.
  pose proof (scan_le is_name_char args p Hp) as L1.
  destruct (take_name_ok args p (scan is_name_char args p) names v G1 L1) as [r Hr].
  rewrite Hr. cbn [bind].
  set (p1 := scan is_name_char args p) in *.
  pose proof (scan_ge isspace args p1) as G2.
  pose proof (scan_le isspace args p1 L1) as L2.
  set (p2 := scan isspace args p1) in *.
  assert (Hc2 : exists c2, (if p2 <? length args then at_ args p2 else Ok 0%N) = Ok c2
                 /\ (p2 < length args -> c2 = nth p2 args 0%N)).
  { destruct (p2 <? length args) eqn:E2.
    - apply Nat.ltb_lt in E2. rewrite (at_lt args p2 E2). eauto.
    - apply Nat.ltb_ge in E2. eexists; split; [reflexivity|lia]. }
  destruct Hc2 as [c2 [Hc2 Hc2v]]. rewrite Hc2. cbn [bind].
  apply IH.
  - destruct ((p2 <? length args) && beq c2 c_comma) eqn:E3; [|exact L2].
    apply andb_true_iff in E3. destruct E3 as [E3 _]. apply Nat.ltb_lt in E3. apply scan_le. lia.
  - (* progress: p3 > p *)
    assert (Hprog : p < (if (p2 <? length args) && beq c2 c_comma then scan isspace args (S p2) else p2)).
    { destruct (is_name_char c) eqn:Enc.
      - pose proof (scan_step is_name_char args p Elt Enc) as S1. fold p1 in S1.
        destruct ((p2 <? length args) && beq c2 c_comma); [pose proof (scan_ge isspace args (S p2)); lia|lia].
      - assert (p1 = p) as Ep1 by (apply scan_stop; assumption).
        destruct (isspace c) eqn:Esp.
        + assert (S p <= p2) as S2. { unfold p2. rewrite Ep1. apply scan_step; assumption. }
          destruct ((p2 <? length args) && beq c2 c_comma); [pose proof (scan_ge isspace args (S p2)); lia|lia].
        + assert (p2 = p) as Ep2. { unfold p2. rewrite Ep1. apply scan_stop; assumption. }
          assert (c2 = c) as Ec2. { rewrite Hc2v by lia. rewrite Ep2. reflexivity. }
          (* c is not a name char, not a space, not ')' : it is ',' *)
          assert (beq c c_comma = true) as Ecm.
          { unfold is_name_char in Enc. rewrite Esp, Erp in Enc. cbn in Enc. destruct (beq c c_comma); [reflexivity|discriminate]. }
          assert (p2 <? length args = true) as E4 by (apply Nat.ltb_lt; lia).
          rewrite E4, Ec2, Ecm. cbn [andb]. pose proof (scan_ge isspace args (S p2)). lia. }
    lia.
Qed.

Lemma parse_parameters_ok args p : p < length args ->
  exists p' names v, parse_parameters args p = Ok (p', names, v) /\ p' <= length args.
Proof.
  intros H. unfold parse_parameters. apply pp_loop_ok.
  - apply scan_le. lia.
  - pose proof (scan_ge isspace args (S p)). lia.
Qed.

Theorem manifest_ctor_total : forall args, exists m, manifest_ctor true args = Ok m.
Proof.
  intros args. unfold manifest_ctor.
  set (p := scan _ args 0).
  assert (Hp : p <= length args) by (apply scan_le; lia).
  rewrite (substr_ok args 0 p) by lia. cbn [bind].
  destruct (p <? length args) eqn:Elt.
  - apply Nat.ltb_lt in Elt. rewrite (at_lt args p Elt). cbn [bind].
    destruct (beq (nth p args 0%N) c_lparen).
    + destruct (parse_parameters_ok args p Elt) as [p1 [names [v [Hpp Hle]]]]. rewrite Hpp. cbn [bind].
      rewrite substr_from_ok; [cbn [bind]; eauto|].
      apply scan_le. destruct (p1 <? length args) eqn:E; [apply Nat.ltb_lt in E; lia|lia].
    + rewrite substr_from_ok by (apply scan_le; lia). cbn [bind]. eauto.
  - assert (Heq : (p =? length args) = true) by (apply Nat.ltb_ge in Elt; apply Nat.eqb_eq; lia).
    destruct (at_ok args p Hp) as [c Hc]. rewrite Hc. cbn [bind].
    assert (c = 0%N) as ->. { unfold at_ in Hc. rewrite Elt, Heq in Hc. congruence. }
    apply Nat.ltb_ge in Elt.
    replace (beq 0%N c_lparen) with false by reflexivity.
    rewrite substr_from_ok by (apply scan_le; lia). cbn [bind]. eauto.
Qed.

(* the name is the longest prefix free of blanks and '(' *)
Theorem manifest_ctor_name : forall args m, manifest_ctor true args = Ok m ->
  m_name m = firstn (prefix_len (fun c => negb (isspace c) && negb (beq c c_lparen)) args) args.
Proof.
  intros args m H. unfold manifest_ctor in H.
  set (p := scan _ args 0) in H.
  assert (Hp : p <= length args) by (apply scan_le; lia).
  rewrite (substr_ok args 0 p) in H by lia. cbn [bind] in H.
  destruct (at_ args p) as [c| | |]; cbn [bind] in H; try discriminate.
  destruct (beq c c_lparen).
  - destruct (parse_parameters args p) as [[[p1 names] v]| | |]; cbn [bind] in H; try discriminate.
    destruct (substr_from _ _) ; cbn [bind] in H; try discriminate. injection H as <-. reflexivity.
  - destruct (substr_from _ _) ; cbn [bind] in H; try discriminate. injection H as <-. reflexivity.
Qed.

(* the pinned constructor throws on "F(" *)
Theorem manifest_ctor_old_refuted : exists args, manifest_ctor false args = OutOfRange.
Proof. exists [70; 40]%N. vm_compute. reflexivity. Qed.

(* ---------------------------------------------------------------- extract_args *)
Lemma skip_quoted_ok fuel : forall expr quote p,
  p <= length expr -> length expr - p < fuel ->
  exists p', skip_quoted fuel expr quote p = Ok p' /\ p <= p' /\ p' <= length expr.
Proof.
  induction fuel as [|fuel IH]; intros expr quote p Hp Hf; [lia|].
  cbn [skip_quoted].
  destruct (p <? length expr) eqn:Elt; cbn [negb]; [|eauto].
  apply Nat.ltb_lt in Elt. rewrite (at_lt expr p Elt). cbn [bind].
  destruct (beq _ quote || beq _ c_nl); [eauto|].
  set (p1 := if beq (nth p expr 0%N) c_bslash then S p else p).
  assert (p <= p1 /\ p1 <= length expr) as [Ha Hb] by (unfold p1; destruct (beq _ c_bslash); lia).
  set (p2 := if p1 <? length expr then S p1 else p1).
  assert (p1 <= p2 /\ p2 <= length expr /\ (p1 < length expr -> p2 = S p1)) as [Hc [Hd He]].
  { unfold p2. destruct (p1 <? length expr) eqn:E; [apply Nat.ltb_lt in E|apply Nat.ltb_ge in E]; lia. }
  destruct (IH expr quote p2 Hd) as [p' [H1 [H2 H3]]].
  - (* progress *)
    assert (p < p2). { destruct (Nat.eq_dec p1 p) as [->|]; [rewrite He by lia; lia|lia]. }
    lia.
  - exists p'. repeat split; [exact H1|lia|exact H3].
Qed.

Lemma back_up_ok fuel : forall expr q r,
  r <= S (length expr) -> r < fuel -> exists r', back_up fuel expr q r = Ok r' /\ r' <= r /\ (q <= r -> q <= r').
Proof.
  induction fuel as [|fuel IH]; intros expr q r Hr Hf; [lia|].
  cbn [back_up]. destruct (q <? r) eqn:E; cbn [negb]; [|exists r; repeat split; lia].
  apply Nat.ltb_lt in E.
  destruct (at_ok expr (r - 1)) as [c Hc]; [lia|]. rewrite Hc. cbn [bind].
  destruct (isspace c); [|exists r; repeat split; lia].
  destruct (IH expr q (r - 1)) as [r' [H1 [H2 H3]]]; [lia|lia|].
  exists r'. repeat split; [exact H1|lia|lia].
Qed.

Lemma ea_loop_ok fuel : forall expr p q level acc,
  p <= length expr -> q <= p -> length expr - p < fuel ->
  exists p' q' acc', ea_loop true fuel expr p q level acc = Ok (p', q', acc') /\ p' <= length expr /\ q' <= p'.
Proof.
  induction fuel as [|fuel IH]; intros expr p q level acc Hp Hq Hf; [lia|].
  cbn [ea_loop].
  destruct (p <? length expr) eqn:Elt; cbn [negb]; [|eauto 8].
  apply Nat.ltb_lt in Elt. rewrite (at_lt expr p Elt). cbn [bind].
  set (c := nth p expr 0%N).
  destruct (beq c c_comma && (level =? 1)).
  { destruct (back_up_ok (S (length expr)) expr q p) as [r [Hr [Hr1 Hr2]]]; [lia|lia|].
    rewrite Hr. cbn [bind]. rewrite substr_ok by lia. cbn [bind]. apply IH; lia. }
  destruct (is_quote c).
  { destruct (skip_quoted_ok (S (length expr)) expr c (S p)) as [p1 [H1 [H2 H3]]]; [lia|lia|].
    rewrite H1. cbn [bind andb].
    destruct (p1 <? length expr) eqn:E1; cbn [negb].
    - apply Nat.ltb_lt in E1. apply IH; lia.
    - exists p1, q, acc. repeat split; [exact H3|lia]. }
  destruct (beq c c_lparen); [apply IH; lia|].
  destruct (beq c c_rparen).
  { destruct (level =? 1); [exists p, q, acc; repeat split; lia|apply IH; lia]. }
  destruct (isspace c).
  { apply IH; [lia| destruct (q =? p) eqn:E; [apply Nat.eqb_eq in E|]; lia |lia]. }
  apply IH; lia.
Qed.

Theorem extract_args_in_bounds : forall expr p, p < length expr ->
  exists p' args, extract_args true expr p = Ok (p', args) /\ p' <= length expr.
Proof.
  intros expr p H. unfold extract_args.
  destruct (ea_loop_ok (S (length expr)) expr (S p) (S p) 1 []) as [p1 [q [acc [H1 [H2 H3]]]]]; [lia|lia|lia|].
  rewrite H1. cbn [bind].
  destruct (back_up_ok (S (length expr)) expr q p1) as [r [Hr [Hr1 Hr2]]]; [lia|lia|].
  rewrite Hr. cbn [bind]. rewrite substr_ok by lia. cbn [bind].
  destruct (p1 <? length expr) eqn:E.
  - apply Nat.ltb_lt in E. rewrite (at_lt expr p1 E). cbn [bind andb].
    eexists _, _. split; [reflexivity|]. destruct (beq _ c_rparen); lia.
  - cbn [bind andb]. eexists _, _. split; [reflexivity|]. exact H2.
Qed.

(* hence the caller's  expr.substr(p)  cannot throw *)
Theorem expand_call_total : forall expr p, p < length expr -> exists r, expand_call true expr p = Ok r.
Proof.
  intros expr p H. unfold expand_call.
  destruct (extract_args_in_bounds expr p H) as [p' [args [H1 H2]]]. rewrite H1. cbn [bind].
  rewrite substr_from_ok by exact H2. cbn [bind]. eauto.
Qed.

(* pinned: F ( dquote *)
Theorem expand_call_old_refuted : exists expr p, p < length expr /\ expand_call false expr p = OutOfRange.
Proof. exists [70; 40; 34]%N, 1. split; [cbn; lia|]. vm_compute. reflexivity. Qed.

(* ---------------------------------------------------------------- scan_raw *)
Lemma ends_with_ok s d : exists b, ends_with_checked true s d = Ok b.
Proof.
  unfold ends_with_checked. destruct (length s <? length d) eqn:E; [eauto|].
  apply Nat.ltb_ge in E. rewrite substr_ok by lia. cbn [bind]. eauto.
Qed.

Lemma raw_body_total d : forall inp acc, exists r, raw_body true d acc inp = Ok r.
Proof.
  induction inp as [|c rest IH]; intros acc; cbn [raw_body]; [eauto|].
  destruct (beq c c_dquote); [|apply IH].
  destruct (ends_with_ok acc d) as [b Hb]. rewrite Hb. cbn [bind]. destruct b; [eauto|apply IH].
Qed.

Theorem scan_raw_total : forall inp, exists r, scan_raw true inp = Ok r.
Proof. intros inp. unfold scan_raw. apply raw_body_total. Qed.

Lemma str_eqb_eq a : forall b, str_eqb a b = true -> a = b.
Proof.
  induction a as [|x a IH]; intros [|y b] H; cbn in H; try discriminate; [reflexivity|].
  apply andb_true_iff in H. destruct H as [H1 H2]. apply N.eqb_eq in H1. subst. f_equal. apply IH. exact H2.
Qed.

Lemma ends_with_sound s d : ends_with_checked true s d = Ok true -> s = firstn (length s - length d) s ++ d.
Proof.
  unfold ends_with_checked. destruct (length s <? length d) eqn:E; [discriminate|].
  apply Nat.ltb_ge in E. rewrite substr_ok by lia. cbn [bind]. intros H. injection H as H.
  apply str_eqb_eq in H.
  rewrite firstn_all2 in H by (rewrite skipn_length; lia).
  rewrite <- (firstn_skipn (length s - length d) s) at 1. f_equal. exact H.
Qed.

(* soundness: when the scanner reports a closed raw string, the bytes it consumed were  acc-so-far body rparen delim dquote  *)
Lemma raw_body_sound d : forall inp acc body rest,
  raw_body true d acc inp = Ok (body, rest, true) -> acc ++ inp = body ++ d ++ [c_dquote] ++ rest.
Proof.
  induction inp as [|c r IH]; intros acc body rest H; cbn [raw_body] in H; [discriminate|].
  destruct (beq c c_dquote) eqn:Eq.
  - destruct (ends_with_checked true acc d) as [b| | |] eqn:Ee; cbn [bind] in H; try discriminate.
    destruct b.
    + injection H as <- <-. apply N.eqb_eq in Eq. subst c.
      rewrite (ends_with_sound acc d Ee) at 1. rewrite <- app_assoc. reflexivity.
    + apply IH in H. rewrite <- H. rewrite <- app_assoc. reflexivity.
  - apply IH in H. rewrite <- H. rewrite <- app_assoc. reflexivity.
Qed.

Lemma prefix_len_split f (s : str) : let n := prefix_len f s in
  s = firstn n s ++ skipn n s /\ (forall c r, skipn n s = c :: r -> f c = false).
Proof.
  induction s as [|x s IH]; cbn.
  - split; [reflexivity|discriminate].
  - destruct (f x) eqn:E; cbn.
    + destruct IH as [I1 I2]. split; [f_equal; exact I1|exact I2].
    + split; [reflexivity|]. intros c r H. injection H as <- _. exact E.
Qed.

Lemma skipn_S_tl (s : list N) : forall n c r, skipn n s = c :: r -> skipn (S n) s = r.
Proof.
  induction s as [|x s IH]; intros [|n] c r H; cbn in H; try discriminate.
  - injection H as _ <-. reflexivity.
  - cbn [skipn]. exact (IH n c r H).
Qed.

(* R dquote delim lparen body rparen delim dquote rest : what is reported closed really had that shape *)
Theorem scan_raw_sound : forall inp body rest, scan_raw true inp = Ok (body, rest, true) ->
  exists d, inp = d ++ [c_lparen] ++ body ++ [c_rparen] ++ d ++ [c_dquote] ++ rest /\ forallb (fun c => negb (beq c c_lparen)) d = true.
Proof.
  intros inp body rest H. unfold scan_raw in H.
  set (f := fun c => negb (beq c c_lparen)) in *.
  set (n := prefix_len f inp) in *.
  destruct (prefix_len_split f inp) as [Hs Hnext]. fold n in Hs, Hnext.
  set (d := firstn n inp) in *.
  assert (Hd : length d = n). { unfold d. apply firstn_length_le. apply prefix_len_le. }
  rewrite Hd in H.
  apply raw_body_sound in H. cbn [app] in H.
  exists d. split.
  - destruct (skipn n inp) as [|c r] eqn:Esk.
    + (* EOF before '(' : nothing after, cannot be closed *)
      assert (skipn (S n) inp = []) as E0.
      { apply skipn_all2. assert (length (skipn n inp) = 0) by (rewrite Esk; reflexivity). rewrite skipn_length in *. lia. }
      rewrite E0 in H. destruct body; discriminate.
    + assert (c = c_lparen) as ->.
      { specialize (Hnext c r eq_refl). unfold f in Hnext. apply negb_false_iff in Hnext. apply N.eqb_eq in Hnext. exact Hnext. }
      assert (skipn (S n) inp = r) as E1.
      { apply (skipn_S_tl inp n c_lparen r Esk). }
      rewrite E1 in H. rewrite Hs. fold d. rewrite H. cbn. reflexivity.
  - unfold d, n. clear. induction inp as [|x s IH]; cbn; [reflexivity|].
    destruct (f x) eqn:E; cbn; [rewrite E; exact IH|reflexivity].
Qed.

Theorem scan_raw_old_refuted : exists inp, scan_raw false inp = OutOfRange.
Proof. exists [40; 34; 41; 34]%N. vm_compute. reflexivity. Qed.

(* ---------------------------------------------------------------- show_line *)
Lemma strip_new_ok fuel : forall s last, last <= length s -> last < fuel ->
  exists n, strip_new fuel s last = Ok (firstn n s) /\ n <= length s.
Proof.
  induction fuel as [|fuel IH]; intros s last Hl Hf; [lia|].
  cbn [strip_new]. destruct last as [|l].
  - exists (length s). rewrite firstn_all. split; [reflexivity|lia].
  - rewrite (at_lt s l) by lia. cbn [bind].
    destruct (isspace _).
    + rewrite substr_ok by lia. cbn [bind skipn].
      destruct (IH (firstn l s) l) as [n [H1 H2]]; [rewrite firstn_length; lia|lia|].
      rewrite H1. rewrite firstn_firstn. exists (Nat.min n l). split; [reflexivity|]. lia.
    + exists (length s). rewrite firstn_all. split; [reflexivity|lia].
Qed.

Theorem show_line_strip_total : forall s, exists n, show_line_strip true s = Ok (firstn n s).
Proof.
  intros s. unfold show_line_strip. destruct (strip_new_ok (S (length s)) s (length s)) as [n [H _]]; [lia|lia|]. eauto.
Qed.

Theorem show_line_strip_old_refuted :
  show_line_strip false [] = BadIndex /\ show_line_strip false [32; 32]%N = BadIndex.
Proof. split; vm_compute; reflexivity. Qed.

(* ---------------------------------------------------------------- .N command lines *)
Theorem command_line_total : forall line, exists r, command_line line = Ok r.
Proof.
  intros line0. unfold command_line.
  set (line := cut_comment line0).
  set (p := scan isspace line 0).
  assert (Hp : p <= length line) by (apply scan_le; lia).
  destruct (p <? length line); cbn [negb]; [|eauto].
  set (q := scan _ line p).
  assert (Hq : p <= q /\ q <= length line) by (split; [apply scan_ge|apply scan_le; exact Hp]).
  rewrite substr_ok by lia. cbn [bind].
  set (p2 := scan isspace line q).
  assert (Hp2 : q <= p2 /\ p2 <= length line) by (split; [apply scan_ge|apply scan_le; lia]).
  destruct (back_up_ok (S (length line)) line p2 (length line)) as [r [Hr _]]; [lia|lia|].
  rewrite Hr. cbn [bind]. rewrite substr_ok by lia. cbn [bind]. eauto.
Qed.

(* ---------------------------------------------------------------- non-vacuity: the functions compute the expected things *)
(* F(a, b...) a+b *)
Example ctor_example :
  manifest_ctor true [70;40;97;44;32;98;46;46;46;41;32;97;43;98]%N
  = Ok {| m_name := [70]%N; m_has_params := true; m_params := [[97]; [98]]%N; m_variadic := Some 1; m_rest := [97;43;98]%N |}.
Proof. vm_compute. reflexivity. Qed.
(* F( x , (1,2) , "a,b" ) tail  at p = 1 *)
Example extract_example :
  expand_call true [70;40;32;120;32;44;32;40;49;44;50;41;32;44;32;34;97;44;98;34;32;41;32;116]%N 1
  = Ok ([[120]; [40;49;44;50;41]; [34;97;44;98;34]]%N, [32;116]%N).
Proof. vm_compute. reflexivity. Qed.
(* R dquote  xy( a dquote )x )xy dquote ;  *)
Example raw_example :
  scan_raw true [120;121;40;97;34;41;120;41;120;121;34;59]%N = Ok ([97;34;41;120]%N, [59]%N, true).
Proof. vm_compute. reflexivity. Qed.
Example strip_example : show_line_strip true [97;32;98;32;9]%N = Ok [97;32;98]%N.
Proof. vm_compute. reflexivity. Qed.
(* "  forcetype  A<int>  # c" *)
Example command_example :
  command_line [32;32;102;111;114;99;101;116;121;112;101;32;32;65;60;105;110;116;62;32;32;35;32;99]%N
  = Ok (Some ([102;111;114;99;101;116;121;112;101]%N, [65;60;105;110;116;62]%N)).
Proof. vm_compute. reflexivity. Qed.

(* ---------------------------------------------------------------- save_expansion *)
Lemma number_len_le s : number_len s <= length s.
Proof.
  induction s as [|c r IH]; cbn [number_len length]; [lia|].
  destruct (isalnum c || beq c c_us || beq c c_dot); [lia|].
  destruct (beq c c_squote); [|lia]. destruct r as [|c2 r2]; [lia|]. destruct (isalnum c2); lia.
Qed.

Lemma literal_len_le fuel : forall quote s, literal_len fuel quote s <= length s.
Proof.
  induction fuel as [|f IH]; intros quote s; cbn [literal_len]; [lia|].
  destruct s as [|c r]; cbn [length]; [lia|].
  destruct (beq c quote); [lia|]. destruct (beq c c_bslash).
  - destruct r as [|c2 r2]; cbn [length]; [lia|]. specialize (IH quote r2). lia.
  - specialize (IH quote r). lia.
Qed.

Lemma opt_len_le s : forall n, opt_len s n <= length s.
Proof.
  induction s as [|c r IH]; intros n; cbn [opt_len length]; [lia|].
  destruct n as [|n']; [lia|]. destruct (beq c c_lparen); [specialize (IH (S (S n'))); lia|].
  destruct (beq c c_rparen); [specialize (IH n'); lia|specialize (IH (S n')); lia].
Qed.

Lemma flush_ok exp last q paste acc : last <= q -> q <= length exp -> exists r, flush exp last q paste acc = Ok r.
Proof.
  intros H1 H2. unfold flush. destruct (Nat.eqb last q); [eauto|]. rewrite substr_ok by lia. cbn [bind]. eauto.
Qed.

Lemma guarded_at s i : exists c, (if i <? length s then at_ s i else Ok 0%N) = Ok c.
Proof. destruct (i <? length s) eqn:E; [apply Nat.ltb_lt in E; rewrite at_lt by exact E|]; eauto. Qed.

Section SaveExpansion.
  Variable names : list (list N).
  Variable variadic : option nat.
  Variable exp : list N.
  Variable rec : list N -> res (list node).
  (* the parser of a __VA_OPT__ group succeeds on every strictly shorter string *)
  Hypothesis rec_total : forall sub, length sub < length exp -> exists l, rec sub = Ok l.

  Lemma se_loop_total : forall fuel p last strfy paste acc,
    last <= p -> p <= length exp -> length exp - p < fuel ->
    exists l, se_loop rec names variadic exp fuel p last strfy paste acc = Ok l.
  Proof.
    induction fuel as [|f IH]; intros p last strfy paste acc Hl Hp Hf; [lia|].
    cbn [se_loop].
    destruct (p <? length exp) eqn:Elt; cbn [negb].
    2:{ destruct (flush_ok exp last p paste acc Hl Hp) as [r Hr]. rewrite Hr. cbn [bind]. eauto. }
    apply Nat.ltb_lt in Elt. rewrite (at_lt exp p Elt). cbn [bind].
    set (c := nth p exp 0%N).
    destruct (is_ident_start c).
    { (* identifier *)
      pose proof (scan_ge is_ident_char exp (S p)) as G1.
      pose proof (scan_le is_ident_char exp (S p) ltac:(lia)) as L1.
      set (p1 := scan is_ident_char exp (S p)) in *.
      rewrite (substr_ok exp p (p1 - p)) by lia. cbn [bind].
      destruct (str_eqb _ s_va_opt).
      - pose proof (scan_ge isspace exp p1) as G2.
        pose proof (scan_le isspace exp p1 L1) as L2.
        set (p2 := scan isspace exp p1) in *.
        destruct (guarded_at exp p2) as [c2 Hc2]. rewrite Hc2. cbn [bind].
        destruct ((p2 <? length exp) && beq c2 c_lparen) eqn:Eo.
        + apply andb_true_iff in Eo. destruct Eo as [Eo _]. apply Nat.ltb_lt in Eo.
          pose proof (opt_len_le (skipn (S p2) exp) 1) as Lo. rewrite skipn_length in Lo.
          set (p3 := S p2 + opt_len (skipn (S p2) exp) 1) in *.
          destruct (flush_ok exp last p paste acc Hl ltac:(lia)) as [r Hr]. rewrite Hr. cbn [bind].
          rewrite substr_ok by lia. cbn [bind].
          match goal with |- context [rec ?s] => destruct (rec_total s) as [nl Hn] end.
          { rewrite firstn_length, skipn_length. lia. }
          rewrite Hn. cbn [bind]. apply IH; lia.
        + apply IH; lia.
      - destruct (if str_eqb _ s_va_args then variadic else find_param names _ 0) as [n|].
        + destruct (flush_ok exp last p paste acc Hl ltac:(lia)) as [r Hr]. rewrite Hr. cbn [bind]. apply IH; lia.
        + apply IH; lia. }
    destruct (isdigit c).
    { pose proof (number_len_le (skipn (S p) exp)) as Ln. rewrite skipn_length in Ln. apply IH; lia. }
    destruct (is_quote c).
    { pose proof (literal_len_le (length exp) c (skipn (S p) exp)) as Ll. rewrite skipn_length in Ll. apply IH; lia. }
    destruct (beq c c_hash).
    { destruct (flush_ok exp last p paste acc Hl ltac:(lia)) as [r Hr]. rewrite Hr. cbn [bind].
      destruct (guarded_at exp (S p)) as [c2 Hc2]. rewrite Hc2. cbn [bind].
      destruct ((S p <? length exp) && beq c2 c_hash) eqn:Eh.
      - apply andb_true_iff in Eh. destruct Eh as [Eh _]. apply Nat.ltb_lt in Eh. apply IH; lia.
      - apply IH; lia. }
    destruct (isspace c).
    { destruct (flush_ok exp last p paste acc Hl ltac:(lia)) as [r Hr]. rewrite Hr. cbn [bind]. apply IH; lia. }
    apply IH; lia.
  Qed.
End SaveExpansion.

(* for EVERY replacement list, parameter list and nesting of __VA_OPT__ groups the parser returns a node list:
   no out-of-range substr (including the wrapping length p - 1 - start), no index beyond the terminator, fuel never runs out *)
Theorem save_expansion_total : forall dfuel names variadic exp, length exp < dfuel ->
  exists l, save_expansion dfuel names variadic exp = Ok l.
Proof.
  induction dfuel as [|df IH]; intros names variadic exp H; [lia|].
  cbn [save_expansion]. apply se_loop_total; try lia.
  intros sub Hs. apply IH. lia.
Qed.

(* #define F(a, b...) a #b x##a __VA_OPT__(, __VA_ARGS__) "a" 1a *)
Example save_expansion_example :
  save_expansion 40 [[97]; [98]]%N (Some 1) [97;32;35;98;32;120;35;35;97;32;95;95;86;65;95;79;80;84;95;95;40;44;32;98;41;32;34;97;34]%N
  = Ok [ mk_parm 0 false false; mk_parm 1 true false; no_expand (mk_text [120]%N false); mk_parm 0 false true;
         mk_nested [mk_text [44]%N false; mk_parm 1 false false] false false; mk_text [34;97;34]%N false ].
Proof. vm_compute. reflexivity. Qed.
