(* C15 — the hand-written scanners of the front-end, transcribed with CHECKED string primitives.
   std::string is a list of bytes; every primitive that the C++ library or the language leaves undefined
   or answers with an exception returns a fault here:
     s[i]            i <  size: the byte;  i = size: 0 (C++11);  i > size: undefined behaviour -> BadIndex
     s.substr(p, n)  p <= size: the piece;  p > size: throws std::out_of_range              -> OutOfRange
     s.compare(p, n, t)  as substr
   Loops of the form  while (p < s.size() && cond(s[p])) p++  are [scan cond s p].
   The functions below follow the current (repaired) source; the *_old variants follow the pinned source.
   No proofs in this file. *)
From Coq Require Import List Bool Arith NArith Lia.
Import ListNotations.

Notation byte := N (only parsing).
Notation str := (list N) (only parsing).

Inductive res (A : Type) := Ok (a : A) | OutOfRange | BadIndex | Fuel.
Arguments Ok {A} a.
Arguments OutOfRange {A}.
Arguments BadIndex {A}.
Arguments Fuel {A}.
Definition bind {A B} (r : res A) (f : A -> res B) : res B :=
  match r with Ok a => f a | OutOfRange => OutOfRange | BadIndex => BadIndex | Fuel => Fuel end.
Notation "x <- e ;; k" := (bind e (fun x => k)) (at level 61, e at next level, right associativity).

Definition at_ (s : str) (i : nat) : res byte :=
  if i <? length s then Ok (nth i s 0%N) else if i =? length s then Ok 0%N else BadIndex.
Definition substr (s : str) (pos n : nat) : res str :=
  if length s <? pos then OutOfRange else Ok (firstn n (skipn pos s)).
Definition substr_from (s : str) (pos : nat) : res str :=
  if length s <? pos then OutOfRange else Ok (skipn pos s).

Definition beq (a b : byte) : bool := N.eqb a b.
Definition isspace (c : byte) : bool := (N.leb 9%N c && N.leb c 13%N) || beq c 32%N.
Definition isdigit (c : byte) : bool := N.leb 48%N c && N.leb c 57%N.
Definition isalpha (c : byte) : bool := (N.leb 65%N c && N.leb c 90%N) || (N.leb 97%N c && N.leb c 122%N).
Definition isalnum (c : byte) : bool := isalpha c || isdigit c.
Definition c_lparen : byte := 40%N.
Definition c_rparen : byte := 41%N.
Definition c_comma : byte := 44%N.
Definition c_dot : byte := 46%N.
Definition c_dquote : byte := 34%N.
Definition c_squote : byte := 39%N.
Definition c_bslash : byte := 92%N.
Definition c_nl : byte := 10%N.
Definition c_hash : byte := 35%N.
Definition c_us : byte := 95%N.

(* number of leading bytes satisfying f *)
Fixpoint prefix_len (f : byte -> bool) (s : str) : nat :=
  match s with c :: r => if f c then S (prefix_len f r) else 0 | [] => 0 end.
(* while (p < s.size() && f(s[p])) p++ *)
Definition scan (f : byte -> bool) (s : str) (p : nat) : nat := p + prefix_len f (skipn p s).

Fixpoint str_eqb (a b : str) : bool :=
  match a, b with [], [] => true | x :: a', y :: b' => beq x y && str_eqb a' b' | _, _ => false end.

(* ------------------------------------------------------------------------------------------------
   CPPManifest::parse_parameters: p points at '('.  Returns the position of ')' (or size), the names and the
   index of the variadic parameter. *)
Definition is_name_char (c : byte) : bool := negb (isspace c) && negb (beq c c_rparen) && negb (beq c c_comma).
Definition dots : str := [c_dot; c_dot; c_dot].

(* one parameter name between q and p1; a trailing "..." makes it the variadic parameter *)
Definition take_name (args : str) (q p1 : nat) (names : list str) (variadic : option nat) : res (list str * option nat) :=
  if 3 <=? p1 - q then
    t <- substr args (p1 - 3) 3 ;;
    if str_eqb t dots then
      n <- substr args q (p1 - q - 3) ;; Ok (names ++ [n], Some (length names))
    else n <- substr args q (p1 - q) ;; Ok (names ++ [n], variadic)
  else n <- substr args q (p1 - q) ;; Ok (names ++ [n], variadic).

Fixpoint pp_loop (fuel : nat) (args : str) (p : nat) (names : list str) (variadic : option nat)
  : res (nat * list str * option nat) :=
  match fuel with
  | 0 => Fuel
  | S fuel' =>
      if negb (p <? length args) then Ok (p, names, variadic) else
      c <- at_ args p ;;
      if beq c c_rparen then Ok (p, names, variadic) else
      let p1 := scan is_name_char args p in
      r <- take_name args p p1 names variadic ;;
      let p2 := scan isspace args p1 in
      c2 <- (if p2 <? length args then at_ args p2 else Ok 0%N) ;;
      let p3 := if (p2 <? length args) && beq c2 c_comma then scan isspace args (S p2) else p2 in
      pp_loop fuel' args p3 (fst r) (snd r)
  end.

Definition parse_parameters (args : str) (p : nat) : res (nat * list str * option nat) :=
  let p0 := scan isspace args (S p) in
  pp_loop (S (length args)) args p0 [] None.

Record manifest := { m_name : str; m_has_params : bool; m_params : list str; m_variadic : option nat; m_rest : str }.

(* CPPManifest::CPPManifest(parser, args, loc); precondition (asserted by the code): args non-empty, args[0] not a space.
   [fixed] selects the repaired  if (p < args.size()) p++  against the pinned unconditional  p++ . *)
Definition manifest_ctor (fixed : bool) (args : str) : res manifest :=
  let p := scan (fun c => negb (isspace c) && negb (beq c c_lparen)) args 0 in
  name <- substr args 0 p ;;
  c <- at_ args p ;;
  if beq c c_lparen then
    r <- parse_parameters args p ;;
    let '(p1, names, variadic) := r in
    let p2 := if fixed then (if p1 <? length args then S p1 else p1) else S p1 in
    let p3 := scan isspace args p2 in
    rest <- substr_from args p3 ;;
    Ok {| m_name := name; m_has_params := true; m_params := names; m_variadic := variadic; m_rest := rest |}
  else
    let p3 := scan isspace args p in
    rest <- substr_from args p3 ;;
    Ok {| m_name := name; m_has_params := false; m_params := []; m_variadic := None; m_rest := rest |}.

(* ------------------------------------------------------------------------------------------------
   CPPManifest::extract_args(args, expr, p) as called by CPPPreprocessor::expand_manifests with expr[p] == '('
   (the caller has checked it), followed by the caller's  expr.substr(p) . *)
Definition is_quote (c : byte) : bool := beq c c_dquote || beq c c_squote.

(* the quoted-string skipper:  p++ ; while (p < size && expr[p] != quote && expr[p] != '\n') { if (expr[p]=='\\') p++; if (p < size) p++; } *)
Fixpoint skip_quoted (fuel : nat) (expr : str) (quote : byte) (p : nat) : res nat :=
  match fuel with
  | 0 => Fuel
  | S fuel' =>
      if negb (p <? length expr) then Ok p else
      c <- at_ expr p ;;
      if beq c quote || beq c c_nl then Ok p else
      let p1 := if beq c c_bslash then S p else p in
      let p2 := if p1 <? length expr then S p1 else p1 in
      skip_quoted fuel' expr quote p2
  end.

(* strip trailing whitespace: r = p; while (r > q && isspace(expr[r-1])) --r; *)
Fixpoint back_up (fuel : nat) (expr : str) (q r : nat) : res nat :=
  match fuel with
  | 0 => Fuel
  | S fuel' =>
      if negb (q <? r) then Ok r else
      c <- at_ expr (r - 1) ;;
      if isspace c then back_up fuel' expr q (r - 1) else Ok r
  end.

Fixpoint ea_loop (fixed : bool) (fuel : nat) (expr : str) (p q level : nat) (acc : list str) : res (nat * nat * list str) :=
  match fuel with
  | 0 => Fuel
  | S fuel' =>
      if negb (p <? length expr) then Ok (p, q, acc) else
      c <- at_ expr p ;;
      if beq c c_comma && (level =? 1) then
        r <- back_up (S (length expr)) expr q p ;;
        a <- substr expr q (r - q) ;;
        ea_loop fixed fuel' expr (S p) (S p) level (acc ++ [a])
      else if is_quote c then
        p1 <- skip_quoted (S (length expr)) expr c (S p) ;;
        if fixed && negb (p1 <? length expr) then Ok (p1, q, acc)        (* repaired: break at the end of the string *)
        else ea_loop fixed fuel' expr (S p1) q level acc
      else if beq c c_lparen then ea_loop fixed fuel' expr (S p) q (S level) acc
      else if beq c c_rparen then
        (if level =? 1 then Ok (p, q, acc) else ea_loop fixed fuel' expr (S p) q (level - 1) acc)
      else if isspace c then
        ea_loop fixed fuel' expr (S p) (if q =? p then S q else q) level acc
      else ea_loop fixed fuel' expr (S p) q level acc
  end.

(* returns the final p and the arguments *)
Definition extract_args (fixed : bool) (expr : str) (p : nat) : res (nat * list str) :=
  r0 <- ea_loop fixed (S (length expr)) expr (S p) (S p) 1 [] ;;
  let '(p1, q, acc) := r0 in
  r <- back_up (S (length expr)) expr q p1 ;;
  a <- substr expr q (r - q) ;;
  let acc' := if negb (match acc with [] => true | _ => false end) || (q <? r) then acc ++ [a] else acc in
  c <- (if p1 <? length expr then at_ expr p1 else Ok 0%N) ;;
  let p2 := if (p1 <? length expr) && beq c c_rparen then S p1 else p1 in
  Ok (p2, acc').

(* the caller: expr = expr.substr(0, q) + result + expr.substr(p) *)
Definition expand_call (fixed : bool) (expr : str) (p : nat) : res (list str * str) :=
  r <- extract_args fixed expr p ;;
  let '(p', args) := r in
  tail <- substr_from expr p' ;;
  Ok (args, tail).

(* ------------------------------------------------------------------------------------------------
   CPPPreprocessor::scan_raw: the input stream is the list of remaining bytes (get() = head, EOF at []).
   Called after  R-dquote  has been read.  Returns (string, rest of input, closed?). *)
Definition ends_with_checked (fixed : bool) (s delim : str) : res bool :=
  (* str.compare(str.size() - delimiter.size(), delimiter.size(), delimiter) == 0 ; size_t arithmetic wraps *)
  if length s <? length delim then (if fixed then Ok false else OutOfRange)
  else t <- substr s (length s - length delim) (length delim) ;; Ok (str_eqb t delim).

Fixpoint raw_body (fixed : bool) (delim : str) (acc : str) (inp : str) : res (str * str * bool) :=
  match inp with
  | [] => Ok (acc, [], false)
  | c :: rest =>
      if beq c c_dquote then
        e <- ends_with_checked fixed acc delim ;;
        if e then Ok (firstn (length acc - length delim) acc, rest, true)
        else raw_body fixed delim (acc ++ [c]) rest
      else raw_body fixed delim (acc ++ [c]) rest
  end.

Definition scan_raw (fixed : bool) (inp : str) : res (str * str * bool) :=
  let d := firstn (prefix_len (fun c => negb (beq c c_lparen)) inp) inp in
  let after := skipn (S (length d)) inp in           (* the '(' (or EOF) is consumed *)
  raw_body fixed (c_rparen :: d) [] after.

(* ------------------------------------------------------------------------------------------------
   CPPPreprocessor::show_line: strip trailing whitespace of the offending line.
   pinned:   last = len; while (isspace(linestr[--last])) linestr = linestr.substr(0, last);
   repaired: while (last > 0 && isspace(linestr[last-1])) linestr = linestr.substr(0, --last);   *)
Fixpoint strip_old (fuel : nat) (s : str) (last : nat) : res str :=
  match fuel with
  | 0 => Fuel
  | S fuel' =>
      match last with
      | 0 => BadIndex                                  (* --last wraps to SIZE_MAX: linestr[SIZE_MAX] *)
      | S l =>
          c <- at_ s l ;;
          if isspace c then (s' <- substr s 0 l ;; strip_old fuel' s' l) else Ok s
      end
  end.
Fixpoint strip_new (fuel : nat) (s : str) (last : nat) : res str :=
  match fuel with
  | 0 => Fuel
  | S fuel' =>
      match last with
      | 0 => Ok s
      | S l =>
          c <- at_ s l ;;
          if isspace c then (s' <- substr s 0 l ;; strip_new fuel' s' l) else Ok s
      end
  end.
Definition show_line_strip (fixed : bool) (s : str) : res str :=
  if fixed then strip_new (S (length s)) s (length s) else strip_old (S (length s)) s (length s).

(* ------------------------------------------------------------------------------------------------
   InterrogateBuilder::read_command_file: one line -> (command, params) or nothing. *)
Definition cut_comment (line : str) : str := firstn (prefix_len (fun c => negb (beq c c_hash)) line) line.
Definition command_line (line0 : str) : res (option (str * str)) :=
  let line := cut_comment line0 in
  let p := scan isspace line 0 in
  if negb (p <? length line) then Ok None else
  let q := scan (fun c => negb (isspace c)) line p in
  cmd <- substr line p (q - p) ;;
  let p2 := scan isspace line q in
  q2 <- back_up (S (length line)) line p2 (length line) ;;
  params <- substr line p2 (q2 - p2) ;;
  Ok (Some (cmd, params)).

(* ------------------------------------------------------------------------------------------------
   CPPManifest::save_expansion: the replacement list of a #define is cut into nodes (text, parameter, __VA_OPT__ group).
   All index arithmetic is size_t; the one subtraction that can wrap is  p - 1 - start  (written out below). *)
Inductive node := Node (parm : option nat) (expand stringify paste optional : bool) (text : str) (nested : list node).

Definition mk_text (s : str) (paste : bool) : node := Node None (negb paste) false paste false s [].
Definition mk_parm (n : nat) (strfy paste : bool) : node := Node (Some n) (negb strfy && negb paste) strfy paste false [] [].
Definition mk_nested (l : list node) (strfy paste : bool) : node := Node None (negb strfy && negb paste) strfy paste true [] l.
Definition no_expand (n : node) : node := match n with Node p _ s pa o t l => Node p false s pa o t l end.
Fixpoint set_last_noexpand (acc : list node) : list node :=
  match acc with [] => [] | [x] => [no_expand x] | x :: r => x :: set_last_noexpand r end.

Definition is_ident_start (c : byte) : bool := isalpha c || beq c c_us.
Definition is_ident_char (c : byte) : bool := isalnum c || beq c c_us.
(* a pp-number after its first digit: alnum _ . and a digit separator followed by alnum *)
Fixpoint number_len (s : str) : nat :=
  match s with
  | c :: r =>
      if isalnum c || beq c c_us || beq c c_dot then S (number_len r)
      else if beq c c_squote then (match r with c2 :: _ => if isalnum c2 then S (number_len r) else 0 | [] => 0 end)
      else 0
  | [] => 0
  end.
(* the body of a literal after the opening quote: up to the closing quote, a backslash takes the next byte with it;
   returns how far p moves (including the closing quote when there is one) *)
Fixpoint literal_len (fuel : nat) (quote : byte) (s : str) : nat :=
  match fuel with
  | 0 => 0
  | S f =>
      match s with
      | [] => 0
      | c :: r =>
          if beq c quote then 1
          else if beq c c_bslash then (match r with _ :: r2 => 2 + literal_len f quote r2 | [] => 1 end)
          else S (literal_len f quote r)
      end
  end.
(* the nesting scan of __VA_OPT__( ... ): returns how far p moves from start *)
Fixpoint opt_len (s : str) (nesting : nat) : nat :=
  match s with
  | [] => 0
  | c :: r =>
      match nesting with
      | 0 => 0
      | S n' => if beq c c_lparen then S (opt_len r (S nesting)) else if beq c c_rparen then S (opt_len r n') else S (opt_len r nesting)
      end
  end.

Fixpoint find_param (names : list str) (ident : str) (i : nat) : option nat :=
  match names with [] => None | n :: r => if str_eqb n ident then Some i else find_param r ident (S i) end.

Definition s_va_args : str := [95;95;86;65;95;65;82;71;83;95;95]%N.     (* __VA_ARGS__ *)
Definition s_va_opt : str := [95;95;86;65;95;79;80;84;95;95]%N.         (* __VA_OPT__ *)

(* push the text between last and q when there is some *)
Definition flush (exp : str) (last q : nat) (paste : bool) (acc : list node) : res (list node * bool) :=
  if Nat.eqb last q then Ok (acc, paste)
  else t <- substr exp last (q - last) ;; Ok (acc ++ [mk_text t paste], false).

(* the scanning loop; [rec] parses the inside of a __VA_OPT__ group *)
Fixpoint se_loop (rec : str -> res (list node)) (names : list str) (variadic : option nat) (exp : str)
                 (fuel p last : nat) (strfy paste : bool) (acc : list node) {struct fuel} : res (list node) :=
  match fuel with
  | 0 => Fuel
  | S f =>
      let loop := se_loop rec names variadic exp f in
      if negb (p <? length exp) then
        r <- flush exp last p paste acc ;; Ok (fst r)
      else
      c <- at_ exp p ;;
      if is_ident_start c then
        let q := p in
        let p1 := scan is_ident_char exp (S p) in
        ident <- substr exp q (p1 - q) ;;
        if str_eqb ident s_va_opt then
          let p2 := scan isspace exp p1 in
          c2 <- (if p2 <? length exp then at_ exp p2 else Ok 0%N) ;;
          if (p2 <? length exp) && beq c2 c_lparen then
            let start := S p2 in
            let p3 := start + opt_len (skipn start exp) 1 in
            r <- flush exp last q paste acc ;;
            (* exp.substr(start, p - 1 - start): the length wraps to npos when p = start *)
            sub <- substr exp start (if Nat.eqb p3 start then length exp else p3 - 1 - start) ;;
            nested <- rec sub ;;
            loop p3 p3 false false (fst r ++ [mk_nested nested strfy (snd r)])
          else loop p2 last strfy paste acc          (* not followed by '(' : an ordinary identifier *)
        else
          let pnum := if str_eqb ident s_va_args then variadic else find_param names ident 0 in
          match pnum with
          | Some n =>
              r <- flush exp last q paste acc ;;
              loop p1 p1 false false (fst r ++ [mk_parm n strfy (snd r)])
          | None => loop p1 last strfy paste acc
          end
      else if isdigit c then loop (S p + number_len (skipn (S p) exp)) last strfy paste acc
      else if is_quote c then loop (S p + literal_len (length exp) c (skipn (S p) exp)) last strfy paste acc
      else if beq c c_hash then
        r <- flush exp last p paste acc ;;
        c2 <- (if S p <? length exp then at_ exp (S p) else Ok 0%N) ;;
        if (S p <? length exp) && beq c2 c_hash
        then loop (S (S p)) (S (S p)) strfy true (set_last_noexpand (fst r))
        else loop (S p) (S p) true (snd r) (fst r)
      else if isspace c then
        r <- flush exp last p paste acc ;;
        loop (S p) (S p) strfy (snd r) (fst r)
      else loop (S p) last strfy paste acc
  end.

Fixpoint save_expansion (dfuel : nat) (names : list str) (variadic : option nat) (exp : str) : res (list node) :=
  match dfuel with
  | 0 => Fuel
  | S df => se_loop (save_expansion df names variadic) names variadic exp (S (length exp)) 0 0 false false []
  end.
