(* C16 — property theorems only. *)
From Coq Require Import List.
From IV Require Import C16.Defs C16.Proofs C16.Termination.
Import ListNotations.

(* Whatever the dependency graph (cyclic or not): when the ordering loop finishes, every library that
   contributes to the module is listed exactly once, and nothing else is listed but libraries named
   as dependencies (they become keys through the cycle search). *)
Theorem c16_each_once : forall g0 libs g rem, run_order g0 = Some (libs, g, rem) ->
  NoDup libs /\ (forall k, In k (gkeys g0) -> In k libs) /\ (forall k, In k libs <-> In k (gkeys g)).
Proof. exact each_once. Qed.
Print Assumptions c16_each_once.

(* Every dependency that was not broken as part of a reported cycle is respected by the order. *)
Theorem c16_unbroken_dependencies_respected : forall g0 libs g rem, run_order g0 = Some (libs, g, rem) ->
  forall a b, In a (gkeys g0) -> In b (gget g0 a) -> In (a, b) rem \/ before b a libs.
Proof. exact topological. Qed.
Print Assumptions c16_unbroken_dependencies_respected.

(* In an acyclic graph nothing is ever broken: every library precedes the libraries that depend on it. *)
Theorem c16_topological : forall g0 libs g rem, run_order g0 = Some (libs, g, rem) -> acyclic g0 ->
  rem = [] /\ forall a b, In a (gkeys g0) -> In b (gget g0 a) -> before b a libs.
Proof. exact acyclic_topological. Qed.
Print Assumptions c16_topological.

(* The cycle search only ever reports closed walks along current dependency edges, and never changes a dependency set. *)
Theorem c16_cycle_search_sound : forall fuel g path r g', find_cycle fuel g path = (r, g') ->
  (forall x, gget g' x = gget g x) /\ (forall x, In x (gkeys g) -> In x (gkeys g')) /\
  (path <> [] -> is_path g path -> forall c, r = Some c -> is_cycle g c).
Proof. exact find_cycle_ok. Qed.
Print Assumptions c16_cycle_search_sound.

(* The ordering loop terminates on every dependency graph held in a std::map (keys ascending), cyclic or not, with the fuel run_order supplies:
   each turn lists a library, removes an edge of a reported cycle, or creates the entry of a library that was only named as a dependency. *)
Theorem c16_terminates : forall g, ascending (gkeys g) -> run_order g <> None.
Proof. exact run_order_total. Qed.
Print Assumptions c16_terminates.
