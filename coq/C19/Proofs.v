From Coq Require Import List Bool Arith Lia.
From IV Require Import C19.Defs.
Import ListNotations.

Section Stream.
Variable flush_now : stream -> nat -> bool.
Variable fault : option nat.
Notation put := (put flush_now fault).
Notation sys_write := (sys_write fault).
Notation close := (close fault).

(* invariant: while the stream is good, nothing has been lost: disk + buf = bytes written so far *)
Definition ok (s : stream) (written : nat) : Prop := bad s = false -> disk s + buf s = written.

Lemma sys_write_ok s w : ok s w -> ok (sys_write s) w.
Proof.
  unfold ok, Defs.sys_write. intros H. destruct (fails fault (calls s)); cbn; [discriminate|].
  intros Hb. specialize (H Hb). lia.
Qed.

Lemma put_ok s w n : ok s w -> ok (put s n) (w + n).
Proof.
  intros H. unfold Defs.put. destruct (bad s) eqn:Eb.
  - intros Hb. congruence.
  - specialize (H Eb).
    assert (H1 : ok {| buf := buf s + n; disk := disk s; bad := false; calls := calls s |} (w + n)).
    { intros _. cbn. lia. }
    destruct (flush_now s n); [now apply sys_write_ok | exact H1].
Qed.

Lemma fold_put_ok ws : forall s w, ok s w -> ok (fold_left put ws s) (fold_left Nat.add ws w).
Proof.
  induction ws as [|n r IH]; intros s w H; cbn; [exact H|]. apply IH. now apply put_ok.
Qed.

Lemma close_spec s w : ok s w -> bad (close s) = false -> disk (close s) = w.
Proof.
  intros H. unfold Defs.close. destruct (bad s) eqn:Eb.
  - destruct (fails fault (calls s)); cbn; congruence.
  - specialize (H Eb). destruct (Nat.eqb (buf s) 0) eqn:E0.
    + apply Nat.eqb_eq in E0. destruct (fails fault (calls s)); cbn; [discriminate|]. intros _. lia.
    + unfold Defs.sys_write. destruct (fails fault (calls s)) eqn:F1; cbn.
      * destruct (fails fault (S (calls s))); cbn; discriminate.
      * destruct (fails fault (S (calls s))); cbn; [discriminate|]. intros _. lia.
Qed.

(* No silent loss: if fail() is false after close(), every byte handed to << is in the file,
   for every buffering policy, every write pattern and every fault point. *)
Theorem no_silent_loss ws :
  bad (write_all flush_now fault ws) = false -> disk (write_all flush_now fault ws) = total ws.
Proof.
  unfold write_all, total. apply close_spec. apply fold_put_ok. intros _. reflexivity.
Qed.

(* the file never holds more than was written *)
Lemma disk_le s w : disk s + (if bad s then 0 else buf s) <= w -> forall n, disk (put s n) + (if bad (put s n) then 0 else buf (put s n)) <= w + n.
Proof.
  intros H n. unfold Defs.put. destruct (bad s) eqn:Eb; [rewrite Eb; lia|].
  destruct (flush_now s n); cbn.
  - unfold Defs.sys_write. cbn. destruct (fails fault (calls s)); cbn; lia.
  - lia.
Qed.
End Stream.

(* ---- main() ---- *)
Theorem status_reports chs :
  status chs = 0 -> forall c, In c chs -> ch_complete c = true.
Proof.
  unfold status. destruct (existsb ch_failed chs) eqn:E; [discriminate|]. intros _ c Hin.
  assert (Hc : ch_failed c = false).
  { destruct (ch_failed c) eqn:F; [|reflexivity].
    assert (existsb ch_failed chs = true) by (apply existsb_exists; eauto). congruence. }
  unfold ch_failed in Hc. unfold ch_complete. destruct (requested c); [|reflexivity]. cbn in *.
  apply orb_false_iff in Hc as [Ho Hb]. apply negb_false_iff in Ho. rewrite Ho. cbn.
  apply Nat.eqb_eq. now apply no_silent_loss.
Qed.

(* equivalently: if any requested output is incomplete, the exit status is non-zero *)
Corollary incomplete_nonzero chs : (exists c, In c chs /\ ch_complete c = false) -> status chs <> 0.
Proof.
  intros (c & Hin & Hc) Hs. rewrite (status_reports chs Hs c Hin) in Hc. discriminate.
Qed.

(* the pinned code: a write fault after a successful open goes unnoticed *)
Example old_main_refuted :
  let c := {| requested := true; open_ok := true; writes := [10; 20]; ch_fault := Some 0;
              policy := fun _ _ => false |} in
  status_old [c] = 0 /\ ch_complete c = false /\ status [c] = 255.
Proof. vm_compute. repeat split. Qed.

(* non-vacuity: a fault-free channel is complete and reported as success *)
Example good_run :
  let c := {| requested := true; open_ok := true; writes := [10; 20; 5]; ch_fault := None;
              policy := fun s n => Nat.leb 16 (buf s + n) |} in
  status [c] = 0 /\ ch_complete c = true.
Proof. vm_compute. split; reflexivity. Qed.
