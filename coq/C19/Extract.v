From Coq Require Import ExtrOcamlBasic ExtrOcamlString.
From IV Require Import C19.Defs.
Extraction Language OCaml.
Extraction "ext.ml" status status_old ch_complete mk_channel.
