(* C19 — the output phase of interrogate / interrogate_module as a machine over
   stream operations with a fault oracle.  std::ofstream semantics written out:
   `<<` appends to a buffer and may trigger a write(2) of everything buffered; a failed
   write(2) sets badbit, after which `<<` does nothing; close() flushes, calls close(2)
   and sets failbit when either fails; fail() reads badbit|failbit.  No proofs. *)
From Coq Require Import List Bool Arith.
Import ListNotations.

Record stream := { buf : nat;      (* bytes in the put area *)
                   disk : nat;     (* bytes that reached the file *)
                   bad : bool;     (* badbit | failbit *)
                   calls : nat }.  (* system calls issued on this file so far *)

Section Stream.
(* buffering policy of the C++ library: arbitrary (decides after each << whether to flush) *)
Variable flush_now : stream -> nat -> bool.
(* the fault oracle: index of the system call (write or close) that fails, if any *)
Variable fault : option nat.

Definition fails (n : nat) : bool := match fault with Some k => Nat.eqb k n | None => false end.

(* one write(2) of the whole buffer *)
Definition sys_write (s : stream) : stream :=
  if fails (calls s) then {| buf := 0; disk := disk s; bad := true; calls := S (calls s) |}
  else {| buf := 0; disk := disk s + buf s; bad := bad s; calls := S (calls s) |}.

(* operator<< of n bytes *)
Definition put (s : stream) (n : nat) : stream :=
  if bad s then s
  else let s1 := {| buf := buf s + n; disk := disk s; bad := false; calls := calls s |} in
       if flush_now s n then sys_write s1 else s1.

(* close(): flush what is buffered (if the stream is still good), then close(2) *)
Definition close (s : stream) : stream :=
  let s1 := if bad s then s else if Nat.eqb (buf s) 0 then s else sys_write s in
  if fails (calls s1) then {| buf := buf s1; disk := disk s1; bad := true; calls := S (calls s1) |}
  else {| buf := buf s1; disk := disk s1; bad := bad s1; calls := S (calls s1) |}.

Definition fresh : stream := {| buf := 0; disk := 0; bad := false; calls := 0 |}.

(* a whole channel: open succeeded; the writes; close; then fail() is tested (the repaired code) *)
Definition write_all (ws : list nat) : stream := close (fold_left put ws fresh).
Definition total (ws : list nat) : nat := fold_left Nat.add ws 0.
End Stream.

(* ---- main(): the three optional channels of interrogate ---- *)
Record channel := { requested : bool; open_ok : bool; writes : list nat; ch_fault : option nat;
                    policy : stream -> nat -> bool }.

(* what ends up in the file, and whether the tool noticed *)
Definition ch_complete (c : channel) : bool :=
  negb (requested c) ||
  (open_ok c && Nat.eqb (disk (write_all (policy c) (ch_fault c) (writes c))) (total (writes c))).
Definition ch_failed (c : channel) : bool :=
  requested c && (negb (open_ok c) || bad (write_all (policy c) (ch_fault c) (writes c))).

(* repaired main(): status = -1 as soon as one requested channel could not be opened or failed *)
Definition status (chs : list channel) : nat := if existsb ch_failed chs then 255 else 0.

(* the pinned main(): the stream is only tested right after open(); later failures are never looked at *)
Definition ch_failed_old (c : channel) : bool := requested c && negb (open_ok c).
Definition status_old (chs : list channel) : nat := if existsb ch_failed_old chs then 255 else 0.

(* concrete policy used when replaying an observed system-call trace: every << is one write(2) *)
Definition policy_each : stream -> nat -> bool := fun _ _ => true.
Definition mk_channel (req op : bool) (ws : list nat) (f : option nat) : channel :=
  {| requested := req; open_ok := op; writes := ws; ch_fault := f; policy := policy_each |}.
