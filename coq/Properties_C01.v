(* C01 — property theorems only. *)
From Coq Require Import List Bool ZArith.
Import ListNotations.
From IV Require Import C01.Defs C01.Proofs.

(* for every wrapped function (arbitrary results and side effects), every default-argument variant, every history of calls and every
   initial state of the wrapper's static: results and final world equal those of the direct calls named by the variant *)
Theorem c01_wrapper_equals_direct : forall world (f : list val -> world -> val * world) defaults k string_result,
  (forall args w, val_ok (fst (f args w)) = true) ->
  forall calls holder w, forallb (forallb val_ok) calls = true ->
  run_wrapper world f defaults k string_result true holder calls w = run_direct world f defaults k calls w.
Proof. exact wrapper_equals_direct. Qed.
Print Assumptions c01_wrapper_equals_direct.

Theorem c01_pinned_string_holder_refuted :
  let f := fun (args : list val) (w : nat) => (match args with VInt z :: _ => VStr [Z.to_nat z] | _ => VStr [] end, S w) in
  run_wrapper nat f [] 0 true false None [[VInt 65]; [VInt 66]] 0 = ([VStr [65]; VStr [65]], 1) /\
  run_direct nat f [] 0 [[VInt 65]; [VInt 66]] 0 = ([VStr [65]; VStr [66]], 2).
Proof. exact pinned_holder_refuted. Qed.
Print Assumptions c01_pinned_string_holder_refuted.

Theorem c01_embedded_nul_refuted : to_wrapper (VStr [65; 0; 66]) <> VStr [65; 0; 66].
Proof. exact embedded_nul_refuted. Qed.
Print Assumptions c01_embedded_nul_refuted.
