(* C04 — what is exported: the gates of InterrogateBuilder (scan_function, define_method, scan_struct_type, scan_enum_type,
   scan_manifest, scan_element) as boolean functions of the facts of a declaration, and the statement of the property as a
   proposition over the same facts.  No proofs in this file. *)
From Coq Require Import List Bool Arith.
Import ListNotations.

Inductive vis := Published | Public | Protected | Private.
Definition vis_rank (v : vis) : nat := match v with Published => 0 | Public => 1 | Protected => 2 | Private => 3 end.
Definition vis_le (a b : vis) : bool := vis_rank a <=? vis_rank b.       (* a <= b in CPPVisibility order *)

(* types of signatures: classes are numbers *)
Inductive ty :=
| Simple
| Class (c : nat)
| Const (t : ty) | Ptr (t : ty) | Ref (rvalue : bool) (t : ty) | Arr (t : ty) | Typedef (name : nat) (t : ty)
| Fn (ret : ty) (params : list ty).

Section Types.
  Variable class_vis : nat -> vis.             (* visibility of the declaration of each class in its scope *)
  Variable ignored_name : nat -> bool.         (* ignoreinvolved names: classes and typedef names share the numbering via [tag] *)

  (* TypeManager::involves_protected.  [arrays] = the repaired code looks through array types. *)
  Fixpoint involves_protected (arrays : bool) (t : ty) : bool :=
    match t with
    | Simple => false
    | Class c => negb (vis_le (class_vis c) Public)
    | Const t' | Ptr t' | Ref _ t' | Typedef _ t' => involves_protected arrays t'
    | Arr t' => if arrays then involves_protected arrays t' else false
    | Fn r ps => involves_protected arrays r || existsb (involves_protected arrays) ps
    end.

  Fixpoint involves_rvalue (arrays : bool) (t : ty) : bool :=
    match t with
    | Simple | Class _ => false
    | Ref rv _ => rv
    | Const t' | Ptr t' | Typedef _ t' => involves_rvalue arrays t'
    | Arr t' => if arrays then involves_rvalue arrays t' else false
    | Fn r ps => involves_rvalue arrays r || existsb (involves_rvalue arrays) ps
    end.

  (* InterrogateBuilder::in_ignoreinvolved (looks through arrays already) *)
  Fixpoint in_ignoreinvolved (t : ty) : bool :=
    match t with
    | Simple => false
    | Class c => ignored_name c
    | Typedef n t' => ignored_name n || in_ignoreinvolved t'
    | Const t' | Ptr t' | Ref _ t' | Arr t' => in_ignoreinvolved t'
    | Fn r ps => in_ignoreinvolved r || existsb in_ignoreinvolved ps
    end.

  (* what the property says in words: some class mentioned anywhere in the type is protected/private; some reference is an rvalue reference *)
  Fixpoint mentions (p : ty -> bool) (t : ty) : bool :=
    p t || match t with
           | Simple | Class _ => false
           | Const t' | Ptr t' | Ref _ t' | Arr t' | Typedef _ t' => mentions p t'
           | Fn r ps => mentions p r || existsb (mentions p) ps
           end.
  Definition is_protected_class (t : ty) : bool := match t with Class c => negb (vis_le (class_vis c) Public) | _ => false end.
  Definition is_rvalue_ref (t : ty) : bool := match t with Ref true _ => true | _ => false end.
End Types.

Inductive source := S_local | S_alternate | S_system.
Definition is_local (s : source) : bool := match s with S_local => true | _ => false end.

Record file_facts := { src : source; c_file : bool; ignorefile : bool }.

Record func := {
  f_file : file_facts; f_vis : vis; f_static : bool; f_deleted : bool; f_template : bool; f_type : ty;
  f_dtor : bool; f_get_class_type : bool;          (* named get_class_type *)
  f_ignoremember : bool;
  f_inherited_virtual : bool;                      (* virtual first declared in the single public non-virtual base ... *)
  f_first_decl_published : bool }.                 (* ... and published there (is_inherited_published) *)

Section Gates.
  Variable min_vis : vis.                      (* Published, or Public under -promiscuous *)
  Variable class_vis : nat -> vis.
  Variable ignored_name : nat -> bool.
  Variable arrays : bool.

  Definition file_ok (f : file_facts) : bool := negb (c_file f) && is_local (src f) && negb (ignorefile f).

  (* scan_function: global functions *)
  Definition scan_function (f : func) : bool :=
    if f_template f then false else
    if c_file (f_file f) then false else
    if negb (is_local (src (f_file f))) || ignorefile (f_file f) then false else
    if negb (vis_le (f_vis f) min_vis) then false else
    if f_static f || f_deleted f then false else
    if involves_protected class_vis arrays (f_type f) then false else
    if in_ignoreinvolved ignored_name (f_type f) then false else
    if involves_rvalue arrays (f_type f) then false else true.

  (* define_method: members of a class whose definition is being recorded *)
  Definition define_method (f : func) : bool :=
    if f_template f then false else
    if f_deleted f then false else
    let fp1 := f_get_class_type f && f_static f && vis_le (f_vis f) Public in
    if f_dtor f && negb (vis_le (f_vis f) Public) then false else
    let force_publish := fp1 || f_dtor f in
    if negb force_publish && negb (vis_le (f_vis f) min_vis) then false else
    if involves_protected class_vis arrays (f_type f) then false else
    if in_ignoreinvolved ignored_name (f_type f) then false else
    if f_ignoremember f then false else
    if f_inherited_virtual f && (f_dtor f || f_first_decl_published f) then false else
    if involves_rvalue arrays (f_type f) then false else true.

  (* scan_struct_type: is a class of a scanned file recorded as a global type? *)
  Record class_facts := { k_file : file_facts; k_vis : vis; k_template : bool; k_member_vis : list vis }.
  Definition scan_struct_type (k : class_facts) : bool :=
    if k_template k then false else
    if c_file (k_file k) then false else
    if negb (is_local (src (k_file k))) || ignorefile (k_file k) then false else
    if negb (vis_le (k_vis k) min_vis) then existsb (fun v => vis_le v min_vis) (k_member_vis k) else true.

  (* scan_enum_type / scan_manifest / scan_element(global): simple declarations *)
  Record simple_facts := { s_file : file_facts; s_vis : vis; s_template : bool; s_fn_like : bool }.
  Definition scan_simple (s : simple_facts) : bool :=
    if s_template s then false else
    if c_file (s_file s) then false else
    if negb (is_local (src (s_file s))) || ignorefile (s_file s) then false else
    if negb (vis_le (s_vis s) min_vis) then false else
    negb (s_fn_like s).

  (* ---------------- the statement of the property over the same facts *)
  Definition sig_ok (t : ty) : Prop :=
    mentions (is_protected_class class_vis) t = false /\ mentions is_rvalue_ref t = false /\ in_ignoreinvolved ignored_name t = false.

  Definition spec_function (f : func) : Prop :=
    src (f_file f) = S_local /\ c_file (f_file f) = false /\ ignorefile (f_file f) = false /\
    vis_le (f_vis f) min_vis = true /\ f_static f = false /\ f_deleted f = false /\ f_template f = false /\ sig_ok (f_type f).

  Definition spec_method (f : func) : Prop :=
    vis_le (f_vis f) min_vis = true /\ f_deleted f = false /\ f_template f = false /\ f_ignoremember f = false /\ sig_ok (f_type f).

  Definition spec_simple (s : simple_facts) : Prop :=
    src (s_file s) = S_local /\ c_file (s_file s) = false /\ ignorefile (s_file s) = false /\ vis_le (s_vis s) min_vis = true /\
    s_template s = false /\ s_fn_like s = false.
End Gates.
