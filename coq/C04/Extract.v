From Coq Require Import ExtrOcamlBasic ExtrOcamlString.
From IV Require Import C04.Defs.
Extraction Language OCaml.
Extraction "ext.ml" scan_function define_method scan_struct_type scan_simple.
