(* C04 — the gates decide exactly what the property states, on the stated fragment; the deliberate exceptions are refuted. *)
From Coq Require Import List Bool Arith Lia.
Import ListNotations.
From IV Require Import C04.Defs.

Section TypeLemmas.
  Variable class_vis : nat -> vis.

  (* a stronger induction principle for ty (lists of parameters) *)
  Fixpoint ty_ind' (P : ty -> Prop)
      (HS : P Simple) (HC : forall c, P (Class c)) (HK : forall t, P t -> P (Const t)) (HP : forall t, P t -> P (Ptr t))
      (HR : forall b t, P t -> P (Ref b t)) (HA : forall t, P t -> P (Arr t)) (HT : forall n t, P t -> P (Typedef n t))
      (HF : forall r ps, P r -> Forall P ps -> P (Fn r ps)) (t : ty) : P t :=
    match t with
    | Simple => HS | Class c => HC c
    | Const t' => HK t' (ty_ind' P HS HC HK HP HR HA HT HF t')
    | Ptr t' => HP t' (ty_ind' P HS HC HK HP HR HA HT HF t')
    | Ref b t' => HR b t' (ty_ind' P HS HC HK HP HR HA HT HF t')
    | Arr t' => HA t' (ty_ind' P HS HC HK HP HR HA HT HF t')
    | Typedef n t' => HT n t' (ty_ind' P HS HC HK HP HR HA HT HF t')
    | Fn r ps => HF r ps (ty_ind' P HS HC HK HP HR HA HT HF r)
                   ((fix go (l : list ty) : Forall P l := match l with [] => Forall_nil P | x :: l' => Forall_cons x (ty_ind' P HS HC HK HP HR HA HT HF x) (go l') end) ps)
    end.

  Lemma existsb_ext_forall (f g : ty -> bool) ps : Forall (fun t => f t = g t) ps -> existsb f ps = existsb g ps.
  Proof. induction 1 as [|x l Hx _ IH]; cbn; [reflexivity|]. now rewrite Hx, IH. Qed.

  (* with arrays looked through, involves_protected is exactly "a protected/private class is mentioned somewhere" *)
  Lemma involves_protected_mentions t : involves_protected class_vis true t = mentions (is_protected_class class_vis) t.
  Proof.
    induction t as [|c|t IH|t IH|b t IH|t IH|n t IH|r ps IHr IHps] using ty_ind'; cbn [involves_protected mentions is_protected_class orb]; try exact IH; try reflexivity.
    - now rewrite orb_false_r.
    - rewrite IHr. f_equal. now apply existsb_ext_forall.
  Qed.

  (* well-formed C++ signatures: references only at the top of a parameter or return type, no function types inside *)
  Fixpoint noref (t : ty) : bool :=
    match t with
    | Simple | Class _ => true
    | Const t' | Ptr t' | Arr t' | Typedef _ t' => noref t'
    | Ref _ _ | Fn _ _ => false
    end.
  Definition param_ok (t : ty) : bool := noref t || match t with Ref _ t' => noref t' | _ => false end.
  Definition sig_wf (t : ty) : bool := match t with Fn r ps => param_ok r && forallb param_ok ps | _ => false end.

  Lemma noref_no_rvalue t : noref t = true -> involves_rvalue true t = false /\ mentions is_rvalue_ref t = false.
  Proof.
    induction t as [|c|t IH|t IH|b t IH|t IH|n t IH|r ps IHr IHps] using ty_ind'; cbn [noref involves_rvalue mentions is_rvalue_ref orb]; intros H; try discriminate; auto.
  Qed.

  Lemma param_rvalue t : param_ok t = true -> involves_rvalue true t = mentions is_rvalue_ref t.
  Proof.
    unfold param_ok. intros H. apply orb_true_iff in H. destruct H as [H|H].
    - destruct (noref_no_rvalue t H) as [-> ->]. reflexivity.
    - destruct t; try discriminate. destruct (noref_no_rvalue t H) as [_ Hm].
      cbn [involves_rvalue mentions is_rvalue_ref]. rewrite Hm. destruct rvalue; reflexivity.
  Qed.

  Lemma sig_rvalue t : sig_wf t = true -> involves_rvalue true t = mentions is_rvalue_ref t.
  Proof.
    destruct t; try discriminate. cbn [sig_wf]. intros H. apply andb_true_iff in H. destruct H as [Hr Hp].
    cbn [involves_rvalue mentions is_rvalue_ref orb]. rewrite (param_rvalue t Hr). f_equal.
    induction params as [|x l IH]; [reflexivity|]. cbn [forallb] in Hp. apply andb_true_iff in Hp. destruct Hp as [Hx Hl].
    cbn [existsb]. rewrite (param_rvalue x Hx), (IH Hl). reflexivity.
  Qed.

  (* the pinned predicate does not look through arrays *)
  Lemma involves_protected_pinned_refuted :
    (forall c, class_vis c = Protected) ->
    involves_protected class_vis false (Fn Simple [Ref false (Arr (Class 0))]) = false /\
    mentions (is_protected_class class_vis) (Fn Simple [Ref false (Arr (Class 0))]) = true.
  Proof. intros H. cbn. rewrite H. split; reflexivity. Qed.
End TypeLemmas.

Section GateTheorems.
  Variable min_vis : vis.
  Variable class_vis : nat -> vis.
  Variable ignored_name : nat -> bool.

  Ltac split_ands := repeat match goal with |- _ /\ _ => split end.

  Lemma local_iff s : is_local s = true <-> s = S_local.
  Proof. destruct s; cbn; split; intros H; try reflexivity; discriminate. Qed.

  (* global functions: exported iff the conjunction the property states *)
  Theorem scan_function_iff f : sig_wf (f_type f) = true ->
    scan_function min_vis class_vis ignored_name true f = true <-> spec_function min_vis class_vis ignored_name f.
  Proof.
    intros Hwf. unfold scan_function, spec_function, sig_ok.
    rewrite involves_protected_mentions, (sig_rvalue (f_type f) Hwf).
    destruct (f_template f), (c_file (f_file f)), (src (f_file f)), (ignorefile (f_file f)), (vis_le (f_vis f) min_vis), (f_static f), (f_deleted f),
      (mentions (is_protected_class class_vis) (f_type f)), (in_ignoreinvolved ignored_name (f_type f)), (mentions is_rvalue_ref (f_type f));
      cbn; split; intros H; try discriminate; try reflexivity; split_ands; try reflexivity;
      try (destruct H as (H1 & H2 & H3 & H4 & H5 & H6 & H7 & H8 & H9 & H10); discriminate).
  Qed.

  (* methods of a class being recorded, outside the two deliberate exceptions (destructor, static get_class_type) and the inherited-virtual shortcut *)
  Theorem define_method_iff f : sig_wf (f_type f) = true -> f_dtor f = false -> f_get_class_type f = false -> f_inherited_virtual f = false ->
    define_method min_vis class_vis ignored_name true f = true <-> spec_method min_vis class_vis ignored_name f.
  Proof.
    intros Hwf Hd Hg Hi. unfold define_method, spec_method, sig_ok.
    rewrite involves_protected_mentions, (sig_rvalue (f_type f) Hwf), Hd, Hg, Hi.
    destruct (f_template f), (f_deleted f), (vis_le (f_vis f) min_vis), (f_ignoremember f),
      (mentions (is_protected_class class_vis) (f_type f)), (in_ignoreinvolved ignored_name (f_type f)), (mentions is_rvalue_ref (f_type f));
      cbn; split; intros H; try discriminate; try reflexivity; split_ands; try reflexivity;
      try (destruct H as (H1 & H2 & H3 & H4 & H5 & H6 & H7); discriminate).
  Qed.

  (* nothing private, protected, deleted, or from a file that was not named is ever exported by these gates, except ... *)
  Theorem exported_function_safe f :
    scan_function min_vis class_vis ignored_name true f = true ->
    vis_le (f_vis f) min_vis = true /\ src (f_file f) = S_local /\ f_deleted f = false /\ ignorefile (f_file f) = false /\
    involves_protected class_vis true (f_type f) = false.
  Proof.
    unfold scan_function.
    destruct (f_template f), (c_file (f_file f)), (src (f_file f)), (ignorefile (f_file f)), (vis_le (f_vis f) min_vis), (f_static f), (f_deleted f),
      (involves_protected class_vis true (f_type f)); cbn; intros H; try discriminate; split_ands; reflexivity.
  Qed.

  Theorem exported_method_safe f : f_dtor f = false -> f_get_class_type f = false ->
    define_method min_vis class_vis ignored_name true f = true ->
    vis_le (f_vis f) min_vis = true /\ f_deleted f = false /\ involves_protected class_vis true (f_type f) = false.
  Proof.
    intros Hd Hg. unfold define_method. rewrite Hd, Hg.
    destruct (f_template f), (f_deleted f), (vis_le (f_vis f) min_vis), (involves_protected class_vis true (f_type f)); cbn; intros H; try discriminate; split_ands; reflexivity.
  Qed.

  (* ... the two deliberate exceptions: a public destructor and a public static get_class_type() are exported although not published *)
  Definition a_file := {| src := S_local; c_file := false; ignorefile := false |}.
  Definition a_method (dtor gct st : bool) := {| f_file := a_file; f_vis := Public; f_static := st; f_deleted := false; f_template := false; f_type := Fn Simple [];
       f_dtor := dtor; f_get_class_type := gct; f_ignoremember := false; f_inherited_virtual := false; f_first_decl_published := false |}.
  Theorem destructor_exception_refuted :
    define_method Published class_vis ignored_name true (a_method true false false) = true /\ vis_le Public Published = false.
  Proof. split; reflexivity. Qed.
  Theorem get_class_type_exception_refuted :
    define_method Published class_vis ignored_name true (a_method false true true) = true /\ vis_le Public Published = false.
  Proof. split; reflexivity. Qed.

  (* classes: a class whose own declaration is not published is still recorded when one of its members is *)
  Theorem scan_struct_iff k :
    scan_struct_type min_vis k = true <->
    (k_template k = false /\ c_file (k_file k) = false /\ src (k_file k) = S_local /\ ignorefile (k_file k) = false /\
     (vis_le (k_vis k) min_vis = true \/ exists v, In v (k_member_vis k) /\ vis_le v min_vis = true)).
  Proof.
    unfold scan_struct_type.
    destruct (k_template k), (c_file (k_file k)), (src (k_file k)), (ignorefile (k_file k)), (vis_le (k_vis k) min_vis) eqn:Ev; cbn;
      split; intros H; try discriminate; try reflexivity; split_ands; try reflexivity; try (left; reflexivity);
      try (destruct H as (H1 & H2 & H3 & H4 & H5); discriminate).
    - right. apply existsb_exists in H. exact H.
    - destruct H as (_ & _ & _ & _ & [H|H]); [discriminate|]. apply existsb_exists. exact H.
  Qed.

  Theorem scan_simple_iff s : scan_simple min_vis s = true <-> spec_simple min_vis s.
  Proof.
    unfold scan_simple, spec_simple.
    destruct (s_template s), (c_file (s_file s)), (src (s_file s)), (ignorefile (s_file s)), (vis_le (s_vis s) min_vis), (s_fn_like s); cbn;
      split; intros H; try discriminate; try reflexivity; split_ands; try reflexivity;
      try (destruct H as (H1 & H2 & H3 & H4 & H5 & H6); discriminate).
  Qed.
End GateTheorems.
