(* C06 — property theorems only. *)
From Coq Require Import List Bool.
From IV Require Import C06.Defs C06.Proofs C06.Syntax.
Import ListNotations.

(* For EVERY type built from pointers, references, rvalue references, const, arrays, functions and method pointers,
   nested to any depth: the declarator text the printers emit denotes, by [dcl.meaning], exactly that type. *)
Theorem c06_print_denotes : forall t, memptr_ok t = true -> denotes (pr t [] NName) = t.
Proof. exact print_denotes. Qed.
Print Assumptions c06_print_denotes.

(* the general invariant: whatever prefix and name have been accumulated *)
Theorem c06_print_invariant : forall t pre core, memptr_ok t = true -> denotes (pr t pre core) = meaning core (apply pre t).
Proof. exact pr_denotes. Qed.
Print Assumptions c06_print_invariant.

(* excluded shape: a pointer to DATA member loses its class scope (recorded finding, replayed on parse_file) *)
Theorem c06_data_member_pointer_refuted : denotes (pr (TMemPtr 0 (TBase 0)) [] NName) = TPtr (TBase 0).
Proof. exact data_member_pointer_refuted. Qed.
Print Assumptions c06_data_member_pointer_refuted.

(* the pinned array printer (before the repair) printed pointer-to-array as array-of-pointers *)
Theorem c06_old_array_printer_refuted : denotes (pr_old (TPtr (TArr (TBase 0) 3)) [] NName) = TArr (TPtr (TBase 0)) 3.
Proof. exact old_array_printer_refuted. Qed.
Print Assumptions c06_old_array_printer_refuted.

(* the printed declarator is possible C++ syntax (no parenthesised group opens with a cv-qualifier) for every type in which const never sits
   directly on an array or function type, i.e. every type that can be written without an alias *)
Theorem c06_printed_groups_ok : forall t, writable t = true -> groups_ok (snd (pr t [] NName)) = true.
Proof. exact printed_groups_ok. Qed.
Print Assumptions c06_printed_groups_ok.

(* const U * with U = T[2], reachable only through an alias or template parameter, is printed with a group that opens with const: a recorded finding *)
Theorem c06_const_array_group_refuted :
  let t := TPtr (TPtr (TConst (TArr (TBase 0) 2))) in
  writable t = false /\ groups_ok (snd (pr t [] NName)) = false /\ denotes (pr t [] NName) = t.
Proof. exact const_array_group_refuted. Qed.
Print Assumptions c06_const_array_group_refuted.
