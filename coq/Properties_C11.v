(* C11 — property theorems only. *)
From Coq Require Import ZArith List.
From IV Require Import Common.Int32 C12.Codec C12.Defs C11.Defs C11.Proofs.
From IV Require Import C11.Flags.
Import ListNotations.
Local Open Scope Z_scope.

(* The checker run on every real database decides referential closure exactly. *)
Theorem c11_closedb_sound : forall d, closedb d = true <-> closed d.
Proof. exact closedb_sound. Qed.
Print Assumptions c11_closedb_sound.

(* remap_indices keeps every cross reference valid: all index fields of all
   records go through the remapper (indices start at 1, 0 means "none"). *)
Theorem c11_remap_preserves_closed : forall first d,
  ~ In 0 (all_keys d) -> closed d -> closed (fst (remap first d)).
Proof. exact remap_preserves_closed. Qed.
Print Assumptions c11_remap_preserves_closed.

(* After remap(first) the keys are first, first+1, ... in the order wrappers,
   functions, types, manifests, elements, make_seqs, and next_index follows. *)
Theorem c11_remap_consecutive : forall first d, NoDup (all_keys d) ->
  all_keys (fst (remap first d)) = zseq first (length (all_keys d)) /\
  snd (remap first d) = first + Z.of_nat (length (all_keys d)).
Proof. exact remap_consecutive. Qed.
Print Assumptions c11_remap_consecutive.

(* In particular wrapper indices are the consecutive integers starting at first (= 1). *)
Theorem c11_wrappers_first : forall first d, NoDup (all_keys d) ->
  keys (d_wrappers (fst (remap first d))) = zseq first (length (d_wrappers d)).
Proof. exact wrappers_first. Qed.
Print Assumptions c11_wrappers_first.

Theorem c11_linksb_sound : forall d, linksb d = true <-> links_ok d.
Proof. exact linksb_sound. Qed.
Print Assumptions c11_linksb_sound.

Theorem c11_nodupb_sound : forall l, nodupb l = true <-> NoDup l.
Proof. exact nodupb_NoDup. Qed.
Print Assumptions c11_nodupb_sound.

(* a flag that announces a cross reference and the reference itself go together (has-getter/setter/has/clear/del/insert/getkey <-> the function
   index is not 0): the checker run on every real database decides exactly that, and remapping with a remapper that sends exactly 0 to 0 keeps it *)
Theorem c11_flagsb_sound : forall d, flagsb d = true -> flags_consistent d.
Proof. exact flagsb_sound. Qed.
Print Assumptions c11_flagsb_sound.

Theorem c11_flagsb_complete : forall d, flags_consistent d -> flagsb d = true.
Proof. exact flagsb_complete. Qed.
Print Assumptions c11_flagsb_complete.

Theorem c11_remap_keeps_element_flags : forall r e, (forall i, r i = 0 <-> i = 0) -> element_flags_consistent e -> element_flags_consistent (rm_element r e).
Proof. exact rm_element_flags. Qed.
Print Assumptions c11_remap_keeps_element_flags.
