(* C20 — property theorems only. *)
From Coq Require Import ZArith List Ascii.
From IV Require Import C20.Defs C20.Proofs.
Import ListNotations.

(* Positional accessors: for ANY position the answer is the neutral default or a stored entry;
   in range it is the entry at that position, out of range it is the default. *)
Theorem c20_accessor_total : forall (A : Type) (d : A) v n, at_pos d v n = d \/ In (at_pos d v n) v.
Proof. exact @at_pos_total. Qed.
Print Assumptions c20_accessor_total.

Theorem c20_accessor_out_of_range : forall (A : Type) (d : A) v n,
  (n < 0 \/ Z.of_nat (length v) <= n)%Z -> at_pos d v n = d.
Proof. exact @at_pos_out_of_range. Qed.
Print Assumptions c20_accessor_out_of_range.

(* each count equals the number of entries its accessor returns: positions 0..count-1 enumerate exactly the stored entries *)
Theorem c20_counts : forall (A : Type) (d : A) v, map (fun i => at_pos d v (Z.of_nat i)) (seq 0 (length v)) = v.
Proof. exact @at_pos_enumerates. Qed.
Print Assumptions c20_counts.

(* index -> record: any index gives the bogus record or the record stored under that index *)
Theorem c20_record_total : forall (A : Type) (bogus : A) m i, get_rec bogus m i = bogus \/ In (i, get_rec bogus m i) m.
Proof. exact @get_rec_total. Qed.
Print Assumptions c20_record_total.

(* by-name lookup: a stored name returns an entity bearing it (the entity when unique), an unknown name returns 0 *)
Theorem c20_lookup_exact : forall (entries : list (Z * bytes)) (n : bytes),
  (forall i, In (i, n) entries -> exists j, In (j, n) entries /\ lookup bytes bytes_eqb entries n = j) /\
  ((forall i, ~ In (i, n) entries) -> lookup bytes bytes_eqb entries n = 0%Z) /\
  (forall i, NoDup (map snd entries) -> In (i, n) entries -> lookup bytes bytes_eqb entries n = i).
Proof. exact (lookup_exact bytes bytes_eqb bytes_eqb_spec). Qed.
Print Assumptions c20_lookup_exact.

(* unique-name strings of ANY length and content are answered in bounded time *)
Theorem c20_unique_name_total : forall mods u, wrapper_by_unique_name mods u <> None.
Proof. exact unique_name_total. Qed.
Print Assumptions c20_unique_name_total.

(* ... and exactly, on a sorted table: present -> its offset, absent -> not found *)
Theorem c20_unique_name_exact : forall fuel (l : list (bytes * Z)) k, (length l < fuel)%nat -> sorted bytes lexcmp l ->
  (forall off, In (k, off) l -> bsearch bytes lexcmp fuel l k = Found off) /\
  ((forall off, ~ In (k, off) l) -> bsearch bytes lexcmp fuel l k = NotFound).
Proof. exact (bsearch_exact bytes lexcmp lexcmp_eq lexcmp_antisym). Qed.
Print Assumptions c20_unique_name_exact.

(* module search: terminates within end-begin steps and returns the module whose range holds the index *)
Theorem c20_module_search : forall fuel firsts b e f, (b < e)%nat -> (e - b <= fuel)%nat ->
  exists i, bsm fuel firsts b e f = Some i /\ (b <= i < e)%nat /\
    ((nth b firsts 0 <= f)%Z ->
     (forall j k, (j < k < length firsts)%nat -> (nth j firsts 0 < nth k firsts 0)%Z) -> (e <= length firsts)%nat ->
     (nth i firsts 0 <= f)%Z /\ ((S i < e)%nat -> (f < nth (S i) firsts 0)%Z)).
Proof. exact bsm_spec. Qed.
Print Assumptions c20_module_search.
