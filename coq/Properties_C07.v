(* C07 — property theorems only.  Statements use IV.C07.Defs; proofs are in IV.C07.Proofs. *)
From Coq Require Import ZArith List.
From IV Require Import Common.Int32 C07.Defs C07.Proofs.
Import ListNotations.
Local Open Scope Z_scope.

(* Whenever ISO C++ assigns the expression an int value (every evaluated
   intermediate in range), the evaluator reports exactly that value. *)
Theorem c07_eval_correct : forall r e v, cxx_eval r e = Some v -> impl_eval r e = RInt v.
Proof. exact eval_correct. Qed.
Print Assumptions c07_eval_correct.

(* A value reported while some identifiers are unknown is never wrong:
   whatever those identifiers turn out to be, C++ computes the same number. *)
Theorem c07_unevaluated_never_wrong : forall r e v, impl_eval r e = RInt v ->
  forall r' v', env_le r r' -> cxx_eval r' e = Some v' -> v' = v.
Proof. exact unevaluated_never_wrong. Qed.
Print Assumptions c07_unevaluated_never_wrong.

(* Enumerators (explicit initialisers referring to earlier enumerators,
   implicit increment): every value C++ defines is the value recorded. *)
Theorem c07_enum_correct : forall inits rc ri nc ni,
  env_le rc ri -> length rc = length ri -> agrees nc ni ->
  Forall2 agrees (enum_cxx rc inits nc) (enum_impl ri inits ni).
Proof. exact enum_correct. Qed.
Print Assumptions c07_enum_correct.

(* Reading the digit string of n in base b >= 2 gives n back (strtol's digit loop). *)
Theorem c07_number_roundtrip : forall b n fuel,
  2 <= b -> 0 <= n < b ^ Z.of_nat fuel -> digits_val b (show_digits fuel b n []) 0 = n.
Proof. exact number_roundtrip. Qed.
Print Assumptions c07_number_roundtrip.

(* The %left/%right table of the grammar orders the binary operators as ISO C++ does. *)
Theorem c07_prec_table : forall o, prec_impl o = prec_cxx o.
Proof. exact prec_table. Qed.
Print Assumptions c07_prec_table.
