(* C16 — library initialisation order of interrogate_module
   (write_python_table_native: dependency map, pass loop, cycle search, edge removal).  No proofs. *)
From Coq Require Import List Bool Arith.
Import ListNotations.

(* std::map<string, std::set<string>>: libraries are numbered in name order, keys ascending *)
Definition graph := list (nat * list nat).

Definition mem (x : nat) (l : list nat) : bool := existsb (Nat.eqb x) l.
Definition gkeys (g : graph) : list nat := map fst g.
Fixpoint gget (g : graph) (k : nat) : list nat :=
  match g with [] => [] | (k', d) :: r => if Nat.eqb k' k then d else gget r k end.
Definition has_key (g : graph) (k : nat) : bool := mem k (gkeys g).
(* replace the value of an existing key, or insert a new key at its place in the order *)
Fixpoint gset (g : graph) (k : nat) (v : list nat) : graph :=
  match g with
  | [] => [(k, v)]
  | (k', d) :: r => if Nat.eqb k' k then (k', v) :: r
                    else if Nat.ltb k k' then (k, v) :: (k', d) :: r
                    else (k', d) :: gset r k v
  end.

Definition is_nil {A} (l : list A) : bool := match l with [] => true | _ => false end.

(* one sweep of the `for (it = dependencies.begin(); ...)` loop *)
Fixpoint pass (ks : list nat) (g : graph) (libs : list nat) (added : bool) : graph * list nat * bool :=
  match ks with
  | [] => (g, libs, added)
  | k :: r =>
      let d := filter (fun x => negb (mem x libs)) (gget g k) in     (* every library already listed is erased from deps *)
      let g' := gset g k d in
      if is_nil d && negb (mem k libs) then pass r g' (libs ++ [k]) true
      else pass r g' libs added
  end.

(* cycle.erase(cycle.begin(), it2): the part of the path from the first occurrence of d on *)
Fixpoint from_first (d : nat) (path : list nat) : list nat :=
  match path with [] => [] | x :: r => if Nat.eqb x d then x :: r else from_first d r end.

(* find_dependency_cycle: depth-first search along the path vector; dependencies[x] creates a key for x *)
Fixpoint try_deps (rec : graph -> list nat -> option (list nat) * graph) (path ds : list nat) (g : graph)
  : option (list nat) * graph :=
  match ds with
  | [] => (None, g)
  | d :: r =>
      if mem d path then (Some (from_first d path ++ [d]), g)
      else match rec g (path ++ [d]) with
           | (Some c, g') => (Some c, g')
           | (None, g') => try_deps rec path r g'
           end
  end.
Definition touch (g : graph) (k : nat) : graph := if has_key g k then g else gset g k [].
Fixpoint find_cycle (fuel : nat) (g : graph) (path : list nat) : option (list nat) * graph :=
  match fuel with
  | O => (None, g)
  | S f =>
      let cur := last path 0 in
      let g1 := touch g cur in
      try_deps (find_cycle f) path (gget g1 cur) g1
  end.

Definition remove_edge (g : graph) (a b : nat) : graph :=
  gset g a (filter (fun x => negb (Nat.eqb x b)) (gget g a)).

(* the "Circular dependency" branch: for every library that still has dependencies, find a cycle and break its first edge *)
Fixpoint break_all (dfuel : nat) (ks : list nat) (g : graph) (removed : list (nat * nat)) : graph * list (nat * nat) :=
  match ks with
  | [] => (g, removed)
  | k :: r =>
      if is_nil (gget g k) then break_all dfuel r g removed
      else match find_cycle dfuel g [k] with
           | (None, g') => break_all dfuel r g' removed
           | (Some c, g') =>
               match c with
               | c0 :: c1 :: _ => break_all dfuel r (remove_edge g' c0 c1) ((c0, c1) :: removed)
               | _ => break_all dfuel r g' removed
               end
           end
  end.

(* the `while (libraries.size() < dependencies.size())` loop; None = fuel exhausted (never returned as an order) *)
Fixpoint order (fuel dfuel : nat) (g : graph) (libs : list nat) (removed : list (nat * nat))
  : option (list nat * graph * list (nat * nat)) :=
  match fuel with
  | O => None
  | S f =>
      if length (gkeys g) <=? length libs then Some (libs, g, removed) else
      let '(g1, libs1, added) := pass (gkeys g) g libs false in
      if added then order f dfuel g1 libs1 removed
      else let '(g2, removed2) := break_all dfuel (gkeys g1) g1 removed in
           order f dfuel g2 libs1 removed2
  end.

Definition run_order (g : graph) : option (list nat * graph * list (nat * nat)) :=
  let n := length g + length (flat_map snd g) in
  order (2 * n + 2 + length (flat_map snd g)) (n + 2) g [] [].

(* b is listed before a *)
Definition before (b a : nat) (l : list nat) : Prop := exists l1 l2, l = l1 ++ a :: l2 /\ In b l1.

(* a closed walk along current edges *)
Fixpoint is_path (g : graph) (p : list nat) : Prop :=
  match p with
  | [] => True
  | [x] => True
  | x :: ((y :: _) as r) => In y (gget g x) /\ is_path g r
  end.
Definition is_cycle (g : graph) (c : list nat) : Prop :=
  (2 <= length c) /\ is_path g c /\ hd 0 c = last c 0.
Definition acyclic (g : graph) : Prop := forall c, ~ is_cycle g c.
