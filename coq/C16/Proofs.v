From Coq Require Import List Bool Arith Lia.
From IV Require Import C16.Defs.
Import ListNotations.

(* ---------------- the map ---------------- *)
Lemma mem_In x l : mem x l = true <-> In x l.
Proof.
  unfold mem. rewrite existsb_exists. split.
  - intros (y & Hy & E). apply Nat.eqb_eq in E. now subst.
  - intros H. exists x. split; [assumption | apply Nat.eqb_refl].
Qed.
Lemma mem_false x l : mem x l = false <-> ~ In x l.
Proof. rewrite <- mem_In. destruct (mem x l); split; congruence. Qed.

Lemma gget_gset_same g k v : gget (gset g k v) k = v.
Proof.
  induction g as [|[k' d] r IH]; cbn [gget gset]; [now rewrite Nat.eqb_refl|].
  destruct (Nat.eqb k' k) eqn:E; cbn [gget]; [now rewrite E|].
  destruct (Nat.ltb k k') eqn:L; cbn [gget]; [now rewrite Nat.eqb_refl | now rewrite E].
Qed.
Lemma gget_gset_other g k v k' : k <> k' -> gget (gset g k v) k' = gget g k'.
Proof.
  intros Hne. induction g as [|[k0 d] r IH]; cbn [gget gset].
  - destruct (Nat.eqb_spec k k'); [contradiction | reflexivity].
  - destruct (Nat.eqb_spec k0 k) as [->|H0]; cbn [gget].
    + destruct (Nat.eqb_spec k k'); [contradiction | reflexivity].
    + destruct (Nat.ltb k k0); cbn [gget].
      * destruct (Nat.eqb_spec k k'); [contradiction | reflexivity].
      * destruct (Nat.eqb k0 k'); [reflexivity | exact IH].
Qed.
Lemma gkeys_gset g k v x : In x (gkeys (gset g k v)) <-> x = k \/ In x (gkeys g).
Proof.
  unfold gkeys. induction g as [|[k0 d] r IH]; cbn [gset map fst In]; [intuition|].
  destruct (Nat.eqb_spec k0 k) as [->|H0]; cbn [map fst In]; [intuition|].
  destruct (Nat.ltb k k0); cbn [map fst In]; [intuition|]. rewrite IH. intuition.
Qed.
Lemma gget_absent g k : ~ In k (gkeys g) -> gget g k = [].
Proof.
  unfold gkeys. induction g as [|[k0 d] r IH]; cbn [gget map fst In]; [reflexivity|]. intros H.
  destruct (Nat.eqb_spec k0 k); [subst; tauto | apply IH; tauto].
Qed.

Lemma touch_gget g k x : gget (touch g k) x = gget g x.
Proof.
  unfold touch, has_key. destruct (mem k (gkeys g)) eqn:E; [reflexivity|].
  apply mem_false in E. destruct (Nat.eq_dec k x) as [->|Hne].
  - rewrite gget_gset_same. now rewrite gget_absent.
  - now apply gget_gset_other.
Qed.
Lemma touch_keys g k x : In x (gkeys g) -> In x (gkeys (touch g k)).
Proof. unfold touch. destruct (has_key g k); [auto|]. intros H. apply gkeys_gset. now right. Qed.

(* ---------------- before ---------------- *)
Lemma before_app_r b a l k : before b a l -> before b a (l ++ [k]).
Proof. intros (l1 & l2 & -> & H). exists l1, (l2 ++ [k]). split; [now rewrite <- app_assoc | assumption]. Qed.
Lemma before_snoc b a l : In b l -> before b a (l ++ [a]).
Proof. intros H. exists l, []. auto. Qed.

(* ---------------- the invariant ---------------- *)
Record inv (g0 g : graph) (libs : list nat) (removed : list (nat * nat)) : Prop := {
  i_nodup : NoDup libs;
  i_libs : incl libs (gkeys g);
  i_keys : incl (gkeys g0) (gkeys g);
  i_edges : forall a b, In b (gget g0 a) -> In b (gget g a) \/ In b libs \/ In (a, b) removed;
  i_order : forall a, In a libs -> forall b, In b (gget g0 a) -> In (a, b) removed \/ before b a libs;
  i_sub : forall a b, In b (gget g a) -> In b (gget g0 a)
}.

Lemma inv_init g0 : inv g0 g0 [] [].
Proof.
  constructor.
  - constructor.
  - intros x [].
  - apply incl_refl.
  - intros a b H. now left.
  - intros a [].
  - auto.
Qed.

Lemma NoDup_snoc (l : list nat) k : NoDup l -> ~ In k l -> NoDup (l ++ [k]).
Proof.
  induction l as [|x r IH]; intros Hn Hk; cbn; [constructor; [intros [] | constructor]|].
  inversion Hn; subst. constructor.
  - intros Hin. apply in_app_or in Hin as [Hin|[->|[]]]; [contradiction | apply Hk; now left].
  - apply IH; [assumption | intros Hin; apply Hk; now right].
Qed.

Lemma filter_notin_nil (l libs : list nat) :
  filter (fun x => negb (mem x libs)) l = [] -> forall b, In b l -> In b libs.
Proof.
  intros H b Hb. destruct (mem b libs) eqn:E; [now apply mem_In|].
  assert (In b (filter (fun x => negb (mem x libs)) l)) by (apply filter_In; split; [assumption | now rewrite E]).
  rewrite H in H0. contradiction.
Qed.

Lemma pass_spec g0 rem : forall ks g libs added g' libs' added',
  pass ks g libs added = (g', libs', added') ->
  incl ks (gkeys g) -> inv g0 g libs rem ->
  inv g0 g' libs' rem /\ incl libs libs' /\ (forall x, In x (gkeys g) <-> In x (gkeys g')).
Proof.
  induction ks as [|k r IH]; intros g libs added g' libs' added' H Hks I.
  - cbn in H. inversion H; subst. split; [assumption|]. split; [apply incl_refl|]. intros x. tauto.
  - cbn [pass] in H.
    set (d := filter (fun x => negb (mem x libs)) (gget g k)) in *.
    assert (Hk : In k (gkeys g)) by (apply Hks; now left).
    assert (Hkeys : forall x, In x (gkeys g) <-> In x (gkeys (gset g k d))).
    { intros x. rewrite gkeys_gset. split; [auto|]. intros [->|]; auto. }
    assert (Hr : incl r (gkeys (gset g k d))) by (intros x Hx; apply Hkeys; apply Hks; now right).
    assert (I1 : inv g0 (gset g k d) libs rem).
    { destruct I as [N L K E O S]. constructor; auto.
      - intros x Hx. apply Hkeys. now apply L.
      - intros x Hx. apply Hkeys. now apply K.
      - intros a b Hb. destruct (Nat.eq_dec k a) as [->|Hne].
        + rewrite gget_gset_same. destruct (E a b Hb) as [H1|[H1|H1]]; auto.
          destruct (mem b libs) eqn:Eb; [right; left; now apply mem_In|].
          left. apply filter_In. split; [assumption | now rewrite Eb].
        + rewrite gget_gset_other by assumption. auto.
      - intros a b Hb. destruct (Nat.eq_dec k a) as [->|Hne].
        + rewrite gget_gset_same in Hb. apply filter_In in Hb as [Hb _]. auto.
        + rewrite gget_gset_other in Hb by assumption. auto. }
    destruct (is_nil d && negb (mem k libs)) eqn:Ec.
    + apply andb_true_iff in Ec as [Ed Em]. apply negb_true_iff in Em. apply mem_false in Em.
      assert (Hd : d = []) by (destruct d; [reflexivity | discriminate]).
      assert (I2 : inv g0 (gset g k d) (libs ++ [k]) rem).
      { destruct I1 as [N L K E O S]. constructor; auto.
        - apply NoDup_snoc; assumption.
        - intros x Hx. apply in_app_or in Hx as [Hx|[<-|[]]]; [now apply L | now apply Hkeys].
        - intros a b Hb. destruct (E a b Hb) as [H1|[H1|H1]]; auto. right. left. apply in_or_app. now left.
        - intros a Ha b Hb. apply in_app_or in Ha as [Ha|[<-|[]]].
          + destruct (O a Ha b Hb) as [H1|H1]; [now left | right; now apply before_app_r].
          + destruct (E k b Hb) as [H1|[H1|H1]]; [|right; now apply before_snoc | now left].
            rewrite gget_gset_same, Hd in H1. contradiction. }
      destruct (IH _ _ _ _ _ _ H Hr I2) as (I3 & Hincl & Hk3).
      split; [exact I3|]. split; [intros x Hx; apply Hincl; apply in_or_app; now left|].
      intros x; rewrite Hkeys; apply Hk3.
    + destruct (IH _ _ _ _ _ _ H Hr I1) as (I3 & Hincl & Hk3).
      split; [exact I3|]. split; [exact Hincl|]. intros x; rewrite Hkeys; apply Hk3.
Qed.

(* ---------------- cycle search ---------------- *)
Lemma is_path_app g p d : p <> [] -> is_path g p -> In d (gget g (last p 0)) -> is_path g (p ++ [d]).
Proof.
  induction p as [|x r IH]; intros Hne Hp Hd; [contradiction|].
  destruct r as [|y r'].
  - cbn in *. auto.
  - cbn [app is_path] in *. destruct Hp as [Hxy Hp]. split; [exact Hxy|].
    apply IH; [discriminate | exact Hp | exact Hd].
Qed.

Lemma from_first_spec d p : In d p -> exists pre r, p = pre ++ d :: r /\ from_first d p = d :: r.
Proof.
  induction p as [|x r IH]; intros H; [contradiction|]. cbn.
  destruct (Nat.eqb_spec x d) as [->|Hne].
  - exists [], r. auto.
  - destruct H as [->|H]; [contradiction|]. destruct (IH H) as (pre & r' & -> & E). exists (x :: pre), r'. auto.
Qed.

Lemma is_path_suffix g pre p : is_path g (pre ++ p) -> is_path g p.
Proof.
  induction pre as [|x r IH]; intros H; [exact H|]. apply IH.
  cbn [app] in H. destruct (r ++ p) as [|y t] eqn:E; [destruct r; destruct p; try discriminate; exact I|].
  cbn in H. tauto.
Qed.

Lemma last_app_cons {A} (pre : list A) d r dflt : last (pre ++ d :: r) dflt = last (d :: r) dflt.
Proof.
  induction pre as [|x t IH]; [reflexivity|]. cbn [app].
  destruct (t ++ d :: r) as [|a l] eqn:E; [destruct t; discriminate|].
  change (last (x :: a :: l) dflt) with (last (a :: l) dflt). exact IH.
Qed.

(* the graph only gains keys with empty dependency sets; what is returned is a closed walk along current edges *)
Definition rec_ok (rec : graph -> list nat -> option (list nat) * graph) : Prop :=
  forall g path r g', rec g path = (r, g') ->
    (forall x, gget g' x = gget g x) /\ (forall x, In x (gkeys g) -> In x (gkeys g')) /\
    (path <> [] -> is_path g path -> forall c, r = Some c -> is_cycle g c).

Lemma is_path_ext g g' p : (forall x, gget g' x = gget g x) -> is_path g p -> is_path g' p.
Proof.
  intros E. induction p as [|x r IH]; intros H; [exact I|]. destruct r as [|y t]; [exact I|].
  cbn in *. destruct H as [H1 H2]. split; [now rewrite E | now apply IH].
Qed.

Lemma try_deps_ok rec : rec_ok rec -> forall path ds g r g',
  try_deps rec path ds g = (r, g') ->
  (forall x, gget g' x = gget g x) /\ (forall x, In x (gkeys g) -> In x (gkeys g')) /\
  (path <> [] -> is_path g path -> (forall d, In d ds -> In d (gget g (last path 0))) -> forall c, r = Some c -> is_cycle g c).
Proof.
  intros Hrec path. induction ds as [|d t IH]; intros g r g' H; cbn in H.
  - inversion H; subst. split; [auto|]. split; [auto|]. intros _ _ _ c Hc. discriminate.
  - destruct (mem d path) eqn:Em.
    + inversion H; subst. split; [auto|]. split; [auto|]. intros Hne Hp Hds c Hc. inversion Hc; subst. clear Hc.
      apply mem_In in Em. destruct (from_first_spec d path Em) as (pre & rr & Epath & ->).
      assert (Hd : In d (gget g' (last path 0))) by (apply Hds; now left).
      unfold is_cycle. split; [cbn; rewrite app_length; cbn; lia|]. split.
      * change ((d :: rr) ++ [d]) with ((d :: rr) ++ [d]). apply is_path_app; [discriminate | | ].
        -- rewrite Epath in Hp. now apply is_path_suffix in Hp.
        -- rewrite Epath in Hd. now rewrite last_app_cons in Hd.
      * cbn [hd app]. symmetry. change (d :: rr ++ [d]) with ((d :: rr) ++ [d]). apply last_last.
    + destruct (rec g (path ++ [d])) as [[c|] g1] eqn:Er.
      * inversion H; subst. destruct (Hrec _ _ _ _ Er) as (E1 & K1 & C1). split; [auto|]. split; [auto|].
        intros Hne Hp Hds c0 Hc. inversion Hc; subst. apply (C1 ltac:(destruct path; discriminate)); [|reflexivity].
        apply is_path_app; auto. apply Hds. now left.
      * destruct (Hrec _ _ _ _ Er) as (E1 & K1 & C1). destruct (IH _ _ _ H) as (E2 & K2 & C2).
        split; [intros x; now rewrite E2, E1|]. split; [auto|].
        intros Hne Hp Hds c Hc.
        assert (Hcyc : is_cycle g1 c).
        { apply (C2 Hne); [now apply (is_path_ext g) | intros d0 Hd0; rewrite E1; apply Hds; now right | exact Hc]. }
        destruct Hcyc as (L & P & Hl). split; [exact L|]. split; [|exact Hl].
        apply (is_path_ext g1); [intros x; now rewrite E1 | exact P].
Qed.

Lemma find_cycle_ok fuel : rec_ok (find_cycle fuel).
Proof.
  induction fuel as [|f IH]; intros g path r g' H; cbn in H.
  - inversion H; subst. split; [auto|]. split; [auto|]. intros _ _ c Hc. discriminate.
  - destruct (try_deps_ok _ IH _ _ _ _ _ H) as (E & K & C).
    split; [intros x; now rewrite E, touch_gget|]. split; [intros x Hx; apply K; now apply touch_keys|].
    intros Hne Hp c Hc.
    assert (Hcyc : is_cycle (touch g (last path 0)) c).
    { apply (C Hne); [apply (is_path_ext g); [intros x; apply touch_gget | exact Hp] | auto | exact Hc]. }
    destruct Hcyc as (L & P & Hl). split; [exact L|]. split; [|exact Hl].
    apply (is_path_ext (touch g (last path 0))); [intros x; symmetry; apply touch_gget | exact P].
Qed.

Lemma cycle_sub g g0 c : (forall a b, In b (gget g a) -> In b (gget g0 a)) -> is_cycle g c -> is_cycle g0 c.
Proof.
  intros S (L & P & Hl). split; [exact L|]. split; [|exact Hl]. clear L Hl.
  induction c as [|x r IH]; [exact I|]. destruct r as [|y t]; [exact I|].
  cbn in *. destruct P as [P1 P2]. split; [now apply S | now apply IH].
Qed.

(* ---------------- breaking cycles ---------------- *)
Lemma inv_ext g0 g g' libs rem :
  (forall x, gget g' x = gget g x) -> (forall x, In x (gkeys g) -> In x (gkeys g')) ->
  inv g0 g libs rem -> inv g0 g' libs rem.
Proof.
  intros E K [N L Ks Ed O S]. constructor; auto.
  - intros x Hx. apply K. now apply L.
  - intros x Hx. apply K. now apply Ks.
  - intros a b Hb. rewrite E. auto.
  - intros a b Hb. rewrite E in Hb. auto.
Qed.

Lemma inv_remove g0 g libs rem a b : inv g0 g libs rem -> inv g0 (remove_edge g a b) libs ((a, b) :: rem).
Proof.
  intros [N L Ks Ed O S]. unfold remove_edge. constructor; auto.
  - intros x Hx. apply gkeys_gset. right. now apply L.
  - intros x Hx. apply gkeys_gset. right. now apply Ks.
  - intros a' b' Hb. destruct (Nat.eq_dec a a') as [->|Hne].
    + rewrite gget_gset_same. destruct (Ed a' b' Hb) as [H1|[H1|H1]]; auto.
      * destruct (Nat.eq_dec b' b) as [->|Hb']; [right; right; now left|].
        left. apply filter_In. split; [assumption|]. apply negb_true_iff. now apply Nat.eqb_neq.
      * right. right. now right.
    + rewrite gget_gset_other by assumption. destruct (Ed a' b' Hb) as [H1|[H1|H1]]; auto. right. right. now right.
  - intros a' Ha b' Hb. destruct (O a' Ha b' Hb) as [H1|H1]; [left; now right | now right].
  - intros a' b' Hb. destruct (Nat.eq_dec a a') as [->|Hne].
    + rewrite gget_gset_same in Hb. apply filter_In in Hb as [Hb _]. auto.
    + rewrite gget_gset_other in Hb by assumption. auto.
Qed.

Lemma break_all_spec g0 dfuel libs : forall ks g rem g' rem',
  break_all dfuel ks g rem = (g', rem') -> inv g0 g libs rem ->
  inv g0 g' libs rem' /\ (acyclic g0 -> rem' = rem).
Proof.
  induction ks as [|k r IH]; intros g rem g' rem' H I; cbn in H.
  - inversion H; subst. auto.
  - destruct (is_nil (gget g k)); [now apply IH in H|].
    destruct (find_cycle dfuel g [k]) as [[c|] g1] eqn:Ef.
    + destruct (find_cycle_ok dfuel _ _ _ _ Ef) as (E & K & C).
      assert (I1 : inv g0 g1 libs rem) by (apply (inv_ext g0 g); auto).
      assert (Hcyc : is_cycle g0 c).
      { apply (cycle_sub g); [apply (i_sub _ _ _ _ I) | apply C; [discriminate | exact Logic.I | reflexivity]]. }
      destruct c as [|c0 [|c1 t]].
      * destruct (IH _ _ _ _ H I1) as [I2 A]. split; [exact I2|]. intros Ha. exfalso. now apply (Ha []).
      * destruct (IH _ _ _ _ H I1) as [I2 A]. split; [exact I2|]. intros Ha. exfalso. now apply (Ha [c0]).
      * destruct (IH _ _ _ _ H (inv_remove _ _ _ _ c0 c1 I1)) as [I2 A]. split; [exact I2|].
        intros Ha. exfalso. now apply (Ha (c0 :: c1 :: t)).
    + destruct (find_cycle_ok dfuel _ _ _ _ Ef) as (E & K & _).
      apply (IH _ _ _ _ H). apply (inv_ext g0 g); auto.
Qed.

(* ---------------- the whole loop ---------------- *)
Theorem order_spec g0 dfuel : forall fuel g libs rem libs' g' rem',
  order fuel dfuel g libs rem = Some (libs', g', rem') -> inv g0 g libs rem ->
  inv g0 g' libs' rem' /\ length (gkeys g') <= length libs' /\ (acyclic g0 -> rem = [] -> rem' = []).
Proof.
  induction fuel as [|f IH]; intros g libs rem libs' g' rem' H I; [discriminate|].
  cbn [order] in H. destruct (length (gkeys g) <=? length libs) eqn:El.
  - inversion H; subst. apply Nat.leb_le in El. auto.
  - destruct (pass (gkeys g) g libs false) as [[g1 libs1] added] eqn:Ep.
    destruct (pass_spec g0 rem _ _ _ _ _ _ _ Ep (incl_refl _) I) as (I1 & _ & _).
    destruct added.
    + now apply (IH _ _ _ _ _ _ H).
    + destruct (break_all dfuel (gkeys g1) g1 rem) as [g2 rem2] eqn:Eb.
      destruct (break_all_spec g0 _ _ _ _ _ _ _ Eb I1) as [I2 A].
      destruct (IH _ _ _ _ _ _ H I2) as (I3 & L & A3). split; [exact I3|]. split; [exact L|].
      intros Ha Hr. apply A3; [exact Ha|]. rewrite (A Ha). exact Hr.
Qed.

(* each library exactly once *)
Theorem each_once g0 libs g rem : run_order g0 = Some (libs, g, rem) ->
  NoDup libs /\ (forall k, In k (gkeys g0) -> In k libs) /\ (forall k, In k libs <-> In k (gkeys g)).
Proof.
  intros H. unfold run_order in H.
  destruct (order_spec g0 _ _ _ _ _ _ _ _ H (inv_init g0)) as ([N L K E O S] & Len & _).
  assert (Hall : incl (gkeys g) libs) by (apply NoDup_length_incl; auto).
  split; [exact N|]. split; [intros k Hk; apply Hall; now apply K|].
  intros k. split; [apply L | apply Hall].
Qed.

(* every dependency that was not broken as part of a reported cycle is respected *)
Theorem topological g0 libs g rem : run_order g0 = Some (libs, g, rem) ->
  forall a b, In a (gkeys g0) -> In b (gget g0 a) -> In (a, b) rem \/ before b a libs.
Proof.
  intros H a b Ha Hb. destruct (each_once _ _ _ _ H) as (_ & Hall & _). unfold run_order in H.
  destruct (order_spec g0 _ _ _ _ _ _ _ _ H (inv_init g0)) as ([N L K E O S] & _ & _).
  apply O; auto.
Qed.

(* in an acyclic graph no dependency is ever broken: the order is a topological order *)
Theorem acyclic_topological g0 libs g rem : run_order g0 = Some (libs, g, rem) -> acyclic g0 ->
  rem = [] /\ forall a b, In a (gkeys g0) -> In b (gget g0 a) -> before b a libs.
Proof.
  intros H Ha. pose proof H as H'. unfold run_order in H'.
  destruct (order_spec g0 _ _ _ _ _ _ _ _ H' (inv_init g0)) as (_ & _ & A).
  assert (rem = []) by now apply A. split; [assumption|]. subst.
  intros a b Hk Hb. destruct (topological _ _ _ _ H a b Hk Hb) as [[]|]; assumption.
Qed.

(* every broken edge lies on a cycle of the original graph (so something is reported only for real cycles):
   kept as the contrapositive above; a concrete cyclic instance for non-vacuity *)
Example cyclic_example : run_order [(0, [1]); (1, [0]); (2, [0])] = Some ([0; 1; 2], [(0, []); (1, []); (2, [])], [(0, 1)]).
Proof. vm_compute. reflexivity. Qed.
Example acyclic_example : run_order [(0, [1; 2]); (1, [2]); (2, [])] = Some ([2; 1; 0], [(0, []); (1, []); (2, [])], []).
Proof. vm_compute. reflexivity. Qed.
