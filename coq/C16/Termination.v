(* C16 — the ordering loop of interrogate_module terminates on every dependency graph (keys in ascending order, as a std::map holds them):
   every turn of the `while` loop either lists a new library, or removes a dependency edge, or creates a map entry for a library that was
   only named as a dependency.  Potential: (nodes not listed) + (nodes without entry) + (edges). *)
From Coq Require Import List Bool Arith Lia.
Import ListNotations.
From IV Require Import C16.Defs C16.Proofs.

Fixpoint ascending (l : list nat) : Prop :=
  match l with [] => True | x :: r => (forall y, In y r -> x < y) /\ ascending r end.
Definition edges (g : graph) : nat := length (flat_map snd g).

(* ---------------- gset on an ascending map *)
Lemma gset_cons k' d r k v : gset ((k', d) :: r) k v =
  if Nat.eqb k' k then (k', v) :: r else if Nat.ltb k k' then (k, v) :: (k', d) :: r else (k', d) :: gset r k v.
Proof. reflexivity. Qed.
Lemma gget_cons k' d r k : gget ((k', d) :: r) k = if Nat.eqb k' k then d else gget r k.
Proof. reflexivity. Qed.

Lemma gset_keys_mem g : forall k v, ascending (gkeys g) -> In k (gkeys g) -> gkeys (gset g k v) = gkeys g.
Proof.
  induction g as [|[k' d] r IH]; intros k v Ha Hin; [contradiction|].
  rewrite gset_cons. unfold gkeys in *. cbn [map fst ascending In] in *. destruct Ha as [Hlt Ha].
  destruct (Nat.eqb k' k) eqn:E; [reflexivity|].
  apply Nat.eqb_neq in E. destruct Hin as [Hin|Hin]; [congruence|].
  specialize (Hlt k Hin). destruct (Nat.ltb k k') eqn:E2; [apply Nat.ltb_lt in E2; lia|].
  cbn [map fst]. f_equal. apply IH; assumption.
Qed.

Lemma gset_edges_mem g : forall k v, ascending (gkeys g) -> In k (gkeys g) -> edges (gset g k v) + length (gget g k) = edges g + length v.
Proof.
  unfold edges. induction g as [|[k' d] r IH]; intros k v Ha Hin; [contradiction|].
  rewrite gset_cons, gget_cons. unfold gkeys in *. cbn [map fst ascending In] in *. destruct Ha as [Hlt Ha].
  destruct (Nat.eqb k' k) eqn:E.
  - cbn [flat_map snd]. rewrite !app_length. lia.
  - apply Nat.eqb_neq in E. destruct Hin as [Hin|Hin]; [congruence|].
    specialize (Hlt k Hin). destruct (Nat.ltb k k') eqn:E2; [apply Nat.ltb_lt in E2; lia|].
    cbn [flat_map snd]. rewrite !app_length. specialize (IH k v Ha Hin). lia.
Qed.

Lemma gset_new g : forall k v, ascending (gkeys g) -> ~ In k (gkeys g) ->
  ascending (gkeys (gset g k v)) /\ length (gkeys (gset g k v)) = S (length (gkeys g)) /\ edges (gset g k v) = edges g + length v.
Proof.
  unfold edges. induction g as [|[k' d] r IH]; intros k v Ha Hn.
  - cbn. repeat split; auto; [intros y []|now rewrite app_nil_r].
  - rewrite gset_cons. unfold gkeys in *. cbn [map fst ascending In] in *. destruct Ha as [Hlt Ha].
    destruct (Nat.eqb k' k) eqn:E; [apply Nat.eqb_eq in E; subst; exfalso; apply Hn; now left|].
    apply Nat.eqb_neq in E. destruct (Nat.ltb k k') eqn:E2.
    + apply Nat.ltb_lt in E2. cbn [map fst ascending flat_map snd length]. repeat split; auto.
      * intros y [<-|Hy]; [exact E2|]. specialize (Hlt y Hy). lia.
      * rewrite !app_length. cbn [length]. lia.
    + apply Nat.ltb_ge in E2. assert (Hn' : ~ In k (map fst r)) by (intros H; apply Hn; now right).
      destruct (IH k v Ha Hn') as (A & B & C). cbn [map fst ascending flat_map snd length]. repeat split.
      * intros y Hy. apply (gkeys_gset r k v y) in Hy. destruct Hy as [->|Hy]; [lia|now apply Hlt].
      * exact A.
      * lia.
      * rewrite !app_length. lia.
Qed.

Lemma ascending_NoDup l : ascending l -> NoDup l.
Proof.
  induction l as [|x r IH]; intros H; [constructor|]. destruct H as [Hlt Ha]. constructor; [|now apply IH].
  intros Hin. specialize (Hlt x Hin). lia.
Qed.

(* ---------------- the universe of library names: entries and everything named as a dependency *)
Definition nodes (g : graph) : list nat := gkeys g ++ flat_map snd g.

Lemma gget_in_flat g k d : In d (gget g k) -> In d (flat_map snd g).
Proof.
  induction g as [|[k' ds] r IH]; cbn; [contradiction|].
  destruct (Nat.eqb k' k); intros H; apply in_or_app; [now left|right; now apply IH].
Qed.

(* what holds of the state throughout the loop *)
Record state_ok (U : list nat) (g : graph) (libs : list nat) : Prop := {
  s_asc : ascending (gkeys g);
  s_keys : incl (gkeys g) U;
  s_deps : forall k d, In d (gget g k) -> In d U;
  s_nodup : NoDup libs;
  s_libs : incl libs (gkeys g);
  s_done : forall k, In k libs -> gget g k = []          (* a listed library has no dependency left *)
}.

Lemma state_init g : ascending (gkeys g) -> state_ok (nodes g) g [].
Proof.
  intros H. constructor; auto.
  - intros x Hx. apply in_or_app. now left.
  - intros k d Hd. apply in_or_app. right. now apply (gget_in_flat g k).
  - constructor.
  - intros x [].
  - intros k [].
Qed.

Lemma gget_key g k d : In d (gget g k) -> In k (gkeys g).
Proof.
  intros H. destruct (in_dec Nat.eq_dec k (gkeys g)) as [Hin|Hn]; [exact Hin|]. rewrite (gget_absent g k Hn) in H. contradiction.
Qed.

Lemma filter_len {A} (f : A -> bool) l : length (filter f l) <= length l.
Proof. induction l as [|x r IH]; cbn; [lia|]. destruct (f x); cbn; lia. Qed.

(* ---------------- one sweep *)
Lemma pass_progress U : forall ks g libs added g' libs' added',
  pass ks g libs added = (g', libs', added') -> incl ks (gkeys g) -> state_ok U g libs ->
  state_ok U g' libs' /\ gkeys g' = gkeys g /\ edges g' <= edges g /\ length libs <= length libs' /\
  (added' = true -> added = true \/ length libs < length libs') /\
  (added' = false -> libs' = libs /\ added = false /\
      forall k, In k ks -> (~ In k libs -> gget g' k <> []) /\ (forall d, In d (gget g' k) -> ~ In d libs)) /\
  (forall k, ~ In k ks -> gget g' k = gget g k).
Proof.
  induction ks as [|k r IH]; intros g libs added g' libs' added' H Hks S.
  - cbn in H. inversion H; subst.
    split; [assumption|]. split; [reflexivity|]. split; [lia|]. split; [lia|]. split; [intros Ht; left; exact Ht|].
    split; [intros Hf; split; [reflexivity|]; split; [exact Hf|]; intros k []|]. intros k _. reflexivity.
  - cbn [pass] in H.
    set (d := filter (fun x => negb (mem x libs)) (gget g k)) in *.
    assert (Hk : In k (gkeys g)) by (apply Hks; now left).
    destruct S as [Sa Sk Sd Sn Sl Sz].
    assert (Kg : gkeys (gset g k d) = gkeys g) by (apply gset_keys_mem; assumption).
    assert (Eg : edges (gset g k d) <= edges g).
    { pose proof (gset_edges_mem g k d Sa Hk) as He. assert (length d <= length (gget g k)) by (unfold d; apply filter_len). lia. }
    assert (S1 : forall libs1, NoDup libs1 -> incl libs1 (gkeys g) -> (forall k0, In k0 libs1 -> k0 = k /\ d = [] \/ In k0 libs) ->
                 state_ok U (gset g k d) libs1).
    { intros libs1 N1 L1 Z1. constructor; rewrite ?Kg; auto.
      - intros k0 d0 Hd0. destruct (Nat.eq_dec k k0) as [->|Hne].
        + rewrite gget_gset_same in Hd0. apply filter_In in Hd0 as [Hd0 _]. now apply (Sd k0).
        + rewrite gget_gset_other in Hd0 by assumption. now apply (Sd k0).
      - intros k0 Hk0. destruct (Nat.eq_dec k k0) as [->|Hne].
        + rewrite gget_gset_same. destruct (Z1 k0 Hk0) as [[_ Hd]|Hl]; [exact Hd|]. unfold d. rewrite (Sz k0 Hl). reflexivity.
        + rewrite gget_gset_other by assumption. destruct (Z1 k0 Hk0) as [[He _]|Hl]; [congruence|]. now apply Sz. }
    assert (Hr : incl r (gkeys (gset g k d))) by (rewrite Kg; intros x Hx; apply Hks; now right).
    assert (Oth : forall g3, (forall k0, ~ In k0 r -> gget g3 k0 = gget (gset g k d) k0) -> forall k0, ~ In k0 (k :: r) -> gget g3 k0 = gget g k0).
    { intros g3 O3 k0 Hk0. rewrite O3 by (intros Hc; apply Hk0; now right). apply gget_gset_other. intros ->. apply Hk0. now left. }
    destruct (is_nil d && negb (mem k libs)) eqn:Ec.
    + apply andb_true_iff in Ec as [Ed Em]. apply negb_true_iff in Em. apply mem_false in Em.
      assert (S2 : state_ok U (gset g k d) (libs ++ [k])).
      { apply S1; [apply NoDup_snoc; assumption| |].
        - intros x Hx. apply in_app_or in Hx as [Hx|[<-|[]]]; [now apply Sl|exact Hk].
        - intros k0 Hk0. apply in_app_or in Hk0 as [Hk0|[<-|[]]]; [now right|left]. split; [reflexivity|]. destruct d; [reflexivity|discriminate]. }
      destruct (IH _ _ _ _ _ _ H Hr S2) as (S3 & K3 & E3 & L3 & A3 & B3 & O3).
      rewrite app_length in L3. cbn in L3.
      split; [exact S3|]. split; [congruence|]. split; [lia|]. split; [lia|]. split; [intros _; right; lia|].
      split; [intros Hf; destruct (B3 Hf) as (_ & Hc & _); discriminate|]. apply Oth. exact O3.
    + destruct (IH _ _ _ _ _ _ H Hr (S1 libs Sn Sl (fun k0 Hk0 => or_intror Hk0))) as (S3 & K3 & E3 & L3 & A3 & B3 & O3).
      split; [exact S3|]. split; [congruence|]. split; [lia|]. split; [lia|]. split; [exact A3|].
      split; [|apply Oth; exact O3].
      intros Hf. destruct (B3 Hf) as (Hl & Ha & Hall). split; [exact Hl|]. split; [exact Ha|].
      intros k0 Hk0. destruct Hk0 as [<-|Hk0]; [|apply Hall; exact Hk0].
      destruct (in_dec Nat.eq_dec k r) as [Hin|Hnin]; [apply Hall; exact Hin|].
      rewrite (O3 k Hnin), gget_gset_same. split.
      * intros Hnl Hd. apply andb_false_iff in Ec. destruct Ec as [Ec|Ec].
        -- fold d in Hd. rewrite Hd in Ec. discriminate.
        -- apply negb_false_iff in Ec. apply mem_In in Ec. contradiction.
      * intros d0 Hd0. unfold d in Hd0. apply filter_In in Hd0 as [_ Hd0]. apply negb_true_iff in Hd0. now apply mem_false in Hd0.
Qed.

(* ---------------- the cycle search only adds entries (for names in the universe) *)
Section Search.
  Variable U : list nat.
  Variable libs : list nat.

  Definition deps_in_U (g : graph) : Prop := forall k d, In d (gget g k) -> In d U.
  Definition grows (g g' : graph) : Prop :=
    ascending (gkeys g') /\ incl (gkeys g') U /\ length (gkeys g) <= length (gkeys g') /\ edges g' = edges g.

  Lemma grows_refl g : ascending (gkeys g) -> incl (gkeys g) U -> grows g g.
  Proof. intros A I. repeat split; auto. Qed.
  Lemma grows_trans g1 g2 g3 : grows g1 g2 -> grows g2 g3 -> grows g1 g3.
  Proof. intros (A1 & I1 & L1 & E1) (A2 & I2 & L2 & E2). repeat split; auto; lia. Qed.

  Lemma has_key_In g k : has_key g k = true <-> In k (gkeys g).
  Proof. unfold has_key. apply mem_In. Qed.

  Lemma touch_grows g k : ascending (gkeys g) -> incl (gkeys g) U -> In k U ->
    grows g (touch g k) /\ (~ In k (gkeys g) -> length (gkeys g) < length (gkeys (touch g k))).
  Proof.
    intros A I Hk. unfold touch. destruct (has_key g k) eqn:E.
    - split; [apply grows_refl; assumption|]. intros Hn. apply has_key_In in E. contradiction.
    - assert (Hn : ~ In k (gkeys g)) by (intros H; apply has_key_In in H; congruence).
      destruct (gset_new g k [] A Hn) as (A' & L' & E'). cbn [length] in E'. split.
      + repeat split; [exact A'| |lia|lia]. intros x Hx. apply gkeys_gset in Hx. destruct Hx as [->|Hx]; [exact Hk|now apply I].
      + intros _. lia.
  Qed.

  Definition rec_grows (rec : graph -> list nat -> option (list nat) * graph) : Prop :=
    forall g path r g', rec g path = (r, g') -> path <> [] -> incl path U ->
      ascending (gkeys g) -> incl (gkeys g) U -> deps_in_U g -> grows g g'.

  Lemma try_deps_grows rec : rec_ok rec -> rec_grows rec -> forall path ds g r g',
    try_deps rec path ds g = (r, g') -> path <> [] -> incl path U -> incl ds U ->
    ascending (gkeys g) -> incl (gkeys g) U -> deps_in_U g -> grows g g'.
  Proof.
    intros Hok Hg path. induction ds as [|d t IH]; intros g r g' H Hne Hp Hds A I D; cbn in H.
    - inversion H; subst. now apply grows_refl.
    - destruct (mem d path); [inversion H; subst; now apply grows_refl|].
      assert (Hp' : incl (path ++ [d]) U).
      { intros x Hx. apply in_app_or in Hx as [Hx|[<-|[]]]; [now apply Hp|apply Hds; now left]. }
      assert (Hne' : path ++ [d] <> []) by (destruct path; discriminate).
      destruct (rec g (path ++ [d])) as [[c|] g1] eqn:Er.
      + inversion H; subst. now apply (Hg _ _ _ _ Er).
      + pose proof (Hg _ _ _ _ Er Hne' Hp' A I D) as G1. destruct (Hok _ _ _ _ Er) as (E1 & _ & _).
        destruct G1 as (A1 & I1 & L1 & X1).
        assert (D1 : deps_in_U g1) by (intros k0 d0 Hd0; rewrite E1 in Hd0; now apply (D k0)).
        pose proof (IH _ _ _ H Hne Hp (fun x Hx => Hds x (or_intror Hx)) A1 I1 D1) as G2.
        apply (grows_trans g g1 g'); [repeat split; assumption|exact G2].
  Qed.

  Lemma last_in (p : list nat) : p <> [] -> In (last p 0) p.
  Proof.
    induction p as [|x r IH]; intros H; [congruence|]. destruct r as [|y t]; [now left|]. right. apply IH. discriminate.
  Qed.

  Lemma find_cycle_grows fuel : rec_grows (find_cycle fuel).
  Proof.
    induction fuel as [|f IH]; intros g path r g' H Hne Hp A I D; cbn in H.
    - inversion H; subst. now apply grows_refl.
    - assert (Hcur : In (last path 0) U) by (apply Hp; now apply last_in).
      destruct (touch_grows g (last path 0) A I Hcur) as [(A1 & I1 & L1 & X1) _].
      assert (D1 : deps_in_U (touch g (last path 0))) by (intros k0 d0 Hd0; rewrite touch_gget in Hd0; now apply (D k0)).
      pose proof (try_deps_grows _ (find_cycle_ok f) IH _ _ _ _ _ H Hne Hp) as G.
      apply (grows_trans g (touch g (last path 0)) g'); [repeat split; assumption|].
      apply G; auto. intros d Hd. now apply (D1 (last path 0)).
  Qed.

  (* ---- progress: when every unlisted entry still has dependencies and no dependency is listed, a search that reports no cycle has created an entry *)
  Definition live (g : graph) : Prop :=
    (forall x, In x (gkeys g) -> ~ In x libs -> gget g x <> []) /\ (forall x d, In d (gget g x) -> ~ In d libs).

  Lemma find_cycle_progress : forall fuel g path g',
    find_cycle fuel g path = (None, g') ->
    path <> [] -> NoDup path -> incl path U -> ~ In (last path 0) libs ->
    ascending (gkeys g) -> incl (gkeys g) U -> deps_in_U g -> live g ->
    length U < fuel + length path ->
    length (gkeys g) < length (gkeys g').
  Proof.
    induction fuel as [|f IH]; intros g path g' H Hne Hnd Hp Hcl A I D Lv Hf.
    - (* no fuel: the path would be longer than the universe *)
      exfalso. pose proof (NoDup_incl_length Hnd Hp). lia.
    - cbn [find_cycle] in H.
      set (cur := last path 0) in *.
      assert (Hcur : In cur U) by (apply Hp; now apply last_in).
      destruct (touch_grows g cur A I Hcur) as [(A1 & I1 & L1 & X1) Hnew].
      assert (D1 : deps_in_U (touch g cur)) by (intros k0 d0 Hd0; rewrite touch_gget in Hd0; now apply (D k0)).
      assert (Gt : forall ds, incl ds U -> grows (touch g cur) g').
      { intros ds' _. apply (try_deps_grows _ (find_cycle_ok f) (find_cycle_grows f) _ _ _ _ _ H Hne Hp); auto.
        intros d Hd. now apply (D1 cur). }
      destruct (in_dec Nat.eq_dec cur (gkeys g)) as [Hk|Hnk].
      2:{ (* cur had no entry: touching created one *)
          specialize (Hnew Hnk). destruct (Gt [] (fun x H => match H with end)) as (_ & _ & L2 & _). lia. }
      (* cur is an entry, not listed: it has a first dependency d *)
      assert (Et : touch g cur = g). { unfold touch. apply has_key_In in Hk. now rewrite Hk. }
      rewrite Et in *.
      destruct Lv as [Lv1 Lv2].
      destruct (gget g cur) as [|d t] eqn:Ed; [exfalso; now apply (Lv1 cur Hk Hcl)|].
      cbn [try_deps] in H.
      destruct (mem d path) eqn:Em; [discriminate|].
      apply mem_false in Em.
      assert (Hd_dep : In d (gget g cur)) by (rewrite Ed; now left).
      assert (HdU : In d U) by (apply (D cur); exact Hd_dep).
      assert (Hp' : incl (path ++ [d]) U).
      { intros x Hx. apply in_app_or in Hx as [Hx|[<-|[]]]; [now apply Hp|exact HdU]. }
      assert (Hne' : path ++ [d] <> []) by (destruct path; discriminate).
      destruct (find_cycle f g (path ++ [d])) as [[c|] g1] eqn:Er; [discriminate|].
      assert (Hlast : last (path ++ [d]) 0 = d) by apply last_last.
      assert (Hlt : length (gkeys g) < length (gkeys g1)).
      { apply (IH g (path ++ [d]) g1 Er Hne'); auto.
        - apply NoDup_snoc; assumption.
        - rewrite Hlast. apply (Lv2 cur). exact Hd_dep.
        - split; assumption.
        - rewrite app_length. cbn. lia. }
      (* the remaining dependencies can only add entries *)
      destruct (find_cycle_ok f _ _ _ _ Er) as (E1 & _ & _).
      destruct (find_cycle_grows f _ _ _ _ Er Hne' Hp' A I D) as (A2 & I2 & L2 & X2).
      assert (D2 : deps_in_U g1) by (intros k0 d0 Hd0; rewrite E1 in Hd0; now apply (D k0)).
      assert (G3 : grows g1 g').
      { apply (try_deps_grows _ (find_cycle_ok f) (find_cycle_grows f) path t g1 None g' H Hne Hp); auto.
        intros x Hx. apply (D cur). rewrite Ed. now right. }
      destruct G3 as (_ & _ & L3 & _). lia.
  Qed.
End Search.

(* ---------------- breaking cycles *)
Lemma filter_remove_lt (l : list nat) b : In b l -> length (filter (fun x => negb (Nat.eqb x b)) l) < length l.
Proof.
  induction l as [|x r IH]; intros H; [contradiction|]. cbn.
  destruct (Nat.eqb x b) eqn:E; cbn.
  - pose proof (filter_len (fun x => negb (Nat.eqb x b)) r). lia.
  - destruct H as [->|H]; [rewrite Nat.eqb_refl in E; discriminate|]. specialize (IH H). lia.
Qed.

Section Break.
  Variable U : list nat.
  Variable libs : list nat.

  Record gstate (g : graph) : Prop := {
    g_asc : ascending (gkeys g);
    g_keys : incl (gkeys g) U;
    g_deps : deps_in_U U g;
    g_libs : incl libs (gkeys g);
    g_done : forall k, In k libs -> gget g k = []
  }.

  Lemma gstate_ext g g' : gstate g -> (forall x, gget g' x = gget g x) -> grows U g g' -> (forall x, In x (gkeys g) -> In x (gkeys g')) -> gstate g'.
  Proof.
    intros [A K D L Z] E (A' & K' & _) M. constructor; auto.
    - intros k d Hd. rewrite E in Hd. now apply (D k).
    - intros x Hx. apply M. now apply L.
    - intros k Hk. rewrite E. now apply Z.
  Qed.

  Lemma remove_edge_state g a b : gstate g -> In b (gget g a) ->
    gstate (remove_edge g a b) /\ gkeys (remove_edge g a b) = gkeys g /\ edges (remove_edge g a b) < edges g.
  Proof.
    intros [A K D L Z] Hb. unfold remove_edge.
    assert (Ha : In a (gkeys g)) by now apply (gget_key g a b).
    pose proof (gset_keys_mem g a (filter (fun x => negb (Nat.eqb x b)) (gget g a)) A Ha) as Kg.
    pose proof (gset_edges_mem g a (filter (fun x => negb (Nat.eqb x b)) (gget g a)) A Ha) as Eg.
    pose proof (filter_remove_lt (gget g a) b Hb) as Hlt.
    split; [|split; [exact Kg|lia]].
    constructor; rewrite ?Kg; auto.
    - intros k d Hd. destruct (Nat.eq_dec a k) as [->|Hne].
      + rewrite gget_gset_same in Hd. apply filter_In in Hd as [Hd _]. now apply (D k).
      + rewrite gget_gset_other in Hd by assumption. now apply (D k).
    - intros k Hk. destruct (Nat.eq_dec a k) as [->|Hne].
      + rewrite gget_gset_same, (Z k Hk). reflexivity.
      + rewrite gget_gset_other by assumption. now apply Z.
  Qed.

  (* one library of the break_all loop: the state is kept, entries are never lost, edges never added;
     [strict] says whether an entry was created or an edge removed *)
  Lemma break_step dfuel g k : In k U -> gstate g -> gget g k <> [] ->
    forall r g1, find_cycle dfuel g [k] = (r, g1) ->
    let g2 := match r with Some (c0 :: c1 :: _) => remove_edge g1 c0 c1 | _ => g1 end in
    gstate g2 /\ length (gkeys g) <= length (gkeys g2) /\ edges g2 <= edges g /\
    (live libs g -> length U < dfuel + 1 -> edges g2 + length (gkeys g) < edges g + length (gkeys g2)).
  Proof.
    intros Hk S Hdeps r g1 Ef.
    destruct (find_cycle_ok dfuel _ _ _ _ Ef) as (E1 & M1 & C1).
    assert (Hp : incl [k] U) by (intros x [<-|[]]; exact Hk).
    pose proof (find_cycle_grows U dfuel _ _ _ _ Ef ltac:(discriminate) Hp (g_asc _ S) (g_keys _ S) (g_deps _ S)) as G1.
    pose proof (gstate_ext g g1 S E1 G1 M1) as S1.
    destruct G1 as (_ & _ & L1 & X1).
    destruct r as [c|].
    - assert (Hcyc : is_cycle g c) by (apply C1; [discriminate|exact I|reflexivity]).
      destruct c as [|c0 [|c1 t]]; cbn zeta.
      + destruct Hcyc as (Hl & _). cbn in Hl. lia.
      + destruct Hcyc as (Hl & _). cbn in Hl. lia.
      + destruct Hcyc as (_ & Hpth & _). cbn in Hpth. destruct Hpth as [Hedge _].
        rewrite <- E1 in Hedge.
        destruct (remove_edge_state g1 c0 c1 S1 Hedge) as (S2 & K2 & E2).
        split; [exact S2|]. rewrite K2. split; [lia|]. split; [lia|]. intros _ _. lia.
    - cbn zeta. split; [exact S1|]. split; [lia|]. split; [lia|].
      intros Lv Hf.
      assert (Hnl : ~ In k libs). { intros Hin. apply Hdeps. now apply (g_done _ S). }
      pose proof (find_cycle_progress U libs dfuel g [k] g1 Ef ltac:(discriminate) ltac:(constructor; [intros []|constructor]) Hp Hnl
                    (g_asc _ S) (g_keys _ S) (g_deps _ S) Lv ltac:(cbn; lia)) as Hlt.
      lia.
  Qed.

  Lemma is_nil_spec {A} (l : list A) : is_nil l = true <-> l = [].
  Proof. destruct l; cbn; split; intros H; try reflexivity; discriminate. Qed.

  Lemma break_all_unfold dfuel k r g rem :
    break_all dfuel (k :: r) g rem =
      if is_nil (gget g k) then break_all dfuel r g rem
      else let '(c, g1) := find_cycle dfuel g [k] in
           match c with
           | Some (c0 :: c1 :: _) => break_all dfuel r (remove_edge g1 c0 c1) ((c0, c1) :: rem)
           | _ => break_all dfuel r g1 rem
           end.
  Proof.
    cbn [break_all]. destruct (is_nil (gget g k)); [reflexivity|].
    destruct (find_cycle dfuel g [k]) as [[[|c0 [|c1 t]]|] g1]; reflexivity.
  Qed.

  Lemma break_all_mono dfuel : forall ks g rem g' rem',
    break_all dfuel ks g rem = (g', rem') -> incl ks U -> gstate g ->
    gstate g' /\ length (gkeys g) <= length (gkeys g') /\ edges g' <= edges g.
  Proof.
    induction ks as [|k r IH]; intros g rem g' rem' H Hks S.
    - cbn in H. inversion H; subst. auto.
    - rewrite break_all_unfold in H.
      assert (Hr : incl r U) by (intros x Hx; apply Hks; now right).
      destruct (is_nil (gget g k)) eqn:En; [now apply (IH _ _ _ _ H)|].
      assert (Hdeps : gget g k <> []) by (intros Hc; apply is_nil_spec in Hc; congruence).
      destruct (find_cycle dfuel g [k]) as [c g1] eqn:Ef.
      destruct (break_step dfuel g k (Hks k (or_introl eq_refl)) S Hdeps c g1 Ef) as (S2 & L2 & E2 & _).
      destruct c as [[|c0 [|c1 t]]|]; cbn zeta in S2, L2, E2;
        destruct (IH _ _ _ _ H Hr S2) as (S3 & L3 & E3); (split; [exact S3|split; lia]).
  Qed.

  (* if some library in ks still has dependencies while the graph is live, break_all strictly decreases the potential *)
  Lemma break_all_progress dfuel : length U < dfuel + 1 -> forall ks g rem g' rem',
    break_all dfuel ks g rem = (g', rem') -> incl ks U -> gstate g -> live libs g ->
    (exists k, In k ks /\ gget g k <> []) ->
    edges g' + length (gkeys g) < edges g + length (gkeys g').
  Proof.
    intros Hf. induction ks as [|k r IH]; intros g rem g' rem' H Hks S Lv [k0 [Hk0 Hd0]]; [contradiction|].
    rewrite break_all_unfold in H.
    assert (Hr : incl r U) by (intros x Hx; apply Hks; now right).
    destruct (is_nil (gget g k)) eqn:En.
    - apply is_nil_spec in En. apply (IH _ _ _ _ H Hr S Lv).
      destruct Hk0 as [<-|Hk0]; [congruence|]. exists k0. auto.
    - assert (Hdeps : gget g k <> []) by (intros Hc; apply is_nil_spec in Hc; congruence).
      destruct (find_cycle dfuel g [k]) as [c g1] eqn:Ef.
      destruct (break_step dfuel g k (Hks k (or_introl eq_refl)) S Hdeps c g1 Ef) as (S2 & L2 & E2 & P2).
      specialize (P2 Lv Hf).
      destruct c as [[|c0 [|c1 t]]|]; cbn zeta in S2, L2, E2, P2;
        destruct (break_all_mono dfuel _ _ _ _ _ H Hr S2) as (_ & L3 & E3); lia.
  Qed.
End Break.

(* ---------------- the whole loop *)
Lemma exists_unlisted (keys libs : list nat) : NoDup keys -> length libs < length keys -> exists k, In k keys /\ ~ In k libs.
Proof.
  intros Hn Hl.
  destruct (Forall_Exists_dec (fun x => In x libs) (fun x => in_dec Nat.eq_dec x libs) keys) as [Hall|Hex].
  - exfalso. rewrite Forall_forall in Hall. pose proof (NoDup_incl_length Hn Hall). lia.
  - apply Exists_exists in Hex. exact Hex.
Qed.

Theorem order_terminates U dfuel : length U < dfuel + 1 -> forall fuel g libs rem,
  state_ok U g libs -> 2 * length U + edges g < fuel + length libs + length (gkeys g) ->
  order fuel dfuel g libs rem <> None.
Proof.
  intros Hd. induction fuel as [|f IH]; intros g libs rem S Hpot.
  - (* the potential is never negative: |libs| <= |keys| <= |U| *)
    exfalso. destruct S as [Sa Sk Sd Sn Sl Sz].
    pose proof (NoDup_incl_length Sn Sl). pose proof (NoDup_incl_length (ascending_NoDup _ Sa) Sk). lia.
  - cbn [order]. destruct (length (gkeys g) <=? length libs) eqn:El; [discriminate|].
    apply Nat.leb_gt in El.
    destruct (pass (gkeys g) g libs false) as [[g1 libs1] added] eqn:Ep.
    destruct (pass_progress U _ _ _ _ _ _ _ Ep (incl_refl _) S) as (S1 & K1 & E1 & L1 & A1 & B1 & _).
    destruct added.
    + apply IH; [exact S1|]. destruct (A1 eq_refl) as [Hc|Hlt]; [discriminate|]. rewrite K1. lia.
    + destruct (B1 eq_refl) as (-> & _ & Hall).
      destruct (break_all dfuel (gkeys g1) g1 rem) as [g2 rem2] eqn:Eb.
      destruct S1 as [Sa Sk Sd Sn Sl Sz].
      assert (G1 : gstate U libs g1) by (constructor; assumption).
      assert (Lv : live libs g1).
      { split.
        - intros x Hx Hnl. rewrite K1 in Hx. now apply (Hall x Hx).
        - intros x d Hd0. assert (Hx : In x (gkeys g1)) by now apply (gget_key g1 x d). rewrite K1 in Hx. now apply (proj2 (Hall x Hx)). }
      destruct (exists_unlisted (gkeys g1) libs (ascending_NoDup _ Sa) ltac:(rewrite K1; exact El)) as [k [Hk Hnl]].
      assert (Hex : exists k, In k (gkeys g1) /\ gget g1 k <> []).
      { exists k. split; [exact Hk|]. rewrite K1 in Hk. now apply (Hall k Hk). }
      pose proof (break_all_progress U libs dfuel Hd _ _ _ _ _ Eb Sk G1 Lv Hex) as Hlt.
      destruct (break_all_mono U libs dfuel _ _ _ _ _ Eb Sk G1) as ([Ga Gk Gd Gl Gz] & _ & _).
      apply IH; [constructor; assumption|]. rewrite K1 in *. lia.
Qed.

(* the fuel that run_order supplies is enough *)
Theorem run_order_total g : ascending (gkeys g) -> run_order g <> None.
Proof.
  intros Ha. unfold run_order.
  set (n := length g + length (flat_map snd g)).
  assert (Hn : length (nodes g) = n). { unfold nodes, n, gkeys. rewrite app_length, map_length. reflexivity. }
  apply (order_terminates (nodes g)); [lia|apply state_init; exact Ha|].
  unfold edges. cbn [length]. unfold gkeys. rewrite map_length. lia.
Qed.
