From Coq Require Import ExtrOcamlBasic ExtrOcamlString.
From IV Require Import C16.Defs.
Extraction Language OCaml.
Extraction "ext.ml" run_order find_cycle.
