(* C13 — property theorems only. *)
From Coq Require Import ZArith List Bool.
From IV Require Import Common.Int32 C12.Codec C12.Defs C11.Defs C11.Proofs C13.Defs C13.Proofs.
From Coq Require String.
From IV Require Import C13.Generated C13.Lazy.
Import ListNotations.
Local Open Scope Z_scope.

(* merge_from carries every cross reference over to the merged indices: if both databases are referentially
   closed (the incoming one in its own fresh index range, indices distinct across kinds, 0 unused), so is the result —
   including references to types that were identified with an existing type of equal true name. *)
Theorem c13_merge_closed : forall a b,
  closed a -> closed b -> kinds_disjoint b -> ~ In 0 (all_keys b) -> closed (merge_from a b).
Proof. exact merge_closed. Qed.
Print Assumptions c13_merge_closed.

(* each file is renumbered into its own contiguous range starting at the current next_index *)
Theorem c13_ranges : forall next file, NoDup (all_keys file) ->
  all_keys (fst (remap next file)) = zseq next (length (all_keys file)) /\
  snd (remap next file) = next + Z.of_nat (length (all_keys file)).
Proof. exact load_one_range. Qed.
Print Assumptions c13_ranges.

(* identification of two definitions: global-ness is the union, "fully defined" is never lost ... *)
Theorem c13_merge_flags : forall this other,
  is_global (fst (merge_with this other)) = is_global this || is_global other /\
  is_fully (fst (merge_with this other)) = is_fully this || is_fully other.
Proof. exact merge_with_flags. Qed.
Print Assumptions c13_merge_flags.

(* ... and when exactly one side is fully defined, that definition is the one that stays, in either load order.
   (PARTIAL: when BOTH files fully define a global type, the later file wins — the owning library then depends on the
   load order; recorded finding, exhibited by the harness.) *)
Theorem c13_defined_wins_partial : forall this other,
  is_fully this = true -> is_fully other = false ->
  (exists fl, fst (merge_with this other) = set_flags this fl) /\ (exists fl, fst (merge_with other this) = set_flags this fl).
Proof. exact merge_with_defined_wins. Qed.
Print Assumptions c13_defined_wins_partial.

Import String.
(* lazy loading is invisible: request_module only queues a file and every function of the query interface first reads what is queued, so for
   EVERY history of load requests and queries each query is answered on everything requested before it.  The table [accessors] is generated
   from interrogateDatabase.{I,cxx} of the tree under test by translate/accessors.py on every run: an accessor of the query interface that
   stops calling check_latest() breaks the obligation query_api_flushes inside this proof. *)
Theorem c13_lazy_loading_invisible : forall (file answer : Type) (ask : String.string -> list file -> answer) ops s,
  uses_api file ops -> run file answer ask accessors s ops = spec file answer ask (loaded file s ++ pending file s) ops.
Proof. exact lazy_loading_invisible. Qed.
Print Assumptions c13_lazy_loading_invisible.

(* an accessor that does not flush answers from the old database: request a file, ask at once *)
Theorem c13_stale_without_flush_refuted :
  let tbl := [("lookup_type_by_true_name"%string, false)] in
  let ask := fun (_ : String.string) (fs : list nat) => List.length fs in
  run nat nat ask tbl {| loaded := []; pending := [] |} [Request nat 7%nat; Query nat "lookup_type_by_true_name"%string] = [None; Some 0%nat]
  /\ spec nat nat ask [] [Request nat 7%nat; Query nat "lookup_type_by_true_name"%string] = [None; Some 1%nat].
Proof. exact stale_without_flush. Qed.
Print Assumptions c13_stale_without_flush_refuted.
