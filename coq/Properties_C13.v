(* C13 — property theorems only. *)
From Coq Require Import ZArith List Bool.
From IV Require Import Common.Int32 C12.Codec C12.Defs C11.Defs C11.Proofs C13.Defs C13.Proofs.
Import ListNotations.
Local Open Scope Z_scope.

(* merge_from carries every cross reference over to the merged indices: if both databases are referentially
   closed (the incoming one in its own fresh index range, indices distinct across kinds, 0 unused), so is the result —
   including references to types that were identified with an existing type of equal true name. *)
Theorem c13_merge_closed : forall a b,
  closed a -> closed b -> kinds_disjoint b -> ~ In 0 (all_keys b) -> closed (merge_from a b).
Proof. exact merge_closed. Qed.
Print Assumptions c13_merge_closed.

(* each file is renumbered into its own contiguous range starting at the current next_index *)
Theorem c13_ranges : forall next file, NoDup (all_keys file) ->
  all_keys (fst (remap next file)) = zseq next (length (all_keys file)) /\
  snd (remap next file) = next + Z.of_nat (length (all_keys file)).
Proof. exact load_one_range. Qed.
Print Assumptions c13_ranges.

(* identification of two definitions: global-ness is the union, "fully defined" is never lost ... *)
Theorem c13_merge_flags : forall this other,
  is_global (fst (merge_with this other)) = is_global this || is_global other /\
  is_fully (fst (merge_with this other)) = is_fully this || is_fully other.
Proof. exact merge_with_flags. Qed.
Print Assumptions c13_merge_flags.

(* ... and when exactly one side is fully defined, that definition is the one that stays, in either load order.
   (PARTIAL: when BOTH files fully define a global type, the later file wins — the owning library then depends on the
   load order; recorded finding, exhibited by the harness.) *)
Theorem c13_defined_wins_partial : forall this other,
  is_fully this = true -> is_fully other = false ->
  (exists fl, fst (merge_with this other) = set_flags this fl) /\ (exists fl, fst (merge_with other this) = set_flags this fl).
Proof. exact merge_with_defined_wins. Qed.
Print Assumptions c13_defined_wins_partial.
