(* C15 — property theorems only; each is closed by `exact` of a lemma proved in C15/Proofs.v. *)
From Coq Require Import List NArith.
Import ListNotations.
From IV Require Import C15.Defs C15.Proofs.
From IV Require Import C08.Subst C08.SubstProofs.

(* #define NAME(params) expansion: for EVERY byte string the constructor returns a manifest: no std::out_of_range,
   no index beyond the terminator, the parameter loop always makes progress (fuel is never exhausted) *)
Theorem c15_manifest_ctor_total : forall args, exists m, manifest_ctor true args = Ok m.
Proof. exact manifest_ctor_total. Qed.
Print Assumptions c15_manifest_ctor_total.

Theorem c15_manifest_ctor_pinned_refuted : exists args, manifest_ctor false args = OutOfRange.
Proof. exact manifest_ctor_old_refuted. Qed.
Print Assumptions c15_manifest_ctor_pinned_refuted.

(* macro call inside #if: the argument scanner leaves p within the string for EVERY string, so expr.substr(p) cannot throw *)
Theorem c15_extract_args_in_bounds : forall expr p, p < length expr ->
  exists p' args, extract_args true expr p = Ok (p', args) /\ p' <= length expr.
Proof. exact extract_args_in_bounds. Qed.
Print Assumptions c15_extract_args_in_bounds.

Theorem c15_expand_call_total : forall expr p, p < length expr -> exists r, expand_call true expr p = Ok r.
Proof. exact expand_call_total. Qed.
Print Assumptions c15_expand_call_total.

Theorem c15_expand_call_pinned_refuted : exists expr p, p < length expr /\ expand_call false expr p = OutOfRange.
Proof. exact expand_call_old_refuted. Qed.
Print Assumptions c15_expand_call_pinned_refuted.

(* raw strings: total on every input; what is reported closed had the shape  delim ( body ) delim dquote *)
Theorem c15_scan_raw_total : forall inp, exists r, scan_raw true inp = Ok r.
Proof. exact scan_raw_total. Qed.
Print Assumptions c15_scan_raw_total.

Theorem c15_scan_raw_sound : forall inp body rest, scan_raw true inp = Ok (body, rest, true) ->
  exists d, inp = d ++ [c_lparen] ++ body ++ [c_rparen] ++ d ++ [c_dquote] ++ rest /\ forallb (fun c => negb (beq c c_lparen)) d = true.
Proof. exact scan_raw_sound. Qed.
Print Assumptions c15_scan_raw_sound.

Theorem c15_scan_raw_pinned_refuted : exists inp, scan_raw false inp = OutOfRange.
Proof. exact scan_raw_old_refuted. Qed.
Print Assumptions c15_scan_raw_pinned_refuted.

(* diagnostics: echoing the offending line never indexes outside it, and prints a prefix of it *)
Theorem c15_show_line_total : forall s, exists n, show_line_strip true s = Ok (firstn n s).
Proof. exact show_line_strip_total. Qed.
Print Assumptions c15_show_line_total.

Theorem c15_show_line_pinned_refuted : show_line_strip false [] = BadIndex /\ show_line_strip false [32; 32]%N = BadIndex.
Proof. exact show_line_strip_old_refuted. Qed.
Print Assumptions c15_show_line_pinned_refuted.

(* .N command files: every line splits without a fault *)
Theorem c15_command_line_total : forall line, exists r, command_line line = Ok r.
Proof. exact command_line_total. Qed.
Print Assumptions c15_command_line_total.

(* the replacement list of every #define is cut into nodes without a fault: every string, every parameter list, any nesting of __VA_OPT__ groups *)
Theorem c15_save_expansion_total : forall dfuel names variadic exp, length exp < dfuel ->
  exists l, save_expansion dfuel names variadic exp = Ok l.
Proof. exact save_expansion_total. Qed.
Print Assumptions c15_save_expansion_total.

(* the substitution step of a macro invocation (r_expand: parameters, #, ##, __VA_ARGS__, __VA_OPT__ groups, the GCC comma rule) never
   indexes the argument vector or a string out of range: every node list, every argument vector (also shorter than the parameter list),
   every variadic position, every argument expander *)
Theorem c15_r_expand_total : forall exp_arg fixed_opt args variadic nodes, exists r, r_expand exp_arg fixed_opt args variadic nodes = Ok r.
Proof. exact r_expand_total. Qed.
Print Assumptions c15_r_expand_total.
